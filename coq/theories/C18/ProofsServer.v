(* C18 — proofs about the server with several route groups (Server.v): whatever the list of
   groups, a route's handler runs only for credentials that are valid for the configuration
   of the group that registered the route, over every sequence of requests. *)
From Coq Require Import List ZArith Bool Lia.
From GZ Require Import C18.Model C18.Proofs C18.Server.
Import ListNotations.
Open Scope Z_scope.

Lemma route_eqb_eq : forall a b : route, route_eqb a b = true <-> a = b.
Proof.
  intros [a1 a2] [b1 b2]. unfold route_eqb. cbn [fst snd].
  rewrite andb_true_iff, !Z.eqb_eq. split; [intros [-> ->]; reflexivity|intros E; inversion E; auto].
Qed.

Lemma route_eqb_refl : forall a, route_eqb a a = true.
Proof. intros a. apply route_eqb_eq. reflexivity. Qed.

(* the group that registered route [r]: the first one, in AddRoutes order, that lists it *)
Definition has_route (r : route) (g : group) : bool := existsb (route_eqb r) (g_routes g).

Fixpoint owner (r : route) (gs : list group) : option group :=
  match gs with
  | [] => None
  | g :: gs' => if has_route r g then Some g else owner r gs'
  end.

Lemma owner_In : forall r gs g, owner r gs = Some g -> In g gs /\ In r (g_routes g).
Proof.
  intros r gs. induction gs as [|g0 gs IH]; intros g H; cbn in H; [discriminate|].
  destruct (has_route r g0) eqn:Hr.
  - inversion H; subst g0. split; [left; reflexivity|].
    unfold has_route in Hr. apply existsb_exists in Hr. destruct Hr as (x & Hx & E).
    apply route_eqb_eq in E. subst x. exact Hx.
  - destruct (IH g H) as [A B]. split; [right; exact A|exact B].
Qed.

Section SERVER.
  Variable ulfix : bool.
  Variable key_ok : Z -> bool.
  Variable mac : alg -> Z -> Z -> Z.
  Variable rsa_dec : Z -> Z -> option cs_secret.
  Variable cmac : Z -> content -> Z.
  Variable sha : list Z -> Z.
  Variable aes_ok : Z -> bool.
  Variable E D : Z -> list Z -> list Z.
  Variable b64enc : list Z -> list Z.
  Variable b64dec : list Z -> option (list Z).

  Notation sig_verifier := (sig_verifier key_ok).
  Notation bind := (bind key_ok).
  Notation serve := (serve ulfix mac rsa_dec cmac sha aes_ok E D b64enc b64dec).
  Notation serve_bound := (serve_bound ulfix mac rsa_dec cmac sha aes_ok E D b64enc b64dec).
  Notation serve_all := (serve_all ulfix mac rsa_dec cmac sha aes_ok E D b64enc b64dec).
  Notation after_jwt := (after_jwt ulfix rsa_dec cmac sha aes_ok E D b64enc b64dec).

  (* ---- binding ---------------------------------------------------------- *)

  Lemma find_bound_app : forall r tab x,
    find_bound r (tab ++ [x]) =
    match find_bound r tab with
    | Some b => Some b
    | None => if route_eqb r (b_route x) then Some x else None
    end.
  Proof.
    intros r tab x. induction tab as [|b tab IH]; cbn; [reflexivity|].
    destruct (route_eqb r (b_route b)); [reflexivity|exact IH].
  Qed.

  (* what a lookup finds after the routes of one group were bound (even partially) *)
  Lemma bgr_find : forall j v rs tab r b,
    find_bound r (fst (bind_group_routes j v rs tab)) = Some b ->
    find_bound r tab = Some b \/
    (find_bound r tab = None /\ existsb (route_eqb r) rs = true /\ b = mkBound r j v).
  Proof.
    intros j v rs. induction rs as [|r0 rs IH]; intros tab r b H; cbn in H.
    - left. exact H.
    - destruct (find_bound r0 tab) eqn:F0.
      + cbn in H. left. exact H.
      + apply IH in H. rewrite find_bound_app in H. cbn [b_route] in H.
        destruct H as [H|(H1 & H2 & H3)].
        * destruct (find_bound r tab) eqn:F; [left; exact H|].
          destruct (route_eqb r r0) eqn:Er; [|discriminate].
          right. split; [reflexivity|]. split; [cbn; rewrite Er; reflexivity|].
          apply route_eqb_eq in Er. subst r0. inversion H; reflexivity.
        * destruct (find_bound r tab) eqn:F; [discriminate|].
          right. split; [reflexivity|]. split; [cbn; rewrite H2; apply orb_true_r|exact H3].
  Qed.

  (* ... and exactly, when the whole group was bound *)
  Lemma bgr_find_exact : forall j v rs tab r,
    snd (bind_group_routes j v rs tab) = true ->
    find_bound r (fst (bind_group_routes j v rs tab)) =
    match find_bound r tab with
    | Some b => Some b
    | None => if existsb (route_eqb r) rs then Some (mkBound r j v) else None
    end.
  Proof.
    intros j v rs. induction rs as [|r0 rs IH]; intros tab r H; cbn in *.
    - destruct (find_bound r tab); reflexivity.
    - destruct (find_bound r0 tab) eqn:F0; [cbn in H; discriminate|].
      rewrite (IH _ r H), find_bound_app. cbn [b_route].
      destruct (find_bound r tab) eqn:F; [reflexivity|].
      destruct (route_eqb r r0) eqn:Er; cbn; [|reflexivity].
      apply route_eqb_eq in Er. subst r0. reflexivity.
  Qed.

  (* a bound route carries the options of the group that registered it, and that group's
     verifier was built without error *)
  Definition bound_of (r : route) (g : group) : bound := mkBound r (g_jwt g) (sig_verifier (g_sig g)).

  Lemma bind_find : forall gs tab r b,
    find_bound r (fst (bind gs tab)) = Some b ->
    find_bound r tab = Some b \/
    (find_bound r tab = None /\ exists g, owner r gs = Some g /\ b = bound_of r g /\ sig_verifier (g_sig g) <> VErr).
  Proof.
    intros gs. induction gs as [|g gs IH]; intros tab r b H; cbn [bind Server.bind] in H.
    - left. exact H.
    - destruct (sig_verifier (g_sig g)) eqn:V.
      + cbn in H. left. exact H.
      + destruct (bind_group_routes (g_jwt g) VNone (g_routes g) tab) as [tab' ok] eqn:B.
        assert (X : find_bound r tab' = Some b -> find_bound r tab = Some b \/
                    (find_bound r tab = None /\ has_route r g = true /\ b = bound_of r g)).
        { intros F. pose proof (bgr_find (g_jwt g) VNone (g_routes g) tab r b) as Y. rewrite B in Y.
          destruct (Y F) as [Y1|(Y1 & Y2 & Y3)]; [left; exact Y1|right].
          split; [exact Y1|]. split; [exact Y2|]. unfold bound_of. rewrite V. exact Y3. }
        destruct ok.
        * apply IH in H. destruct H as [H|(H1 & g' & O & Bg & NV)].
          -- destruct (X H) as [X1|(X1 & X2 & X3)]; [left; exact X1|right].
             split; [exact X1|]. exists g. cbn [owner]. rewrite X2. split; [reflexivity|]. split; [exact X3|].
             rewrite V. discriminate.
          -- pose proof (bgr_find_exact (g_jwt g) VNone (g_routes g) tab r) as Z0. rewrite B in Z0.
             specialize (Z0 eq_refl). cbn [fst] in Z0. rewrite H1 in Z0.
             destruct (find_bound r tab) eqn:F; [discriminate|].
             fold (has_route r g) in Z0. destruct (has_route r g) eqn:Hr; [discriminate|].
             right. split; [reflexivity|]. exists g'. cbn [owner]. rewrite Hr. auto.
        * cbn in H. destruct (X H) as [X1|(X1 & X2 & X3)]; [left; exact X1|right].
          split; [exact X1|]. exists g. cbn [owner]. rewrite X2. split; [reflexivity|]. split; [exact X3|].
          rewrite V. discriminate.
      + destruct (bind_group_routes (g_jwt g) (VSig s) (g_routes g) tab) as [tab' ok] eqn:B.
        assert (X : find_bound r tab' = Some b -> find_bound r tab = Some b \/
                    (find_bound r tab = None /\ has_route r g = true /\ b = bound_of r g)).
        { intros F. pose proof (bgr_find (g_jwt g) (VSig s) (g_routes g) tab r b) as Y. rewrite B in Y.
          destruct (Y F) as [Y1|(Y1 & Y2 & Y3)]; [left; exact Y1|right].
          split; [exact Y1|]. split; [exact Y2|]. unfold bound_of. rewrite V. exact Y3. }
        destruct ok.
        * apply IH in H. destruct H as [H|(H1 & g' & O & Bg & NV)].
          -- destruct (X H) as [X1|(X1 & X2 & X3)]; [left; exact X1|right].
             split; [exact X1|]. exists g. cbn [owner]. rewrite X2. split; [reflexivity|]. split; [exact X3|].
             rewrite V. discriminate.
          -- pose proof (bgr_find_exact (g_jwt g) (VSig s) (g_routes g) tab r) as Z0. rewrite B in Z0.
             specialize (Z0 eq_refl). cbn [fst] in Z0. rewrite H1 in Z0.
             destruct (find_bound r tab) eqn:F; [discriminate|].
             fold (has_route r g) in Z0. destruct (has_route r g) eqn:Hr; [discriminate|].
             right. split; [reflexivity|]. exists g'. cbn [owner]. rewrite Hr. auto.
        * cbn in H. destruct (X H) as [X1|(X1 & X2 & X3)]; [left; exact X1|right].
          split; [exact X1|]. exists g. cbn [owner]. rewrite X2. split; [reflexivity|]. split; [exact X3|].
          rewrite V. discriminate.
  Qed.

  (* when Start got past the binding, the router holds exactly: every route of every group,
     wrapped by its first registrant's options *)
  Lemma bind_find_exact : forall gs tab r,
    snd (bind gs tab) = true ->
    find_bound r (fst (bind gs tab)) =
    match find_bound r tab with
    | Some b => Some b
    | None => match owner r gs with Some g => Some (bound_of r g) | None => None end
    end.
  Proof.
    intros gs. induction gs as [|g gs IH]; intros tab r H; cbn [bind Server.bind owner] in *.
    - cbn [fst]. destruct (find_bound r tab); reflexivity.
    - destruct (sig_verifier (g_sig g)) eqn:V; [cbn in H; discriminate| |].
      + destruct (bind_group_routes (g_jwt g) VNone (g_routes g) tab) as [tab' ok] eqn:B.
        destruct ok; [|cbn in H; discriminate].
        rewrite (IH _ r H).
        pose proof (bgr_find_exact (g_jwt g) VNone (g_routes g) tab r) as Z0. rewrite B in Z0.
        cbn [fst snd] in Z0. rewrite (Z0 eq_refl). fold (has_route r g).
        destruct (find_bound r tab); [reflexivity|].
        destruct (has_route r g); [unfold bound_of; rewrite V; reflexivity|reflexivity].
      + destruct (bind_group_routes (g_jwt g) (VSig s) (g_routes g) tab) as [tab' ok] eqn:B.
        destruct ok; [|cbn in H; discriminate].
        rewrite (IH _ r H).
        pose proof (bgr_find_exact (g_jwt g) (VSig s) (g_routes g) tab r) as Z0. rewrite B in Z0.
        cbn [fst snd] in Z0. rewrite (Z0 eq_refl). fold (has_route r g).
        destruct (find_bound r tab); [reflexivity|].
        destruct (has_route r g); [unfold bound_of; rewrite V; reflexivity|reflexivity].
  Qed.

  (* ---- one request ------------------------------------------------------ *)

  (* the credentials of request [q] are valid FOR GROUP [g]: its own secrets, its own keys,
     its own strictness and tolerance *)
  Definition ValidFor (g : group) (q : sreq) : Prop :=
    (forall jc, g_jwt g = Some jc -> Accepts mac jc (q_jnow q) (q_cred q)) /\
    (forall sc, g_sig g = Some sc -> sg_strict sc = true -> checked (r_method (q_cs q)) = true ->
       sg_keys sc <> [] /\ (forall fk, In fk (sg_keys sc) -> key_ok (snd fk) = true) /\
       SignedRequest rsa_dec cmac sha (sg_keys sc) (sg_tol sc) (q_now q) (q_cs q) (path_query (q_cs q))).

  Lemma verifier_strict : forall sc,
    sg_strict sc = true -> sig_verifier (Some sc) <> VErr ->
    sig_verifier (Some sc) = VSig sc /\ sg_keys sc <> [] /\ (forall fk, In fk (sg_keys sc) -> key_ok (snd fk) = true).
  Proof.
    intros sc S NV. unfold Server.sig_verifier in *. rewrite S in *.
    destruct (sg_keys sc) as [|k ks] eqn:K; [congruence|].
    destruct (forallb (fun fk => key_ok (snd fk)) (k :: ks)) eqn:F; [|congruence].
    split; [reflexivity|]. split; [discriminate|].
    intros fk I. rewrite forallb_forall in F. apply F. exact I.
  Qed.

  Lemma serve_bound_ran : forall limit g r st q st' o,
    sig_verifier (g_sig g) <> VErr ->
    serve_bound limit (bound_of r g) st q = (st', o) ->
    o_ran (s_out o) = true ->
    s_route o = Some r /\ ValidFor g q.
  Proof.
    intros limit g r st q st' o NV H Ran. unfold Server.serve_bound, bound_of in H. cbn [b_jwt b_route] in H.
    assert (A : forall o', o' = after_jwt limit (bound_of r g) q -> o_ran o' = true ->
                forall sc, g_sig g = Some sc -> sg_strict sc = true -> checked (r_method (q_cs q)) = true ->
                sg_keys sc <> [] /\ (forall fk, In fk (sg_keys sc) -> key_ok (snd fk) = true) /\
                SignedRequest rsa_dec cmac sha (sg_keys sc) (sg_tol sc) (q_now q) (q_cs q) (path_query (q_cs q))).
    { intros o' Eo R sc Gs St Ck. rewrite Gs in NV.
      destruct (verifier_strict sc St NV) as (V & K1 & K2).
      split; [exact K1|]. split; [exact K2|].
      unfold Server.after_jwt, bound_of in Eo. cbn [b_ver] in Eo. rewrite Gs, V in Eo. rewrite St in Eo.
      subst o'. eapply strict_ran_signed; eauto. }
    destruct (g_jwt g) as [jc|] eqn:J.
    - destruct (authorize mac (st_get r st) jc (q_jnow q) (q_cred q)) as [h' jr] eqn:Au.
      destruct (jran jr) eqn:JR.
      + inversion H; subst st' o. cbn [s_out s_route] in *.
        split; [unfold tag_route; fold (bound_of r g); rewrite Ran; reflexivity|].
        split.
        * intros jc' Ej. rewrite J in Ej. injection Ej as <-.
          apply (authorize_ran mac (st_get r st)). rewrite Au. exact JR.
        * apply (A _ eq_refl Ran).
      + inversion H; subst st' o. cbn in Ran. discriminate.
    - inversion H; subst st' o. cbn [s_out s_route] in *.
      split; [unfold tag_route; fold (bound_of r g); rewrite Ran; reflexivity|].
      split; [intros jc' Ej; rewrite J in Ej; discriminate|apply (A _ eq_refl Ran)].
  Qed.

  (* THE GATE, PER GROUP.  For every list of groups (any number, any configurations, bound
     completely or not), every state of the per-route hit counters and every request: if a
     handler ran, it is the handler of the requested route, that route was registered by
     group [g] (the first that lists it), and the credentials are valid for g's OWN
     configuration — other groups' secrets and keys are irrelevant. *)
  Theorem serve_gate : forall limit gs st q st' o,
    serve limit (fst (bind gs [])) st q = (st', o) ->
    o_ran (s_out o) = true ->
    exists g, owner (q_route q) gs = Some g /\ s_route o = Some (q_route q) /\ ValidFor g q.
  Proof.
    intros limit gs st q st' o H Ran. unfold Server.serve in H.
    destruct (find_bound (q_route q) (fst (bind gs []))) as [b|] eqn:F.
    - apply bind_find in F. destruct F as [F|(_ & g & O & Bg & NV)]; [cbn in F; discriminate|].
      subst b. exists g. split; [exact O|]. eapply serve_bound_ran; eauto.
    - inversion H; subst st' o. cbn in Ran. discriminate.
  Qed.

  (* the converse for the JWT part: a route of a group with the JWT option answers a request
     whose token is not valid for THAT group's secrets with 401 and runs nothing *)
  Theorem serve_jwt_rejects : forall limit gs st q st' o g jc,
    snd (bind gs []) = true ->
    owner (q_route q) gs = Some g -> g_jwt g = Some jc ->
    ~ Accepts mac jc (q_jnow q) (q_cred q) ->
    serve limit (fst (bind gs [])) st q = (st', o) ->
    s_out o = mkHout false 401 [] [] false /\ s_route o = None.
  Proof.
    intros limit gs st q st' o g jc Ok O J NA H. unfold Server.serve in H.
    rewrite (bind_find_exact gs [] (q_route q) Ok) in H. cbn [find_bound] in H. rewrite O in H.
    unfold Server.serve_bound, bound_of in H. cbn [b_jwt b_route] in H. rewrite J in H.
    destruct (authorize mac (st_get (q_route q) st) jc (q_jnow q) (q_cred q)) as [h' jr] eqn:Au.
    destruct (jran jr) eqn:JR.
    - exfalso. apply NA. apply (authorize_ran mac (st_get (q_route q) st)). rewrite Au. exact JR.
    - inversion H; subst. split; reflexivity.
  Qed.

  (* ---- sequences of requests on one server ------------------------------ *)

  Definition GateOk (gs : list group) (q : sreq) (o : sout) : Prop :=
    o_ran (s_out o) = true ->
    exists g, owner (q_route q) gs = Some g /\ s_route o = Some (q_route q) /\ ValidFor g q.

  Theorem serve_all_gate : forall limit gs qs st,
    Forall2 (GateOk gs) qs (serve_all limit (fst (bind gs [])) st qs).
  Proof.
    intros limit gs qs. induction qs as [|q qs IH]; intros st; cbn [Server.serve_all].
    - constructor.
    - destruct (serve limit (fst (bind gs [])) st q) as [st' o] eqn:S.
      constructor; [|apply IH].
      intros Ran. eapply serve_gate; eauto.
  Qed.

  (* ---- concurrent requests ---------------------------------------------- *)

  (* The only state the gates keep between requests is the per-route hit counters, and no answer
     depends on them: a request gets the same output and runs the same route from EVERY state.
     So whatever the order in which concurrent requests pass the gates, each gets the answer it
     would get alone on a fresh server. *)
  Lemma serve_state_independent : forall limit tab st st' q,
    s_out (snd (serve limit tab st q)) = s_out (snd (serve limit tab st' q)) /\
    s_route (snd (serve limit tab st q)) = s_route (snd (serve limit tab st' q)).
  Proof.
    intros limit tab st st' q. unfold Server.serve.
    destruct (find_bound (q_route q) tab) as [b|]; [|split; reflexivity].
    unfold Server.serve_bound. destruct (b_jwt b) as [jc|]; [|split; reflexivity].
    pose proof (authorize_result_history_irrelevant mac false false (st_get (b_route b) st) (st_get (b_route b) st')
                  jc (q_jnow q) (q_cred q)) as A.
    fold (authorize mac) in A.
    destruct (authorize mac (st_get (b_route b) st) jc (q_jnow q) (q_cred q)) as [h1 r1].
    destruct (authorize mac (st_get (b_route b) st') jc (q_jnow q) (q_cred q)) as [h2 r2].
    cbn [snd] in A. subst r2. destruct (jran r1); split; reflexivity.
  Qed.

  Theorem any_order_same_answers : forall limit tab qs st,
    map (fun o => (s_out o, s_route o)) (serve_all limit tab st qs) =
    map (fun q => (s_out (snd (serve limit tab [] q)), s_route (snd (serve limit tab [] q)))) qs.
  Proof.
    intros limit tab qs. induction qs as [|q qs IH]; intros st; cbn [Server.serve_all map].
    - reflexivity.
    - destruct (serve limit tab st q) as [st1 o] eqn:S.
      cbn [map]. rewrite IH.
      destruct (serve_state_independent limit tab st [] q) as [A B]. rewrite S in A, B. cbn [snd] in A, B.
      rewrite A, B. reflexivity.
  Qed.

  (* ---- isolation between groups ----------------------------------------- *)

  (* What a request to a route gets depends only on the options of the group that registered
     the route: replace, add, remove or reorder the OTHER groups (as long as the server still
     starts) and nothing changes, from the same hit-counter state. *)
  Theorem group_isolation : forall limit gs1 gs2 st q g1 g2,
    snd (bind gs1 []) = true -> snd (bind gs2 []) = true ->
    owner (q_route q) gs1 = Some g1 -> owner (q_route q) gs2 = Some g2 ->
    g_jwt g1 = g_jwt g2 -> g_sig g1 = g_sig g2 ->
    serve limit (fst (bind gs1 [])) st q = serve limit (fst (bind gs2 [])) st q.
  Proof.
    intros limit gs1 gs2 st q g1 g2 B1 B2 O1 O2 J S. unfold Server.serve.
    rewrite (bind_find_exact gs1 [] (q_route q) B1), (bind_find_exact gs2 [] (q_route q) B2).
    cbn [find_bound]. rewrite O1, O2. unfold bound_of. rewrite J, S. reflexivity.
  Qed.
End SERVER.
