(* C18 — property theorems only.  Every theorem is closed by [exact] of a lemma proved in
   Proofs.v / ProofsCrypt.v (or by evaluating a concrete witness) and followed by
   [Print Assumptions].  All cryptography is universally quantified: [mac], [rsa_dec],
   [cmac], [sha], [E]/[D], base64 are arbitrary functions, constrained only by the
   hypotheses written in each statement. *)
From Coq Require Import List ZArith Bool Lia.
From GZ Require Import C18.Model C18.Proofs C18.ProofsCrypt C18.Server C18.ProofsServer C18.ProofsMethod.
Import ListNotations.
Open Scope Z_scope.

(* ======================= JWT authorize middleware ======================== *)

(* The handler runs iff the request carries a well-formed token whose algorithm is one of
   HS256/384/512, whose signature is the MAC of its signing input under the current or the
   previous secret, and whose exp/iat/nbf claims hold now — from every state [h] of the
   per-secret hit counters. *)
Theorem handler_runs_only_if_valid : forall mac h c now cr,
  jran (snd (authorize mac h c now cr)) = true <->
  exists t, cr = CToken t /\
            is_hs (talg t) = true /\
            (exists s, In s (secrets c) /\ tsig t = Some (mac (talg t) s (tinput t))) /\
            TimeValid now t.
Proof. exact authorize_ran. Qed.
Print Assumptions handler_runs_only_if_valid.

(* Every other request gets exactly the 401 answer, the handler is not called and nothing
   is put in the context; on success the handler's answer goes out and the context holds
   the delivered claims. *)
Theorem rejected_gets_401_handler_not_called : forall mac h c now cr,
  let r := snd (authorize mac h c now cr) in
  (jran r = false -> r = mkJres false 401 []) /\
  (forall t, cr = CToken t -> jran r = true -> jstatus r = 200 /\ jctx r = deliver t).
Proof. exact authorize_result. Qed.
Print Assumptions rejected_gets_401_handler_not_called.

(* The same for every sequence of requests through one middleware instance (the hit
   counters evolve; they only choose which secret is tried first). *)
Theorem gate_holds_over_histories : forall mac c reqs h,
  Forall2 (fun rq r =>
             (jran r = true <-> Accepts mac c (fst rq) (snd rq)) /\
             (jran r = false -> r = unauthorized) /\
             (forall t, snd rq = CToken t -> jran r = true -> jstatus r = 200 /\ jctx r = deliver t))
          reqs (run_jwt mac h c reqs).
Proof. exact run_jwt_ok. Qed.
Print Assumptions gate_holds_over_histories.

Theorem decision_independent_of_hit_counters : forall mac rs rs' h h' c now t,
  snd (parse_token mac rs h c now t) = snd (parse_token mac rs' h' c now t).
Proof. exact parse_token_history_irrelevant. Qed.
Print Assumptions decision_independent_of_hit_counters.

(* THE WHOLE REQUEST.  The request the middleware receives also has an HTTP method and any
   number of other header fields ([hreq]: method, (name, value) list, clock, credential).  The
   gate's decision, its answer AND the hit counters it leaves are the same for every method
   (GET, POST, ..., OPTIONS, CONNECT, a made-up one) and every list of other headers (Origin,
   Access-Control-Request-*, Upgrade, X-Forwarded-*, ...): nothing but the Authorization header
   and the clock enters.  (Pinned.pinned_preflight_bypass_refuted is a gate for which this fails.) *)
Theorem gate_independent_of_method_and_headers : forall mac h c q1 q2,
  hq_now q1 = hq_now q2 -> hq_cred q1 = hq_cred q2 ->
  authorize_req mac h c q1 = authorize_req mac h c q2.
Proof. exact authorize_req_ignores. Qed.
Print Assumptions gate_independent_of_method_and_headers.

(* ... so [handler_runs_only_if_valid] holds of the whole request, for every method and header list *)
Theorem handler_runs_only_if_valid_whatever_method_and_headers : forall mac h c q,
  jran (snd (authorize_req mac h c q)) = true <->
  exists t, hq_cred q = CToken t /\
            is_hs (talg t) = true /\
            (exists s, In s (secrets c) /\ tsig t = Some (mac (talg t) s (tinput t))) /\
            TimeValid (hq_now q) t.
Proof. exact authorize_req_ran. Qed.
Print Assumptions handler_runs_only_if_valid_whatever_method_and_headers.

(* ... and over every sequence of whole requests through one middleware instance: each is accepted iff
   its credential is valid now, rejected with exactly the 401 answer otherwise; and two sequences
   that differ only in methods and other headers get the same answers (and callback errors) *)
Theorem gate_holds_over_histories_of_whole_requests : forall mac c reqs h,
  Forall2 (HReqOk mac c) reqs (run_jwt_req mac h c reqs).
Proof. exact run_jwt_req_ok. Qed.
Print Assumptions gate_holds_over_histories_of_whole_requests.

Theorem histories_independent_of_methods_and_headers : forall mac c reqs1 reqs2 h,
  map hq_core reqs1 = map hq_core reqs2 ->
  run_jwt_req mac h c reqs1 = run_jwt_req mac h c reqs2.
Proof. exact run_jwt_req_ignores. Qed.
Print Assumptions histories_independent_of_methods_and_headers.

Example ex_preflight_shaped_request_without_token_is_rejected :
  snd (authorize_req (fun _ k i => k * 1000 + i) [] (mkJcfg 1 (Some 2))
                     (mkHreq m_options [(h_origin, 7); (h_acrm, 8)] 1000 CMissing)) = unauthorized.
Proof. reflexivity. Qed.

(* What the handler sees: exactly the claims of the token that are not one of
   aud/exp/jti/iat/iss/nbf/sub (a JSON null claim is stored as a nil context value, which
   a handler cannot tell from an absent key). *)
Theorem claims_delivered : forall t k v,
  In (k, v) (deliver t) <-> In (k, v) (tclaims t) /\ is_std k = false /\ v <> VNull.
Proof. exact deliver_spec. Qed.
Print Assumptions claims_delivered.

(* Any single-field mutation of a token [t] validly signed with a configured secret [s] is
   answered 401 and the handler is not called, unless it is a MAC collision: the explicit
   hypothesis [mac_injective_on] (inside the constructors MutInput / MutSecret) ranges only
   over the handful of (alg, key, input) triples involved.
     MutInput      header or payload bytes changed (claims rewritten, exp extended, alg
                   swapped to another HS method or to none/RS256 ...), signature kept
     MutSecret     re-signed with a secret that is not configured
     MutSignature  signature bytes changed to anything that is not a MAC under a configured secret
     MutAlg        alg none / asymmetric / unknown / missing, whatever the signature
     MutTime       expired, not yet valid, issued in the future, or a non-numeric time claim
     MutMalformed / MutMissing *)
Theorem mutation_rejected : forall mac h c now s t cr,
  In s (secrets c) -> Signed mac s t ->
  mutant mac c now s t cr ->
  snd (authorize mac h c now cr) = mkJres false 401 [].
Proof. exact mutant_rejected. Qed.
Print Assumptions mutation_rejected.

Theorem alg_none_or_asymmetric_rejected : forall mac h c now t',
  is_hs (talg t') = false -> jran (snd (authorize mac h c now (CToken t'))) = false.
Proof. exact non_hmac_alg_rejected. Qed.
Print Assumptions alg_none_or_asymmetric_rejected.

Theorem expired_token_rejected : forall mac h c now t' e,
  time_claim k_exp t' = TNum e -> e <= now ->
  jran (snd (authorize mac h c now (CToken t'))) = false.
Proof. exact expired_rejected. Qed.
Print Assumptions expired_token_rejected.

Theorem tampered_token_rejected : forall mac h c now t s t',
  In s (secrets c) -> Signed mac s t ->
  tinput t' <> tinput t -> tsig t' = tsig t ->
  mac_injective_on mac (fun a k i => (a = talg t /\ k = s /\ i = tinput t) \/
                                     (a = talg t' /\ In k (secrets c) /\ i = tinput t')) ->
  jran (snd (authorize mac h c now (CToken t'))) = false.
Proof. exact tampered_input_rejected. Qed.
Print Assumptions tampered_token_rejected.

(* non-vacuity: a concrete mac (injective on the triples below), a token signed with the
   previous secret, accepted at now = 1000 and rejected at now = 2000; its payload-tampered
   mutant meets the hypotheses of [tampered_token_rejected]. *)
Definition ex_mac (a : alg) (k i : Z) : Z :=
  (match a with HS256 => 1 | HS384 => 2 | HS512 => 3 | _ => 4 end) + 10 * k + 1000 * i.
Definition ex_cfg := mkJcfg 1 (Some 2).
Definition ex_tok := mkToken HS256 7 (Some (ex_mac HS256 2 7)) [(2, VNum 2000); (5, VOther 1); (10, VNum 42); (11, VNull)].
Definition ex_tampered := mkToken HS256 8 (tsig ex_tok) [(2, VNum 999999); (10, VNum 1)].

Example ex_accepted :
  snd (authorize ex_mac [] ex_cfg 1000 (CToken ex_tok)) = mkJres true 200 [(10, VNum 42)] /\
  snd (authorize ex_mac [] ex_cfg 2000 (CToken ex_tok)) = mkJres false 401 [].
Proof. vm_compute. split; reflexivity. Qed.

Example ex_tamper_hypotheses :
  In 2 (secrets ex_cfg) /\ Signed ex_mac 2 ex_tok /\
  tinput ex_tampered <> tinput ex_tok /\ tsig ex_tampered = tsig ex_tok /\
  mac_injective_on ex_mac (fun a k i => (a = talg ex_tok /\ k = 2 /\ i = tinput ex_tok) \/
                                        (a = talg ex_tampered /\ In k (secrets ex_cfg) /\ i = tinput ex_tampered)).
Proof.
  split; [right; left; reflexivity|]. split; [reflexivity|]. split; [discriminate|]. split; [reflexivity|].
  intros a k i a' k' i' P Q.
  assert (Ha : a = HS256) by (destruct P as [(A & _)|(A & _)]; exact A).
  assert (Ha' : a' = HS256) by (destruct Q as [(A & _)|(A & _)]; exact A).
  assert (Hk : k = 1 \/ k = 2) by (destruct P as [(_ & K & _)|(_ & [K|[K|[]]] & _)]; cbn in K; lia).
  assert (Hk' : k' = 1 \/ k' = 2) by (destruct Q as [(_ & K & _)|(_ & [K|[K|[]]] & _)]; cbn in K; lia).
  assert (Hi : i = 7 \/ i = 8) by (destruct P as [(_ & _ & I)|(_ & _ & I)]; cbn in I; lia).
  assert (Hi' : i' = 7 \/ i' = 8) by (destruct Q as [(_ & _ & I)|(_ & _ & I)]; cbn in I; lia).
  subst a a'. unfold ex_mac. intros M. repeat split; lia.
Qed.

(* The error handed to the unauthorized callback (ParseToken's error: with two secrets, the one of
   the SECOND attempt) is "no error" exactly for the accepted credentials, from every counter state. *)
Theorem no_error_iff_accepted : forall mac h c now cr,
  parse_err mac h c now cr = 0 <-> Accepts mac c now cr.
Proof. exact parse_err_zero. Qed.
Print Assumptions no_error_iff_accepted.

(* token.TokenParser used directly, ONE parser, every call with its own (secret, prevSecret),
   any sequence of calls, with or without the history reset: a token comes back exactly for the
   calls whose credential is valid under the secrets of that very call — nothing learnt in an
   earlier call (hit counters, a token seen before, other secrets) can make a later one pass. *)
Theorem parser_gate_over_call_sequences : forall mac rs calls h,
  Forall2 (fun cl e => e = 0 <-> Accepts mac (fst (fst cl)) (snd (fst cl)) (snd cl)) calls (run_parser mac rs h calls).
Proof. exact run_parser_ok. Qed.
Print Assumptions parser_gate_over_call_sequences.

(* the hit counters do show, but only in WHICH error a rejected request reports: a token signed
   with the current secret and expired gives "signature invalid" (4, from the attempt with the
   previous secret) while the current secret is tried first, and "expired" (16) otherwise *)
Example ex_error_shows_order :
  let t := mkToken HS256 7 (Some (ex_mac HS256 1 7)) [(2, VNum 500)] in
  parse_err ex_mac [(1, 5); (2, 3)] ex_cfg 1000 (CToken t) = 4 /\
  parse_err ex_mac [(1, 3); (2, 3)] ex_cfg 1000 (CToken t) = 16 /\
  jran (snd (authorize ex_mac [(1, 5); (2, 3)] ex_cfg 1000 (CToken t))) = false.
Proof. vm_compute. repeat split; reflexivity. Qed.

(* ========================= content security ============================== *)

(* Behind strict content security, for DELETE/GET/POST/PUT: the handler ran only if every
   attribute of X-Content-Security is present, the fingerprint names a configured key, the
   secret decrypts under it to (key, timestamp, type), the timestamp is within the
   tolerance of now, and the signature is the MAC under that key of exactly
   (timestamp, method, path, query, sha256(body)) — the key being the one the route group's
   own map [decs] gives for the fingerprint (last entry wins), and with the path/query that
   getPathQuery selects (the X-Request-Uri header if present, else the URL). *)
Theorem strict_runs_only_if_signed :
  forall ulfix rsa_dec cmac sha aes_ok E D b64enc b64dec decs tol now limit r resp,
  checked (r_method r) = true ->
  o_ran (cs_handler ulfix rsa_dec cmac sha aes_ok E D b64enc b64dec true decs tol now limit r resp) = true ->
  exists fp kid sc sg sec key ct ts,
    h_fp (r_hdr r) = Some fp /\ find_key fp decs = Some kid /\
    h_secret (r_hdr r) = Some sc /\ h_sig (r_hdr r) = Some sg /\
    rsa_dec kid sc = Some sec /\ sk_key sec = Some key /\ sk_ctype sec = Some ct /\
    sk_tsval sec = Some ts /\ now - tol <= ts <= now + tol /\
    sg = cmac key (sk_tsid sec, r_method r, fst (path_query r), snd (path_query r), sha (r_body r)).
Proof. exact strict_ran_signed. Qed.
Print Assumptions strict_runs_only_if_signed.

(* ONE ACCEPTED SIGNATURE TEXT PER REQUEST.  The signature attribute is compared as TEXT with the
   base64 text of the MAC ([h_sig] and the value of [cmac] are identifiers of texts, not of the
   bytes they may decode to): if the handler ran for two requests that differ at most in the
   presented signature text (same fingerprint, secret, method, path, query, X-Request-Uri, body),
   the two texts are the same.  So no re-spelling of a valid signature — other characters in the
   unused trailing bits, dropped or added padding, the url-safe alphabet, inserted CR / LF / space,
   a changed letter case, percent-encoding, trailing garbage — is accepted.  (The correspondence
   enumerates these edits for every character position; Pinned.pinned_decode_then_compare_refuted
   is the variant that compares decoded bytes.) *)
Theorem handler_runs_only_if_signature_text_exact :
  forall ulfix rsa_dec cmac sha aes_ok E D b64enc b64dec decs tol now limit r r' resp resp',
  checked (r_method r) = true ->
  r_method r' = r_method r -> r_path r' = r_path r -> r_query r' = r_query r -> r_xuri r' = r_xuri r ->
  r_body r' = r_body r -> h_fp (r_hdr r') = h_fp (r_hdr r) -> h_secret (r_hdr r') = h_secret (r_hdr r) ->
  o_ran (cs_handler ulfix rsa_dec cmac sha aes_ok E D b64enc b64dec true decs tol now limit r resp) = true ->
  o_ran (cs_handler ulfix rsa_dec cmac sha aes_ok E D b64enc b64dec true decs tol now limit r' resp') = true ->
  h_sig (r_hdr r') = h_sig (r_hdr r).
Proof.
  intros until resp'. intros Hc Em Ep Eq Ex Eb Ef Es R1 R2.
  assert (Hc' : checked (r_method r') = true) by (rewrite Em; exact Hc).
  destruct (strict_ran_signed ulfix rsa_dec cmac sha aes_ok E D b64enc b64dec decs tol now limit r resp Hc R1)
    as (fp&kid&sc&sg&sec&key&ct&ts&A1&A2&A3&A4&A5&A6&A7&A8&A9&A10).
  destruct (strict_ran_signed ulfix rsa_dec cmac sha aes_ok E D b64enc b64dec decs tol now limit r' resp' Hc' R2)
    as (fp'&kid'&sc'&sg'&sec'&key'&ct'&ts'&B1&B2&B3&B4&B5&B6&B7&B8&B9&B10).
  rewrite Ef, A1 in B1. injection B1 as <-. rewrite A2 in B2. injection B2 as <-.
  rewrite Es, A3 in B3. injection B3 as <-. rewrite A5 in B5. injection B5 as <-.
  rewrite A6 in B6. injection B6 as <-.
  unfold path_query in *. rewrite Ex, Em, Ep, Eq, Eb in B10.
  rewrite A4, B4, A10, B10. reflexivity.
Qed.
Print Assumptions handler_runs_only_if_signature_text_exact.

(* THE TIME WINDOW, OVER ALL INTEGERS.  The timestamp is client-supplied text; whatever integer t it
   parses to — 0, negative, milliseconds instead of seconds, 2^31, 2^40, 2^62, 2^63-1, -2^63, or far
   beyond any machine word: the model computes in Z — a handler behind a strict gate ran only if
   |now - t| <= tolerance.  (The executor checks today's int64 code against this on the boundary
   set; Pinned.pinned_saturating_skew_refuted is a variant whose machine arithmetic breaks it.) *)
Theorem accepted_timestamp_within_tolerance :
  forall ulfix rsa_dec cmac sha aes_ok E D b64enc b64dec decs tol now limit r resp,
  checked (r_method r) = true ->
  o_ran (cs_handler ulfix rsa_dec cmac sha aes_ok E D b64enc b64dec true decs tol now limit r resp) = true ->
  exists fp kid sc sec t,
    h_fp (r_hdr r) = Some fp /\ find_key fp decs = Some kid /\ h_secret (r_hdr r) = Some sc /\
    rsa_dec kid sc = Some sec /\ sk_tsval sec = Some t /\ Z.abs (now - t) <= tol.
Proof.
  intros until resp. intros Hc Hr.
  destruct (strict_ran_signed ulfix rsa_dec cmac sha aes_ok E D b64enc b64dec decs tol now limit r resp Hc Hr)
    as (fp&kid&sc&sg&sec&key&ct&ts&A1&A2&A3&A4&A5&A6&A7&A8&A9&A10).
  exists fp, kid, sc, sec, ts. repeat split; auto. lia.
Qed.
Print Assumptions accepted_timestamp_within_tolerance.

(* conversely a timestamp outside the window is answered 403, for every integer *)
Theorem timestamp_outside_window_gets_403 :
  forall ulfix rsa_dec cmac sha aes_ok E D b64enc b64dec decs tol now limit r resp,
  checked (r_method r) = true ->
  (forall fp kid sc sec t, h_fp (r_hdr r) = Some fp -> find_key fp decs = Some kid -> h_secret (r_hdr r) = Some sc ->
     rsa_dec kid sc = Some sec -> sk_tsval sec = Some t -> tol < Z.abs (now - t)) ->
  cs_handler ulfix rsa_dec cmac sha aes_ok E D b64enc b64dec true decs tol now limit r resp = mkHout false 403 [] [] false.
Proof.
  intros until resp. intros Hc Hout. apply strict_unsigned_403; auto.
  intros (fp&kid&sc&sg&sec&key&ct&ts&A1&A2&A3&A4&A5&A6&A7&A8&A9&A10).
  specialize (Hout fp kid sc sec ts A1 A2 A3 A5 A8). lia.
Qed.
Print Assumptions timestamp_outside_window_gets_403.

(* ... and without an X-Request-Uri header that is the request's own path and query *)
Theorem strict_runs_only_if_signed_url :
  forall ulfix rsa_dec cmac sha aes_ok E D b64enc b64dec decs tol now limit r resp,
  checked (r_method r) = true -> r_xuri r = None ->
  o_ran (cs_handler ulfix rsa_dec cmac sha aes_ok E D b64enc b64dec true decs tol now limit r resp) = true ->
  SignedRequest rsa_dec cmac sha decs tol now r (r_path r, r_query r).
Proof.
  intros until resp. intros Hc Hx Hr.
  pose proof (strict_ran_signed ulfix rsa_dec cmac sha aes_ok E D b64enc b64dec decs tol now limit r resp Hc Hr) as S.
  unfold path_query in S. rewrite Hx in S. exact S.
Qed.
Print Assumptions strict_runs_only_if_signed_url.

Theorem strict_unsigned_gets_403 :
  forall ulfix rsa_dec cmac sha aes_ok E D b64enc b64dec decs tol now limit r resp,
  checked (r_method r) = true ->
  ~ SignedRequest rsa_dec cmac sha decs tol now r (path_query r) ->
  cs_handler ulfix rsa_dec cmac sha aes_ok E D b64enc b64dec true decs tol now limit r resp = mkHout false 403 [] [] false.
Proof. exact strict_unsigned_403. Qed.
Print Assumptions strict_unsigned_gets_403.

(* A signed request whose method, path, query or body is changed afterwards (header, hence
   secret, timestamp and signature, kept) gets 403 unless the MAC collides on the two
   signed strings. *)
Theorem signed_request_mutation_rejected :
  forall ulfix rsa_dec cmac sha aes_ok E D b64enc b64dec decs tol now limit r r' resp,
  checked (r_method r) = true -> checked (r_method r') = true ->
  r_xuri r = None -> r_xuri r' = None ->
  SignedRequest rsa_dec cmac sha decs tol now r (r_path r, r_query r) ->
  r_hdr r' = r_hdr r ->
  (r_method r', r_path r', r_query r', sha (r_body r')) <> (r_method r, r_path r, r_query r, sha (r_body r)) ->
  (forall key tsid, cmac_injective_for cmac key
      (tsid, r_method r, r_path r, r_query r, sha (r_body r))
      (tsid, r_method r', r_path r', r_query r', sha (r_body r'))) ->
  cs_handler ulfix rsa_dec cmac sha aes_ok E D b64enc b64dec true decs tol now limit r' resp = mkHout false 403 [] [] false.
Proof. exact signed_mutation_rejected. Qed.
Print Assumptions signed_request_mutation_rejected.

(* KNOWN FINDING F9: the statement without the restriction to DELETE/GET/POST/PUT is false —
   a PATCH request with no X-Content-Security header at all runs the handler in strict
   mode, for every instantiation of the cryptography. *)
Theorem other_methods_bypass_refuted :
  forall ulfix rsa_dec cmac sha aes_ok E D b64enc b64dec decs tol now limit,
  exists r resp,
    r_hdr r = mkHdr None None None /\ checked (r_method r) = false /\
    o_ran (cs_handler ulfix rsa_dec cmac sha aes_ok E D b64enc b64dec true decs tol now limit r resp) = true.
Proof.
  intros. exists (mkReq 5 1 1 None (mkHdr None None None) 0 []), [].
  repeat split.
Qed.
Print Assumptions other_methods_bypass_refuted.

(* KNOWN FINDING (X-Request-Uri): with the header present the signature need not cover the
   request's own path/query.  Concrete instance: signature made for path 1 / query 1,
   request sent to path 2 / query 2 with X-Request-Uri naming (1, 1): the handler runs,
   yet the request is not signed for its own URL. *)
Definition ex_cmac (k : Z) (c : content) : Z :=
  let '(a, b, p, q, d) := c in k + 10 * a + 100 * b + 1000 * p + 10000 * q + 100000 * d.
Definition ex_secret := mkSecret (Some 3) 1 (Some 500) (Some 0).
Definition ex_rsa (fp sc : Z) : option cs_secret := if (fp =? 1) && (sc =? 1) then Some ex_secret else None.
Definition ex_req (p q : Z) (x : option (Z * Z)) :=
  mkReq 3 p q x (mkHdr (Some 1) (Some 1) (Some (ex_cmac 3 (1, 3, 1, 1, 9)))) 0 [].
Definition ex_handler := cs_handler false ex_rsa ex_cmac (fun _ => 9) (fun _ => true) (fun _ b => b) (fun _ b => b)
                                    (fun b => b) (fun b => Some b) true [(1, 1)] 10 505 1024.

Theorem xuri_override_refuted :
  o_ran (ex_handler (ex_req 2 2 (Some (1, 1))) []) = true /\
  ~ SignedRequest ex_rsa ex_cmac (fun _ => 9) [(1, 1)] 10 505 (ex_req 2 2 (Some (1, 1))) (2, 2).
Proof.
  split; [vm_compute; reflexivity|].
  intros (fp&kid&sc&sg&sec&key&ct&ts&A1&A2&A3&A4&A5&A6&A7&A8&A9&A10).
  cbn in A1, A3, A4. injection A1 as <-. injection A3 as <-. injection A4 as <-.
  vm_compute in A2. injection A2 as <-.
  vm_compute in A5. injection A5 as <-. cbn in A6. injection A6 as <-.
  vm_compute in A10. discriminate.
Qed.
Print Assumptions xuri_override_refuted.

(* non-vacuity: the same signed request sent to its own URL is accepted; changing the
   method afterwards gives 403 *)
Example ex_signed_accepted :
  ex_handler (ex_req 1 1 None) [7] = mkHout true 200 [] [7] false /\
  ex_handler (mkReq 4 1 1 None (r_hdr (ex_req 1 1 None)) 0 []) [7] = mkHout false 403 [] [] false /\
  SignedRequest ex_rsa ex_cmac (fun _ => 9) [(1, 1)] 10 505 (ex_req 1 1 None) (1, 1).
Proof.
  split; [vm_compute; reflexivity|]. split; [vm_compute; reflexivity|].
  exists 1, 1, 1, (ex_cmac 3 (1, 3, 1, 1, 9)), ex_secret, 3, 0, 500.
  repeat split; try reflexivity; lia.
Qed.

(* ================= several route groups on one server ==================== *)

(* THE GATE IS PER GROUP.  A server is a list of groups (AddRoutes calls), each with its own
   JWT secrets and its own signature configuration (strictness, tolerance, private keys by
   fingerprint).  For EVERY such list, every state of the per-route hit counters and every
   request: if some handler ran, then it is the handler of the requested route, the route was
   registered by group g (the first that lists it), and the request's credentials are valid
   for g's OWN configuration:
     - g has the JWT option  =>  the token verifies under g's secret or previous secret (and its
       time claims hold now);
     - g has a strict signature and the method is one of DELETE/GET/POST/PUT  =>  g has keys, all
       loadable, and the request is signed (fingerprint found in g's OWN key list, secret decrypts
       under THAT key, timestamp within g's tolerance, MAC over timestamp/method/path/query/body).
   What other groups are configured with does not enter. *)
Theorem handler_runs_only_for_own_group_credentials :
  forall ulfix key_ok mac rsa_dec cmac sha aes_ok E D b64enc b64dec limit gs st q st' o,
  serve ulfix mac rsa_dec cmac sha aes_ok E D b64enc b64dec limit (fst (bind key_ok gs [])) st q = (st', o) ->
  o_ran (s_out o) = true ->
  exists g, owner (q_route q) gs = Some g /\ s_route o = Some (q_route q) /\
            ValidFor key_ok mac rsa_dec cmac sha g q.
Proof. exact serve_gate. Qed.
Print Assumptions handler_runs_only_for_own_group_credentials.

(* ... for every sequence of requests on one long-lived server *)
Theorem server_gate_over_request_sequences :
  forall ulfix key_ok mac rsa_dec cmac sha aes_ok E D b64enc b64dec limit gs qs st,
  Forall2 (GateOk key_ok mac rsa_dec cmac sha gs) qs
          (serve_all ulfix mac rsa_dec cmac sha aes_ok E D b64enc b64dec limit (fst (bind key_ok gs [])) st qs).
Proof. exact serve_all_gate. Qed.
Print Assumptions server_gate_over_request_sequences.

Theorem other_groups_token_gets_401 :
  forall ulfix key_ok mac rsa_dec cmac sha aes_ok E D b64enc b64dec limit gs st q st' o g jc,
  snd (bind key_ok gs []) = true ->
  owner (q_route q) gs = Some g -> g_jwt g = Some jc ->
  ~ Accepts mac jc (q_jnow q) (q_cred q) ->
  serve ulfix mac rsa_dec cmac sha aes_ok E D b64enc b64dec limit (fst (bind key_ok gs [])) st q = (st', o) ->
  s_out o = mkHout false 401 [] [] false /\ s_route o = None.
Proof. exact serve_jwt_rejects. Qed.
Print Assumptions other_groups_token_gets_401.

(* CONCURRENT REQUESTS.  The gates keep no state that an answer depends on: whatever sequence the
   requests of a concurrent burst are served in, from whatever counter state, each gets exactly the
   answer (output and route) it would get alone on a freshly started server. *)
Theorem concurrent_requests_get_their_own_answers :
  forall ulfix mac rsa_dec cmac sha aes_ok E D b64enc b64dec limit tab qs st,
  map (fun o => (s_out o, s_route o)) (serve_all ulfix mac rsa_dec cmac sha aes_ok E D b64enc b64dec limit tab st qs) =
  map (fun q => (s_out (snd (serve ulfix mac rsa_dec cmac sha aes_ok E D b64enc b64dec limit tab [] q)),
                 s_route (snd (serve ulfix mac rsa_dec cmac sha aes_ok E D b64enc b64dec limit tab [] q)))) qs.
Proof. exact any_order_same_answers. Qed.
Print Assumptions concurrent_requests_get_their_own_answers.

(* what a request to a route gets depends only on the options of the group that registered it *)
Theorem groups_are_isolated :
  forall ulfix key_ok mac rsa_dec cmac sha aes_ok E D b64enc b64dec limit gs1 gs2 st q g1 g2,
  snd (bind key_ok gs1 []) = true -> snd (bind key_ok gs2 []) = true ->
  owner (q_route q) gs1 = Some g1 -> owner (q_route q) gs2 = Some g2 ->
  g_jwt g1 = g_jwt g2 -> g_sig g1 = g_sig g2 ->
  serve ulfix mac rsa_dec cmac sha aes_ok E D b64enc b64dec limit (fst (bind key_ok gs1 [])) st q =
  serve ulfix mac rsa_dec cmac sha aes_ok E D b64enc b64dec limit (fst (bind key_ok gs2 [])) st q.
Proof. exact group_isolation. Qed.
Print Assumptions groups_are_isolated.

(* EVERY METHOD, WITH OR WITHOUT rest.WithCors.  [serve_cors cors]: with the option the router is
   wrapped by the CORS router, which answers every OPTIONS request with 204 before routing and turns
   405 into 404; without it OPTIONS is a route method like any other.  In both configurations, for
   every method: a handler runs only for credentials valid for its own group. *)
Theorem handler_runs_only_for_own_group_credentials_any_method_cors_or_not :
  forall ulfix key_ok mac rsa_dec cmac sha aes_ok E D b64enc b64dec cors limit gs st q st' o,
  serve_cors ulfix mac rsa_dec cmac sha aes_ok E D b64enc b64dec cors limit (fst (bind key_ok gs [])) st q = (st', o) ->
  o_ran (s_out o) = true ->
  exists g, owner (q_route q) gs = Some g /\ s_route o = Some (q_route q) /\
            ValidFor key_ok mac rsa_dec cmac sha g q.
Proof. exact serve_cors_gate. Qed.
Print Assumptions handler_runs_only_for_own_group_credentials_any_method_cors_or_not.

Theorem server_gate_over_request_sequences_cors_or_not :
  forall ulfix key_ok mac rsa_dec cmac sha aes_ok E D b64enc b64dec cors limit gs qs st,
  Forall2 (GateOk key_ok mac rsa_dec cmac sha gs) qs
          (serve_all_cors ulfix mac rsa_dec cmac sha aes_ok E D b64enc b64dec cors limit (fst (bind key_ok gs [])) st qs).
Proof. exact serve_all_cors_gate. Qed.
Print Assumptions server_gate_over_request_sequences_cors_or_not.

(* the converse for the JWT option, for every method that reaches the router (all of them without the
   CORS option; all but OPTIONS with it): an invalid token gets exactly 401, nothing runs *)
Theorem invalid_token_gets_401_on_every_method :
  forall ulfix key_ok mac rsa_dec cmac sha aes_ok E D b64enc b64dec cors limit gs st q st' o g jc,
  snd (bind key_ok gs []) = true ->
  (cors = true -> r_method (q_cs q) <> m_options) ->
  owner (q_route q) gs = Some g -> g_jwt g = Some jc ->
  ~ Accepts mac jc (q_jnow q) (q_cred q) ->
  serve_cors ulfix mac rsa_dec cmac sha aes_ok E D b64enc b64dec cors limit (fst (bind key_ok gs [])) st q = (st', o) ->
  s_out o = mkHout false 401 [] [] false /\ s_route o = None.
Proof. exact serve_cors_jwt_rejects. Qed.
Print Assumptions invalid_token_gets_401_on_every_method.

(* behind the CORS router an OPTIONS request never reaches a route *)
Theorem cors_router_answers_options_itself :
  forall ulfix mac rsa_dec cmac sha aes_ok E D b64enc b64dec limit tab st q,
  r_method (q_cs q) = m_options ->
  serve_cors ulfix mac rsa_dec cmac sha aes_ok E D b64enc b64dec true limit tab st q =
  (st, mkSout (mkHout false 204 [] [] false) None 0).
Proof. exact cors_answers_options. Qed.
Print Assumptions cors_router_answers_options_itself.

(* THE ROUTER CLEANS THE PATH FOR THE LOOKUP, THE SIGNATURE COVERS THE PATH AS RECEIVED.
   [serve_recv cors clean]: the route is looked up under [clean (r_path)] (path.Clean: trailing slash, empty,
   "." and ".." segments), the route's chain gets the request as received.  For EVERY cleaning function: if
   the handler of a strict signature group ran (verified method, no X-Request-Uri), the request is signed
   for the path spelling the client SENT.  So a header signed for /orders/pay does not open /orders/pay/,
   //orders/pay, /orders/./pay or /orders/x/../pay, although the router maps them onto the same route
   (Pinned.pinned_router_cleans_then_verifies_refuted is the variant that verifies the cleaned path). *)
Theorem signature_covers_received_path :
  forall ulfix key_ok mac rsa_dec cmac sha aes_ok E D b64enc b64dec cors clean limit gs st q st' o,
  serve_recv ulfix mac rsa_dec cmac sha aes_ok E D b64enc b64dec cors clean limit (fst (bind key_ok gs [])) st q = (st', o) ->
  o_ran (s_out o) = true ->
  r_xuri (q_cs q) = None ->
  exists g, owner (routed clean q) gs = Some g /\
    forall sc, g_sig g = Some sc -> sg_strict sc = true -> checked (r_method (q_cs q)) = true ->
      SignedRequest rsa_dec cmac sha (sg_keys sc) (sg_tol sc) (q_now q) (q_cs q) (r_path (q_cs q), r_query (q_cs q)).
Proof. exact recv_signature_covers_received_path. Qed.
Print Assumptions signature_covers_received_path.

(* the per-group gate with a cleaning router, over every request sequence, CORS or not *)
Theorem server_gate_with_cleaning_router :
  forall ulfix key_ok mac rsa_dec cmac sha aes_ok E D b64enc b64dec cors clean limit gs qs st,
  Forall2 (GateOkR key_ok mac rsa_dec cmac sha clean gs) qs
          (serve_all_recv ulfix mac rsa_dec cmac sha aes_ok E D b64enc b64dec cors clean limit (fst (bind key_ok gs [])) st qs).
Proof. exact serve_all_recv_gate. Qed.
Print Assumptions server_gate_with_cleaning_router.

(* non-vacuity: two strict signature groups, A with key file 1 under fingerprint 1, B with key
   file 2 under fingerprint 2, and a JWT group.  The same signed request (secret encrypted to
   key 1) runs A's handler; with B's credentials (fingerprint 2, secret to key 2) A answers 403,
   although B itself accepts them; B's token is refused by the JWT group of another secret. *)
Definition ex2_rsa (kid sc : Z) : option cs_secret :=
  if ((kid =? 1) && (sc =? 1)) || ((kid =? 2) && (sc =? 2)) then Some ex_secret else None.
Definition ex2_groups :=
  [ mkGroup None (Some (mkSig true [(1, 1)] 10)) [(3, 1)];
    mkGroup None (Some (mkSig true [(2, 2)] 10)) [(3, 2)];
    mkGroup (Some (mkJcfg 1 None)) None [(3, 3)] ].
Definition ex2_req (path fp sc : Z) :=
  mkSreq 1000 (CToken (mkToken HS256 7 (Some (ex_mac HS256 2 7)) []))
         505 (mkReq 3 path 1 None (mkHdr (Some fp) (Some sc) (Some (ex_cmac 3 (1, 3, path, 1, 9)))) 0 []) [].
Definition ex2_serve q :=
  snd (serve false ex_mac ex2_rsa ex_cmac (fun _ => 9) (fun _ => true) (fun _ b => b) (fun _ b => b)
             (fun b => b) (fun b => Some b) 1024 (fst (bind (fun _ => true) ex2_groups [])) [] q).

Example ex_groups_keep_their_own_keys :
  snd (bind (fun _ => true) ex2_groups []) = true /\
  s_route (ex2_serve (ex2_req 1 1 1)) = Some (3, 1) /\                 (* A's key on A's route *)
  o_status (s_out (ex2_serve (ex2_req 1 2 2))) = 403 /\               (* B's key on A's route *)
  s_route (ex2_serve (ex2_req 2 2 2)) = Some (3, 2) /\                 (* B's key on B's route *)
  o_status (s_out (ex2_serve (ex2_req 3 1 1))) = 401.                  (* a token of secret 2 on the group of secret 1 *)
Proof. vm_compute. repeat split; reflexivity. Qed.

(* ====================== padding, ECB, cryption handler =================== *)

(* pkcs5Unpadding (pkcs5Padding p) = p for every payload, block size 16 (repaired code;
   Pinned.v has the pinned variant that fails on the empty payload) *)
Theorem pad_unpad_roundtrip : forall p : list Z, unpad (pad p) = Ok p.
Proof. exact unpad_pad. Qed.
Print Assumptions pad_unpad_roundtrip.

Theorem unpad_never_panics_nor_overreads : forall l,
  unpad l <> Panic /\ (forall p, unpad l = Ok p -> exists q, l = p ++ q).
Proof. intros l. split; [apply unpad_total|apply unpad_prefix]. Qed.
Print Assumptions unpad_never_panics_nor_overreads.

(* ECB over any block function pair with D∘E = id on 16-byte blocks *)
Theorem ecb_roundtrip : forall (E D : Z -> list Z -> list Z),
  (forall key b, length b = bsn -> D key (E key b) = b) ->
  (forall key b, length b = bsn -> length (E key b) = bsn) ->
  forall key l, (len l) mod bs = 0 ->
  crypt_blocks (D key) (crypt_blocks (E key) l) = l.
Proof. exact ecb_roundtrip_blocks. Qed.
Print Assumptions ecb_roundtrip.

(* EcbDecrypt (EcbEncrypt p) = p for every payload under every usable key *)
Theorem ecb_decrypt_encrypt_roundtrip : forall aes_ok (E D : Z -> list Z -> list Z),
  (forall key b, length b = bsn -> D key (E key b) = b) ->
  (forall key b, length b = bsn -> length (E key b) = bsn) ->
  forall key p, aes_ok key = true ->
  exists c, ecb_encrypt aes_ok E key p = Ok c /\ ecb_decrypt aes_ok D key c = Ok p /\ c <> [].
Proof. exact ecb_decrypt_encrypt. Qed.
Print Assumptions ecb_decrypt_encrypt_roundtrip.

(* Handler level: the encrypted body (known length, within the limit) reaches the route
   handler decrypted, and the response on the wire is the base64 of a ciphertext that
   decrypts to exactly what the handler wrote — for any payloads. *)
Theorem body_roundtrip : forall ulfix aes_ok (E D : Z -> list Z -> list Z) b64enc b64dec,
  (forall key b, length b = bsn -> D key (E key b) = b) ->
  (forall key b, length b = bsn -> length (E key b) = bsn) ->
  (forall x, b64dec (b64enc x) = Some x) ->
  (forall x, x <> [] -> b64enc x <> []) ->
  forall limit key p c resp,
  aes_ok key = true -> ecb_encrypt aes_ok E key p = Ok c ->
  (limit <= 0 \/ len (b64enc c) <= limit) ->
  crypt_handler ulfix aes_ok E D b64enc b64dec limit key (len (b64enc c)) (b64enc c) resp
    = mkHout true 200 p (flush aes_ok E b64enc key resp) false /\
  (resp <> [] ->
   exists c', flush aes_ok E b64enc key resp = b64enc c' /\ b64dec (b64enc c') = Some c' /\
              ecb_decrypt aes_ok D key c' = Ok resp).
Proof.
  intros ulfix aes_ok E D b64enc b64dec DE Elen B1 B2 limit key p c resp K Ec Hl. split.
  - apply (body_roundtrip_request aes_ok E D b64enc b64dec DE Elen B1 B2 ulfix limit key p c resp K Ec Hl).
  - intros NE. apply (body_roundtrip_response aes_ok E D b64enc b64dec DE Elen B1 key resp K NE).
Qed.
Print Assumptions body_roundtrip.

Theorem cryption_handler_never_panics : forall ulfix aes_ok E D b64enc b64dec limit key clen wire resp,
  o_panic (crypt_handler ulfix aes_ok E D b64enc b64dec limit key clen wire resp) = false.
Proof. intros. apply handler_never_panics. Qed.
Print Assumptions cryption_handler_never_panics.

(* Bodies of UNKNOWN length (ContentLength = -1, chunked upload).
   Without the repair pending/C18-unknown-length.diff (ulfix = false, what coq/gen/C18Consts.v
   says about today's tree is an obligation in GenProofs.v) the statement "an encrypted body
   reaches the handler decrypted" is refuted: the body is handed over as it came. *)
Theorem unknown_length_not_decrypted_refuted :
  forall aes_ok E D b64enc b64dec limit key wire resp,
  o_seen (crypt_handler false aes_ok E D b64enc b64dec limit key (-1) wire resp) = wire.
Proof. intros. apply unknown_length_passthrough; [reflexivity|lia]. Qed.
Print Assumptions unknown_length_not_decrypted_refuted.

(* With the repair it holds for every payload, exactly as for bodies with a length. *)
Theorem unknown_length_body_roundtrip : forall aes_ok (E D : Z -> list Z -> list Z) b64enc b64dec,
  (forall key b, length b = bsn -> D key (E key b) = b) ->
  (forall key b, length b = bsn -> length (E key b) = bsn) ->
  (forall x, b64dec (b64enc x) = Some x) ->
  (forall x, x <> [] -> b64enc x <> []) ->
  forall limit key p c resp,
  aes_ok key = true -> ecb_encrypt aes_ok E key p = Ok c ->
  (limit <= 0 \/ len (b64enc c) <= limit) ->
  crypt_handler true aes_ok E D b64enc b64dec limit key (-1) (b64enc c) resp
    = mkHout true 200 p (flush aes_ok E b64enc key resp) false.
Proof.
  intros aes_ok E D b64enc b64dec DE Elen B1 B2 limit key p c resp K Ec Hl.
  apply (body_roundtrip_unknown_length aes_ok E D b64enc b64dec DE Elen B1 B2 true limit key p c resp eq_refl K Ec Hl).
Qed.
Print Assumptions unknown_length_body_roundtrip.

(* non-vacuity: a concrete block permutation (reverse the block), identity base64: the
   hypotheses of [body_roundtrip] hold and a 17-byte payload round-trips through two blocks *)
Example ex_block_perm :
  (forall (key : Z) (b : list Z), length b = bsn -> rev (rev b) = b) /\
  (forall (key : Z) (b : list Z), length b = bsn -> length (rev b) = bsn) /\
  ecb_decrypt (fun _ => true) (fun _ b => rev b) 0
     (crypt_blocks (fun b => rev b) (pad [1;2;3;4;5;6;7;8;9;10;11;12;13;14;15;16;17]))
  = Ok [1;2;3;4;5;6;7;8;9;10;11;12;13;14;15;16;17] /\
  len (pad [1;2;3;4;5;6;7;8;9;10;11;12;13;14;15;16;17]) = 32 /\
  unpad (pad []) = Ok [] /\ unpad (pad [16;16;16;16;16;16;16;16;16;16;16;16;16;16;16;16]) =
                            Ok [16;16;16;16;16;16;16;16;16;16;16;16;16;16;16;16].
Proof.
  split; [intros; apply rev_involutive|]. split; [intros; rewrite rev_length; assumption|].
  vm_compute. repeat split; reflexivity.
Qed.
