(* C18 — proofs about the JWT gate and the content-security gate. *)
From Coq Require Import List ZArith Bool Lia.
From GZ Require Import C18.Model.
Import ListNotations.
Open Scope Z_scope.

(* ------------------------------------------------------------------------- *)
(* time claims                                                                *)

Definition TimeValid (now : Z) (t : token) : Prop :=
  (forall e, time_claim k_exp t = TNum e -> now < e) /\ time_claim k_exp t <> TBad /\
  (forall i, time_claim k_iat t = TNum i -> i <= now) /\ time_claim k_iat t <> TBad /\
  (forall n, time_claim k_nbf t = TNum n -> n <= now) /\ time_claim k_nbf t <> TBad.

Lemma time_ok_spec : forall now t, time_ok now t = true <-> TimeValid now t.
Proof.
  intros now t. unfold time_ok, TimeValid, exp_ok, iat_ok, nbf_ok.
  rewrite !andb_true_iff.
  destruct (time_claim k_exp t) as [|e|]; destruct (time_claim k_iat t) as [|i|];
    destruct (time_claim k_nbf t) as [|n|];
    rewrite ?Z.ltb_lt, ?Z.leb_le; split; intros H;
    repeat match goal with
           | H : _ /\ _ |- _ => destruct H
           end;
    try discriminate; try congruence;
    repeat split; try congruence; try discriminate;
    try (intros ? E; inversion E; subst; assumption);
    try (match goal with H : forall _, TNum ?x = TNum _ -> _ |- _ => apply (H x eq_refl) end).
Qed.

(* ------------------------------------------------------------------------- *)
(* JWT gate                                                                   *)

Section JWT.
  Variable mac : alg -> Z -> Z -> Z.

  Definition Signed (s : Z) (t : token) : Prop := tsig t = Some (mac (talg t) s (tinput t)).

  (* the credential the property talks about *)
  Definition Valid (c : jcfg) (now : Z) (t : token) : Prop :=
    is_hs (talg t) = true /\ (exists s, In s (secrets c) /\ Signed s t) /\ TimeValid now t.

  Lemma sig_ok_spec : forall k t, sig_ok mac k t = true <-> is_hs (talg t) = true /\ Signed k t.
  Proof.
    intros k t. unfold sig_ok, Signed. rewrite andb_true_iff.
    destruct (tsig t) as [s|].
    - rewrite Z.eqb_eq. split; intros [A B]; split; auto; congruence.
    - split; intros [A B]; discriminate.
  Qed.

  Lemma parse1_spec : forall now k t,
    parse1 mac now k t = true <-> is_hs (talg t) = true /\ Signed k t /\ TimeValid now t.
  Proof.
    intros. unfold parse1. rewrite andb_true_iff, sig_ok_spec, time_ok_spec. tauto.
  Qed.

  Lemma try_two : forall rs (h : history) now t a b,
    snd (if parse1 mac now a t then (count_hit rs a h, true)
         else if parse1 mac now b t then (count_hit rs b h, true) else (h, false))
    = parse1 mac now a t || parse1 mac now b t.
  Proof. intros. destruct (parse1 mac now a t); destruct (parse1 mac now b t); reflexivity. Qed.

  Lemma parse_token_bool : forall rs h c now t,
    snd (parse_token mac rs h c now t) =
    match jprev c with
    | Some p => parse1 mac now (jsecret c) t || parse1 mac now p t
    | None => parse1 mac now (jsecret c) t
    end.
  Proof.
    intros. unfold parse_token. destruct (jprev c) as [p|]; [|reflexivity].
    destruct (load_count h (jsecret c) >? load_count h p); cbv iota beta; rewrite try_two; auto.
    apply orb_comm.
  Qed.

  Lemma parse_token_spec : forall rs h c now t,
    snd (parse_token mac rs h c now t) = true <-> Valid c now t.
  Proof.
    intros rs h c now t. rewrite parse_token_bool. unfold Valid, secrets.
    destruct (jprev c) as [p|].
    - rewrite orb_true_iff, !parse1_spec. split.
      + intros [(A & B & C)|(A & B & C)]; (split; [exact A|split; [|exact C]]).
        * exists (jsecret c). split; auto. left; auto.
        * exists p. split; auto. right; left; auto.
      + intros (A & (s & Hin & S) & C). destruct Hin as [<-|[<-|[]]]; auto.
    - rewrite parse1_spec. split.
      + intros (A & B & C). split; [exact A|split; [|exact C]]. exists (jsecret c). split; auto. left; auto.
      + intros (A & (s & Hin & S) & C). destruct Hin as [<-|[]]. auto.
  Qed.

  (* the decision never depends on the hit counters *)
  Lemma parse_token_history_irrelevant : forall rs rs' h h' c now t,
    snd (parse_token mac rs h c now t) = snd (parse_token mac rs' h' c now t).
  Proof.
    intros. rewrite !parse_token_bool. reflexivity.
  Qed.

  Definition Accepts (c : jcfg) (now : Z) (cr : cred) : Prop :=
    exists t, cr = CToken t /\ Valid c now t.

  Lemma authorize_rs_ran : forall rs h c now cr,
    jran (snd (authorize_rs mac rs h c now cr)) = true <-> Accepts c now cr.
  Proof.
    intros rs h c now cr. unfold authorize_rs, Accepts. destruct cr as [| |t].
    - cbn. split; [discriminate|]. intros (t & E & _). discriminate.
    - cbn. split; [discriminate|]. intros (t & E & _). discriminate.
    - pose proof (parse_token_spec rs h c now t) as P.
      destruct (parse_token mac rs h c now t) as [h' ok]. cbn [snd] in P.
      destruct ok; cbn [snd jran unauthorized].
      + split; auto. intros _. exists t. split; auto. apply P; auto.
      + split; [discriminate|]. intros (t' & E & V). inversion E; subst t'.
        apply P in V. discriminate.
  Qed.

  Lemma authorize_ran : forall h c now cr,
    jran (snd (authorize mac h c now cr)) = true <-> Accepts c now cr.
  Proof. intros. apply authorize_rs_ran. Qed.

  Lemma authorize_rs_result : forall rs h c now cr,
    let r := snd (authorize_rs mac rs h c now cr) in
    (jran r = false -> r = unauthorized) /\
    (forall t, cr = CToken t -> jran r = true -> jstatus r = 200 /\ jctx r = deliver t).
  Proof.
    intros rs h c now cr. unfold authorize_rs. destruct cr as [| |t]; cbn.
    - split; auto. intros t E; discriminate.
    - split; auto. intros t E; discriminate.
    - destruct (parse_token mac rs h c now t) as [h' ok]. destruct ok; cbn.
      + split; [discriminate|]. intros t' E _. inversion E; subst. auto.
      + split; auto. intros t' _ D. discriminate.
  Qed.

  Lemma authorize_result : forall h c now cr,
    let r := snd (authorize mac h c now cr) in
    (jran r = false -> r = unauthorized) /\
    (forall t, cr = CToken t -> jran r = true -> jstatus r = 200 /\ jctx r = deliver t).
  Proof. intros. apply authorize_rs_result. Qed.

  (* per-request statement lifted to every sequence of requests through one middleware
     instance, from every state of the hit counters *)
  Definition ReqOk (c : jcfg) (rq : Z * cred) (r : jresult) : Prop :=
    (jran r = true <-> Accepts c (fst rq) (snd rq)) /\
    (jran r = false -> r = unauthorized) /\
    (forall t, snd rq = CToken t -> jran r = true -> jstatus r = 200 /\ jctx r = deliver t).

  Lemma run_jwt_ok : forall c reqs h, Forall2 (ReqOk c) reqs (run_jwt mac h c reqs).
  Proof.
    intros c reqs. induction reqs as [|[now cr] reqs IH]; intros h; cbn [run_jwt].
    - constructor.
    - pose proof (authorize_ran h c now cr) as A.
      pose proof (authorize_result h c now cr) as B.
      destruct (authorize mac h c now cr) as [h' r]. cbn [snd] in A, B.
      constructor; [|apply IH].
      unfold ReqOk. cbn [fst snd]. destruct B as [B1 B2]. auto.
  Qed.

  Lemma deliver_spec : forall t k v,
    In (k, v) (deliver t) <-> In (k, v) (tclaims t) /\ is_std k = false /\ v <> VNull.
  Proof.
    intros t k v. unfold deliver. rewrite filter_In. cbn [fst snd].
    rewrite andb_true_iff, !negb_true_iff. destruct v; cbn; intuition congruence.
  Qed.

  (* the whole answer of the gate (not only the decision) is the same from every counter state *)
  Lemma authorize_result_history_irrelevant : forall rs rs' h h' c now cr,
    snd (authorize_rs mac rs h c now cr) = snd (authorize_rs mac rs' h' c now cr).
  Proof.
    intros. unfold authorize_rs. destruct cr as [| |t]; try reflexivity.
    pose proof (parse_token_history_irrelevant rs rs' h h' c now t) as P.
    destruct (parse_token mac rs h c now t) as [h1 ok1]. destruct (parse_token mac rs' h' c now t) as [h2 ok2].
    cbn [snd] in P. subst ok2. destruct ok1; reflexivity.
  Qed.

  (* ---- the error ParseToken reports ------------------------------------- *)

  Lemma err1_zero : forall now k cr,
    err1 mac now k cr = 0 <-> exists t, cr = CToken t /\ parse1 mac now k t = true.
  Proof.
    intros now k cr. destruct cr as [| |t]; cbn [err1].
    - split; [discriminate|intros (t & X & _); discriminate].
    - split; [discriminate|intros (t & X & _); discriminate].
    - unfold parse1, time_ok.
      assert (G : (if sig_ok mac k t
                   then (if exp_ok now t then 0 else 16) + (if iat_ok now t then 0 else 32) + (if nbf_ok now t then 0 else 128)
                   else 4) = 0 <-> sig_ok mac k t && (exp_ok now t && iat_ok now t && nbf_ok now t) = true).
      { destruct (sig_ok mac k t), (exp_ok now t), (iat_ok now t), (nbf_ok now t); cbn; split; (discriminate || reflexivity). }
      destruct (talg t) eqn:A;
        try (rewrite G; split; [intros X; exists t; split; [reflexivity|exact X]|intros (t' & X & Y); inversion X; subst t'; exact Y]).
      split; [discriminate|]. intros (t' & X & Y). inversion X; subst t'.
      unfold sig_ok in Y. rewrite A in Y. cbn in Y. discriminate.
  Qed.

  (* no error is reported exactly for the accepted credentials, whatever the counters *)
  Lemma parse_err_zero : forall h c now cr,
    parse_err mac h c now cr = 0 <-> Accepts c now cr.
  Proof.
    intros h c now cr. unfold parse_err, Accepts.
    assert (V : forall t, Valid c now t <->
                match jprev c with
                | Some p => parse1 mac now (jsecret c) t = true \/ parse1 mac now p t = true
                | None => parse1 mac now (jsecret c) t = true
                end).
    { intros t. rewrite <- (parse_token_spec false []), parse_token_bool.
      destruct (jprev c); [apply orb_true_iff|reflexivity]. }
    destruct (jprev c) as [p|].
    - assert (X : forall a b, (if err1 mac now a cr =? 0 then 0 else err1 mac now b cr) = 0 <->
                  exists t, cr = CToken t /\ (parse1 mac now a t = true \/ parse1 mac now b t = true)).
      { intros a b. destruct (err1 mac now a cr =? 0) eqn:Z0.
        - apply Z.eqb_eq in Z0. apply err1_zero in Z0. destruct Z0 as (t & E1 & P1).
          split; [intros _; exists t; auto|reflexivity].
        - apply Z.eqb_neq in Z0. rewrite err1_zero. split.
          + intros (t & E1 & P1). exists t. auto.
          + intros (t & E1 & [P1|P1]); [|exists t; auto].
            exfalso. apply Z0. apply err1_zero. exists t. auto. }
      destruct (load_count h (jsecret c) >? load_count h p); cbv iota beta; rewrite X.
      + split; intros (t & E1 & P1); exists t; (split; [exact E1|]); apply V; exact P1 || (apply V in P1; exact P1).
      + split; intros (t & E1 & P1); exists t; (split; [exact E1|]).
        * apply V. tauto.
        * apply V in P1. tauto.
    - rewrite err1_zero. split; intros (t & E1 & P1); exists t; (split; [exact E1|]); apply V; exact P1 || (apply V in P1; exact P1).
  Qed.

  (* the token parser driven directly, every call with its own secrets, over any sequence of
     calls, with or without the history reset: a token is returned exactly for the calls whose
     credential is valid under the secrets of THAT call *)
  Lemma run_parser_ok : forall rs calls h,
    Forall2 (fun cl e => e = 0 <-> Accepts (fst (fst cl)) (snd (fst cl)) (snd cl)) calls (run_parser mac rs h calls).
  Proof.
    intros rs calls. induction calls as [|[[c now] cr] calls IH]; intros h; cbn [run_parser].
    - constructor.
    - constructor; [cbn [fst snd]; apply parse_err_zero|apply IH].
  Qed.

  Lemma run_jwt_err_ok : forall c reqs h,
    Forall2 (fun rq re => (snd re = 0 <-> jran (fst re) = true) /\ ReqOk c rq (fst re)) reqs (run_jwt_err mac h c reqs).
  Proof.
    intros c reqs. induction reqs as [|[now cr] reqs IH]; intros h; cbn [run_jwt_err].
    - constructor.
    - pose proof (authorize_ran h c now cr) as A.
      pose proof (authorize_result h c now cr) as B.
      pose proof (parse_err_zero h c now cr) as P.
      destruct (authorize mac h c now cr) as [h' r]. cbn [snd] in A, B.
      constructor; [|apply IH]. cbn [fst snd]. split; [rewrite P, A; reflexivity|].
      unfold ReqOk. cbn [fst snd]. destruct B as [B1 B2]. auto.
  Qed.

  (* ---- single-field mutations ------------------------------------------- *)

  (* the explicit no-collision hypothesis: mac is injective on a set of (alg, key, input) *)
  Definition mac_injective_on (P : alg -> Z -> Z -> Prop) : Prop :=
    forall a k i a' k' i', P a k i -> P a' k' i' -> mac a k i = mac a' k' i' -> a = a' /\ k = k' /\ i = i'.

  Lemma rejected_iff : forall h c now cr,
    jran (snd (authorize mac h c now cr)) = false <-> ~ Accepts c now cr.
  Proof.
    intros. rewrite <- authorize_ran with (h := h).
    destruct (jran (snd (authorize mac h c now cr))); split; congruence.
  Qed.

  (* header or payload bytes changed (this includes swapping alg between HS methods and
     rewriting claims), signature kept *)
  Lemma tampered_input_rejected : forall h c now t s t',
    In s (secrets c) -> Signed s t ->
    tinput t' <> tinput t -> tsig t' = tsig t ->
    mac_injective_on (fun a k i => (a = talg t /\ k = s /\ i = tinput t) \/
                                   (a = talg t' /\ In k (secrets c) /\ i = tinput t')) ->
    jran (snd (authorize mac h c now (CToken t'))) = false.
  Proof.
    intros h c now t s t' Hs Sg Hin Hsig Inj. apply rejected_iff.
    intros (t0 & E & (A & (s' & Hs' & Sg') & C)). inversion E; subst t0.
    unfold Signed in *. rewrite Hsig, Sg in Sg'. inversion Sg' as [M].
    assert (X : talg t = talg t' /\ s = s' /\ tinput t = tinput t').
    { apply Inj; auto. }
    destruct X as (_ & _ & I). congruence.
  Qed.

  (* signed with a secret that is not configured *)
  Lemma wrong_secret_rejected : forall h c now t' s'',
    ~ In s'' (secrets c) -> Signed s'' t' ->
    mac_injective_on (fun a k i => a = talg t' /\ i = tinput t' /\ (k = s'' \/ In k (secrets c))) ->
    jran (snd (authorize mac h c now (CToken t'))) = false.
  Proof.
    intros h c now t' s'' Hn Sg Inj. apply rejected_iff.
    intros (t0 & E & (A & (s' & Hs' & Sg') & C)). inversion E; subst t0.
    unfold Signed in *. rewrite Sg in Sg'. inversion Sg' as [M].
    assert (X : talg t' = talg t' /\ s'' = s' /\ tinput t' = tinput t').
    { apply Inj; auto. }
    destruct X as (_ & K & _). congruence.
  Qed.

  (* any signature value that is not the mac under a configured secret *)
  Lemma forged_signature_rejected : forall h c now t',
    (forall s g, In s (secrets c) -> tsig t' = Some g -> g <> mac (talg t') s (tinput t')) ->
    jran (snd (authorize mac h c now (CToken t'))) = false.
  Proof.
    intros h c now t' F. apply rejected_iff.
    intros (t0 & E & (A & (s' & Hs' & Sg') & C)). inversion E; subst t0.
    unfold Signed in Sg'. eapply F; eauto.
  Qed.

  (* alg none, RS256/ES256/PS256/EdDSA, unknown or missing alg: whatever the signature *)
  Lemma non_hmac_alg_rejected : forall h c now t',
    is_hs (talg t') = false -> jran (snd (authorize mac h c now (CToken t'))) = false.
  Proof.
    intros h c now t' F. apply rejected_iff.
    intros (t0 & E & (A & _)). inversion E; subst t0. congruence.
  Qed.

  Lemma time_invalid_rejected : forall h c now t',
    ~ TimeValid now t' -> jran (snd (authorize mac h c now (CToken t'))) = false.
  Proof.
    intros h c now t' F. apply rejected_iff.
    intros (t0 & E & (_ & _ & C)). inversion E; subst t0. auto.
  Qed.

  Lemma expired_rejected : forall h c now t' e,
    time_claim k_exp t' = TNum e -> e <= now ->
    jran (snd (authorize mac h c now (CToken t'))) = false.
  Proof.
    intros h c now t' e E L. apply time_invalid_rejected. intros (X & _). specialize (X e E). lia.
  Qed.

  Lemma not_yet_valid_rejected : forall h c now t' n,
    (time_claim k_nbf t' = TNum n \/ time_claim k_iat t' = TNum n) -> now < n ->
    jran (snd (authorize mac h c now (CToken t'))) = false.
  Proof.
    intros h c now t' n [E|E] L; apply time_invalid_rejected.
    - intros (_ & _ & _ & _ & X & _). specialize (X n E). lia.
    - intros (_ & _ & X & _). specialize (X n E). lia.
  Qed.

  (* the classes of single-field mutations of a token [t] validly signed with secret [s] *)
  Inductive mutant (c : jcfg) (now : Z) (s : Z) (t : token) : cred -> Prop :=
  | MutInput : forall t', tinput t' <> tinput t -> tsig t' = tsig t ->
      mac_injective_on (fun a k i => (a = talg t /\ k = s /\ i = tinput t) \/
                                     (a = talg t' /\ In k (secrets c) /\ i = tinput t')) ->
      mutant c now s t (CToken t')
  | MutSecret : forall t' s'', ~ In s'' (secrets c) -> Signed s'' t' ->
      mac_injective_on (fun a k i => a = talg t' /\ i = tinput t' /\ (k = s'' \/ In k (secrets c))) ->
      mutant c now s t (CToken t')
  | MutSignature : forall t',
      (forall s' g, In s' (secrets c) -> tsig t' = Some g -> g <> mac (talg t') s' (tinput t')) ->
      mutant c now s t (CToken t')
  | MutAlg : forall t', is_hs (talg t') = false -> mutant c now s t (CToken t')
  | MutTime : forall t', ~ TimeValid now t' -> mutant c now s t (CToken t')
  | MutMalformed : mutant c now s t CMalformed
  | MutMissing : mutant c now s t CMissing.

  Lemma mutant_rejected : forall h c now s t cr,
    In s (secrets c) -> Signed s t ->
    mutant c now s t cr ->
    snd (authorize mac h c now cr) = unauthorized.
  Proof.
    intros h c now s t cr Hs Sg M.
    apply (proj1 (authorize_result h c now cr)).
    destruct M.
    - eapply tampered_input_rejected; eauto.
    - eapply wrong_secret_rejected; eauto.
    - apply forged_signature_rejected; auto.
    - apply non_hmac_alg_rejected; auto.
    - apply time_invalid_rejected; auto.
    - reflexivity.
    - reflexivity.
  Qed.
End JWT.

(* ------------------------------------------------------------------------- *)
(* Content security gate                                                      *)

Lemma memz_In : forall k l, memz k l = true <-> In k l.
Proof.
  intros k l. unfold memz. rewrite existsb_exists. split.
  - intros (x & I & E). apply Z.eqb_eq in E. subst. auto.
  - intros I. exists k. split; auto. apply Z.eqb_refl.
Qed.

Section CS.
  Variable ulfix : bool.
  Variable rsa_dec : Z -> Z -> option cs_secret.
  Variable cmac : Z -> content -> Z.
  Variable sha : list Z -> Z.
  Variable aes_ok : Z -> bool.
  Variable E D : Z -> list Z -> list Z.
  Variable b64enc : list Z -> list Z.
  Variable b64dec : list Z -> option (list Z).

  (* "the signature covers exactly timestamp (within tolerance), method, path, query and
     body digest under a secret encrypted to a configured key", for path/query [pq] *)
  Definition SignedRequest (decs : list (Z * Z)) (tol now : Z) (r : cs_req) (pq : Z * Z) : Prop :=
    exists fp kid sc sg sec key ct ts,
      h_fp (r_hdr r) = Some fp /\ find_key fp decs = Some kid /\
      h_secret (r_hdr r) = Some sc /\ h_sig (r_hdr r) = Some sg /\
      rsa_dec kid sc = Some sec /\ sk_key sec = Some key /\ sk_ctype sec = Some ct /\
      sk_tsval sec = Some ts /\ now - tol <= ts <= now + tol /\
      sg = cmac key (sk_tsid sec, r_method r, fst pq, snd pq, sha (r_body r)).

  Lemma gate_pass_spec : forall strict decs tol now r,
    checked (r_method r) = true ->
    (snd (cs_gate ulfix rsa_dec cmac sha strict decs tol now r) = None <->
     SignedRequest decs tol now r (path_query r)).
  Proof.
    intros strict decs tol now r Hc. unfold cs_gate, SignedRequest. rewrite Hc.
    unfold parse_cs.
    destruct (h_fp (r_hdr r)) as [fp|];
      [|cbn; split; [discriminate|intros (?&?&?&?&?&?&?&?&X&_); discriminate]].
    destruct (h_secret (r_hdr r)) as [sc|];
      [|cbn; split; [discriminate|intros (?&?&?&?&?&?&?&?&_&_&X&_); discriminate]].
    destruct (h_sig (r_hdr r)) as [sg|];
      [|cbn; split; [discriminate|intros (?&?&?&?&?&?&?&?&_&_&_&X&_); discriminate]].
    destruct (find_key fp decs) as [kid|] eqn:M.
    2:{ cbn. split; [discriminate|]. intros (fp'&?&?&?&?&?&?&?&X&I&_). inversion X; subst fp'.
        congruence. }
    destruct (rsa_dec kid sc) as [sec|] eqn:R.
    2:{ cbn. split; [discriminate|]. intros (fp'&kid'&sc'&?&?&?&?&?&X&I&Y&_&Z0&_).
        inversion X; inversion Y; subst. rewrite M in I. inversion I; subst. congruence. }
    assert (Same : forall fp' kid' sc' sec', Some fp = Some fp' -> find_key fp' decs = Some kid' ->
                     Some sc = Some sc' -> rsa_dec kid' sc' = Some sec' -> sec' = sec).
    { intros fp' kid' sc' sec' X I Y Z0. inversion X; inversion Y; subst.
      rewrite M in I. inversion I; subst. rewrite R in Z0. inversion Z0; auto. }
    destruct (sk_key sec) as [key|] eqn:K.
    2:{ cbn. split; [discriminate|]. intros (fp'&kid'&sc'&?&sec'&?&?&?&X&I&Y&_&Z0&K'&_).
        rewrite (Same _ _ _ _ X I Y Z0) in K'. congruence. }
    destruct (sk_ctype sec) as [ct|] eqn:C.
    2:{ cbn. split; [discriminate|]. intros (fp'&kid'&sc'&?&sec'&?&?&?&X&I&Y&_&Z0&_&C'&_).
        rewrite (Same _ _ _ _ X I Y Z0) in C'. congruence. }
    unfold verify.
    destruct (sk_tsval sec) as [ts|] eqn:T.
    2:{ cbn. split; [discriminate|]. intros (fp'&kid'&sc'&?&sec'&?&?&?&X&I&Y&_&Z0&_&_&T'&_).
        rewrite (Same _ _ _ _ X I Y Z0) in T'. congruence. }
    destruct ((ts + tol <? now) || (now + tol <? ts)) eqn:W.
    { cbn. split; [discriminate|]. intros (fp'&kid'&sc'&?&sec'&?&?&ts'&X&I&Y&_&Z0&_&_&T'&B&_).
      rewrite (Same _ _ _ _ X I Y Z0) in T'. rewrite T in T'. inversion T'; subst.
      apply orb_true_iff in W. rewrite !Z.ltb_lt in W. lia. }
    apply orb_false_iff in W. rewrite !Z.ltb_ge in W.
    destruct (sg =? cmac key (sign_content sha sec r)) eqn:S.
    - cbn. split; auto. intros _. apply Z.eqb_eq in S.
      exists fp, kid, sc, sg, sec, key, ct, ts. repeat split; auto; lia.
    - cbn. split; [discriminate|].
      intros (fp'&kid'&sc'&sg'&sec'&key'&?&ts'&X&I&Y&Y2&Z0&K'&_&T'&B&S').
      apply Z.eqb_neq in S.
      rewrite (Same _ _ _ _ X I Y Z0) in *. injection Y2 as <-.
      rewrite K in K'. injection K' as <-.
      exfalso. apply S. exact S'.
  Qed.

  Lemma gate_action_spec : forall strict decs tol now r,
    fst (cs_gate ulfix rsa_dec cmac sha strict decs tol now r) = ActReject ->
    strict = true /\ checked (r_method r) = true /\
    snd (cs_gate ulfix rsa_dec cmac sha strict decs tol now r) <> None.
  Proof.
    intros strict decs tol now r. unfold cs_gate, on_failure.
    destruct (checked (r_method r)); [|discriminate].
    destruct (parse_cs rsa_dec decs r) as [[[[key sec] ct] sg]|].
    - destruct (verify cmac sha now tol r key sec sg); cbn.
      + destruct ((if ulfix then negb (r_clen r =? 0) else 0 <? r_clen r) && (ct =? 1)); discriminate.
      + destruct strict; [|discriminate]. intros _. repeat split; auto; discriminate.
      + destruct strict; [|discriminate]. intros _. repeat split; auto; discriminate.
      + destruct strict; [|discriminate]. intros _. repeat split; auto; discriminate.
    - cbn. destruct strict; [|discriminate]. intros _. repeat split; auto; discriminate.
  Qed.

  Lemma strict_failure_rejects : forall decs tol now r,
    checked (r_method r) = true ->
    snd (cs_gate ulfix rsa_dec cmac sha true decs tol now r) <> None ->
    fst (cs_gate ulfix rsa_dec cmac sha true decs tol now r) = ActReject.
  Proof.
    intros decs tol now r Hc. unfold cs_gate, on_failure. rewrite Hc.
    destruct (parse_cs rsa_dec decs r) as [[[[key sec] ct] sg]|]; cbn; auto.
    destruct (verify cmac sha now tol r key sec sg); cbn; auto.
    intros X. exfalso. apply X. reflexivity.
  Qed.

  Notation handler := (cs_handler ulfix rsa_dec cmac sha aes_ok E D b64enc b64dec).

  Lemma strict_ran_signed : forall decs tol now limit r resp,
    checked (r_method r) = true ->
    o_ran (handler true decs tol now limit r resp) = true ->
    SignedRequest decs tol now r (path_query r).
  Proof.
    intros decs tol now limit r resp Hc Hr.
    apply (gate_pass_spec true); auto.
    destruct (snd (cs_gate ulfix rsa_dec cmac sha true decs tol now r)) eqn:G; auto.
    assert (F : fst (cs_gate ulfix rsa_dec cmac sha true decs tol now r) = ActReject).
    { apply strict_failure_rejects; auto. congruence. }
    unfold cs_handler in Hr. rewrite F in Hr. cbn in Hr. discriminate.
  Qed.

  Lemma strict_unsigned_403 : forall decs tol now limit r resp,
    checked (r_method r) = true ->
    ~ SignedRequest decs tol now r (path_query r) ->
    handler true decs tol now limit r resp = mkHout false 403 [] [] false.
  Proof.
    intros decs tol now limit r resp Hc Hn.
    assert (F : fst (cs_gate ulfix rsa_dec cmac sha true decs tol now r) = ActReject).
    { apply strict_failure_rejects; auto. intros G. apply Hn. apply (gate_pass_spec true); auto. }
    unfold cs_handler. rewrite F. reflexivity.
  Qed.

  (* a request that differs from a signed one in method, path, query or body digest (same
     header, so same secret, timestamp and signature) is rejected unless the MAC collides *)
  Definition cmac_injective_for (key : Z) (c1 c2 : content) : Prop :=
    cmac key c1 = cmac key c2 -> c1 = c2.

  Lemma signed_mutation_rejected : forall decs tol now limit r r' resp,
    checked (r_method r) = true -> checked (r_method r') = true ->
    r_xuri r = None -> r_xuri r' = None ->
    SignedRequest decs tol now r (r_path r, r_query r) ->
    r_hdr r' = r_hdr r ->
    (r_method r', r_path r', r_query r', sha (r_body r')) <> (r_method r, r_path r, r_query r, sha (r_body r)) ->
    (forall key tsid, cmac_injective_for key
        (tsid, r_method r, r_path r, r_query r, sha (r_body r))
        (tsid, r_method r', r_path r', r_query r', sha (r_body r'))) ->
    handler true decs tol now limit r' resp = mkHout false 403 [] [] false.
  Proof.
    intros decs tol now limit r r' resp Hc Hc' Hx Hx' S Hh Hd Inj.
    apply strict_unsigned_403; auto.
    unfold path_query. rewrite Hx'. cbn [fst snd].
    intros (fp'&kid'&sc'&sg'&sec'&key'&ct'&ts'&A1&A2&A3&A4&A5&A6&A7&A8&A9&A10).
    destruct S as (fp&kid&sc&sg&sec&key&ct&ts&B1&B2&B3&B4&B5&B6&B7&B8&B9&B10).
    cbn [fst snd] in B10, A10.
    rewrite Hh in A1, A3, A4. rewrite B1 in A1. rewrite B3 in A3. rewrite B4 in A4.
    injection A1 as <-. injection A3 as <-. injection A4 as A4.
    rewrite B2 in A2. injection A2 as <-.
    rewrite B5 in A5. injection A5 as <-. rewrite B6 in A6. injection A6 as <-.
    rewrite <- A4, B10 in A10. apply Inj in A10. inversion A10. apply Hd. congruence.
  Qed.

  (* F9: methods outside DELETE/GET/POST/PUT are never verified *)
  Lemma other_methods_bypass : forall strict decs tol now limit r resp,
    checked (r_method r) = false ->
    handler strict decs tol now limit r resp = mkHout true 200 (r_body r) resp false.
  Proof.
    intros. unfold cs_handler, cs_gate. rewrite H. reflexivity.
  Qed.

  (* non-strict mode never blocks (by design) *)
  Lemma nonstrict_never_rejects : forall decs tol now r,
    fst (cs_gate ulfix rsa_dec cmac sha false decs tol now r) <> ActReject.
  Proof.
    intros decs tol now r F. apply gate_action_spec in F. destruct F as [F _]. discriminate.
  Qed.
End CS.
