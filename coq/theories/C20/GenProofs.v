(* C20 — obligations on the tables regenerated on every run from the COMPILED token and scanner
   packages of the tree under test (coq/gen/C20Consts.v, tools/c20consts.py, executor `c20 -tables`):
   today's token.go / scanner.go are the ones Model.v and Scanner.v are written for.

     token.go    every named token type is a lexical class of the model (or one of the types the
                 scanner never produces), and every class of the model exists over there under the
                 name the executor reports; LookupKeyword = the model parser's keyword table, on
                 every type name and on a vocabulary of words; HttpMethods / IsHttpMethod = the model's
                 method table; the keyword texts the parser compares identifiers with.
     scanner.go  the model scanner returns the same tokens (kind, text, line bit), the same comments
                 and the same error flag as scanner.go on every enumerated probe: all 1-character texts,
                 "a<c>b" for every ASCII character c, all 2-character texts over one representative of every
                 lexical class, all 3-character texts over a smaller alphabet, a list of words
                 (valid UTF-8 texts: scanner.go replaces invalid UTF-8 by U+FFFD before it scans).

   A changed keyword, method, token text, operator, white-space character or scanner rule breaks
   one of these proofs (all by computation on today's tables). *)
From Coq Require Import List String Ascii Bool Arith.
From GZ Require Import C20.Model C20.Scanner C20.Check.
From GZgen Require Import C20Consts.
Import ListNotations.
Open Scope string_scope.
Open Scope list_scope.

(* ---- token types: Type.String() of the type a lexical class of the model stands for ... *)
Definition type_text (k : kind) : string :=
  match k with
  | KIdent => "IDENT" | KInt => "INT" | KDur => "DURATION" | KStr => "STRING" | KRaw => "RAW_STRING"
  | KSub => "-" | KMul => "*" | KQuo => "/" | KAssign => "="
  | KLParen => "(" | KLBrack => "[" | KLBrace => "{" | KComma => "," | KDot => "."
  | KRParen => ")" | KRBrace => "}" | KRBrack => "]" | KSemi => ";" | KColon => ":" | KEllipsis => "..."
  | KAtDoc => "@doc" | KAtHandler => "@handler" | KAtServer => "@server" | KAny => "interface{}"
  | KIllegal => "ILLEGAL"
  end.
(* ... and the name under which the executor reports it (harness/goctlh/cmd/c20 kind(): the name of
   the Go constant for literals, @-keywords and interface{}; Type.String() for operators) *)
Definition kind_name (k : kind) : string :=
  match k with
  | KAtDoc => "AT_DOC" | KAtHandler => "AT_HANDLER" | KAtServer => "AT_SERVER" | KAny => "ANY"
  | _ => type_text k
  end.

Definition all_kinds : list kind :=
  [KIdent; KInt; KDur; KStr; KRaw; KSub; KMul; KQuo; KAssign; KLParen; KLBrack; KLBrace; KComma; KDot;
   KRParen; KRBrace; KRBrack; KSemi; KColon; KEllipsis; KAtDoc; KAtHandler; KAtServer; KAny; KIllegal].

Lemma all_kinds_complete : forall k, In k all_kinds.
Proof. destruct k; cbn; tauto. Qed.

Definition kind_of_name (n : string) : option kind :=
  find (fun k => String.eqb (kind_name k) n) all_kinds.
Definition kind_of_type (n : string) : option kind :=
  find (fun k => String.eqb (type_text k) n) all_kinds.

Lemma kind_of_name_inverse : forall k, kind_of_name (kind_name k) = Some k /\ kind_of_type (type_text k) = Some k.
Proof. destruct k; split; reflexivity. Qed.

(* token types the scanner never hands to the parser as such: end of input, the two comment
   types (projected away), PATH (made by the parser), and the Go keywords (LookupKeyword only) *)
Definition non_scanner_type (n : string) : bool :=
  mem n ["EOF"; "COMMENT"; "DOCUMENT"; "PATH"] || mem n go_keywords.

(* every named type of token.go is a class of the model or one of those; every class of the model is a
   named type of token.go; no name stands for two types *)
Lemma gen_types_ok :
  forallb (fun n => match kind_of_type n with Some _ => negb (non_scanner_type n) | None => non_scanner_type n end) gen_types = true
  /\ forallb (fun k => mem (type_text k) gen_types) all_kinds = true
  /\ NoDup gen_types.
Proof.
  split; [vm_compute; reflexivity|split; [vm_compute; reflexivity|]].
  unfold gen_types. repeat (constructor; [cbn; intuition discriminate|]). constructor.
Qed.

(* the text of an operator / @-keyword / interface{} type IS its name: the model scanner reads
   exactly one token of that class off it *)
Definition fixed_text_kinds : list kind :=
  [KSub; KMul; KQuo; KAssign; KLParen; KLBrack; KLBrace; KComma; KDot; KRParen; KRBrace; KRBrack; KSemi; KColon;
   KEllipsis; KAtDoc; KAtHandler; KAtServer; KAny].
Lemma gen_type_texts_scan :
  forallb (fun k => match scan (type_text k) with
                    | ([t], [], true) => kind_eqb (tk t) k && String.eqb (tx t) (type_text k)
                    | _ => false
                    end) fixed_text_kinds = true.
Proof. vm_compute. reflexivity. Qed.

(* ---- LookupKeyword = the keyword check of the model parser: on every type name, every HTTP method
   and a vocabulary of words; every keyword of the model is found over there, under its own name *)
Lemma gen_keywords_ok :
  forallb (fun w : string * bool * string * bool =>
             let '(word, kw, tname, _) := w in
             Bool.eqb (is_keyword word) kw && (if kw then String.eqb tname word else String.eqb tname "")) gen_words = true
  /\ forallb (fun k => existsb (fun w : string * bool * string * bool =>
                                  let '(word, kw, _, _) := w in String.eqb word k && kw) gen_words) go_keywords = true.
Proof. vm_compute. split; reflexivity. Qed.

(* token.HttpMethods (what advanceIfPeekTokenIs(token.HttpMethods...) compares texts with) and IsHttpMethod *)
Lemma gen_http_methods_ok :
  gen_http_methods = http_methods
  /\ forallb (fun w : string * bool * string * bool =>
                let '(word, _, _, h) := w in Bool.eqb (mem word http_methods) h) gen_words = true.
Proof. vm_compute. split; reflexivity. Qed.

(* the texts the parser compares identifiers with *)
Lemma gen_keyword_texts_ok :
  (gen_kw_Syntax, gen_kw_Info, gen_kw_Service, gen_kw_Returns, gen_kw_Any, gen_kw_TypeKeyword, gen_kw_MapKeyword,
   gen_kw_ImportKeyword) = ("syntax", "info", "service", "returns", "any", "type", "map", "import").
Proof. reflexivity. Qed.

(* the model parser really tests these texts: each of them opens its statement / is special *)
Lemma gen_keyword_texts_used :
  parse [tI gen_kw_Syntax; tP KAssign "="; tP KStr """v1"""] = Some [SSyntax """v1"""] /\
  parse [tI gen_kw_Info; tP KLParen "("; tP KRParen ")"] = Some [SInfo []] /\
  parse [tI gen_kw_ImportKeyword; tP KStr """a"""] = Some [SImport """a"""] /\
  parse [tI gen_kw_TypeKeyword; tI "T"; tI gen_kw_Any] = Some [SType ("T", false, DAny)] /\
  parse [tI gen_kw_TypeKeyword; tI "T"; tI gen_kw_MapKeyword; tP KLBrack "["; tI "K"; tP KRBrack "]"; tI "V"]
    = Some [SType ("T", false, DMap (DBase "K") (DBase "V"))] /\
  parse [tI gen_kw_Service; tI "s"; tP KLBrace "{"; tPn KAtHandler "@handler"; tI "h"; tIn "get"; tP KQuo "/";
         tI gen_kw_Returns; tP KLParen "("; tI "T"; tP KRParen ")"; tPn KRBrace "}"]
    = Some [SService None "s" false [Item None "h" (Route "get" (Path [] true) None (Some (Some (Body false false "T"))))]].
Proof. vm_compute. repeat split; reflexivity. Qed.

(* ---- scanner.go on the enumerated probes = the model scanner *)
Definition bytes_str (l : list nat) : string := string_of_list_ascii (map ascii_of_nat l).

Fixpoint probe_tokens (l : list (string * list nat * bool)) : option (list token) :=
  match l with
  | [] => Some []
  | (n, tx, nl) :: r =>
    match kind_of_name n, probe_tokens r with
    | Some k, Some ts => Some (T k (bytes_str tx) nl :: ts)
    | _, _ => None
    end
  end.

Definition probe_ok (p : list nat * bool * list (string * list nat * bool) * list (nat * list nat)) : bool :=
  let '(inp, ok, toks, cmts) := p in
  match probe_tokens toks with
  | Some ts => scan_agrees (Some (bytes_str inp)) ok ts (map (fun c : nat * list nat => (fst c, bytes_str (snd c))) cmts)
  | None => false
  end.

Lemma gen_scan_probes_ok : forallb probe_ok gen_scan_probes = true.
Proof. vm_compute. reflexivity. Qed.

(* the probes are not trivial: scanner errors, ILLEGAL tokens, comments, multi-token texts and
   line breaks are all among them *)
Lemma gen_scan_probes_nontrivial :
  (1000 <=? List.length gen_scan_probes)%nat = true
  /\ existsb (fun p : list nat * bool * list (string * list nat * bool) * list (nat * list nat) =>
                let '(_, ok, _, _) := p in negb ok) gen_scan_probes = true
  /\ existsb (fun p : list nat * bool * list (string * list nat * bool) * list (nat * list nat) =>
                let '(_, _, toks, _) := p in existsb (fun t : string * list nat * bool => String.eqb (fst (fst t)) "ILLEGAL") toks)
             gen_scan_probes = true
  /\ existsb (fun p : list nat * bool * list (string * list nat * bool) * list (nat * list nat) =>
                let '(_, _, toks, cmts) := p in (2 <=? List.length toks)%nat && (1 <=? List.length cmts)%nat
                                               && existsb (fun t : string * list nat * bool => snd t) toks)
             gen_scan_probes = true.
Proof. vm_compute. repeat split; reflexivity. Qed.
