(* C20 — obligations on the tables regenerated from token.go / scanner.go on every run
   (coq/gen/C20Consts.v, tools/c20consts.py): today's values are the ones Model.v and Scanner.v are
   written for.  A changed keyword, HTTP method, keyword text, one-character token or white-space
   character breaks one of these proofs. *)
From Coq Require Import List String Ascii Bool Arith.
From GZ Require Import C20.Model C20.Scanner.
From GZgen Require Import C20Consts.
Import ListNotations.
Open Scope string_scope.
Open Scope list_scope.

(* LookupKeyword's table = the keyword check of the model parser *)
Lemma gen_keywords_ok : gen_keywords = go_keywords.
Proof. reflexivity. Qed.

(* token.HttpMethods (what advanceIfPeekTokenIs(token.HttpMethods...) compares texts with) *)
Lemma gen_http_methods_ok : gen_http_methods = http_methods.
Proof. reflexivity. Qed.
Lemma gen_http_method_set_ok : forall m, mem m gen_http_method_set = mem m http_methods.
Proof.
  intros m. unfold mem, gen_http_method_set, http_methods. cbn [existsb].
  repeat match goal with |- context [String.eqb m ?x] => destruct (String.eqb m x) end; reflexivity.
Qed.

(* the texts the parser compares identifiers with *)
Lemma gen_keyword_texts_ok :
  (gen_kw_Syntax, gen_kw_Info, gen_kw_Service, gen_kw_Returns, gen_kw_Any, gen_kw_TypeKeyword, gen_kw_MapKeyword,
   gen_kw_ImportKeyword) = ("syntax", "info", "service", "returns", "any", "type", "map", "import").
Proof. reflexivity. Qed.

(* the model parser really tests these texts: each of them opens its statement / is special *)
Lemma gen_keyword_texts_used :
  parse [tI gen_kw_Syntax; tP KAssign "="; tP KStr """v1"""] = Some [SSyntax """v1"""] /\
  parse [tI gen_kw_Info; tP KLParen "("; tP KRParen ")"] = Some [SInfo []] /\
  parse [tI gen_kw_ImportKeyword; tP KStr """a"""] = Some [SImport """a"""] /\
  parse [tI gen_kw_TypeKeyword; tI "T"; tI gen_kw_Any] = Some [SType ("T", false, DAny)] /\
  parse [tI gen_kw_TypeKeyword; tI "T"; tI gen_kw_MapKeyword; tP KLBrack "["; tI "K"; tP KRBrack "]"; tI "V"]
    = Some [SType ("T", false, DMap (DBase "K") (DBase "V"))] /\
  parse [tI gen_kw_Service; tI "s"; tP KLBrace "{"; tPn KAtHandler "@handler"; tI "h"; tIn "get"; tP KQuo "/";
         tI gen_kw_Returns; tP KLParen "("; tI "T"; tP KRParen ")"; tPn KRBrace "}"]
    = Some [SService None "s" false [Item None "h" (Route "get" (Path [] true) None (Some (Some (Body false false "T"))))]].
Proof. vm_compute. repeat split; reflexivity. Qed.

(* token texts of the @-keywords and of interface{} = what the model scanner produces *)
Lemma gen_token_texts_ok :
  scan (gen_text_AT_DOC ++ " " ++ gen_text_AT_HANDLER ++ " " ++ gen_text_AT_SERVER ++ " " ++ gen_text_ANY)
  = ([tP KAtDoc "@doc"; tP KAtHandler "@handler"; tP KAtServer "@server"; tP KAny "interface{}"], [], true).
Proof. vm_compute. reflexivity. Qed.

Lemma gen_at_words_ok : gen_at_words = ["doc"; "handler"; "server"].
Proof. reflexivity. Qed.

(* the one-character tokens of NextToken *)
Definition kind_of_name (n : string) : option kind :=
  if String.eqb n "LPAREN" then Some KLParen else if String.eqb n "RPAREN" then Some KRParen
  else if String.eqb n "MUL" then Some KMul else if String.eqb n "COMMA" then Some KComma
  else if String.eqb n "SUB" then Some KSub else if String.eqb n "COLON" then Some KColon
  else if String.eqb n "SEMICOLON" then Some KSemi else if String.eqb n "ASSIGN" then Some KAssign
  else if String.eqb n "LBRACK" then Some KLBrack else if String.eqb n "RBRACK" then Some KRBrack
  else if String.eqb n "LBRACE" then Some KLBrace else if String.eqb n "RBRACE" then Some KRBrace
  else None.

Definition single_ok (p : string * string) : bool :=
  match kind_of_name (snd p), scan (fst p) with
  | Some k, ([t], [], true) => kind_eqb (tk t) k && String.eqb (tx t) (fst p)
  | _, _ => false
  end.

Lemma gen_single_char_tokens_ok :
  forallb single_ok gen_single_char_tokens = true /\ List.length gen_single_char_tokens = 12%nat.
Proof. vm_compute. split; reflexivity. Qed.

(* white space of skipWhiteSpace = is_ws of the model, exactly *)
Lemma gen_white_space_ok :
  forallb (fun n => Bool.eqb (is_ws (ascii_of_nat n)) (existsb (Nat.eqb n) gen_white_space)) (seq 0 256) = true.
Proof. vm_compute. reflexivity. Qed.

(* the characters that turn an integer into a duration *)
Lemma gen_duration_starts_ok : gen_duration_starts = ["n"; "µ"; "m"; "s"; "h"].
Proof. reflexivity. Qed.
