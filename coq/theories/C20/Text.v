(* C20 — executable model of the TEXT that format.Source writes (characters, not tokens): the
   layout decisions of the Format methods of tools/goctl/pkg/parser/api/ast (which tokens are glued,
   which are separated by a blank, where a line ends, the indentation prefix, the blank lines that
   AST.Format puts between statements, the cell separators handed to the tabwriter) and the column
   logic of text/tabwriter as ast.Writer configures it (minwidth 1, tabwidth 8, padding 1, pad
   character ' ', TabIndent), applied once per nested buffer (NewBufferWriter) as the code does.
   No proofs in this file.

   Scope (sub-language L0, decided by [l0] below): programs without comments whose type declarations
   are structs with struct-free members, no tab / line break inside a token, "info (" on one line.
   Outside L0 the layout depends on the line numbers of the source (ModeAuto in Writer.write) and on
   comments; there the formatted text is judged token by token and line bit by line bit (Check.v).

   Two oddities of the code are modelled as they are, because they are visible in the text:
   an anonymous member WITH a tag is written without its indentation (StructDataType.Format hands
   e.DataType instead of the prefixed node to the writer), which also widens the first column of the
   other members; an empty struct in a type group gets two blanks ("T  {}"). *)
From Coq Require Import List String Ascii Bool Arith.
From GZ Require Import C20.Model.
Import ListNotations.
Open Scope list_scope.

Definition tchars := list ascii.
Definition c_tab : ascii := "009"%char.
Definition c_nl : ascii := "010"%char.
Definition c_sp : ascii := " "%char.
Definition s2c (s : string) : tchars := list_ascii_of_string s.

Fixpoint split_on (c : ascii) (s : tchars) (cur : tchars) : list tchars :=
  match s with
  | [] => [rev cur]
  | x :: r => if Ascii.eqb x c then rev cur :: split_on c r [] else split_on c r (x :: cur)
  end.

Fixpoint join_with (c : ascii) (l : list tchars) : tchars :=
  match l with
  | [] => []
  | [x] => x
  | x :: r => x ++ c :: join_with c r
  end.

(* width of a cell: its number of runes (utf8.RuneCount): bytes that are not continuation bytes *)
Definition is_cont (c : ascii) : bool := let n := nat_of_ascii c in Nat.leb 128 n && Nat.ltb n 192.
Definition rw (s : tchars) : nat := List.length (filter (fun c => negb (is_cont c)) s).

(* ---- text/tabwriter.  A row = the cells of a line: all but the last are tab-terminated.  A column
   block = a maximal run of consecutive lines that have a terminated cell in that column; its width
   = the widest cell + padding (at least minwidth).  Leading empty cells are padded with tabs
   (TabIndent), other cells with blanks; the last cell of a line is written as it is. *)
Definition nterm (r : list tchars) : nat := pred (List.length r).

Fixpoint run_max (j : nat) (rows : list (list tchars)) : nat :=
  match rows with
  | r :: rest => if Nat.ltb j (nterm r) then Nat.max (S (rw (nth j r []))) (run_max j rest) else 1
  | [] => 1
  end.

Fixpoint tw_layout (prev : list nat) (rows : list (list tchars)) : list (list nat) :=
  match rows with
  | [] => []
  | r :: rest =>
    let ws := map (fun j => match nth_error prev j with Some w => w | None => run_max j rows end) (seq 0 (nterm r)) in
    ws :: tw_layout ws rest
  end.

Fixpoint render_cells (use_tabs : bool) (cells : list tchars) (ws : list nat) : tchars :=
  match cells with
  | [] => []
  | [t] => t
  | c :: more =>
    match ws with
    | w :: ws' =>
      match c with
      | [] => (if use_tabs then repeat c_tab ((w + 7) / 8) else repeat c_sp w) ++ render_cells use_tabs more ws'
      | _ => c ++ repeat c_sp (w - rw c) ++ render_cells false more ws'
      end
    | [] => c ++ render_cells false more []
    end
  end.

Fixpoint render_rows (rows : list (list tchars)) (ws : list (list nat)) : list tchars :=
  match rows, ws with
  | r :: rows', w :: ws' => render_cells true r w :: render_rows rows' ws'
  | _, _ => []
  end.

Definition tw (s : tchars) : tchars :=
  let rows := map (fun l => split_on c_tab l []) (split_on c_nl s []) in
  join_with c_nl (render_rows rows (tw_layout [] rows)).

(* ---- the Format methods *)
Definition cat (ts : list token) : tchars := flat_map (fun t => s2c (tx t)) ts.

Fixpoint has_struct (d : dtype) : bool :=
  match d with
  | DStruct _ => true
  | DArray _ d' | DSlice d' | DPtr d' => has_struct d'
  | DMap k v => has_struct k || has_struct v
  | _ => false
  end.

(* StructDataType.Format, a member whose type holds no struct: names joined by ", ", then type and tag
   as cells of their own *)
Definition member_line (prefix : tchars) (e : elem) : tchars :=
  let '(names, d, tag) := e in
  let ty := cat (pr_dt d) in
  let tg := match tag with Some s => c_tab :: s2c s | None => [] end in
  match names with
  | [] => (match tag with None => prefix ++ [c_tab] | Some _ => [] end) ++ ty ++ tg
  | n :: more => prefix ++ [c_tab] ++ s2c n ++ flat_map (fun x => s2c ", " ++ s2c x) more ++ [c_tab] ++ ty ++ tg
  end.

Definition struct_text (prefix : tchars) (es : list elem) : tchars :=
  match es with
  | [] => tw (prefix ++ s2c "{}")
  | _ => tw (s2c "{" ++ [c_nl] ++ flat_map (fun e => member_line prefix e ++ [c_nl]) es ++ prefix ++ s2c "}")
  end.

(* TypeExpr.Format *)
Definition texpr_text (prefix : tchars) (e : texpr) : tchars :=
  let '(n, asg, d) := e in
  tw (prefix ++ s2c n ++ (if asg then s2c " =" else []) ++ [c_sp] ++
      match d with DStruct es => struct_text prefix es | _ => cat (pr_dt d) end).

(* InfoStmt / AtServerStmt / AtDocGroupStmt.Format: key and colon glued, the value a cell of its own *)
Definition kvgroup_text (prefix head : tchars) (kvs : list (tchars * tchars)) : tchars :=
  tw (prefix ++ head ++ s2c " (" ++ [c_nl] ++
      flat_map (fun e : tchars * tchars => prefix ++ [c_tab] ++ fst e ++ s2c ":" ++ [c_tab] ++ snd e ++ [c_nl]) kvs ++
      prefix ++ s2c ")").

Definition kv_cells (e : kv) : tchars * tchars := (s2c (fst e), s2c (l_tx (snd e))).
Definition skv_cells (e : skv) : tchars * tchars := (s2c (fst e), cat (pr_sval (snd e))).

(* RouteStmt.Format *)
Definition route_text (r : route) : tchars :=
  s2c (r_method r) ++ [c_sp] ++ cat (pr_path (r_path r)) ++
  match r_req r with Some b => c_sp :: cat (pr_body b) | None => [] end ++
  match r_resp r with Some b => s2c " returns " ++ cat (pr_body b) | None => [] end.

(* ServiceItemStmt.Format with the prefix of a service body *)
Definition item_text (i : item) : tchars :=
  match i_doc i with
  | None => []
  | Some (DocLit s) => [c_tab] ++ s2c "@doc " ++ s2c s ++ [c_nl]
  | Some (DocGroup l) => kvgroup_text [c_tab] (s2c "@doc") (map kv_cells l) ++ [c_nl]
  end ++
  [c_tab] ++ s2c "@handler " ++ s2c (i_handler i) ++ [c_nl] ++
  [c_tab] ++ route_text (i_route i) ++ [c_nl].

Definition stmt_text (s : stmt) : tchars :=
  match s with
  | SSyntax v => s2c "syntax = " ++ s2c v
  | SInfo l => kvgroup_text [] (s2c "info") (map kv_cells l)
  | SImport v => s2c "import " ++ s2c v
  | SImports l => s2c "import (" ++ [c_nl] ++ flat_map (fun v => c_tab :: s2c v ++ [c_nl]) l ++ s2c ")"
  | SType e => s2c "type " ++ texpr_text [] e
  | STypes l => s2c "type (" ++ [c_nl] ++ flat_map (fun e => texpr_text [c_tab] e ++ [c_nl]) l ++ s2c ")"
  | SService srv n a its =>
    match srv with
    | Some l => kvgroup_text [] (s2c "@server") (map skv_cells l) ++ [c_nl]
    | None => []
    end ++ s2c "service " ++ s2c n ++ (if a then s2c "-api" else []) ++ s2c " {" ++
    match its with
    | [] => s2c "}"
    | _ => [c_nl] ++ join_with c_nl (map item_text its) ++ s2c "}"
    end
  end.

(* AST.Format: every statement, a line break, and a blank line -- except behind a single-line import
   that is followed by another one or by nothing *)
Fixpoint api_text (a : api) : tchars :=
  match a with
  | [] => []
  | s :: rest =>
    stmt_text s ++ [c_nl] ++
    (match s, rest with
     | SImport _, [] => []
     | SImport _, SImport _ :: _ => []
     | _, _ => [c_nl]
     end) ++ api_text rest
  end.

(* what format.Source writes for a description (after its deletions) *)
Definition ptext (a : api) : string := string_of_list_ascii (api_text (norm a)).

(* ---- the sub-language in which the text is a function of the description *)
Definition plain_text (s : string) : bool :=
  forallb (fun c => negb (Ascii.eqb c c_tab) && negb (Ascii.eqb c c_nl)) (s2c s).

Definition l0_texpr (e : texpr) : bool :=
  match snd e with
  | DStruct es => forallb (fun m : elem => let '(_, d, _) := m in negb (has_struct d)) es
  | _ => false
  end.

Definition l0_stmt (s : stmt) : bool :=
  match s with
  | SType e => l0_texpr e
  | STypes l => forallb l0_texpr l
  | _ => true
  end.

(* "info" and its "(" on one line (InfoStmt.Format keeps a line break of the source there) *)
Fixpoint info_same_line (ts : list token) : bool :=
  match ts with
  | a :: (b :: _) as r =>
    negb (is KIdent a && is_text "info" a && is KLParen b && tnl b) && info_same_line r
  | _ => true
  end.

Definition l0 (ts : list token) (a : api) : bool :=
  forallb (fun t => plain_text (tx t)) ts && info_same_line ts && forallb l0_stmt a.
