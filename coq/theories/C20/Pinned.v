(* C20 — boundary of the theorems, by refutation (witnesses checked with vm_compute).

   F10 and the other formatter findings of notes/C20.md are about COMMENTS, which are outside
   the grammar model, so they cannot be stated here; they are tied to the implementation by
   replays (corpus/C20) and known()/probes in tools/props/c20.py.  What can be shown in the
   model is why the printer's line structure and the [wf] hypothesis are needed. *)
From Coq Require Import List String Ascii Bool.
From GZ Require Import C20.Model C20.Check.
Import ListNotations.
Open Scope string_scope.
Open Scope list_scope.

(* a printer that forgets line breaks (every token on one line) is NOT inverted by the parser:
   the grammar decides "embedded field vs. named field" by the line of the next token.  A
   formatter that joined struct members on one line would change the meaning. *)
Definition print_flat (a : api) : list token := map (set_nl false) (print a).

Definition emb : api := [ SType ("T", false, DStruct [ ([], DBase "Foo", None); (["A"], DBase "int", None) ]) ].

Theorem layout_matters_refuted :
  exists a, wf a = true /\ parse (print a) = Some a /\ parse (print_flat a) <> Some a.
Proof. exists emb. vm_compute. repeat split; discriminate. Qed.

(* without [wf] the roundtrip fails: a field type that is a Go keyword is printable but rejected *)
Theorem wf_needed_refuted : exists a, wf a = false /\ parse (print a) = None.
Proof.
  exists [ SType ("T", false, DStruct [ (["A"], DBase "func", None) ]) ]. vm_compute. split; reflexivity.
Qed.

(* the parser accepts adjacent identifiers in a path segment ("/a b"), which [wf] excludes:
   the Go parser concatenates them ("/ab"), so format.Source re-tokenises the segment *)
Theorem adjacent_path_idents_parse :
  exists ts a, parse ts = Some a /\ wf a = false.
Proof.
  exists [ tIn "service"; tI "s"; tP KLBrace "{"; tPn KAtHandler "@handler"; tI "h";
           tIn "get"; tP KQuo "/"; tI "a"; tI "b"; tPn KRBrace "}" ].
  eexists. vm_compute. split; reflexivity.
Qed.

(* ---- pinned wrong formatters, as the per-program check sees them (Check.prop_ok) ---- *)

(* seeded change C20-2 (ast.Writer.write skips an empty "()" before the line-break decision):
     get /e/:id // fetch one <newline> () returns (Foo)   ->   get /e/:id // fetch one returns (Foo)
   the line comment swallows the response; the text still parses, to a route without response *)
Definition seed2_route' (req resp : option body) : api :=
  [ SService None "s" false
      [ Item None "h" (Route "get" (Path [PSeg false (PId "e") []; PSeg true (PId "id") []] false) req resp) ] ].
Definition seed2_route := seed2_route' (Some None).
Definition seed2_src : list token :=
  [ tIn "service"; tI "s"; tP KLBrace "{"; tPn KAtHandler "@handler"; tI "h";
    tIn "get"; tP KQuo "/"; tI "e"; tP KQuo "/"; tP KColon ":"; tI "id";
    tPn KLParen "("; tP KRParen ")"; tI "returns"; tP KLParen "("; tI "Foo"; tP KRParen ")"; tPn KRBrace "}" ].
Definition seed2_out_wrong : list token :=
  [ tIn "service"; tI "s"; tP KLBrace "{"; tPn KAtHandler "@handler"; tI "h";
    tIn "get"; tP KQuo "/"; tI "e"; tP KQuo "/"; tP KColon ":"; tI "id"; tPn KRBrace "}" ].
Definition seed2_case (ftoks : list token) (fast : api) (fc : list cmt) : case :=
  mkCase None None true seed2_src [(11, "// fetch one")] [true] (Some (seed2_route (Some (Some (Body false false "Foo"))))) OOk OOk
         ftoks fc (Some fast) true true true true false [].

Theorem seed2_response_swallowed_refuted :
  agrees (seed2_case seed2_out_wrong (seed2_route' None None) [(11, "// fetch one returns (Foo)")]) = true /\
  prop_ok (seed2_case seed2_out_wrong (seed2_route' None None) [(11, "// fetch one returns (Foo)")]) = false.
Proof. vm_compute. split; reflexivity. Qed.

(* ... while what the pinned tree prints (comment kept, "returns (Foo)" on the next line) passes *)
Definition seed2_out_right : list token :=
  [ tIn "service"; tI "s"; tP KLBrace "{"; tPn KAtHandler "@handler"; tI "h";
    tIn "get"; tP KQuo "/"; tI "e"; tP KQuo "/"; tP KColon ":"; tI "id";
    tIn "returns"; tP KLParen "("; tI "Foo"; tP KRParen ")"; tPn KRBrace "}" ].
Example seed2_pinned_tree_passes :
  prop_ok (seed2_case seed2_out_right (seed2_route' None (Some (Some (Body false false "Foo")))) [(11, "// fetch one")]) = true.
Proof. vm_compute. reflexivity. Qed.

(* a formatter that joins the members of a struct on one line prints the right tokens in the
   right order, so the comparison modulo layout accepts it -- the layout comparison does not *)
Theorem joined_lines_refuted :
  toks_eqb (print_flat emb) (print emb) = true /\ layout_ok [] (print_flat emb) (print emb) = false.
Proof. vm_compute. split; reflexivity. Qed.

(* a line break that no comment explains, inside a construct printed on one line, is rejected too
   ("A <break> int" would be read as two embedded fields) *)
Definition split_field : list token :=
  [ tIn "type"; tI "T"; tP KLBrace "{"; tIn "Foo"; tIn "A"; tIn "int"; tPn KRBrace "}" ].
Theorem split_line_refuted :
  toks_eqb split_field (print emb) = true /\ layout_ok [] split_field (print emb) = false.
Proof. vm_compute. split; reflexivity. Qed.

(* comments: dropping a comment that stands at the end of a printed line, inventing one, or
   reordering two is rejected even when lost comments inside one-line constructs are tolerated *)
Definition cm_case (out : list cmt) : case :=
  mkCase None None true (print emb) [(3, "// after brace"); (4, "// after Foo")] [true; true] (Some emb) OOk OOk
         (print emb) out (Some emb) true true true true false [].
Theorem comment_checks_refuted :
  prop_ok (cm_case [(3, "// after brace"); (4, "// after  Foo")]) = true /\
  prop_ok (cm_case [(3, "// after brace")]) = false /\
  prop_ok (cm_case [(3, "// after brace"); (4, "// after Foo"); (5, "// new")]) = false /\
  prop_ok (cm_case [(3, "// after Foo"); (4, "// after brace")]) = false.
Proof. vm_compute. repeat split; reflexivity. Qed.

(* an inline comment (between a field name and its type) may be lost unless [c_strict] *)
Definition inl_case (strict : bool) : case :=
  mkCase None None true (print emb) [(5, "/* c */")] [true] (Some emb) OOk OOk (print emb) [] (Some emb) true true true true strict [].
Theorem inline_comment_loss_is_the_known_finding :
  prop_ok (inl_case false) = true /\ prop_ok (inl_case true) = false.
Proof. vm_compute. split; reflexivity. Qed.

(* the finding C20-comment-dropped excuses a lost comment only between two tokens printed on one
   line or attached to a construct the formatter deletes -- also in a program in which something
   IS deleted: here "info ()" and an empty "@doc" go away with the comments (1) above the info
   block and (5) behind the empty @doc; the comment (2) above the type declaration, the own-line
   comment (3) inside the struct and the comment (6) at the end of the file must survive *)
Definition del_api : api :=
  [ SInfo []; SType ("T", false, DStruct [ (["A"], DBase "int", None) ]);
    SService None "s" false [ Item (Some (DocLit """""")) "h" (Route "get" (Path [PSeg false (PId "a") []] false) None None) ] ].
Definition del_cmts : list cmt :=
  [ (0, "// 1 above info"); (3, "// 2 above type"); (6, "// 3 own line in struct"); (7, "/* 4 inline */");
    (14, "// 5 behind the empty doc"); (21, "// 6 end of file") ].
(* 1, 2, 3, 6 stand on lines of their own; 4 and 5 behind the token before them *)
Definition del_same : list bool := [false; false; false; true; true; false].
Definition del_case (out : list cmt) : case :=
  mkCase None None true (print del_api) del_cmts del_same (Some del_api) OOk OOk
         (print (norm del_api)) out (Some (norm del_api)) true true true true false [].
Theorem comment_loss_excuses_are_narrow :
  prop_ok (del_case [(0, "// 2 above type"); (3, "// 3 own line in struct"); (14, "// 6 end of file")]) = true /\
  prop_ok (del_case [(3, "// 3 own line in struct"); (14, "// 6 end of file")]) = false /\
  prop_ok (del_case [(0, "// 2 above type"); (14, "// 6 end of file")]) = false /\
  prop_ok (del_case [(0, "// 2 above type"); (3, "// 3 own line in struct")]) = false.
Proof. vm_compute. repeat split; reflexivity. Qed.

(* seeded change C20-5 (StructDataType.Format appends the tag of a member with an inline struct type
   by WriteText, behind whatever ends the type's text):
     A { <newline> X int <newline> } // c <newline> `json:"a"`   ->   ... } // c `json:"a"`
   the tag has become part of the comment: the text parses, the member has lost its tag *)
Definition seed5_api (tag : option string) : api :=
  [ SType ("T", false, DStruct [ (["A"], DStruct [ (["X"], DBase "int", None) ], tag) ]) ].
Definition seed5_case (ftoks : list token) (fast : api) (fc : list cmt) : case :=
  mkCase None None true (print (seed5_api (Some "`json:""a""`"))) [(8, "// c")] [true]
         (Some (seed5_api (Some "`json:""a""`"))) OOk OOk ftoks fc (Some fast) true true true true false [].
Theorem seed5_tag_swallowed_refuted :
  agrees (seed5_case (print (seed5_api None)) (seed5_api None) [(8, "// c `json:""a""`")]) = true /\
  prop_ok (seed5_case (print (seed5_api None)) (seed5_api None) [(8, "// c `json:""a""`")]) = false.
Proof. vm_compute. split; reflexivity. Qed.

(* what the pinned tree prints: the comment stays behind the brace, the tag on the next line (one
   of the two free breaks of the layout comparison) *)
Example seed5_pinned_tree_passes :
  prop_ok (seed5_case (map (fun t => if is KRaw t then set_nl true t else t) (print (seed5_api (Some "`json:""a""`"))))
                      (seed5_api (Some "`json:""a""`")) [(8, "// c")]) = true.
Proof. vm_compute. reflexivity. Qed.

(* ---- the other seeded changes, as the per-program check sees them ---- *)

Definition one_route (doc : option atdoc) (req resp : option body) : api :=
  [ SService None "s" false [ Item doc "h" (Route "get" (Path [PSeg false (PId "a") []] false) req resp) ] ].
Definition plain_case (src out : api) : case :=
  mkCase None None true (print src) [] [] (Some src) OOk OOk (print out) [] (Some out) true true true true false [].

(* seeded change C20-1 (BodyExpr.Format walks "[", "]", "*" in a loop that leaves at the first
   missing token): a request body that is a pointer to Req is written as (Req) -- the text parses, is a fixed point, and describes
   another request type *)
Definition seed1_api (star : bool) : api := one_route None (Some (Some (Body false star "Req"))) None.
Theorem seed1_pointer_body_refuted :
  agrees (plain_case (seed1_api true) (seed1_api false)) = true /\
  prop_ok (plain_case (seed1_api true) (seed1_api false)) = false /\
  prop_ok (plain_case (seed1_api true) (seed1_api true)) = true.
Proof. vm_compute. repeat split; reflexivity. Qed.

(* seeded change C20-3 (IsZeroString deletes the white space of the literal before comparing): a
   @doc " " is deleted like a @doc "" -- for the model a blank string is not an empty one *)
Definition seed3_api : api := one_route (Some (DocLit """ """)) None None.
Theorem seed3_blank_string_deleted_refuted :
  norm seed3_api = seed3_api /\
  agrees (plain_case seed3_api (one_route None None None)) = true /\
  prop_ok (plain_case seed3_api (one_route None None None)) = false /\
  prop_ok (plain_case seed3_api seed3_api) = true.
Proof. vm_compute. repeat split; reflexivity. Qed.

(* seeded changes C20-4 and C20-7 (a filter behind the tabwriter trims blanks in front of the line
   breaks inside a literal; a literal @server value retagged PATH loses the escaping of its tab): the
   text of a string literal comes out changed -- same kinds, same lines, another description *)
Definition tab_str : string := """user" ++ String "009"%char "api""".
Definition seed7_api (v : string) : api :=
  [ SService (Some [("summary", SVStr v)]) "s" false [ Item None "h" (Route "get" (Path [PSeg false (PId "a") []] false) None None) ] ].
Theorem seed7_literal_rewritten_refuted :
  wf (seed7_api tab_str) = true /\
  agrees (plain_case (seed7_api tab_str) (seed7_api """user api""")) = true /\
  prop_ok (plain_case (seed7_api tab_str) (seed7_api """user api""")) = false /\
  prop_ok (plain_case (seed7_api tab_str) (seed7_api tab_str)) = true.
Proof. vm_compute. repeat split; reflexivity. Qed.

(* seeded change C20-6 (a deleted info block after a single-line import is not looked through): the
   blank lines of the first pass are not those of the second; tokens, lines and description are
   right, only the byte comparison of the two passes fails *)
Definition seed6_api : api := [ SImport """a.api"""; SInfo [] ].
Theorem seed6_second_pass_differs_refuted :
  let c idem := mkCase None None true (print seed6_api) [] [] (Some seed6_api) OOk OOk (print (norm seed6_api)) []
                       (Some (norm seed6_api)) idem true true true false [] in
  agrees (c false) = true /\ prop_ok (c false) = false /\ prop_ok (c true) = true.
Proof. vm_compute. repeat split; reflexivity. Qed.

(* seeded change C20-8 (parseTypeExprList returns a nil slice for an empty group, which its caller
   takes for an error that nobody recorded): for the valid source "type () type Foo {}" the parser
   returns neither a description nor an error and format.Source dereferences nil.  The model parser
   accepts the text and the model formatter deletes the empty group; what the changed tree does
   disagrees with the model (no description) and fails the property (a crash) *)
Definition seed8_toks : list token :=
  [ tI "type"; tP KLParen "("; tP KRParen ")"; tIn "type"; tI "Foo"; tP KLBrace "{"; tP KRBrace "}" ].
Definition seed8_api : api := [ STypes []; SType ("Foo", false, DStruct []) ].
Theorem seed8_empty_type_group_refuted :
  parse seed8_toks = Some seed8_api /\ wf seed8_api = true /\
  norm seed8_api = [ SType ("Foo", false, DStruct []) ] /\
  fmt seed8_toks = Some (print [ SType ("Foo", false, DStruct []) ]) /\
  let c := mkCase None None true seed8_toks [] [] None OErr OCrash [] [] None false false true true false [] in
  agrees c = false /\ prop_ok c = false.
Proof. vm_compute. repeat split; reflexivity. Qed.

(* ... and what the unchanged tree does with it passes *)
Example seed8_pinned_tree_passes :
  let out := [ SType ("Foo", false, DStruct []) ] in
  let c := mkCase None None true seed8_toks [] [] (Some seed8_api) OOk OOk (print out) [] (Some out) true true true true false [] in
  agrees c = true /\ prop_ok c = true.
Proof. vm_compute. split; reflexivity. Qed.

(* ---- the text leg of [agrees] (Text.v): a formatter that pads its columns with two blanks writes the
   right tokens on the right lines, parses back to the same description and is idempotent -- the
   property holds of it -- but its text is not the text of the modelled Format methods / tabwriter:
   the correspondence is broken, which the check reports as such *)
Definition kv_api : api := [ SInfo [("a", Lit false """x"""); ("long", Lit false """y""")] ].
Definition kv_toks : list token :=
  [ tI "info"; tP KLParen "("; tIn "a"; tP KColon ":"; tP KStr """x"""; tIn "long"; tP KColon ":"; tP KStr """y"""; tPn KRParen ")" ].
Definition text_case (f : string) : case :=
  mkCase None (Some f) true kv_toks [] [] (Some kv_api) OOk OOk kv_toks [] (Some kv_api) true true true true false [].
Definition nl1 : string := String "010"%char "".
Definition tab1 : string := String "009"%char "".
Definition kv_text (pad : string) : string :=
  "info (" ++ nl1 ++ tab1 ++ "a:   " ++ pad ++ """x""" ++ nl1 ++ tab1 ++ "long:" ++ pad ++ """y""" ++ nl1 ++ ")" ++ nl1 ++ nl1.
Theorem text_check_refuted :
  ptext kv_api = kv_text " " /\
  agrees (text_case (kv_text " ")) = true /\ prop_ok (text_case (kv_text " ")) = true /\
  agrees (text_case (kv_text "  ")) = false /\ prop_ok (text_case (kv_text "  ")) = true.
Proof. vm_compute. repeat split; reflexivity. Qed.
