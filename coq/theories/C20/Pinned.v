(* C20 — boundary of the theorems, by refutation (witnesses checked with vm_compute).

   F10 and the other formatter findings of notes/C20.md are about COMMENTS, which are outside
   the grammar model, so they cannot be stated here; they are tied to the implementation by
   replays (corpus/C20) and known()/probes in tools/props/c20.py.  What can be shown in the
   model is why the printer's line structure and the [wf] hypothesis are needed. *)
From Coq Require Import List String Bool.
From GZ Require Import C20.Model.
Import ListNotations.
Open Scope string_scope.
Open Scope list_scope.

(* a printer that forgets line breaks (every token on one line) is NOT inverted by the parser:
   the grammar decides "embedded field vs. named field" by the line of the next token.  A
   formatter that joined struct members on one line would change the meaning. *)
Definition print_flat (a : api) : list token := map (set_nl false) (print a).

Definition emb : api := [ SType ("T", false, DStruct [ ([], DBase "Foo", None); (["A"], DBase "int", None) ]) ].

Theorem layout_matters_refuted :
  exists a, wf a = true /\ parse (print a) = Some a /\ parse (print_flat a) <> Some a.
Proof. exists emb. vm_compute. repeat split; discriminate. Qed.

(* without [wf] the roundtrip fails: a field type that is a Go keyword is printable but rejected *)
Theorem wf_needed_refuted : exists a, wf a = false /\ parse (print a) = None.
Proof.
  exists [ SType ("T", false, DStruct [ (["A"], DBase "func", None) ]) ]. vm_compute. split; reflexivity.
Qed.

(* the parser accepts adjacent identifiers in a path segment ("/a b"), which [wf] excludes:
   the Go parser concatenates them ("/ab"), so format.Source re-tokenises the segment *)
Theorem adjacent_path_idents_parse :
  exists ts a, parse ts = Some a /\ wf a = false.
Proof.
  exists [ tIn "service"; tI "s"; tP KLBrace "{"; tPn KAtHandler "@handler"; tI "h";
           tIn "get"; tP KQuo "/"; tI "a"; tI "b"; tPn KRBrace "}" ].
  eexists. vm_compute. split; reflexivity.
Qed.
