(* C20 — the executable checks of Check.v are not unproved oracles: the boolean equalities decide
   equality, the layout comparison implies token equality (and, away from comments and the two
   documented free breaks, equality of the line structure), the comment comparison is reflexive
   and its strict form is the weak form plus "nothing lost", and a case on which [agrees] and
   [prop_ok] evaluate to true satisfies the statement of the property in terms of the model. *)
From Coq Require Import List String Ascii Bool Arith Lia.
From GZ Require Import C20.Model C20.Proofs C20.Check.
Import ListNotations.
Open Scope string_scope.
Open Scope list_scope.

Ltac split_and :=
  repeat match goal with
         | H : _ && _ = true |- _ => apply andb_true_iff in H; destruct H
         end.
Ltac seq :=
  repeat match goal with
         | H : String.eqb _ _ = true |- _ => apply String.eqb_eq in H; subst
         | H : Bool.eqb _ _ = true |- _ => apply Bool.eqb_prop in H; subst
         end.

(* ---------------------------------------------------------------- decidable equalities *)

Lemma list_eqb_eq {A} (e : A -> A -> bool) (l1 : list A) :
  (forall x y, In x l1 -> e x y = true -> x = y) -> forall l2, list_eqb e l1 l2 = true -> l1 = l2.
Proof.
  induction l1 as [|x l1 IH]; intros He [|y l2] H; cbn [list_eqb] in H; try discriminate; [reflexivity|].
  split_and. f_equal.
  - apply He; [left; reflexivity|assumption].
  - apply IH; [|assumption]. intros x' y' Hin. apply He. right; exact Hin.
Qed.

Lemma list_eqb_eq' {A} (e : A -> A -> bool) :
  (forall x y, e x y = true -> x = y) -> forall l1 l2, list_eqb e l1 l2 = true -> l1 = l2.
Proof. intros He l1 l2. apply list_eqb_eq. intros x y _. apply He. Qed.

Lemma opt_eqb_eq {A} (e : A -> A -> bool) :
  (forall x y, e x y = true -> x = y) -> forall a b, opt_eqb e a b = true -> a = b.
Proof. intros He [x|] [y|] H; cbn in H; try discriminate; [f_equal; auto|reflexivity]. Qed.

Lemma strs_eqb_eq : forall l1 l2, list_eqb String.eqb l1 l2 = true -> l1 = l2.
Proof. apply list_eqb_eq'. intros x y H. apply String.eqb_eq; exact H. Qed.

Lemma ostr_eqb_eq : forall a b, opt_eqb String.eqb a b = true -> a = b.
Proof. apply opt_eqb_eq. intros x y H. apply String.eqb_eq; exact H. Qed.

Lemma kind_eqb_eq : forall a b, kind_eqb a b = true -> a = b.
Proof. destruct a, b; cbn; intros H; try discriminate; reflexivity. Qed.

Lemma alen_eqb_eq : forall a b, alen_eqb a b = true -> a = b.
Proof. intros [x|] [y|] H; cbn in H; try discriminate; seq; reflexivity. Qed.

Lemma dtype_eqb_eq_n : forall n a, dsize a <= n -> forall b, dtype_eqb a b = true -> a = b.
Proof.
  induction n as [|n IH]; intros a Hs b H.
  - destruct a; cbn [dsize] in Hs; lia.
  - destruct a as [x| | |es|l d|d|k v|d]; destruct b as [y| | |es2|l2 d2|d2|k2 v2|d2];
      cbn [dtype_eqb] in H; try discriminate; try reflexivity.
    + seq. reflexivity.
    + f_equal.
      assert (Hin : forall names d tag, In (names, d, tag) es -> dsize d <= n).
      { intros names d tag Hi. pose proof (dsize_in _ _ _ _ Hi). lia. }
      clear Hs. revert es2 H.
      induction es as [|[[n1 d1] t1] es IHes]; intros [|[[n2 d2] t2] es2] H; try discriminate; [reflexivity|].
      split_and.
      assert (E1 : n1 = n2) by (apply strs_eqb_eq; assumption).
      assert (E2 : d1 = d2) by (apply (IH d1); [apply (Hin n1 d1 t1); left; reflexivity|assumption]).
      assert (E3 : t1 = t2) by (apply ostr_eqb_eq; assumption).
      subst. f_equal. apply IHes; [|assumption].
      intros names d tag Hi. apply (Hin names d tag). right; exact Hi.
    + split_and. cbn [dsize] in Hs. f_equal; [apply alen_eqb_eq; assumption|apply (IH d); [lia|assumption]].
    + cbn [dsize] in Hs. f_equal. apply (IH d); [lia|assumption].
    + split_and. cbn [dsize] in Hs. f_equal; [apply (IH k)|apply (IH v)]; try assumption; lia.
    + cbn [dsize] in Hs. f_equal. apply (IH d); [lia|assumption].
Qed.

Lemma dtype_eqb_eq : forall a b, dtype_eqb a b = true -> a = b.
Proof. intros a b. apply (dtype_eqb_eq_n (dsize a)). lia. Qed.

Lemma lit_eqb_eq : forall a b, lit_eqb a b = true -> a = b.
Proof. intros [r1 t1] [r2 t2] H. unfold lit_eqb in H. cbn in H. split_and. seq. reflexivity. Qed.

Lemma kv_eqb_eq : forall a b, kv_eqb a b = true -> a = b.
Proof.
  intros [k1 v1] [k2 v2] H. unfold kv_eqb in H. cbn [fst snd] in H. split_and. seq.
  f_equal. apply lit_eqb_eq; assumption.
Qed.

Lemma sseg_eqb_eq : forall a b, sseg_eqb a b = true -> a = b.
Proof.
  intros [x1 o1] [x2 o2] H. unfold sseg_eqb in H. cbn [fst snd] in H. split_and. seq.
  f_equal. apply ostr_eqb_eq; assumption.
Qed.

Lemma sval_eqb_eq : forall a b, sval_eqb a b = true -> a = b.
Proof.
  intros [x|x|x|x xs|x xs|x ss] [y|y|y|y ys|y ys|y ss2] H; cbn [sval_eqb] in H; try discriminate;
    split_and; seq; try reflexivity.
  - f_equal. apply strs_eqb_eq; assumption.
  - f_equal. apply strs_eqb_eq; assumption.
  - f_equal; [apply ostr_eqb_eq; assumption|].
    apply (list_eqb_eq' sseg_eqb sseg_eqb_eq); assumption.
Qed.

Lemma skv_eqb_eq : forall a b, skv_eqb a b = true -> a = b.
Proof.
  intros [k1 v1] [k2 v2] H. unfold skv_eqb in H. cbn [fst snd] in H. split_and. seq.
  f_equal. apply sval_eqb_eq; assumption.
Qed.

Lemma pseg_eqb_eq : forall a b, pseg_eqb a b = true -> a = b.
Proof.
  intros [c1 h1 t1] [c2 h2 t2] H. unfold pseg_eqb in H. cbn [ps_colon ps_head ps_tail] in H. split_and. seq.
  f_equal.
  - destruct h1, h2; cbn in *; try discriminate; seq; reflexivity.
  - eapply list_eqb_eq'; [|eassumption].
    intros [s1 x1] [s2 x2] E. cbn [fst snd] in E. split_and. seq.
    destruct s1, s2; cbn in *; try discriminate; reflexivity.
Qed.

Lemma path_eqb_eq : forall a b, path_eqb a b = true -> a = b.
Proof.
  intros [s1 t1] [s2 t2] H. unfold path_eqb in H. cbn [p_segs p_trail] in H. split_and. seq.
  f_equal. apply (list_eqb_eq' pseg_eqb pseg_eqb_eq); assumption.
Qed.

Lemma bodyx_eqb_eq : forall a b, bodyx_eqb a b = true -> a = b.
Proof. intros [a1 s1 v1] [a2 s2 v2] H. unfold bodyx_eqb in H. cbn in H. split_and. seq. reflexivity. Qed.

Lemma obody_eqb_eq : forall a b, obody_eqb a b = true -> a = b.
Proof. apply opt_eqb_eq. apply opt_eqb_eq. apply bodyx_eqb_eq. Qed.

Lemma route_eqb_eq : forall a b, route_eqb a b = true -> a = b.
Proof.
  intros [m1 p1 q1 s1] [m2 p2 q2 s2] H. unfold route_eqb in H. cbn [r_method r_path r_req r_resp] in H.
  split_and. seq. f_equal; [apply path_eqb_eq|apply obody_eqb_eq|apply obody_eqb_eq]; assumption.
Qed.

Lemma atdoc_eqb_eq : forall a b, atdoc_eqb a b = true -> a = b.
Proof.
  intros [x|x] [y|y] H; cbn [atdoc_eqb] in H; try discriminate; seq; [reflexivity|].
  f_equal. apply (list_eqb_eq' kv_eqb kv_eqb_eq); assumption.
Qed.

Lemma item_eqb_eq : forall a b, item_eqb a b = true -> a = b.
Proof.
  intros [d1 h1 r1] [d2 h2 r2] H. unfold item_eqb in H. cbn [i_doc i_handler i_route] in H. split_and. seq.
  f_equal; [apply (opt_eqb_eq atdoc_eqb atdoc_eqb_eq)|apply route_eqb_eq]; assumption.
Qed.

Lemma texpr_eqb_eq : forall a b, texpr_eqb a b = true -> a = b.
Proof.
  intros [[n1 a1] d1] [[n2 a2] d2] H. cbn [texpr_eqb] in H. split_and. seq.
  f_equal. apply dtype_eqb_eq; assumption.
Qed.

Lemma stmt_eqb_eq : forall a b, stmt_eqb a b = true -> a = b.
Proof.
  intros [x|x|x|x|x|x|s1 n1 a1 i1] [y|y|y|y|y|y|s2 n2 a2 i2] H; cbn [stmt_eqb] in H; try discriminate.
  - seq. reflexivity.
  - f_equal. apply (list_eqb_eq' kv_eqb kv_eqb_eq); assumption.
  - seq. reflexivity.
  - f_equal. apply strs_eqb_eq; assumption.
  - f_equal. apply texpr_eqb_eq; assumption.
  - f_equal. apply (list_eqb_eq' texpr_eqb texpr_eqb_eq); assumption.
  - split_and. seq. f_equal.
    + apply (opt_eqb_eq _ (list_eqb_eq' skv_eqb skv_eqb_eq)); assumption.
    + apply (list_eqb_eq' item_eqb item_eqb_eq); assumption.
Qed.

Lemma api_eqb_eq : forall a b, api_eqb a b = true -> a = b.
Proof. apply (list_eqb_eq' stmt_eqb stmt_eqb_eq). Qed.

Lemma oapi_eqb_eq : forall a b, oapi_eqb a b = true -> a = b.
Proof. apply opt_eqb_eq. apply api_eqb_eq. Qed.

(* ---------------------------------------------------------------- tokens and layout *)

Definition strip (t : token) : token := set_nl false t.

Lemma tok_eqb_eq : forall a b, tok_eqb a b = true -> strip a = strip b.
Proof.
  intros [k1 x1 n1] [k2 x2 n2] H. unfold tok_eqb in H. cbn [tk tx] in H. split_and. seq.
  apply kind_eqb_eq in H. subst. reflexivity.
Qed.

Lemma tok_eqb_refl : forall a, tok_eqb a a = true.
Proof.
  intros [k x n]. unfold tok_eqb. cbn [tk tx]. rewrite String.eqb_refl.
  destruct k; reflexivity.
Qed.

Lemma toks_eqb_eq : forall f m, toks_eqb f m = true -> map strip f = map strip m.
Proof.
  unfold toks_eqb. induction f as [|x f IH]; intros [|y m] H; cbn [list_eqb] in H; try discriminate; [reflexivity|].
  split_and. cbn [map]. f_equal; [apply tok_eqb_eq; assumption|apply IH; assumption].
Qed.

(* the layout comparison implies the comparison modulo layout *)
Lemma layout_from_toks : forall f m i prev cpos, layout_from i prev cpos f m = true -> toks_eqb f m = true.
Proof.
  unfold toks_eqb. induction f as [|x f IH]; intros [|y m] i prev cpos H; cbn [layout_from] in H; try discriminate;
    [reflexivity|].
  split_and. cbn [list_eqb]. rewrite H. cbn [andb]. eapply IH; eassumption.
Qed.

Lemma layout_ok_toks : forall cpos f m, layout_ok cpos f m = true -> toks_eqb f m = true.
Proof.
  intros cpos [|x f] [|y m] H; cbn [layout_ok] in H; try discriminate; [reflexivity|].
  split_and. unfold toks_eqb. cbn [list_eqb]. rewrite H. cbn [andb].
  apply (layout_from_toks f m 1 y cpos). assumption.
Qed.

(* the canonical text passes its own layout check, whatever comments are around *)
Lemma layout_from_refl : forall ts i prev cpos, layout_from i prev cpos ts ts = true.
Proof.
  induction ts as [|t ts IH]; intros i prev cpos; cbn [layout_from]; [reflexivity|].
  rewrite tok_eqb_refl, IH. destruct (tnl t); reflexivity.
Qed.

Lemma layout_ok_refl : forall cpos ts, layout_ok cpos ts ts = true.
Proof. intros cpos [|t ts]; cbn [layout_ok]; [reflexivity|]. rewrite tok_eqb_refl, layout_from_refl. reflexivity. Qed.

(* without comments and away from the two free breaks, the line structure is the canonical one *)
Fixpoint no_free_break (prev : token) (m : list token) : bool :=
  match m with
  | [] => true
  | y :: m' => negb (free_break prev y) && no_free_break y m'
  end.

Lemma layout_exact : forall f m i prev,
  layout_from i prev [] f m = true -> no_free_break prev m = true -> map tnl f = map tnl m.
Proof.
  induction f as [|x f IH]; intros [|y m] i prev H Hn; cbn [layout_from] in H; try discriminate; [reflexivity|].
  cbn [no_free_break] in Hn. split_and. cbn [map]. f_equal.
  - cbn [existsb] in *. destruct (tnl y), (tnl x), (free_break prev y); cbn in *; try discriminate; reflexivity.
  - eapply IH; eassumption.
Qed.

(* ---------------------------------------------------------------- comments *)

Lemma subseq_nil : forall ys, subseq [] ys = true.
Proof. destruct ys; reflexivity. Qed.

Lemma subseq_refl : forall l, subseq l l = true.
Proof. induction l as [|x l IH]; [reflexivity|]. cbn [subseq]. rewrite String.eqb_refl. exact IH. Qed.

Lemma subseq_length : forall ys xs, subseq xs ys = true -> List.length xs <= List.length ys.
Proof.
  induction ys as [|y ys IH]; intros [|x xs] H; cbn [subseq] in H; cbn [List.length]; try discriminate; try lia.
  destruct (String.eqb x y).
  - specialize (IH xs H). lia.
  - specialize (IH (x :: xs) H). cbn [List.length] in IH. lia.
Qed.

(* a subsequence of the same length is the whole list: "nothing invented" + "as many comments as
   before" = "exactly the comments of the source" *)
Lemma subseq_same_length : forall ys xs,
  subseq xs ys = true -> List.length xs = List.length ys -> xs = ys.
Proof.
  induction ys as [|y ys IH]; intros [|x xs] H Hl; cbn [subseq] in H; cbn [List.length] in Hl; try discriminate;
    [reflexivity|].
  destruct (String.eqb x y) eqn:E.
  - apply String.eqb_eq in E. subst. f_equal. apply IH; [assumption|lia].
  - apply subseq_length in H. cbn [List.length] in H. lia.
Qed.

(* normalising the white space of a comment is a projection *)
Lemma nws_idem_gen : forall s pend start, nws (nws s pend start) false start = nws s pend start.
Proof.
  induction s as [|c r IH]; intros pend start; [reflexivity|].
  cbn [nws]. destruct (is_blank c) eqn:Eb; [apply IH|].
  destruct (Ascii.eqb c "010"%char) eqn:En.
  - cbn [nws]. rewrite Eb, En. rewrite IH. reflexivity.
  - destruct (pend && negb start) eqn:Ep.
    + apply andb_true_iff in Ep as [_ Hst]. apply negb_true_iff in Hst. subst start.
      cbn [nws]. replace (is_blank " "%char) with true by reflexivity.
      cbn [nws]. rewrite Eb, En. cbn [andb negb]. rewrite IH. reflexivity.
    + cbn [nws]. rewrite Eb, En. cbn [andb]. rewrite IH. reflexivity.
Qed.

Lemma norm_cmt_idem : forall k s, norm_cmt (k, norm_cmt (k, s)) = norm_cmt (k, s).
Proof. intros k s. unfold norm_cmt. cbn [snd]. apply nws_idem_gen. Qed.

(* ---------------------------------------------------------------- a checked case satisfies the property *)

(* If, for one generated program, [agrees] and [prop_ok] evaluate to true, then in terms of the
   model: the source tokens parse to the well-formed description [a] the Go parser built; the
   tokens of format.Source's output are exactly the model formatter's output (modulo the line
   bit) and parse to [norm a]; and format.Source is idempotent on this program. *)
Lemma case_sound : forall c a,
  agrees c = true -> prop_ok c = true -> c_scan_ok c = true -> c_ast c = Some a ->
  wf a = true /\ parse (c_toks c) = Some a /\
  fmt (c_toks c) = Some (print (norm a)) /\
  map strip (c_ftoks c) = map strip (print (norm a)) /\
  parse (c_ftoks c) = Some (norm a) /\
  c_idem c = true /\ c_file_ok c = true /\ c_conc_ok c = true.
Proof.
  intros c a Ha Hp Hs Hast. unfold agrees in Ha. unfold prop_ok in Hp. rewrite Hs, Hast in *.
  split_and.
  destruct (c_fout c) eqn:Ef; try discriminate.
  match goal with H : oapi_eqb (parse (c_toks c)) (Some a) = true |- _ => apply oapi_eqb_eq in H; rename H into Hpa end.
  match goal with H : oapi_eqb (c_fast c) (Some (norm a)) = true |- _ => apply oapi_eqb_eq in H; rename H into Hfa end.
  match goal with H : oapi_eqb (parse (c_ftoks c)) (c_fast c) = true |- _ => apply oapi_eqb_eq in H; rename H into Hpf end.
  repeat split; try assumption.
  - unfold fmt. rewrite Hpa. reflexivity.
  - apply toks_eqb_eq. eapply layout_ok_toks. eassumption.
  - rewrite Hpf, Hfa. reflexivity.
Qed.

(* ---------------------------------------------------------------- the marked printer *)

Lemma fst_keep_all : forall l, map fst (keep_all l) = l.
Proof. induction l as [|x l IH]; [reflexivity|]. cbn. unfold keep_all in IH. rewrite IH. reflexivity. Qed.
Lemma fst_del_all : forall l, map fst (del_all l) = l.
Proof. induction l as [|x l IH]; [reflexivity|]. cbn. unfold del_all in IH. rewrite IH. reflexivity. Qed.
Lemma kept_keep_all : forall l, map fst (filter snd (keep_all l)) = l.
Proof. induction l as [|x l IH]; [reflexivity|]. cbn. unfold keep_all in IH. rewrite IH. reflexivity. Qed.
Lemma kept_del_all : forall l, map fst (filter snd (del_all l)) = [].
Proof. induction l as [|x l IH]; [reflexivity|]. cbn. exact IH. Qed.

Lemma fst_mark_body : forall ret b,
  map fst (mark_body ret b) =
  match b with Some x => (if ret then [tI "returns"] else []) ++ pr_body x | None => [] end.
Proof. intros ret [[x|]|]; unfold mark_body; rewrite ?fst_keep_all, ?fst_del_all; reflexivity. Qed.

Lemma kept_mark_body : forall ret b,
  map fst (filter snd (mark_body ret b)) =
  match norm_body b with Some x => (if ret then [tI "returns"] else []) ++ pr_body x | None => [] end.
Proof. intros ret [[x|]|]; unfold mark_body, norm_body; rewrite ?kept_keep_all, ?kept_del_all; reflexivity. Qed.

Lemma pr_item_doc : forall i,
  pr_item i = match i_doc i with Some d => pr_doc d | None => [] end ++
              [tPn KAtHandler "@handler"; tI (i_handler i)] ++ pr_route (i_route i).
Proof. intros [[[x|l]|] h r]; reflexivity. Qed.

Lemma fst_mark_item : forall i, map fst (mark_item i) = pr_item i.
Proof.
  intros i. rewrite pr_item_doc. unfold mark_item. rewrite !map_app, fst_keep_all, !fst_mark_body.
  f_equal.
  destruct (i_doc i) as [d|]; [|reflexivity]. destruct (norm_doc (Some d)); [apply fst_keep_all|apply fst_del_all].
Qed.

Lemma kept_mark_item : forall i, map fst (filter snd (mark_item i)) = pr_item (norm_item i).
Proof.
  intros i. rewrite pr_item_doc. unfold mark_item.
  rewrite !filter_app, !map_app, kept_keep_all, !kept_mark_body.
  unfold norm_item. cbn [i_doc i_handler i_route]. f_equal.
  destruct (i_doc i) as [d|]; [|reflexivity].
  destruct (norm_doc (Some d)) as [d'|] eqn:E; [|apply kept_del_all].
  rewrite kept_keep_all. destruct d as [x|l]; cbn [norm_doc] in E.
  - destruct (zero_text x); inversion E; reflexivity.
  - destruct (kvs_all_zero l); inversion E; reflexivity.
Qed.

Lemma flat_map_map_fst : forall (its : list item),
  map fst (flat_map mark_item its) = flat_map pr_item its.
Proof.
  induction its as [|i its IH]; [reflexivity|].
  change (flat_map mark_item (i :: its)) with (mark_item i ++ flat_map mark_item its).
  change (flat_map pr_item (i :: its)) with (pr_item i ++ flat_map pr_item its).
  rewrite map_app, fst_mark_item. f_equal. exact IH.
Qed.

Lemma flat_map_kept : forall (its : list item),
  map fst (filter snd (flat_map mark_item its)) = flat_map pr_item (map norm_item its).
Proof.
  induction its as [|i its IH]; [reflexivity|].
  change (flat_map mark_item (i :: its)) with (mark_item i ++ flat_map mark_item its).
  change (flat_map pr_item (map norm_item (i :: its)))
    with (pr_item (norm_item i) ++ flat_map pr_item (map norm_item its)).
  rewrite filter_app, map_app, kept_mark_item. f_equal. exact IH.
Qed.

Lemma rb_after_map : forall (its : list item), rb_after (map norm_item its) = rb_after its.
Proof. destruct its; reflexivity. Qed.

Lemma fst_mark_stmt : forall s, map fst (mark_stmt s) = pr_stmt s.
Proof.
  intros s. unfold mark_stmt. destruct (norm_stmt s) eqn:E; [apply fst_del_all|].
  destruct s as [v|l0|v|l0|e|l0|srv n a its]; try apply fst_keep_all.
  cbn [pr_stmt]. rewrite !map_app, !fst_keep_all, flat_map_map_fst.
  destruct srv as [kvs|];
    [destruct (forallb (fun e : skv => sval_zero (snd e)) kvs); rewrite ?fst_del_all, ?fst_keep_all|];
    rewrite <- ?app_assoc; reflexivity.
Qed.

Lemma kept_mark_stmt : forall s, map fst (filter snd (mark_stmt s)) = flat_map pr_stmt (norm_stmt s).
Proof.
  intros s. unfold mark_stmt.
  destruct s as [v|l0|v|l0|e|l0|srv n a its]; cbn [norm_stmt].
  - cbn [flat_map]. rewrite kept_keep_all, app_nil_r. reflexivity.
  - destruct (kvs_all_zero l0); [apply kept_del_all|]. cbn [flat_map]. rewrite kept_keep_all, app_nil_r. reflexivity.
  - destruct (zero_text v); [apply kept_del_all|]. cbn [flat_map]. rewrite kept_keep_all, app_nil_r. reflexivity.
  - destruct (forallb zero_text l0); [apply kept_del_all|]. cbn [flat_map]. rewrite kept_keep_all, app_nil_r. reflexivity.
  - cbn [flat_map]. rewrite kept_keep_all, app_nil_r. reflexivity.
  - destruct l0; [apply kept_del_all|]. cbn [flat_map]. rewrite kept_keep_all, app_nil_r. reflexivity.
  - cbn [flat_map pr_stmt]. rewrite app_nil_r.
    rewrite !filter_app, !map_app, !kept_keep_all, flat_map_kept, rb_after_map.
    destruct srv as [kvs|];
      [destruct (forallb (fun e : skv => sval_zero (snd e)) kvs); rewrite ?kept_del_all, ?kept_keep_all|];
      rewrite <- ?app_assoc; reflexivity.
Qed.

(* the tokens of the marked printer are the printed tokens, and the kept ones are exactly what
   the model formatter prints *)
Lemma mark_tokens : forall a, map fst (mark a) = print a.
Proof.
  induction a as [|s a IH]; [reflexivity|].
  change (mark (s :: a)) with (mark_stmt s ++ mark a). change (print (s :: a)) with (pr_stmt s ++ print a).
  rewrite map_app, fst_mark_stmt. f_equal. exact IH.
Qed.

Lemma mark_kept : forall a, map fst (filter snd (mark a)) = print (norm a).
Proof.
  induction a as [|s a IH]; [reflexivity|].
  change (mark (s :: a)) with (mark_stmt s ++ mark a).
  change (norm (s :: a)) with (norm_stmt s ++ norm a).
  unfold print in *. rewrite flat_map_app, filter_app, map_app, kept_mark_stmt. f_equal. exact IH.
Qed.

Lemma tokl_list_refl : forall l,
  list_eqb (fun x y : token => tok_eqb x y && Bool.eqb (tnl x) (tnl y)) l l = true.
Proof.
  induction l as [|t l IH]; [reflexivity|]. cbn [list_eqb]. rewrite tok_eqb_refl, Bool.eqb_reflx, IH. reflexivity.
Qed.

Lemma mark_consistent_true : forall a, mark_consistent a = true.
Proof. intros a. unfold mark_consistent. rewrite mark_tokens, mark_kept, !tokl_list_refl. reflexivity. Qed.

(* ---- the statements of Props.v that are one step away from the lemmas above *)
Lemma fmt_idempotent_ex : forall ts a, parse ts = Some a -> wf a = true ->
  exists out, fmt ts = Some out /\ fmt out = Some out.
Proof.
  intros ts a Hp Hwf. destruct (fmt_idempotent ts a Hp Hwf) as [H1 H2].
  exists (print (norm a)). split; assumption.
Qed.

Lemma fmt_ast_without_empties : forall ts a,
  parse ts = Some a -> wf a = true -> norm a = a ->
  exists out, fmt ts = Some out /\ parse out = parse ts.
Proof.
  intros ts a Hp Hwf Hn. destruct (fmt_meaning ts a Hp Hwf) as (out & H1 & H2).
  exists out. split; [exact H1|]. rewrite H2, Hn, Hp. reflexivity.
Qed.

Lemma layout_ok_strip : forall cpos f m, layout_ok cpos f m = true -> map strip f = map strip m.
Proof. intros cpos f m H. apply toks_eqb_eq. eapply layout_ok_toks. exact H. Qed.

Lemma mark_is_formatter : forall a,
  map fst (mark a) = print a /\ map fst (filter snd (mark a)) = print (norm a) /\ mark_consistent a = true.
Proof. intros a. split; [apply mark_tokens|split; [apply mark_kept|apply mark_consistent_true]]. Qed.

(* the text leg of [agrees]: inside the sub-language L0 a checked case's formatted text IS the text
   the model of the Format methods and of the tabwriter writes *)
Lemma case_text_sound : forall c a f,
  agrees c = true -> c_ast c = Some a -> c_fsrc c = Some f -> c_fout c = OOk ->
  c_cmts c = [] -> l0 (c_toks c) a = true -> f = ptext a.
Proof.
  intros c a f Ha Hast Hf Ho Hc Hl. unfold agrees in Ha.
  apply andb_true_iff in Ha. destruct Ha as [_ Ht]. unfold text_agrees in Ht.
  rewrite Hast, Hf, Ho, Hc, Hl in Ht. cbn in Ht. apply String.eqb_eq in Ht. symmetry. exact Ht.
Qed.
