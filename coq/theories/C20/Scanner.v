(* C20 — executable model of the goctl .api SCANNER (tools/goctl/pkg/parser/api/scanner/scanner.go):
   characters -> tokens, function by function (NextToken, scanString, scanAt, scanIntOrDuration
   and the duration automaton scanNanosecond ... scanHour, scanIdent with the "interface{}" token,
   scanLineComment, scanDocument with its "half closed" state, skipWhiteSpace with its line
   counter).  No proofs in this file.

   The model works on bytes (Coq strings); scanner.go works on runes.  The only rune above 0x7f
   with a meaning for the scanner is the micro sign of durations (U+00B5 = bytes C2 B5); inside
   strings and comments bytes are passed through; anywhere else a byte >= 0x80 starts an ILLEGAL
   token (whose text is the whole rune in Go, the first byte here: Check.v compares the kind only).

   Line numbers follow scanner.go exactly: a line break is counted only when skipWhiteSpace sees
   it, i.e. NOT inside block comments, strings and raw strings. *)
From Coq Require Import List String Ascii Bool Arith.
From GZ Require Import C20.Model.
Import ListNotations.
Open Scope char_scope.
Open Scope list_scope.

Definition chars := list ascii.

Definition ltb_ascii (a b : ascii) : bool := Nat.leb (nat_of_ascii a) (nat_of_ascii b).
Definition between (lo hi c : ascii) : bool := ltb_ascii lo c && ltb_ascii c hi.
Definition is_digit (c : ascii) : bool := between "0" "9" c.
Definition is_letter (c : ascii) : bool := between "a" "z" c || between "A" "Z" c.
Definition is_idl (c : ascii) : bool := is_letter c || Ascii.eqb c "_".
Definition is_nl (c : ascii) : bool := Ascii.eqb c "010".
Definition is_ws (c : ascii) : bool :=
  Ascii.eqb c " " || Ascii.eqb c "009" || Ascii.eqb c "013" || Ascii.eqb c "012" || Ascii.eqb c "011" || is_nl c.
Definition is_nul (c : ascii) : bool := Ascii.eqb c "000".

Fixpoint span (p : ascii -> bool) (s : chars) : chars * chars :=
  match s with
  | c :: r => if p c then let '(a, b) := span p r in (c :: a, b) else ([], s)
  | [] => ([], [])
  end.

Definition str (l : chars) : string := string_of_list_ascii l.

(* raw tokens of the scanner: kind (comments included), text *)
Inductive rkind := RTok (k : kind) | RLineComment | RBlockComment.

Inductive sres :=
| SEof                                  (* end of input (or a NUL character) *)
| SErr                                  (* the scanner returns an error *)
| STok (k : rkind) (text : chars) (rest : chars).

(* the micro sign, as UTF-8 *)
Definition mu1 : ascii := "194".
Definition mu2 : ascii := "181".

(* ---- durations: the automaton of scanDuration; [acc] = text so far (reversed is avoided: we
   return the consumed prefix as a list) *)
Definition illegal (acc : chars) (s : chars) : sres :=
  (* illegalToken(): ILLEGAL token made of the current character, which is consumed; the digits
     and units read so far are dropped by scanner.go (they belong to no token) *)
  match s with
  | c :: r => STok (RTok KIllegal) [c] r
  | [] => STok (RTok KIllegal) ["000"] []
  end.

Definition dur (acc : chars) (s : chars) : sres := STok (RTok KDur) acc s.

(* scanNanosecond: at 'n'; needs 's' *)
Definition scan_ns (acc s : chars) : sres :=
  match s with
  | n :: r => match r with
              | c :: r' => if Ascii.eqb c "s" then dur (acc ++ [n; c]) r' else illegal acc r
              | [] => illegal acc r
              end
  | [] => SErr
  end.

(* scanMicrosecond: at the micro sign (two bytes); needs 's'; then optional digits + ns *)
Definition scan_us (acc s : chars) : sres :=
  match s with
  | m1 :: m2 :: r =>
    match r with
    | c :: r' =>
      if Ascii.eqb c "s" then
        let acc1 := acc ++ [m1; m2; c] in
        let '(ds, r2) := span is_digit r' in
        match ds with
        | [] => dur acc1 r'
        | _ => match r2 with
               | n :: _ => if Ascii.eqb n "n" then scan_ns (acc1 ++ ds) r2 else illegal acc r2
               | [] => illegal acc r2
               end
        end
      else illegal acc r
    | [] => illegal acc r
    end
  | _ => SErr
  end.

Definition starts_mu (s : chars) : bool :=
  match s with
  | a :: r => Ascii.eqb a mu1 && match r with b :: _ => Ascii.eqb b mu2 | [] => false end
  | [] => false
  end.

(* scanMillisecond: just after "ms" (acc holds it); optional digits then ns | µs *)
Definition scan_ms_tail (acc s : chars) : sres :=
  let '(ds, r2) := span is_digit s in
  match ds with
  | [] => dur acc s
  | _ => match r2 with
         | n :: _ => if Ascii.eqb n "n" then scan_ns (acc ++ ds) r2
                     else if starts_mu r2 then scan_us (acc ++ ds) r2 else illegal acc r2
         | [] => illegal acc r2
         end
  end.

(* scanSecond: at 's' *)
Definition scan_s (acc s : chars) : sres :=
  match s with
  | c :: r =>
    let acc1 := acc ++ [c] in
    let '(ds, r2) := span is_digit r in
    match ds with
    | [] => dur acc1 r
    | _ => match r2 with
           | n :: r3 =>
             if Ascii.eqb n "n" then scan_ns (acc1 ++ ds) r2
             else if starts_mu r2 then scan_us (acc1 ++ ds) r2
             else if Ascii.eqb n "m" then
               match r3 with
               | x :: r4 => if Ascii.eqb x "s" then scan_ms_tail (acc1 ++ ds ++ [n; x]) r4 else illegal acc r3
               | [] => illegal acc r3
               end
             else illegal acc r2
           | [] => illegal acc r2
           end
    end
  | [] => SErr
  end.

(* scanMinute: just after 'm' (acc holds it) with a digit next *)
Definition scan_min_tail (acc s : chars) : sres :=
  let '(ds, r2) := span is_digit s in
  match ds with
  | [] => dur acc s
  | _ => match r2 with
         | n :: r3 =>
           if Ascii.eqb n "n" then scan_ns (acc ++ ds) r2
           else if starts_mu r2 then scan_us (acc ++ ds) r2
           else if Ascii.eqb n "m" then
             match r3 with
             | x :: r4 => if Ascii.eqb x "s" then scan_ms_tail (acc ++ ds ++ [n; x]) r4 else illegal acc r3
             | [] => illegal acc r3
             end
           else if Ascii.eqb n "s" then scan_s (acc ++ ds) r2
           else illegal acc r2
         | [] => illegal acc r2
         end
  end.

(* scanMillisecondOrMinute: at 'm' *)
Definition scan_m (acc s : chars) : sres :=
  match s with
  | m :: r =>
    match r with
    | c :: r' =>
      if Ascii.eqb c "s" then scan_ms_tail (acc ++ [m; c]) r'
      else if is_digit c then scan_min_tail (acc ++ [m]) r
      else dur (acc ++ [m]) r
    | [] => dur (acc ++ [m]) r
    end
  | [] => SErr
  end.

(* scanHour: at 'h' *)
Definition scan_h (acc s : chars) : sres :=
  match s with
  | h :: r =>
    let acc1 := acc ++ [h] in
    let '(ds, r2) := span is_digit r in
    match ds with
    | [] => dur acc1 r
    | _ => match r2 with
           | n :: _ =>
             if Ascii.eqb n "n" then scan_ns (acc1 ++ ds) r2
             else if starts_mu r2 then scan_us (acc1 ++ ds) r2
             else if Ascii.eqb n "m" then scan_m (acc1 ++ ds) r2
             else if Ascii.eqb n "s" then scan_s (acc1 ++ ds) r2
             else illegal acc r2
           | [] => illegal acc r2
           end
    end
  | [] => SErr
  end.

(* scanIntOrDuration *)
Definition scan_number (s : chars) : sres :=
  let '(ds, r) := span is_digit s in
  match r with
  | c :: _ =>
    if Ascii.eqb c "n" then scan_ns ds r
    else if starts_mu r then scan_us ds r
    else if Ascii.eqb c "m" then scan_m ds r
    else if Ascii.eqb c "s" then scan_s ds r
    else if Ascii.eqb c "h" then scan_h ds r
    else STok (RTok KInt) ds r
  | [] => STok (RTok KInt) ds r
  end.

(* scanString: at the opening delimiter; no escapes; a NUL or the end of input is an error *)
Fixpoint scan_str_body (delim : ascii) (s : chars) : option (chars * chars) :=
  match s with
  | c :: r => if Ascii.eqb c delim then Some ([c], r)
              else if is_nul c then None
              else match scan_str_body delim r with Some (a, b) => Some (c :: a, b) | None => None end
  | [] => None
  end.

(* scanDocument, after the opening slash-star: wait for a '*' ("half closed"), then for the first '/' -- any
   characters may stand between the two (this is scanner.go's behaviour, not C's) *)
Fixpoint scan_doc_half (s : chars) : option (chars * chars) :=
  match s with
  | c :: r => if Ascii.eqb c "/" then Some ([c], r)
              else if is_nul c then None
              else match scan_doc_half r with Some (a, b) => Some (c :: a, b) | None => None end
  | [] => None
  end.
Fixpoint scan_doc_open (s : chars) : option (chars * chars) :=
  match s with
  | c :: r => if Ascii.eqb c "*" then match scan_doc_half r with Some (a, b) => Some (c :: a, b) | None => None end
              else if is_nul c then None
              else match scan_doc_open r with Some (a, b) => Some (c :: a, b) | None => None end
  | [] => None
  end.

Definition interface_kw : chars := list_ascii_of_string "interface".

Definition chars_eqb (a b : chars) : bool := String.eqb (str a) (str b).

(* NextToken, after skipWhiteSpace *)
Definition next_token (s : chars) : sres :=
  match s with
  | [] => SEof
  | c :: r =>
    if is_nul c then SEof
    else if Ascii.eqb c "/" then
      match r with
      | d :: r' =>
        if Ascii.eqb d "/" then
          let '(body, rest) := span (fun x => negb (is_nl x) && negb (is_nul x)) s in STok RLineComment body rest
        else if Ascii.eqb d "*" then
          match scan_doc_open r' with
          | Some (body, rest) => STok RBlockComment (c :: d :: body) rest
          | None => SErr
          end
        else STok (RTok KQuo) [c] r
      | [] => STok (RTok KQuo) [c] r
      end
    else if Ascii.eqb c "-" then STok (RTok KSub) [c] r
    else if Ascii.eqb c "*" then STok (RTok KMul) [c] r
    else if Ascii.eqb c "(" then STok (RTok KLParen) [c] r
    else if Ascii.eqb c "[" then STok (RTok KLBrack) [c] r
    else if Ascii.eqb c "{" then STok (RTok KLBrace) [c] r
    else if Ascii.eqb c "," then STok (RTok KComma) [c] r
    else if Ascii.eqb c "." then
      match r with
      | d :: r' =>
        if Ascii.eqb d "." then
          match r' with
          | e :: r'' => if Ascii.eqb e "." then STok (RTok KEllipsis) [c; d; e] r''
                        else STok (RTok KDot) [d] r'     (* ".." is ONE dot token in scanner.go *)
          | [] => STok (RTok KDot) [d] r'
          end
        else STok (RTok KDot) [c] r
      | [] => STok (RTok KDot) [c] r
      end
    else if Ascii.eqb c ")" then STok (RTok KRParen) [c] r
    else if Ascii.eqb c "]" then STok (RTok KRBrack) [c] r
    else if Ascii.eqb c "}" then STok (RTok KRBrace) [c] r
    else if Ascii.eqb c ";" then STok (RTok KSemi) [c] r
    else if Ascii.eqb c ":" then STok (RTok KColon) [c] r
    else if Ascii.eqb c "=" then STok (RTok KAssign) [c] r
    else if Ascii.eqb c "@" then
      match r with
      | d :: _ =>
        if is_letter d then
          let '(ls, rest) := span is_letter r in
          if chars_eqb ls (list_ascii_of_string "handler") then STok (RTok KAtHandler) (c :: ls) rest
          else if chars_eqb ls (list_ascii_of_string "server") then STok (RTok KAtServer) (c :: ls) rest
          else if chars_eqb ls (list_ascii_of_string "doc") then STok (RTok KAtDoc) (c :: ls) rest
          else SErr
        else if is_nul d then STok (RTok KIllegal) [c] s     (* not consumed: returned for ever *)
        else SErr
      | [] => STok (RTok KIllegal) [c] s
      end
    else if Ascii.eqb c """" then
      match scan_str_body c r with Some (body, rest) => STok (RTok KStr) (c :: body) rest | None => SErr end
    else if Ascii.eqb c "`" then
      match scan_str_body c r with Some (body, rest) => STok (RTok KRaw) (c :: body) rest | None => SErr end
    else if is_idl c then
      let '(id, rest) := span (fun x => is_idl x || is_digit x) s in
      if chars_eqb id interface_kw then
        match rest with
        | a :: b :: rest' => if Ascii.eqb a "{" && Ascii.eqb b "}" then STok (RTok KAny) (id ++ [a; b]) rest'
                             else STok (RTok KIdent) id rest
        | _ => STok (RTok KIdent) id rest
        end
      else STok (RTok KIdent) id rest
    else if is_digit c then scan_number s
    else STok (RTok KIllegal) [c] r
  end.

(* skipWhiteSpace with the line counter *)
Fixpoint skip_ws (line : nat) (s : chars) : nat * chars :=
  match s with
  | c :: r => if is_ws c then skip_ws (if is_nl c then S line else line) r else (line, s)
  | [] => (line, [])
  end.

(* one raw token with the line it starts on *)
Record rtoken := RT { rt_kind : rkind; rt_text : string; rt_line : nat }.

(* the whole input: tokens up to the end of input, the first ILLEGAL token (included: the parser
   stops there and the scanner may not advance) or a scanner error; fuel = number of characters *)
Fixpoint scan_all (fuel : nat) (line : nat) (s : chars) : list rtoken * bool (* no scanner error *) :=
  match fuel with
  | O => ([], true)
  | S f =>
    let '(line', s') := skip_ws line s in
    match next_token s' with
    | SEof => ([], true)
    | SErr => ([], false)
    | STok k text rest =>
      let t := RT k (str text) line' in
      match k with
      | RTok KIllegal => ([t], true)
      | _ => let '(l, ok) := scan_all f line' rest in (t :: l, ok)
      end
    end
  end.

Definition scan_raw (src : string) : list rtoken * bool :=
  let s := list_ascii_of_string src in scan_all (S (List.length s)) 1 s.

(* projection to the parser's view: non-comment tokens with the line bit ("starts on a later
   line than the previous non-comment token"), and the comments with the number of non-comment
   tokens before them *)
Fixpoint project (prev : option nat) (n : nat) (l : list rtoken) : list token * list (nat * string) :=
  match l with
  | [] => ([], [])
  | t :: r =>
    match rt_kind t with
    | RTok k =>
      let nl := match prev with Some p => Nat.ltb p (rt_line t) | None => false end in
      let '(ts, cs) := project (Some (rt_line t)) (S n) r in
      (T k (rt_text t) nl :: ts, cs)
    | _ =>
      let '(ts, cs) := project prev n r in
      (ts, (n, rt_text t) :: cs)
    end
  end.

Definition scan (src : string) : list token * list (nat * string) * bool :=
  let '(raw, ok) := scan_raw src in
  (project None 0 raw, ok).
