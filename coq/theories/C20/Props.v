(* C20 — property theorems only.  They are theorems about the GRAMMAR MODEL of the .api
   language (Model.v: tokens, AST, parser following parser.go, canonical printer, the
   formatter's deletion of empty constructs), not about the Go code: the Go scanner, parser and
   formatter are tied to this model per generated program by Check.v (translation validation).

   Full statement of C20 (properties.jsonl): for every syntactically valid .api source,
   formatting succeeds, the formatted text parses to the same API description (only whitespace
   and comment placement may differ) and formatting again changes nothing; invalid sources
   produce errors, not crashes.  Proved here for the model formatter fmt = print ∘ norm ∘ parse;
   for format.Source it is checked on generated programs only (hence "partial"). *)
From Coq Require Import List String Bool.
From GZ Require Import C20.Model C20.Proofs C20.Check C20.ProofsCheck C20.Scanner C20.ScannerProofs C20.ScannerFuel C20.ParserFuel.
Import ListNotations.
Open Scope string_scope.
Open Scope list_scope.

(* The parser inverts the canonical printer on every well-formed AST: unbounded (any number
   and nesting depth of statements, members, routes), by structural induction.  [wf] holds the
   lexical side conditions the parser itself enforces (keywords, any/map/returns, pointer and
   embedded-field shapes, non-empty lists) and excludes adjacent identifiers in a path segment. *)
Theorem parse_print_roundtrip : forall a, wf a = true -> parse (print a) = Some a.
Proof. exact parse_print. Qed.
Print Assumptions parse_print_roundtrip.

(* Idempotence of the model formatter: whenever the source parses (to a well-formed AST), the
   formatted token stream is a fixed point of the formatter. *)
Theorem model_formatter_idempotent : forall ts a, parse ts = Some a -> wf a = true ->
  exists out, fmt ts = Some out /\ fmt out = Some out.
Proof. exact fmt_idempotent_ex. Qed.
Print Assumptions model_formatter_idempotent.

(* Meaning preservation: the formatted text parses to the same API description, where "same"
   is explicit: [norm] deletes exactly the constructs format.Source deletes (info/import/type
   groups and @server/@doc blocks that are empty or hold only empty strings, `import ""`, and
   empty `()` request/response bodies) and nothing else is changed or reordered. *)
Theorem model_formatter_preserves_meaning : forall ts a, parse ts = Some a -> wf a = true ->
  exists out, fmt ts = Some out /\ parse out = Some (norm a).
Proof. exact fmt_meaning. Qed.
Print Assumptions model_formatter_preserves_meaning.

(* ... and [norm] is a projection that keeps well-formedness, so "same up to norm" is an
   equivalence whose representative is reached after one pass *)
Theorem norm_is_a_projection : forall a, norm (norm a) = norm a.
Proof. exact norm_idem. Qed.
Print Assumptions norm_is_a_projection.

Theorem norm_preserves_wf : forall a, wf a = true -> wf (norm a) = true.
Proof. exact norm_wf. Qed.
Print Assumptions norm_preserves_wf.

(* when the description has no empty construct, the AST is preserved exactly *)
Theorem model_formatter_preserves_ast_without_empties : forall ts a,
  parse ts = Some a -> wf a = true -> norm a = a ->
  exists out, fmt ts = Some out /\ parse out = parse ts.
Proof. exact fmt_ast_without_empties. Qed.
Print Assumptions model_formatter_preserves_ast_without_empties.

(* ---- the per-program check (Check.v) is tied to these statements, not an oracle ---- *)

(* A generated program on which [agrees] and [prop_ok] evaluate to true satisfies the property in
   terms of the model: the Go parser's description [a] is well formed and is what the model parser
   reads off the Go scanner's tokens; the tokens of format.Source's output are those of the model
   formatter (kind and text), and the model parser reads [norm a] off them; format.Source is
   idempotent on it and format.File does the same as format.Source. *)
Theorem checked_case_satisfies_property : forall c a,
  agrees c = true -> prop_ok c = true -> c_scan_ok c = true -> c_ast c = Some a ->
  wf a = true /\ parse (c_toks c) = Some a /\
  fmt (c_toks c) = Some (print (norm a)) /\
  map strip (c_ftoks c) = map strip (print (norm a)) /\
  parse (c_ftoks c) = Some (norm a) /\
  c_idem c = true /\ c_file_ok c = true /\ c_conc_ok c = true.
Proof. exact case_sound. Qed.
Print Assumptions checked_case_satisfies_property.

(* the boolean comparison of descriptions used by the check decides equality *)
Theorem description_equality_is_decided : forall a b, api_eqb a b = true -> a = b.
Proof. exact api_eqb_eq. Qed.
Print Assumptions description_equality_is_decided.

(* the layout comparison implies the comparison of kinds and texts ... *)
Theorem layout_check_implies_same_tokens : forall cpos f m,
  layout_ok cpos f m = true -> map strip f = map strip m.
Proof. exact layout_ok_strip. Qed.
Print Assumptions layout_check_implies_same_tokens.

(* ... accepts the canonical text itself ... *)
Theorem layout_check_accepts_canonical_text : forall cpos ts, layout_ok cpos ts ts = true.
Proof. exact layout_ok_refl. Qed.
Print Assumptions layout_check_accepts_canonical_text.

(* ... and, when the formatted text has no comments and the canonical text none of the two
   documented free breaks, forces exactly the canonical line structure (so the line-sensitive
   decision of the grammar, embedded vs named field, is covered by the comparison itself) *)
Theorem layout_check_is_exact_without_comments : forall f m i prev,
  layout_from i prev [] f m = true -> no_free_break prev m = true -> map tnl f = map tnl m.
Proof. exact layout_exact. Qed.
Print Assumptions layout_check_is_exact_without_comments.

(* which comments must survive is decided against the model itself: the marked printer gives
   the printed tokens of a description, and those it marks "kept" are exactly what the model
   formatter prints; so "between two tokens printed on one line" and "attached to a deleted
   construct" (the only excuses of the finding C20-comment-dropped) are read off Model.v *)
Theorem marked_printer_is_the_formatter : forall a,
  map fst (mark a) = print a /\ map fst (filter snd (mark a)) = print (norm a) /\ mark_consistent a = true.
Proof. exact mark_is_formatter. Qed.
Print Assumptions marked_printer_is_the_formatter.

(* comments: "no comment invented" (the formatted comments are a subsequence of the source's)
   together with "as many as before" is "exactly the same comments in the same order" *)
Theorem no_comment_invented_and_none_lost : forall ys xs,
  subseq xs ys = true -> List.length xs = List.length ys -> xs = ys.
Proof. exact subseq_same_length. Qed.
Print Assumptions no_comment_invented_and_none_lost.

Theorem comment_normalisation_is_a_projection : forall k s, norm_cmt (k, norm_cmt (k, s)) = norm_cmt (k, s).
Proof. exact norm_cmt_idem. Qed.
Print Assumptions comment_normalisation_is_a_projection.

(* ---- the lexical layer (Scanner.v: a model of scanner.go, characters -> tokens) ---- *)

(* The model scanner inverts the rendering of any stream of lexically well-formed tokens (one
   blank between tokens, one line break where a token starts a line): same kinds, texts and
   line bits, no comment, no error.  Unbounded in the number and the length of the tokens.
   [lexb]: identifiers, integers, one-unit durations, strings without their own delimiter,
   operators and keywords; multi-unit durations (1h30m) are tied to scanner.go by the per-program
   comparison only. *)
Theorem scan_inverts_render : forall ts, forallb lexb ts = true ->
  scan (str (render ts)) = (first_plain ts, [], true).
Proof. exact scan_render_chars. Qed.
Print Assumptions scan_inverts_render.

(* characters -> tokens -> description: printing a well-formed description, rendering it as text,
   scanning and parsing gives the description back *)
Theorem text_roundtrip : forall a, wf a = true -> forallb lexb (print a) = true ->
  exists ts, scan (str (render (print a))) = (ts, [], true) /\ parse ts = Some a.
Proof. exact char_roundtrip. Qed.
Print Assumptions text_roundtrip.

(* ---- "the scanner reports errors rather than crashing", on the model: the scanner is total for
   the right reason.  [scan_all] is written with fuel; on EVERY text (valid or not: unterminated
   strings and comments, illegal characters, NUL bytes, a dangling '@') every token other than a
   final ILLEGAL one consumes at least one character ... *)
Theorem scanner_token_consumes_input : forall c s,
  match next_token (c :: s) with
  | STok k _ rest => k = RTok KIllegal \/ List.length rest <= List.length s
  | _ => True
  end.
Proof. exact next_token_good. Qed.
Print Assumptions scanner_token_consumes_input.

(* ... so the fuel never runs out: any amount above the length of the text gives the result of
   [scan].  "No error" always means that the end of the text (or an ILLEGAL token, where the parser
   stops) was reached, never that the model gave up ... *)
Theorem scanner_fuel_never_runs_out : forall src f,
  List.length (list_ascii_of_string src) < f -> scan_all f 1 (list_ascii_of_string src) = scan_raw src.
Proof. exact scan_raw_fuel. Qed.
Print Assumptions scanner_fuel_never_runs_out.

(* ... and the error flag is raised exactly by a step of scanner.go that returns an error (SErr:
   string or comment not closed, '@' followed by something that is not doc/handler/server, a
   duration cut short by the end of the text) before any ILLEGAL token: the scan is the unfolding
   of NextToken, one step at a time, with no bound *)
Theorem scanner_is_the_iteration_of_next_token : forall f line s,
  List.length s < f ->
  scan_all f line s =
  let '(line', s') := skip_ws line s in
  match next_token s' with
  | SEof => ([], true)
  | SErr => ([], false)
  | STok k text rest =>
    let t := RT k (str text) line' in
    match k with
    | RTok KIllegal => ([t], true)
    | _ => let '(l, ok) := scan_all (List.length rest + 1) line' rest in (t :: l, ok)
    end
  end.
Proof. exact scan_all_step. Qed.
Print Assumptions scanner_is_the_iteration_of_next_token.

(* invalid texts on the model scanner: an error (not closed string / comment, unknown @-word), an
   ILLEGAL token that ends the stream (the parser stops there), and tokens before either are kept *)
Example ex_scan_errors :
  scan "a ""bc" = ([tI "a"], [], false) /\
  scan "a /* x" = ([tI "a"], [], false) /\
  scan "@foo" = ([], [], false) /\
  scan "a # b" = ([tI "a"; tP KIllegal "#"], [], true) /\
  scan "1sx y" = ([tP KDur "1s"; tI "x"; tI "y"], [], true) /\
  scan "1s2x y" = ([tP KIllegal "x"], [], true) /\
  scan "type T { A int `json" = ([tI "type"; tI "T"; tP KLBrace "{"; tI "A"; tI "int"], [], false).
Proof. vm_compute. repeat split; reflexivity. Qed.

(* ---- "... and the parser reports errors rather than crashing", on the model.  [parse] answers [None]
   for a syntax error and would answer [None] when out of fuel: it never is.  On EVERY token stream
   (valid or not) every sub-parser consumes what it accepts, so any fuel and any gas above the number
   of tokens give the answer of [parse] -- a rejection by the model parser is always one of its
   expectation tests failing (the places where parser.go appends to p.errors) *)
Theorem parser_fuel_never_runs_out : forall ts f g,
  List.length ts < f -> List.length ts < g -> p_stmts f g ts = parse ts.
Proof. exact parse_fuel. Qed.
Print Assumptions parser_fuel_never_runs_out.

(* ... and the statement loop of Parser.Parse cannot spin: an accepted statement consumes a token *)
Theorem parser_statement_consumes_input : forall f ts s r,
  p_stmt f ts = Some (s, r) -> List.length r < List.length ts.
Proof. exact accepted_statement_consumes. Qed.
Print Assumptions parser_statement_consumes_input.

(* invalid token streams on the model parser: a struct that is not closed, a keyword as a type name, a
   route without a path, an ILLEGAL token, a statement that does not start with a statement word *)
Example ex_parse_errors :
  parse [tI "type"; tI "T"; tP KLBrace "{"; tIn "A"; tI "int"] = None /\
  parse [tI "type"; tI "func"; tP KLBrace "{"; tP KRBrace "}"] = None /\
  parse [tI "service"; tI "s"; tP KLBrace "{"; tPn KAtHandler "@handler"; tI "h"; tIn "get"; tP KLParen "("; tI "R"; tP KRParen ")"; tPn KRBrace "}"] = None /\
  parse [tI "type"; tI "T"; tP KIllegal "#"] = None /\
  parse [tI "foo"] = None /\
  parse [] = Some [].
Proof. vm_compute. repeat split; reflexivity. Qed.

(* ---- the text layer (Text.v: the layout decisions of the Format methods and the column logic of
   the tabwriter).  In the sub-language L0 (no comments, struct declarations with struct-free members,
   no tab or line break inside a token) a checked case's formatted text is, character for character,
   the model text [ptext a]: indentation, blanks, alignment columns and blank lines included *)
Theorem checked_text_is_the_model_text : forall c a f,
  agrees c = true -> c_ast c = Some a -> c_fsrc c = Some f -> c_fout c = OOk ->
  c_cmts c = [] -> l0 (c_toks c) a = true -> f = ptext a.
Proof. exact case_text_sound. Qed.
Print Assumptions checked_text_is_the_model_text.

(* a description in L0 that uses every statement kind, two nested tabwriter passes, an empty struct in
   a group, an anonymous member with a tag (written without indentation by the code), an empty
   info block, an empty "()" body and a run of single-line imports *)
Definition ex_l0 : api :=
  [ SSyntax """v1"""; SInfo [("title", Lit false """t"""); ("desc", Lit true "`long`")]; SInfo [];
    SImport """a.api"""; SImport """b.api""";
    SType ("T", false, DStruct [ (["A"; "B"], DBase "int", Some "`json:""a""`"); ([], DBase "Foo", None);
                                 (["Name"], DMap (DBase "string") (DSlice (DPtr (DBase "T"))), None) ]);
    STypes [ ("U", false, DStruct []); ("V", true, DStruct [ ([], DPtr (DBase "T"), Some "`json:""t""`"); (["Long_name"], DAny, None) ]) ];
    SService (Some [("prefix", SVPath None [("v1", None)]); ("timeout", SVDur "3s")]) "demo" true
      [ Item (Some (DocLit """d""")) "h" (Route "get" (Path [PSeg false (PId "a") []; PSeg true (PId "id") []] false)
                                                (Some (Some (Body false true "T"))) (Some (Some (Body true false "T"))));
        Item (Some (DocGroup [("summary", Lit false """s"""); ("x", Lit false """""")])) "g" (Route "post" (Path [] true) (Some None) None) ];
    SImport """z.api""" ].

(* its text (format.Source returns exactly this text for it, and for this text: checked on the
   implementation) *)
Example ex_l0_text :
  wf ex_l0 = true /\ l0 (print ex_l0) ex_l0 = true /\
  ptext ex_l0 = "syntax = ""v1""

info (
	title: ""t""
	desc:  `long`
)

import ""a.api""
import ""b.api""

type T {
	A, B int `json:""a""`
	Foo
	Name map[string][]*T
}

type (
	U  {}
	V = {
*T `json:""t""`
		Long_name any
	}
)

@server (
	prefix:  /v1
	timeout: 3s
)
service demo-api {
	@doc ""d""
	@handler h
	get /a/:id (*T) returns ([]T)

	@doc (
		summary: ""s""
		x:       """"
	)
	@handler g
	post /
}

import ""z.api""
".
Proof. vm_compute. repeat split; reflexivity. Qed.

(* the text model and the token model agree on it: scanning the model text gives the tokens and the
   line structure of the canonical printer, and they parse back to the description (characters ->
   tokens -> description, through the real layout this time, not through [render]) *)
Example ex_l0_text_roundtrip :
  match scan (ptext ex_l0) with
  | (ts, cs, ok) => ok = true /\ cs = [] /\ ts = first_plain (print (norm ex_l0)) /\ parse ts = Some (norm ex_l0)
  end.
Proof. vm_compute. repeat split; reflexivity. Qed.

(* ---- non-vacuity: a program using every construct of the language *)
Definition ex_api : api :=
  [ SSyntax """v1""";
    SInfo [("title", Lit false """demo"""); ("desc", Lit true "`raw`")];
    SImport """a.api""";
    SImports ["""b.api"""; """c.api"""];
    SImports [];
    SType ("Foo", false,
           DStruct [ (["A"; "B"], DBase "int", Some "`json:""a""`");
                     ([], DBase "Bar", None);
                     ([], DPtr (DBase "Baz"), Some "`json:""z""`");
                     (["M"], DMap (DBase "string") (DSlice (DPtr (DBase "Foo"))), None);
                     (["N"], DStruct [ (["X"], DArray (ALInt "3") DAny, None);
                                       (["Y"], DArray ALDots DIface, None) ], Some "`json:""n""`");
                     ([], DAny, None) ]);
    STypes [ ("Alias", true, DBase "Foo"); ("L", false, DSlice (DBase "Foo")) ];
    SService (Some [ ("group", SVPath (Some "a") [("b", Some "c")]); ("prefix", SVPath None [("v1", None)]);
                     ("timeout", SVDur "3s"); ("maxBytes", SVInt "1024"); ("summary", SVStr """s""");
                     ("middleware", SVList "A" ["B"; "C"]); ("name", SVSubs "x" ["y"]) ])
             "demo" true
             [ Item (Some (DocLit """doc""")) "h1"
                    (Route "post" (Path [PSeg false (PId "c") []; PSeg false (PId "d") [(SepSub, "x1")]] false)
                           None (Some (Some (Body true false "Foo"))));
               Item (Some (DocGroup [("summary", Lit false """s""")])) "h2"
                    (Route "get" (Path [PSeg false (PId "x") []; PSeg true (PId "id") []] true)
                           (Some (Some (Body false true "Foo"))) None);
               Item (Some (DocLit """""")) "h3"
                    (Route "delete" (Path [] true) (Some None) (Some None)) ];
    SService None "plain" false [] ].

Example ex_wf : wf ex_api = true.
Proof. vm_compute. reflexivity. Qed.

(* the theorem's conclusion evaluated on the example (independent of the proof) *)
Example ex_roundtrip : parse (print ex_api) = Some ex_api.
Proof. vm_compute. reflexivity. Qed.

(* norm really deletes something here (the empty import group, the empty @doc, the "()" bodies) *)
Example ex_norm_changes : norm ex_api <> ex_api /\ List.length (norm ex_api) = 8.
Proof. split; [vm_compute; discriminate|vm_compute; reflexivity]. Qed.

Example ex_fmt_fixed_point :
  fmt (print ex_api) = Some (print (norm ex_api)) /\ fmt (print (norm ex_api)) = Some (print (norm ex_api)).
Proof. vm_compute. split; reflexivity. Qed.

(* the hypotheses of [checked_case_satisfies_property] are met by a concrete non-trivial case: what
   a correct formatter returns for [ex_api], with two comments kept in place *)
Definition ex_case : case :=
  mkCase None None true (print ex_api) [(0, "// head"); (3, "// after syntax")] [false; true] (Some ex_api) OOk OOk
         (print (norm ex_api)) [(0, "// head"); (3, "// after   syntax ")] (Some (norm ex_api)) true true true true true [OErr; OOk].

Example ex_case_checked : agrees ex_case = true /\ prop_ok ex_case = true.
Proof. vm_compute. split; reflexivity. Qed.

(* the lexical hypothesis of [text_roundtrip] holds of the example, and the text really is text *)
Example ex_lex : forallb lexb (print ex_api) = true.
Proof. vm_compute. reflexivity. Qed.

Example ex_text_roundtrip :
  match scan (str (render (print ex_api))) with
  | (ts, cs, ok) => ok = true /\ cs = [] /\ parse ts = Some ex_api
  end.
Proof. vm_compute. repeat split; reflexivity. Qed.

(* the scanner model on a text with comments, a raw string holding a line break (not counted by
   scanner.go), a multi-unit duration and the "half closed" block comment of scanner.go *)
Example ex_scan :
  scan "a /* x*y / z */ 1h30m `p
q` b // c
d"
  = ([tI "a"; tI "z"; tP KMul "*"; tP KQuo "/"; tP KDur "1h30m"; tP KRaw "`p
q`"; tI "b"; tIn "d"],
     [(1%nat, "/* x*y /"); (7%nat, "// c")], true).
Proof. vm_compute. reflexivity. Qed.
