(* C20 — property theorems only.  They are theorems about the GRAMMAR MODEL of the .api
   language (Model.v: tokens, AST, parser following parser.go, canonical printer, the
   formatter's deletion of empty constructs), not about the Go code: the Go scanner, parser and
   formatter are tied to this model per generated program by Check.v (translation validation).

   Full statement of C20 (properties.jsonl): for every syntactically valid .api source,
   formatting succeeds, the formatted text parses to the same API description (only whitespace
   and comment placement may differ) and formatting again changes nothing; invalid sources
   produce errors, not crashes.  Proved here for the model formatter fmt = print ∘ norm ∘ parse;
   for format.Source it is checked on generated programs only (hence "partial"). *)
From Coq Require Import List String Bool.
From GZ Require Import C20.Model C20.Proofs.
Import ListNotations.
Open Scope string_scope.
Open Scope list_scope.

(* The parser inverts the canonical printer on every well-formed AST: unbounded (any number
   and nesting depth of statements, members, routes), by structural induction.  [wf] holds the
   lexical side conditions the parser itself enforces (keywords, any/map/returns, pointer and
   embedded-field shapes, non-empty lists) and excludes adjacent identifiers in a path segment. *)
Theorem parse_print_roundtrip : forall a, wf a = true -> parse (print a) = Some a.
Proof. exact parse_print. Qed.
Print Assumptions parse_print_roundtrip.

(* Idempotence of the model formatter: whenever the source parses (to a well-formed AST), the
   formatted token stream is a fixed point of the formatter. *)
Theorem model_formatter_idempotent : forall ts a, parse ts = Some a -> wf a = true ->
  exists out, fmt ts = Some out /\ fmt out = Some out.
Proof.
  intros ts a Hp Hwf. destruct (fmt_idempotent ts a Hp Hwf) as [H1 H2].
  exists (print (norm a)). split; assumption.
Qed.
Print Assumptions model_formatter_idempotent.

(* Meaning preservation: the formatted text parses to the same API description, where "same"
   is explicit: [norm] deletes exactly the constructs format.Source deletes (info/import/type
   groups and @server/@doc blocks that are empty or hold only empty strings, `import ""`, and
   empty `()` request/response bodies) and nothing else is changed or reordered. *)
Theorem model_formatter_preserves_meaning : forall ts a, parse ts = Some a -> wf a = true ->
  exists out, fmt ts = Some out /\ parse out = Some (norm a).
Proof. exact fmt_meaning. Qed.
Print Assumptions model_formatter_preserves_meaning.

(* ... and [norm] is a projection that keeps well-formedness, so "same up to norm" is an
   equivalence whose representative is reached after one pass *)
Theorem norm_is_a_projection : forall a, norm (norm a) = norm a.
Proof. exact norm_idem. Qed.
Print Assumptions norm_is_a_projection.

Theorem norm_preserves_wf : forall a, wf a = true -> wf (norm a) = true.
Proof. exact norm_wf. Qed.
Print Assumptions norm_preserves_wf.

(* when the description has no empty construct, the AST is preserved exactly *)
Theorem model_formatter_preserves_ast_without_empties : forall ts a,
  parse ts = Some a -> wf a = true -> norm a = a ->
  exists out, fmt ts = Some out /\ parse out = parse ts.
Proof.
  intros ts a Hp Hwf Hn. destruct (fmt_meaning ts a Hp Hwf) as (out & H1 & H2).
  exists out. split; [exact H1|]. rewrite H2, Hn, Hp. reflexivity.
Qed.
Print Assumptions model_formatter_preserves_ast_without_empties.

(* ---- non-vacuity: a program using every construct of the language *)
Definition ex_api : api :=
  [ SSyntax """v1""";
    SInfo [("title", Lit false """demo"""); ("desc", Lit true "`raw`")];
    SImport """a.api""";
    SImports ["""b.api"""; """c.api"""];
    SImports [];
    SType ("Foo", false,
           DStruct [ (["A"; "B"], DBase "int", Some "`json:""a""`");
                     ([], DBase "Bar", None);
                     ([], DPtr (DBase "Baz"), Some "`json:""z""`");
                     (["M"], DMap (DBase "string") (DSlice (DPtr (DBase "Foo"))), None);
                     (["N"], DStruct [ (["X"], DArray (ALInt "3") DAny, None);
                                       (["Y"], DArray ALDots DIface, None) ], Some "`json:""n""`");
                     ([], DAny, None) ]);
    STypes [ ("Alias", true, DBase "Foo"); ("L", false, DSlice (DBase "Foo")) ];
    SService (Some [ ("group", SVPath (Some "a") [("b", Some "c")]); ("prefix", SVPath None [("v1", None)]);
                     ("timeout", SVDur "3s"); ("maxBytes", SVInt "1024"); ("summary", SVStr """s""");
                     ("middleware", SVList "A" ["B"; "C"]); ("name", SVSubs "x" ["y"]) ])
             "demo" true
             [ Item (Some (DocLit """doc""")) "h1"
                    (Route "post" (Path [PSeg false (PId "c") []; PSeg false (PId "d") [(SepSub, "x1")]] false)
                           None (Some (Some (Body true false "Foo"))));
               Item (Some (DocGroup [("summary", Lit false """s""")])) "h2"
                    (Route "get" (Path [PSeg false (PId "x") []; PSeg true (PId "id") []] true)
                           (Some (Some (Body false true "Foo"))) None);
               Item (Some (DocLit """""")) "h3"
                    (Route "delete" (Path [] true) (Some None) (Some None)) ];
    SService None "plain" false [] ].

Example ex_wf : wf ex_api = true.
Proof. vm_compute. reflexivity. Qed.

(* the theorem's conclusion evaluated on the example (independent of the proof) *)
Example ex_roundtrip : parse (print ex_api) = Some ex_api.
Proof. vm_compute. reflexivity. Qed.

(* norm really deletes something here (the empty import group, the empty @doc, the "()" bodies) *)
Example ex_norm_changes : norm ex_api <> ex_api /\ List.length (norm ex_api) = 8.
Proof. split; [vm_compute; discriminate|vm_compute; reflexivity]. Qed.

Example ex_fmt_fixed_point :
  fmt (print ex_api) = Some (print (norm ex_api)) /\ fmt (print (norm ex_api)) = Some (print (norm ex_api)).
Proof. vm_compute. split; reflexivity. Qed.
