(* C20 — executable model of the goctl .api LANGUAGE (tools/goctl/pkg/parser/api):
   tokens as produced by scanner.go, the abstract syntax built by parser.go (comments and
   positions erased), the parser itself (a 1-token-lookahead recursive descent that
   follows parser.go function by function, including its follow-set checks and its one
   line-sensitive decision), the formatter's normalisation of empty constructs, and a
   canonical printer.  No proofs in this file.

   What is NOT modelled: comments (they are attached to token nodes by the Go parser and
   never influence the AST), error messages (failure is [None]), columns/alignment of the
   formatted text.  Line structure is kept only as the one bit the grammar looks at:
   [tnl t] = "t starts on a later line than the previous non-comment token". *)
From Coq Require Import List String Bool Arith.
Import ListNotations.
Open Scope string_scope.
Open Scope list_scope.

(* ---------------------------------------------------------------- tokens *)

Inductive kind :=
| KIdent | KInt | KDur | KStr | KRaw
| KSub | KMul | KQuo | KAssign
| KLParen | KLBrack | KLBrace | KComma | KDot
| KRParen | KRBrace | KRBrack | KSemi | KColon | KEllipsis
| KAtDoc | KAtHandler | KAtServer
| KAny        (* the single token "interface{}" *)
| KIllegal.

Record token := T { tk : kind; tx : string; tnl : bool }.

Definition kind_eqb (a b : kind) : bool :=
  match a, b with
  | KIdent, KIdent | KInt, KInt | KDur, KDur | KStr, KStr | KRaw, KRaw
  | KSub, KSub | KMul, KMul | KQuo, KQuo | KAssign, KAssign
  | KLParen, KLParen | KLBrack, KLBrack | KLBrace, KLBrace | KComma, KComma | KDot, KDot
  | KRParen, KRParen | KRBrace, KRBrace | KRBrack, KRBrack | KSemi, KSemi | KColon, KColon
  | KEllipsis, KEllipsis | KAtDoc, KAtDoc | KAtHandler, KAtHandler | KAtServer, KAtServer
  | KAny, KAny | KIllegal, KIllegal => true
  | _, _ => false
  end.

(* canonical tokens *)
Definition tI (s : string) := T KIdent s false.
Definition tIn (s : string) := T KIdent s true.
Definition tP (k : kind) (s : string) := T k s false.
Definition tPn (k : kind) (s : string) := T k s true.
Definition set_nl (b : bool) (t : token) := T (tk t) (tx t) b.

Definition is (k : kind) (t : token) : bool := kind_eqb (tk t) k.
Definition is_text (s : string) (t : token) : bool := String.eqb (tx t) s.

(* token.go: keywords (LookupKeyword) and HTTP methods *)
Definition go_keywords : list string :=
  ["break"; "case"; "chan"; "const"; "continue"; "default"; "defer"; "else"; "fallthrough"; "for";
   "func"; "go"; "goto"; "if"; "import"; "interface"; "map"; "package"; "range"; "return";
   "select"; "struct"; "switch"; "type"; "var"].
Definition http_methods : list string :=
  ["get"; "head"; "post"; "put"; "patch"; "delete"; "connect"; "options"; "trace"].

Definition mem (s : string) (l : list string) : bool := existsb (String.eqb s) l.
Definition is_keyword (s : string) : bool := mem s go_keywords.

(* ---------------------------------------------------------------- abstract syntax *)

Inductive alen := ALInt (s : string) | ALDots.

Inductive dtype :=
| DBase (s : string)            (* BaseDataType: any identifier that is not a keyword/map/any *)
| DAny                          (* AnyDataType: the identifier "any" *)
| DIface                        (* InterfaceDataType: interface{} *)
| DStruct (es : list (list string * dtype * option string))   (* names, type, tag *)
| DArray (n : alen) (d : dtype)
| DSlice (d : dtype)
| DMap (k v : dtype)
| DPtr (d : dtype).

Definition elem := (list string * dtype * option string)%type.

Record lit := Lit { l_raw : bool; l_tx : string }.          (* STRING or RAW_STRING value *)
Definition kv := (string * lit)%type.

(* @server values (parseAtServerKVExpression) *)
Inductive sval :=
| SVDur (s : string) | SVInt (s : string) | SVStr (s : string)
| SVList (x : string) (xs : list string)                   (* a,b,c   (xs non-empty) *)
| SVSubs (x : string) (xs : list string)                   (* a-b-c   (xs non-empty) *)
| SVPath (x : option string) (segs : list (string * option string)).  (* [a] (/b[-c])*  *)
Definition skv := (string * sval)%type.

(* route paths: segments "/" [":"] item, or a final bare "/" *)
Inductive phead := PId (s : string) | PInt (s : string).
Inductive psep := SepSub | SepNone.      (* "-" ident, or an adjacent ident *)
Record pseg := PSeg { ps_colon : bool; ps_head : phead; ps_tail : list (psep * string) }.
Record path := Path { p_segs : list pseg; p_trail : bool }.   (* p_trail: ends with a bare "/" *)

Record bodyx := Body { b_arr : bool; b_star : bool; b_val : string }.
Definition body := option bodyx.          (* None = "()" *)

Record route := Route { r_method : string; r_path : path; r_req : option body; r_resp : option body }.

Inductive atdoc := DocLit (s : string) | DocGroup (kvs : list kv).
Record item := Item { i_doc : option atdoc; i_handler : string; i_route : route }.

Definition texpr := (string * bool * dtype)%type.           (* name, "=" present, type *)

Inductive stmt :=
| SSyntax (v : string)
| SInfo (kvs : list kv)
| SImport (v : string)
| SImports (vs : list string)
| SType (e : texpr)
| STypes (es : list texpr)
| SService (srv : option (list skv)) (name : string) (api : bool) (items : list item).

Definition api := list stmt.

(* ---------------------------------------------------------------- parser *)

Definition P (A : Type) := list token -> option (A * list token).

Definition peek_is (k : kind) (ts : list token) : bool :=
  match ts with t :: _ => is k t | [] => false end.
Definition peek_text (s : string) (ts : list token) : bool :=
  match ts with t :: _ => is_text s t | [] => false end.
Definition peek_in (ks : list kind) (ts : list token) : bool :=
  existsb (fun k => peek_is k ts) ks.

(* advanceIfPeekTokenIs(kind) *)
Definition expect (k : kind) : P string := fun ts =>
  match ts with
  | t :: r => if is k t then Some (tx t, r) else None
  | [] => None
  end.

(* generic loop: while the next token does not satisfy [stop] (and exists), parse one element
   and require the token after it to satisfy [follow] (notExpectPeekToken(...)) *)
Fixpoint many {A} (fuel : nat) (stop follow : list token -> bool) (p : P A) (ts : list token)
  : option (list A * list token) :=
  match fuel with
  | O => None
  | S f =>
    match ts with
    | [] => Some ([], ts)          (* peek = EOF: callers' next expect fails *)
    | _ =>
      if stop ts then Some ([], ts)
      else match p ts with
           | None => None
           | Some (a, r) =>
             if follow r then
               match many f stop follow p r with
               | Some (l, r') => Some (a :: l, r')
               | None => None
               end
             else None
           end
    end
  end.

Definition p_lit : P lit := fun ts =>
  match ts with
  | t :: r => if is KStr t then Some (Lit false (tx t), r)
              else if is KRaw t then Some (Lit true (tx t), r) else None
  | [] => None
  end.

(* parseKVExpression: IDENT ':' (STRING | RAW_STRING) *)
Definition p_kv : P kv := fun ts =>
  match ts with
  | k :: c :: r =>
    if is KIdent k && is KColon c then
      match p_lit r with Some (v, r') => Some ((tx k, v), r') | None => None end
    else None
  | _ => None
  end.

Definition follow_kv (ts : list token) := peek_in [KRParen; KIdent] ts.
Definition stop_rparen (ts : list token) := peek_is KRParen ts.

(* '(' kv* ')' *)
Definition p_kvgroup (fuel : nat) : P (list kv) := fun ts =>
  match expect KLParen ts with
  | Some (_, r) =>
    match many fuel stop_rparen follow_kv p_kv r with
    | Some (l, r') => match expect KRParen r' with Some (_, r'') => Some (l, r'') | None => None end
    | None => None
    end
  | None => None
  end.

(* ---- data types (parseDataType & co) *)

Definition base_or_any (s : string) : dtype := if String.eqb s "any" then DAny else DBase s.

Fixpoint p_names (fuel : nat) (ts : list token) : option (list string * list token) :=
  (* (',' IDENT)*  with keyword check *)
  match fuel with
  | O => None
  | S f =>
    match ts with
    | c :: n :: r =>
      if is KComma c then
        if is KIdent n && negb (is_keyword (tx n)) then
          match p_names f r with Some (l, r') => Some (tx n :: l, r') | None => None end
        else None
      else Some ([], ts)
    | [c] => if is KComma c then None else Some ([], ts)
    | [] => Some ([], ts)
    end
  end.

Definition stop_rbrace (ts : list token) := peek_is KRBrace ts.
Definition follow_elem (ts : list token) := peek_in [KIdent; KMul; KRBrace] ts.

(* parseElemExpr, parameterised by the recursive parsers (p_dt f, p_names f) *)
Definition elem_finish (names : list string) (d : dtype) (r : list token) : option (elem * list token) :=
  if peek_in [KRaw; KMul; KIdent; KRBrace] r then
    match r with
    | t :: r' => if is KRaw t then Some ((names, d, Some (tx t)), r') else Some ((names, d, None), r)
    | [] => None
    end
  else None.

Definition p_elem_with (pd : list token -> option (dtype * list token))
                       (pn : list token -> option (list string * list token)) : P elem := fun ts =>
  match ts with
  | t :: r =>
    if is KMul t then
      match r with
      | x :: r' => if is KIdent x then elem_finish [] (DPtr (base_or_any (tx x))) r' else None
      | [] => None
      end
    else if is KIdent t then
      if is_keyword (tx t) then None
      else match r with
           | [] => None
           | n :: _ =>
             (* the one line-sensitive decision of the grammar: an identifier followed by a
                line break (or by a tag) is an embedded field *)
             if tnl n || is KRaw n then elem_finish [] (base_or_any (tx t)) r
             else if peek_in [KComma; KIdent; KLBrack; KAny; KMul; KLBrace] r then
               match pn r with
               | Some (more, r1) =>
                 match pd r1 with
                 | Some (d, r2) => elem_finish (tx t :: more) d r2
                 | None => None
                 end
               | None => None
               end
             else None
           end
    else None
  | [] => None
  end.

Fixpoint p_dt (fuel : nat) (ts : list token) {struct fuel} : option (dtype * list token) :=
  match fuel with
  | O => None
  | S f =>
    let p_elem : P elem := p_elem_with (p_dt f) (p_names f) in
    match ts with
    | [] => None
    | t :: r =>
      if is KIdent t then
        if is_text "any" t then Some (DAny, r)
        else if is_text "map" t then
          match expect KLBrack r with
          | Some (_, r1) =>
            match p_dt f r1 with
            | Some (k, r2) =>
              match expect KRBrack r2 with
              | Some (_, r3) =>
                match p_dt f r3 with
                | Some (v, r4) => Some (DMap k v, r4)
                | None => None
                end
              | None => None
              end
            | None => None
            end
          | None => None
          end
        else if is_keyword (tx t) then None
        else Some (DBase (tx t), r)
      else if is KLBrace t then
        if peek_in [KIdent; KMul; KRBrace] r then
          match many f stop_rbrace follow_elem p_elem r with
          | Some (es, r1) =>
            match expect KRBrace r1 with
            | Some (_, r2) => Some (DStruct es, r2)
            | None => None
            end
          | None => None
          end
        else None
      else if is KLBrack t then
        match r with
        | x :: r1 =>
          if is KRBrack x then
            match p_dt f r1 with Some (d, r2) => Some (DSlice d, r2) | None => None end
          else if is KInt x || is KEllipsis x then
            match expect KRBrack r1 with
            | Some (_, r2) =>
              match p_dt f r2 with
              | Some (d, r3) => Some (DArray (if is KInt x then ALInt (tx x) else ALDots) d, r3)
              | None => None
              end
            | None => None
            end
          else None
        | [] => None
        end
      else if is KAny t then Some (DIface, r)
      else if is KMul t then
        if peek_in [KIdent; KLBrack; KAny; KMul] r then
          match p_dt f r with Some (d, r1) => Some (DPtr d, r1) | None => None end
        else None
      else None
    end
  end.

(* parseTypeExpr: IDENT(non keyword) ['='] DataType *)
Definition p_texpr (fuel : nat) : P texpr := fun ts =>
  match ts with
  | n :: r =>
    if is KIdent n && negb (is_keyword (tx n)) then
      let '(asg, r1) := match r with
                        | a :: r' => if is KAssign a then (true, r') else (false, r)
                        | [] => (false, r)
                        end in
      match p_dt fuel r1 with
      | Some (d, r2) => Some ((tx n, asg, d), r2)
      | None => None
      end
    else None
  | [] => None
  end.

Definition follow_texpr (ts : list token) := peek_in [KIdent; KRParen] ts.

(* ---- service *)

Definition route_stop (ts : list token) : bool :=
  peek_is KLParen ts || peek_text "returns" ts || peek_is KAtDoc ts || peek_is KAtHandler ts
  || peek_is KSemi ts || peek_is KRBrace ts.

(* parsePathItem's loop: ('-' IDENT | IDENT)* until '/' or a route_stop token or EOF *)
Fixpoint p_ptail (fuel : nat) (ts : list token) : option (list (psep * string) * list token) :=
  match fuel with
  | O => None
  | S f =>
    match ts with
    | [] => Some ([], ts)
    | t :: r =>
      if is KQuo t || route_stop ts then Some ([], ts)
      else if is KSub t then
        match r with
        | x :: r' => if is KIdent x then
                       match p_ptail f r' with Some (l, r'') => Some ((SepSub, tx x) :: l, r'') | None => None end
                     else None
        | [] => None
        end
      else if is KIdent t then
        match p_ptail f r with Some (l, r') => Some ((SepNone, tx t) :: l, r') | None => None end
      else None
    end
  end.

(* parsePathExpr's loop body, after the '/' has been seen to be followed by a segment *)
Fixpoint p_psegs (fuel : nat) (ts : list token) : option (list pseg * bool * list token) :=
  match fuel with
  | O => None
  | S f =>
    if route_stop ts then Some ([], false, ts)
    else match ts with
         | q :: r =>
           if is KQuo q then
             if route_stop r then Some ([], true, r)
             else if peek_in [KColon; KIdent; KInt] r then
               let '(col, r1) := match r with
                                 | c :: r' => if is KColon c then (true, r') else (false, r)
                                 | [] => (false, r)
                                 end in
               match r1 with
               | h :: r2 =>
                 if is KIdent h || is KInt h then
                   match p_ptail f r2 with
                   | Some (tl, r3) =>
                     if peek_is KQuo r3 || route_stop r3 then
                       match p_psegs f r3 with
                       | Some (segs, trail, r4) =>
                         Some (PSeg col (if is KIdent h then PId (tx h) else PInt (tx h)) tl :: segs, trail, r4)
                       | None => None
                       end
                     else None
                   | None => None
                   end
                 else None
               | [] => None
               end
             else None
           else None
         | [] => None
         end
  end.

(* the Go parser indexes values[0] (panics) when the path is empty; the model fails *)
Definition p_path (fuel : nat) : P path := fun ts =>
  if route_stop ts then None
  else match p_psegs fuel ts with
       | Some (segs, trail, r) => Some (Path segs trail, r)
       | None => None
       end.

(* parseBodyStmt *)
Definition p_body : P body := fun ts =>
  match expect KLParen ts with
  | None => None
  | Some (_, r) =>
    match r with
    | [] => None
    | t :: r1 =>
      if is KRParen t then Some (None, r1)
      else
        let '(arr, r2) := match r with
                          | a :: b :: r' => if is KLBrack a then (Some (is KRBrack b), r') else (None, r)
                          | _ => (None, r)
                          end in
        match arr with
        | Some false => None
        | _ =>
          match r2 with
          | s :: v :: r3 =>
            if is KMul s then
              if is KIdent v then
                match expect KRParen r3 with
                | Some (_, r4) => Some (Some (Body (match arr with Some _ => true | None => false end) true (tx v)), r4)
                | None => None
                end
              else None
            else if is KIdent s then
              match expect KRParen (v :: r3) with
              | Some (_, r4) => Some (Some (Body (match arr with Some _ => true | None => false end) false (tx s)), r4)
              | None => None
              end
            else None
          | _ => None
          end
        end
    end
  end.

Definition skip_semi (ts : list token) : list token :=
  match ts with t :: r => if is KSemi t then r else ts | [] => ts end.

(* parseRouteStmt *)
Definition p_route (fuel : nat) : P route := fun ts =>
  match ts with
  | m :: r =>
    if is KIdent m && mem (tx m) http_methods then   (* advanceIfPeekTokenIs(HttpMethods...) compares texts *)
      match p_path fuel r with
      | None => None
      | Some (pa, r1) =>
        if peek_in [KAtDoc; KAtHandler; KRBrace] r1 then Some (Route (tx m) pa None None, r1)
        else if peek_is KSemi r1 then Some (Route (tx m) pa None None, skip_semi r1)
        else if peek_text "returns" r1 || peek_is KLParen r1 then
          let req := if peek_is KLParen r1 then
                       match p_body r1 with Some (b, r2) => Some (Some b, r2) | None => None end
                     else Some (None, r1) in
          match req with
          | None => None
          | Some (rq, r2) =>
            if peek_text "returns" r2 || peek_in [KAtDoc; KAtHandler; KRBrace; KSemi] r2 then
              if peek_text "returns" r2 then
                match r2 with
                | _ :: r3 =>
                  match p_body r3 with
                  | Some (b, r4) => Some (Route (tx m) pa rq (Some b), skip_semi r4)
                  | None => None
                  end
                | [] => None
                end
              else Some (Route (tx m) pa rq None, skip_semi r2)
            else None
          end
        else None
      end
    else None
  | [] => None
  end.

(* parseServiceItemStmt (the Go parser also accepts "@doc ... }" and then crashes in the
   formatter; the model requires @handler) *)
Definition p_item (fuel : nat) : P item := fun ts =>
  let doc :=
    match ts with
    | d :: r =>
      if is KAtDoc d then
        if peek_is KLParen r then
          match p_kvgroup fuel r with Some (l, r') => Some (Some (DocGroup l), r') | None => None end
        else match expect KStr r with Some (s, r') => Some (Some (DocLit s), r') | None => None end
      else Some (None, ts)
    | [] => Some (None, ts)
    end in
  match doc with
  | None => None
  | Some (d, r) =>
    match r with
    | h :: n :: r1 =>
      if is KAtHandler h && is KIdent n then
        match p_route fuel r1 with
        | Some (ro, r2) => Some (Item d (tx n) ro, r2)
        | None => None
        end
      else None
    | _ => None
    end
  end.

Definition follow_item (ts : list token) := peek_in [KAtDoc; KAtHandler; KRBrace] ts.

(* (',' IDENT)+ / ('-' IDENT)+ *)
Fixpoint p_seplist (fuel : nat) (k : kind) (ts : list token) : option (list string * list token) :=
  match fuel with
  | O => None
  | S f =>
    match ts with
    | c :: r =>
      if is k c then
        match r with
        | x :: r' => if is KIdent x then
                       match p_seplist f k r' with Some (l, r'') => Some (tx x :: l, r'') | None => None end
                     else None
        | [] => None
        end
      else Some ([], ts)
    | [] => Some ([], ts)
    end
  end.

(* ('/' IDENT ['-' IDENT])* *)
Fixpoint p_ssegs (fuel : nat) (ts : list token) : option (list (string * option string) * list token) :=
  match fuel with
  | O => None
  | S f =>
    match ts with
    | q :: r =>
      if is KQuo q then
        match r with
        | x :: r1 =>
          if is KIdent x then
            let '(sub, r2) :=
              match r1 with
              | s :: y :: r' => if is KSub s then (Some (if is KIdent y then Some (tx y) else None), r') else (None, r1)
              | [s] => if is KSub s then (Some None, []) else (None, r1)
              | [] => (None, r1)
              end in
            match sub with
            | Some None => None
            | Some (Some y) => match p_ssegs f r2 with Some (l, r3) => Some ((tx x, Some y) :: l, r3) | None => None end
            | None => match p_ssegs f r2 with Some (l, r3) => Some ((tx x, None) :: l, r3) | None => None end
            end
          else None
        | [] => None
        end
      else Some ([], ts)
    | [] => Some ([], ts)
    end
  end.

(* parseAtServerKVExpression *)
Definition p_skv (fuel : nat) : P skv := fun ts =>
  match ts with
  | k :: c :: r =>
    if is KIdent k && is KColon c then
      match r with
      | v :: r1 =>
        if is KQuo v then
          match p_ssegs fuel r with
          | Some (segs, r2) => Some ((tx k, SVPath None segs), r2)
          | None => None
          end
        else if is KDur v then Some ((tx k, SVDur (tx v)), r1)
        else if is KInt v then Some ((tx k, SVInt (tx v)), r1)
        else if is KStr v then Some ((tx k, SVStr (tx v)), r1)
        else if is KIdent v then
          if peek_is KComma r1 then
            match p_seplist fuel KComma r1 with Some (l, r2) => Some ((tx k, SVList (tx v) l), r2) | None => None end
          else if peek_is KSub r1 then
            match p_seplist fuel KSub r1 with Some (l, r2) => Some ((tx k, SVSubs (tx v) l), r2) | None => None end
          else
            match p_ssegs fuel r1 with Some (segs, r2) => Some ((tx k, SVPath (Some (tx v)) segs), r2) | None => None end
        else None
      | [] => None
      end
    else None
  | _ => None
  end.

(* parseService, entered at '@server' or at 'service' *)
Definition p_service_tail (fuel : nat) (srv : option (list skv)) : P stmt := fun ts =>
  match ts with
  | s :: n :: r =>
    if is_text "service" s && is KIdent n then
      let '(apisfx, r1) :=
        match r with
        | d :: a :: r' => if is KSub d then (Some (is_text "api" a), r') else (None, r)
        | [d] => if is KSub d then (Some false, []) else (None, r)
        | [] => (None, r)
        end in
      match apisfx with
      | Some false => None
      | _ =>
        match expect KLBrace r1 with
        | Some (_, r2) =>
          match many fuel stop_rbrace follow_item (p_item fuel) r2 with
          | Some (its, r3) =>
            match expect KRBrace r3 with
            | Some (_, r4) => Some (SService srv (tx n) (match apisfx with Some _ => true | None => false end) its, r4)
            | None => None
            end
          | None => None
          end
        | None => None
        end
      end
    else None
  | _ => None
  end.

Definition stop_never (ts : list token) := false.
Definition follow_import (ts : list token) := peek_in [KRParen; KStr] ts.

(* parseStmt *)
Definition p_stmt (fuel : nat) : P stmt := fun ts =>
  match ts with
  | [] => None
  | t :: r =>
    if is KAtServer t then
      match expect KLParen r with
      | Some (_, r1) =>
        match many fuel stop_rparen follow_kv (p_skv fuel) r1 with
        | Some (l, r2) =>
          match expect KRParen r2 with
          | Some (_, r3) => p_service_tail fuel (Some l) r3
          | None => None
          end
        | None => None
        end
      | None => None
      end
    else if is KIdent t then
      if is_text "syntax" t then
        match r with
        | a :: v :: r' => if is KAssign a && is KStr v then Some (SSyntax (tx v), r') else None
        | _ => None
        end
      else if is_text "info" t then
        match p_kvgroup fuel r with Some (l, r') => Some (SInfo l, r') | None => None end
      else if is_text "service" t then p_service_tail fuel None ts
      else if is_text "type" t then
        if peek_is KLParen r then
          match r with
          | _ :: r1 =>
            if peek_in [KIdent; KRParen] r1 then
              match many fuel stop_rparen follow_texpr (p_texpr fuel) r1 with
              | Some (l, r2) => match expect KRParen r2 with Some (_, r3) => Some (STypes l, r3) | None => None end
              | None => None
              end
            else None
          | [] => None
          end
        else if peek_is KIdent r then
          match p_texpr fuel r with Some (e, r') => Some (SType e, r') | None => None end
        else None
      else if is_text "import" t then
        if peek_is KLParen r then
          match r with
          | _ :: r1 =>
            match many fuel stop_rparen follow_import (expect KStr) r1 with
            | Some (l, r2) => match expect KRParen r2 with Some (_, r3) => Some (SImports l, r3) | None => None end
            | None => None
            end
          | [] => None
          end
        else match expect KStr r with Some (v, r') => Some (SImport v, r') | None => None end
      else None
    else None
  end.

Fixpoint p_stmts (fuel : nat) (gas : nat) (ts : list token) : option api :=
  match gas with
  | O => None
  | S g =>
    match ts with
    | [] => Some []
    | _ => match p_stmt fuel ts with
           | Some (s, r) => match p_stmts fuel g r with Some l => Some (s :: l) | None => None end
           | None => None
           end
    end
  end.

(* Parser.Parse: fuel = number of tokens + 1 bounds every recursion (each call consumes a token) *)
(* An ILLEGAL token needs no special case: every token the parser consumes is tested for its
   kind, so an illegal token makes some expectation fail (as in parser.go). *)
Definition parse (ts : list token) : option api :=
  p_stmts (S (List.length ts)) (S (List.length ts)) ts.

(* ---------------------------------------------------------------- printer *)

Definition pr_lit (l : lit) : token := tP (if l_raw l then KRaw else KStr) (l_tx l).
Definition pr_kv (e : kv) : list token := [tIn (fst e); tP KColon ":"; pr_lit (snd e)].

Definition first_nl (ts : list token) : list token :=
  match ts with t :: r => set_nl true t :: r | [] => [] end.

Fixpoint pr_dt (d : dtype) : list token :=
  match d with
  | DBase s => [tI s]
  | DAny => [tI "any"]
  | DIface => [tP KAny "interface{}"]
  | DStruct es =>
    [tP KLBrace "{"] ++
    flat_map (fun e : elem =>
      let '(names, d', tag) := e in
      first_nl (match names with
                | [] => []
                | n :: more => tI n :: flat_map (fun x => [tP KComma ","; tI x]) more
                end ++ pr_dt d') ++
      match tag with Some s => [tP KRaw s] | None => [] end) es ++
    [T KRBrace "}" (match es with [] => false | _ => true end)]
  | DArray n d' => [tP KLBrack "["; match n with ALInt s => tP KInt s | ALDots => tP KEllipsis "..." end; tP KRBrack "]"] ++ pr_dt d'
  | DSlice d' => [tP KLBrack "["; tP KRBrack "]"] ++ pr_dt d'
  | DMap k v => [tI "map"; tP KLBrack "["] ++ pr_dt k ++ [tP KRBrack "]"] ++ pr_dt v
  | DPtr d' => tP KMul "*" :: pr_dt d'
  end.

Definition pr_elem (e : elem) : list token :=
  let '(names, d', tag) := e in
  first_nl (match names with
            | [] => []
            | n :: more => tI n :: flat_map (fun x => [tP KComma ","; tI x]) more
            end ++ pr_dt d') ++
  match tag with Some s => [tP KRaw s] | None => [] end.

Definition pr_texpr (e : texpr) : list token :=
  let '(n, asg, d) := e in
  tI n :: (if asg then [tP KAssign "="] else []) ++ pr_dt d.

Definition pr_pseg (s : pseg) : list token :=
  tP KQuo "/" :: (if ps_colon s then [tP KColon ":"] else []) ++
  match ps_head s with PId x => tI x | PInt x => tP KInt x end ::
  flat_map (fun e : psep * string =>
              match fst e with SepSub => [tP KSub "-"; tI (snd e)] | SepNone => [tI (snd e)] end) (ps_tail s).

Definition pr_path (p : path) : list token :=
  flat_map pr_pseg (p_segs p) ++ (if p_trail p then [tP KQuo "/"] else []).

Definition pr_body (b : body) : list token :=
  match b with
  | None => [tP KLParen "("; tP KRParen ")"]
  | Some x => tP KLParen "(" :: (if b_arr x then [tP KLBrack "["; tP KRBrack "]"] else []) ++
              (if b_star x then [tP KMul "*"] else []) ++ [tI (b_val x); tP KRParen ")"]
  end.

Definition pr_route (r : route) : list token :=
  tIn (r_method r) :: pr_path (r_path r) ++
  match r_req r with Some b => pr_body b | None => [] end ++
  match r_resp r with Some b => tI "returns" :: pr_body b | None => [] end.

Definition pr_item (i : item) : list token :=
  match i_doc i with
  | None => []
  | Some (DocLit s) => [tPn KAtDoc "@doc"; tP KStr s]
  | Some (DocGroup l) => [tPn KAtDoc "@doc"; tP KLParen "("] ++ flat_map pr_kv l ++ [tPn KRParen ")"]
  end ++ [tPn KAtHandler "@handler"; tI (i_handler i)] ++ pr_route (i_route i).

Definition pr_ssegs (l : list (string * option string)) : list token :=
  flat_map (fun e : string * option string =>
              tP KQuo "/" :: tI (fst e) :: match snd e with Some y => [tP KSub "-"; tI y] | None => [] end) l.

Definition pr_sval (v : sval) : list token :=
  match v with
  | SVDur s => [tP KDur s]
  | SVInt s => [tP KInt s]
  | SVStr s => [tP KStr s]
  | SVList x xs => tI x :: flat_map (fun y => [tP KComma ","; tI y]) xs
  | SVSubs x xs => tI x :: flat_map (fun y => [tP KSub "-"; tI y]) xs
  | SVPath x segs => match x with Some s => [tI s] | None => [] end ++ pr_ssegs segs
  end.

Definition pr_skv (e : skv) : list token := [tIn (fst e); tP KColon ":"] ++ pr_sval (snd e).

(* the closing brace of a service block: "service s {}" stays on one line *)
Definition rb_after {A} (l : list A) : token := T KRBrace "}" (match l with [] => false | _ => true end).

Definition pr_stmt (s : stmt) : list token :=
  match s with
  | SSyntax v => [tIn "syntax"; tP KAssign "="; tP KStr v]
  | SInfo l => [tIn "info"; tP KLParen "("] ++ flat_map pr_kv l ++ [tPn KRParen ")"]
  | SImport v => [tIn "import"; tP KStr v]
  | SImports l => [tIn "import"; tP KLParen "("] ++ map (tPn KStr) l ++ [tPn KRParen ")"]
  | SType e => tIn "type" :: pr_texpr e
  | STypes l => [tIn "type"; tP KLParen "("] ++ flat_map (fun e => first_nl (pr_texpr e)) l ++ [tPn KRParen ")"]
  | SService srv n a its =>
    match srv with
    | Some l => [tPn KAtServer "@server"; tP KLParen "("] ++ flat_map pr_skv l ++ [tPn KRParen ")"]
    | None => []
    end ++ [tIn "service"; tI n] ++ (if a then [tP KSub "-"; tI "api"] else []) ++ [tP KLBrace "{"] ++
    flat_map pr_item its ++ [rb_after its]
  end.

Definition print (a : api) : list token := flat_map pr_stmt a.

(* ---------------------------------------------------------------- the formatter's normalisation *)

(* ast.TokenNode.IsZeroString *)
Definition zero_text (s : string) : bool := String.eqb s """""" || String.eqb s "``".
Definition kvs_all_zero (l : list kv) : bool := forallb (fun e : kv => zero_text (l_tx (snd e))) l.
Definition sval_zero (v : sval) : bool := match v with SVStr s => zero_text s | _ => false end.

Definition norm_body (b : option body) : option body :=
  match b with Some None => None | _ => b end.

Definition norm_route (r : route) : route :=
  Route (r_method r) (r_path r) (norm_body (r_req r)) (norm_body (r_resp r)).

Definition norm_doc (d : option atdoc) : option atdoc :=
  match d with
  | Some (DocLit s) => if zero_text s then None else d
  | Some (DocGroup l) => if kvs_all_zero l then None else d
  | None => None
  end.

Definition norm_item (i : item) : item := Item (norm_doc (i_doc i)) (i_handler i) (norm_route (i_route i)).

Definition norm_stmt (s : stmt) : list stmt :=
  match s with
  | SSyntax _ => [s]
  | SInfo l => if kvs_all_zero l then [] else [s]
  | SImport v => if zero_text v then [] else [s]
  | SImports l => if forallb zero_text l then [] else [s]
  | SType _ => [s]
  | STypes l => match l with [] => [] | _ => [s] end
  | SService srv n a its =>
    [SService (match srv with
               | Some l => if forallb (fun e : skv => sval_zero (snd e)) l then None else srv
               | None => None
               end) n a (map norm_item its)]
  end.

(* what format.Source keeps of an API description *)
Definition norm (a : api) : api := flat_map norm_stmt a.

(* the model formatter *)
Definition fmt (ts : list token) : option (list token) :=
  match parse ts with Some a => Some (print (norm a)) | None => None end.

(* ---------------------------------------------------------------- well-formed syntax *)
(* The side conditions under which [print] is faithful: exactly the lexical restrictions the
   parser itself imposes (keyword checks, "any"/"map"/"returns" being special, pointer targets,
   shape of embedded fields, non-empty lists where the grammar has "+") plus: no adjacent
   identifiers inside a path segment (the Go parser concatenates them, "/a b" = "/ab"). *)
Definition wf_base (s : string) : bool :=
  negb (is_keyword s) && negb (String.eqb s "any") && negb (String.eqb s "map").
Definition wf_name (s : string) : bool := negb (is_keyword s).

Definition not_struct (d : dtype) : bool := match d with DStruct _ => false | _ => true end.
Definition embeddable (d : dtype) : bool :=
  match d with
  | DBase _ | DAny => true
  | DPtr (DBase _) | DPtr DAny => true
  | _ => false
  end.

(* a struct member: an embedded one is IDENT or '*' IDENT -- behind the star parseElemExpr takes
   ANY identifier, also a Go keyword ("*type"); a named one has a well-formed type *)
Definition wf_member (names : list string) (d : dtype) (wfd : bool) : bool :=
  match names with
  | [] => match d with
          | DBase s => wf_base s
          | DAny => true
          | DPtr (DBase s) => negb (String.eqb s "any")
          | DPtr DAny => true
          | _ => false
          end
  | _ => wfd
  end.

Fixpoint wf_dt (d : dtype) : bool :=
  match d with
  | DBase s => wf_base s
  | DAny | DIface => true
  | DStruct es =>
    forallb (fun e : elem =>
               let '(names, d', _) := e in
               forallb wf_name names && wf_member names d' (wf_dt d')) es
  | DArray _ d' | DSlice d' => wf_dt d'
  | DMap k v => wf_dt k && wf_dt v
  | DPtr d' => not_struct d' && wf_dt d'
  end.

Definition wf_texpr (e : texpr) : bool := let '(n, _, d) := e in wf_name n && wf_dt d.

Definition not_returns (s : string) : bool := negb (String.eqb s "returns").
(* "/returns" ends the path ("returns" is tested by its text); "/:returns" is a segment *)
Definition wf_pseg (s : pseg) : bool :=
  (ps_colon s || not_returns (match ps_head s with PId x | PInt x => x end)) &&
  forallb (fun e : psep * string => match fst e with SepSub => true | SepNone => false end) (ps_tail s).
Definition wf_path (p : path) : bool :=
  forallb wf_pseg (p_segs p) && match p_segs p with [] => p_trail p | _ => true end.
Definition wf_route (r : route) : bool := mem (r_method r) http_methods && wf_path (r_path r).
Definition wf_item (i : item) : bool := wf_route (i_route i).
Definition nonempty {A} (l : list A) : bool := match l with [] => false | _ => true end.
Definition wf_sval (v : sval) : bool :=
  match v with
  | SVList _ xs | SVSubs _ xs => nonempty xs
  | SVPath None segs => nonempty segs
  | _ => true
  end.
Definition wf_stmt (s : stmt) : bool :=
  match s with
  | SType e => wf_texpr e
  | STypes l => forallb wf_texpr l
  | SService srv _ _ its =>
    match srv with Some l => forallb (fun e : skv => wf_sval (snd e)) l | None => true end &&
    forallb wf_item its
  | _ => true
  end.
Definition wf (a : api) : bool := forallb wf_stmt a.
