(* C20 — proofs about the grammar model: the parser inverts the printer on every
   well-formed abstract syntax tree (structural induction, no bound), hence the model
   formatter print ∘ norm ∘ parse is idempotent and preserves meaning. *)
From Coq Require Import List String Bool Arith Lia.
From GZ Require Import C20.Model.
Import ListNotations.
Open Scope string_scope.
Open Scope list_scope.

Arguments mem : simpl never.
Arguments is_keyword : simpl never.
Arguments String.eqb : simpl nomatch.

Notation len := (@List.length token).

(* ---------------------------------------------------------------- the generic loop *)

Lemma many_ok {A} (p : P A) (pr : A -> list token) (stop follow : list token -> bool)
      (Fst : list token -> Prop) :
  forall (l : list A) (rest : list token) (N : nat),
    (forall a r, In a l -> Fst r -> len (pr a ++ r) <= N ->
        pr a <> [] /\ stop (pr a ++ r) = false /\ p (pr a ++ r) = Some (a, r) /\ follow r = true) ->
    (forall a r, In a l -> Fst (pr a ++ r)) ->
    Fst rest -> stop rest = true ->
    forall fuel, len (flat_map pr l ++ rest) < fuel -> len (flat_map pr l ++ rest) <= N ->
    many fuel stop follow p (flat_map pr l ++ rest) = Some (l, rest).
Proof.
  induction l as [|a l IH]; intros rest N Hp Hf Hrest Hstop fuel Hlen HN.
  - cbn [flat_map app] in *. destruct fuel as [|f]; [lia|]. cbn [many].
    destruct rest; [reflexivity|]. rewrite Hstop. reflexivity.
  - cbn [flat_map] in *. rewrite <- app_assoc in *.
    set (r := flat_map pr l ++ rest) in *.
    assert (Fr : Fst r).
    { subst r. destruct l as [|a' l']; [exact Hrest|].
      cbn [flat_map]. rewrite <- app_assoc. apply Hf. right; left; reflexivity. }
    destruct (Hp a r (or_introl eq_refl) Fr HN) as (Hne & Hs & Hpa & Hfo).
    destruct fuel as [|f]; [lia|]. cbn [many].
    destruct (pr a ++ r) as [|t q] eqn:E.
    { destruct (pr a); [congruence|discriminate]. }
    rewrite Hs, Hpa, Hfo.
    assert (Hl : len r < f).
    { assert (len (pr a ++ r) = len (t :: q)) by (rewrite E; reflexivity).
      rewrite app_length in H. destruct (pr a); [congruence|]. cbn in *. lia. }
    assert (HN' : len r <= N).
    { assert (len (pr a ++ r) = len (t :: q)) by (rewrite E; reflexivity).
      rewrite app_length in H. lia. }
    subst r. rewrite (IH rest N); auto.
    + intros a0 r0 Hin. apply Hp. right; exact Hin.
    + intros a0 r0 Hin. apply Hf. right; exact Hin.
Qed.

(* ---------------------------------------------------------------- small facts *)

Lemma p_lit_ok : forall l r, p_lit (pr_lit l :: r) = Some (l, r).
Proof. intros [[|] s] r; reflexivity. Qed.

Lemma p_kv_ok : forall e r, p_kv (pr_kv e ++ r) = Some (e, r).
Proof. intros [k [[|] s]] r; reflexivity. Qed.

Lemma p_kvgroup_ok : forall l rest fuel,
  len (tP KLParen "(" :: flat_map pr_kv l ++ tPn KRParen ")" :: rest) < fuel ->
  p_kvgroup fuel (tP KLParen "(" :: flat_map pr_kv l ++ tPn KRParen ")" :: rest) = Some (l, rest).
Proof.
  intros l rest fuel H. unfold p_kvgroup. cbn [expect is tk tP kind_eqb].
  rewrite (many_ok p_kv pr_kv stop_rparen follow_kv (fun r => follow_kv r = true) l
             (tPn KRParen ")" :: rest) (len (flat_map pr_kv l ++ tPn KRParen ")" :: rest))).
  - reflexivity.
  - intros [k v] r _ Hr _. repeat split; try reflexivity; try assumption.
    + discriminate.
    + apply p_kv_ok.
  - intros [k v] r _. reflexivity.
  - reflexivity.
  - reflexivity.
  - cbn [List.length] in H. lia.
  - lia.
Qed.
