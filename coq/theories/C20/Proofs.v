(* C20 — proofs about the grammar model: the parser inverts the printer on every
   well-formed abstract syntax tree (structural induction, no bound), hence the model
   formatter print ∘ norm ∘ parse is idempotent and preserves meaning. *)
From Coq Require Import List String Bool Arith Lia.
From GZ Require Import C20.Model.
Import ListNotations.
Open Scope string_scope.
Open Scope list_scope.

Arguments mem : simpl never.
Arguments is_keyword : simpl never.
Arguments String.eqb : simpl nomatch.

Notation len := (@List.length token).

(* expose the kind / text / line bit of canonical tokens *)
Ltac lenlia := repeat (rewrite app_length in * || (progress cbn [List.length pr_dt app] in * )); lia.
(* evaluate the lookahead tests on a concrete head token *)
Ltac pk := cbn [peek_in peek_is peek_text existsb is is_text tk tx tnl tP tI tIn tPn kind_eqb orb andb
                String.eqb Ascii.eqb Bool.eqb].
Ltac tok := unfold set_nl, tI, tP, tIn, tPn, is, is_text; cbn [tk tx tnl kind_eqb orb andb negb].

(* ---------------------------------------------------------------- the generic loop *)

Lemma many_ok {A} (p : P A) (pr : A -> list token) (stop follow : list token -> bool)
      (Fst : list token -> Prop) :
  forall (l : list A) (rest : list token) (N : nat),
    (forall a r, In a l -> Fst r -> len (pr a ++ r) <= N ->
        pr a <> [] /\ stop (pr a ++ r) = false /\ p (pr a ++ r) = Some (a, r) /\ follow r = true) ->
    (forall a r, In a l -> Fst (pr a ++ r)) ->
    Fst rest -> stop rest = true ->
    forall fuel, len (flat_map pr l ++ rest) < fuel -> len (flat_map pr l ++ rest) <= N ->
    many fuel stop follow p (flat_map pr l ++ rest) = Some (l, rest).
Proof.
  induction l as [|a l IH]; intros rest N Hp Hf Hrest Hstop fuel Hlen HN.
  - cbn [flat_map app] in *. destruct fuel as [|f]; [lia|]. cbn [many].
    destruct rest; [reflexivity|]. rewrite Hstop. reflexivity.
  - cbn [flat_map] in *. rewrite <- app_assoc in *.
    set (r := flat_map pr l ++ rest) in *.
    assert (Fr : Fst r).
    { subst r. destruct l as [|a' l']; [exact Hrest|].
      cbn [flat_map]. rewrite <- app_assoc. apply Hf. right; left; reflexivity. }
    destruct (Hp a r (or_introl eq_refl) Fr HN) as (Hne & Hs & Hpa & Hfo).
    destruct fuel as [|f]; [lia|]. cbn [many].
    destruct (pr a ++ r) as [|t q] eqn:E.
    { destruct (pr a); [congruence|discriminate]. }
    rewrite Hs, Hpa, Hfo.
    assert (Hl : len r < f).
    { assert (len (pr a ++ r) = len (t :: q)) by (rewrite E; reflexivity).
      rewrite app_length in H. destruct (pr a); [congruence|]. cbn in *. lia. }
    assert (HN' : len r <= N).
    { assert (len (pr a ++ r) = len (t :: q)) by (rewrite E; reflexivity).
      rewrite app_length in H. lia. }
    subst r. rewrite (IH rest N); auto.
    + intros a0 r0 Hin. apply Hp. right; exact Hin.
    + intros a0 r0 Hin. apply Hf. right; exact Hin.
Qed.

(* ---------------------------------------------------------------- small facts *)

Lemma p_lit_ok : forall l r, p_lit (pr_lit l :: r) = Some (l, r).
Proof. intros [[|] s] r; reflexivity. Qed.

Lemma p_kv_ok : forall e r, p_kv (pr_kv e ++ r) = Some (e, r).
Proof. intros [k [[|] s]] r; reflexivity. Qed.

Lemma p_kvgroup_ok : forall l rest fuel,
  len (tP KLParen "(" :: flat_map pr_kv l ++ tPn KRParen ")" :: rest) < fuel ->
  p_kvgroup fuel (tP KLParen "(" :: flat_map pr_kv l ++ tPn KRParen ")" :: rest) = Some (l, rest).
Proof.
  intros l rest fuel H. unfold p_kvgroup. cbn [expect is tk tP kind_eqb].
  rewrite (many_ok p_kv pr_kv stop_rparen follow_kv (fun r => follow_kv r = true) l
             (tPn KRParen ")" :: rest) (len (flat_map pr_kv l ++ tPn KRParen ")" :: rest))).
  - reflexivity.
  - intros [k v] r _ Hr _. repeat split; try reflexivity; try assumption.
    + discriminate.
    + apply p_kv_ok.
  - intros [k v] r _. reflexivity.
  - reflexivity.
  - reflexivity.
  - cbn [List.length] in H. lia.
  - lia.
Qed.

(* ---------------------------------------------------------------- data types *)

Definition pr_names (more : list string) : list token :=
  flat_map (fun x => [tP KComma ","; tI x]) more.

Lemma p_names_ok : forall more r fuel,
  forallb wf_name more = true -> peek_is KComma r = false ->
  len (pr_names more ++ r) < fuel ->
  p_names fuel (pr_names more ++ r) = Some (more, r).
Proof.
  induction more as [|x more IH]; intros r fuel Hwf Hr Hlen.
  - cbn [pr_names flat_map app] in *. destruct fuel as [|f]; [lia|]. cbn [p_names].
    destruct r as [|c [|n r']]; try reflexivity.
    + cbn in Hr. unfold is in Hr. unfold is. rewrite Hr. reflexivity.
    + cbn in Hr. unfold is in Hr. unfold is. rewrite Hr. reflexivity.
  - cbn [pr_names flat_map app] in *. cbn [forallb] in Hwf. apply andb_true_iff in Hwf as [Hx Hm].
    destruct fuel as [|f]; [lia|]. cbn [p_names app].
    cbn [is tk tP tI kind_eqb tx andb]. unfold wf_name in Hx. rewrite Hx. cbn [andb].
    fold (pr_names more). rewrite IH; auto. cbn [List.length] in Hlen. fold (pr_names more) in Hlen. lia.
Qed.

(* first token of a printed data type *)
Lemma pr_dt_head : forall d, exists t q, pr_dt d = t :: q /\ tnl t = false /\
  (tk t = KIdent \/ tk t = KLBrack \/ tk t = KAny \/ tk t = KMul \/ tk t = KLBrace).
Proof.
  destruct d; cbn [pr_dt app]; eexists; eexists; (split; [reflexivity|]); cbn; auto 6.
Qed.

Lemma pr_dt_head_nostruct : forall d, not_struct d = true -> exists t q, pr_dt d = t :: q /\
  (tk t = KIdent \/ tk t = KLBrack \/ tk t = KAny \/ tk t = KMul).
Proof.
  destruct d; cbn [pr_dt app not_struct]; intros H; try discriminate;
    eexists; eexists; (split; [reflexivity|]); cbn; auto 6.
Qed.

Fixpoint dsize (d : dtype) : nat :=
  match d with
  | DStruct es => S (fold_right (fun e n => let '(_, d', _) := e in dsize d' + n) 0 es)
  | DArray _ d' | DSlice d' | DPtr d' => S (dsize d')
  | DMap k v => S (dsize k + dsize v)
  | _ => 1
  end.

Lemma dsize_in : forall es names d' tag, In (names, d', tag) es -> dsize d' < dsize (DStruct es).
Proof.
  induction es as [|[[n d] t] es IH]; intros names d' tag Hin; [destruct Hin|].
  cbn [dsize fold_right]. destruct Hin as [E|Hin].
  - inversion E; subst. lia.
  - specialize (IH _ _ _ Hin). cbn [dsize] in IH. lia.
Qed.

(* continuation of a struct member: the next token is an identifier / '*' / '}' that starts a
   new line *)
Definition elem_next (r : list token) : Prop :=
  exists t q, r = t :: q /\ tnl t = true /\ (tk t = KIdent \/ tk t = KMul \/ tk t = KRBrace).

Lemma elem_next_facts : forall r, elem_next r ->
  follow_elem r = true /\ peek_in [KRaw; KMul; KIdent; KRBrace] r = true /\ peek_is KRaw r = false /\
  stop_rbrace r = stop_rbrace r.
Proof.
  intros r (t & q & -> & _ & Hk). unfold follow_elem, peek_in, peek_is, is. cbn [existsb].
  destruct Hk as [E|[E|E]]; rewrite E; cbn; auto.
Qed.

Lemma elem_finish_notag : forall names d r, elem_next r ->
  elem_finish names d r = Some ((names, d, None), r).
Proof.
  intros names d r H. destruct (elem_next_facts r H) as (_ & H2 & H3 & _).
  unfold elem_finish. rewrite H2. destruct H as (t & q & -> & _ & _).
  unfold peek_is in H3. rewrite H3. reflexivity.
Qed.

Lemma elem_finish_tag : forall names d s r,
  elem_finish names d (tP KRaw s :: r) = Some ((names, d, Some s), r).
Proof. reflexivity. Qed.

Lemma first_nl_cons : forall t q, first_nl (t :: q) = set_nl true t :: q.
Proof. reflexivity. Qed.

(* one struct member, given the parser for its type *)
Lemma wf_member_embeddable : forall names d b, wf_member names d b = true ->
  match names with [] => embeddable d | _ => true end = true.
Proof.
  intros [|n more] d b H; [|reflexivity]. cbn [wf_member] in H.
  destruct d as [s| | | | | | |[s| | | | | | |]]; try discriminate; reflexivity.
Qed.

Lemma elem_ok : forall f (e : elem) r,
  (let '(names, d, tag) := e in
   forallb wf_name names && wf_member names d (wf_dt d)) = true ->
  elem_next r ->
  len (pr_elem e ++ r) < f ->
  (forall rr, wf_dt (snd (fst e)) = true -> len (pr_dt (snd (fst e)) ++ rr) < f ->
              p_dt f (pr_dt (snd (fst e)) ++ rr) = Some (snd (fst e), rr)) ->
  p_elem_with (p_dt f) (p_names f) (pr_elem e ++ r) = Some (e, r).
Proof.
  intros f [[names d] tag] r Hwf Hr Hlen Hd. cbn [fst snd] in Hd.
  apply andb_true_iff in Hwf as [Hn Hwd].
  pose proof (wf_member_embeddable _ _ _ Hwd) as Hemb.
  destruct names as [|n more]; cbn [wf_member] in Hwd.
  - (* embedded field *)
    unfold pr_elem. cbn [app].
    assert (Hfin : forall dd rest', (match tag with Some s => [tP KRaw s] | None => [] end) ++ r = rest' ->
                   elem_finish [] dd rest' = Some (([], dd, tag), r)).
    { intros dd rest' <-. destruct tag as [s|]; cbn [app].
      - apply elem_finish_tag.
      - apply elem_finish_notag; exact Hr. }
    destruct d as [s| | | | | | |d']; cbn [embeddable] in Hemb; try discriminate.
    + (* Base *)
      cbn [pr_dt first_nl app]. unfold p_elem_with. tok.
      unfold wf_base in Hwd.
      apply andb_true_iff in Hwd as [Hwd Hmap]. apply andb_true_iff in Hwd as [Hkw Hany].
      apply negb_true_iff in Hkw, Hany. rewrite Hkw.
      assert (Hb : base_or_any s = DBase s) by (unfold base_or_any; rewrite Hany; reflexivity).
      destruct tag as [tg|]; cbn [app].
      * tok. rewrite Hb. apply elem_finish_tag.
      * destruct Hr as (t & q & -> & Hnl & Hk). rewrite Hnl. cbn [orb]. rewrite Hb.
        apply elem_finish_notag. exists t, q. auto.
    + (* any *)
      cbn [pr_dt first_nl app]. unfold p_elem_with. tok.
      change (is_keyword "any") with false. cbn iota.
      change (base_or_any "any") with DAny.
      destruct tag as [tg|]; cbn [app].
      * tok. apply elem_finish_tag.
      * destruct Hr as (t & q & -> & Hnl & Hk). rewrite Hnl. cbn [orb].
        apply elem_finish_notag. exists t, q. auto.
    + (* pointer to a named type *)
      destruct d' as [s| | | | | | |]; try discriminate.
      * cbn [pr_dt first_nl app]. unfold p_elem_with. tok.
        pose proof Hwd as Hany. apply negb_true_iff in Hany.
        assert (Hb : base_or_any s = DBase s) by (unfold base_or_any; rewrite Hany; reflexivity).
        rewrite Hb. apply Hfin. reflexivity.
      * cbn [pr_dt first_nl app]. unfold p_elem_with. tok.
        change (base_or_any "any") with DAny. apply Hfin. reflexivity.
  - (* named field *)
    unfold pr_elem. cbn [first_nl app]. fold (pr_names more).
    cbn [forallb] in Hn. apply andb_true_iff in Hn as [Hn1 Hn2]. unfold wf_name in Hn1.
    apply negb_true_iff in Hn1.
    rewrite <- !app_assoc.
    assert (Htail : exists tl, tl = (match tag with Some s => [tP KRaw s] | None => [] end) ++ r /\
                    forall nn, elem_finish nn d tl = Some ((nn, d, tag), r)).
    { eexists; split; [reflexivity|]. intros nn. destruct tag as [s|]; cbn [app].
      - apply elem_finish_tag.
      - apply elem_finish_notag; exact Hr. }
    destruct Htail as (tl & Etl & Hfin). rewrite <- Etl.
    assert (Hl1 : len (pr_names more ++ pr_dt d ++ tl) < f).
    { unfold pr_elem in Hlen. cbn [first_nl app] in Hlen. fold (pr_names more) in Hlen.
      rewrite <- !app_assoc in Hlen. rewrite <- Etl in Hlen. cbn [List.length] in *. lia. }
    clear Etl Hlen.
    destruct (pr_dt_head d) as (t & q & Ed & Hnl & Hk).
    (* the token after the first name *)
    assert (Hnext : exists t2 q2, pr_names more ++ pr_dt d ++ tl = t2 :: q2
              /\ tnl t2 = false /\ is KRaw t2 = false
              /\ peek_in [KComma; KIdent; KLBrack; KAny; KMul; KLBrace] (t2 :: q2) = true).
    { destruct more as [|m more'].
      - cbn [pr_names flat_map app]. rewrite Ed. cbn [app]. eexists; eexists; split; [reflexivity|].
        split; [exact Hnl|]. unfold is, peek_in, peek_is, is. cbn [existsb].
        destruct Hk as [E|[E|[E|[E|E]]]]; rewrite E; cbn; auto.
      - cbn [pr_names flat_map app]. eexists; eexists; split; [reflexivity|]. cbn. auto. }
    destruct Hnext as (t2 & q2 & E2 & Hnl2 & Hraw2 & Hpk).
    unfold p_elem_with. rewrite E2.
    replace (is KMul (set_nl true (tI n))) with false by reflexivity.
    replace (is KIdent (set_nl true (tI n))) with true by reflexivity.
    replace (tx (set_nl true (tI n))) with n by reflexivity.
    rewrite Hn1, Hnl2, Hraw2. cbn [orb]. rewrite Hpk. rewrite <- E2.
    rewrite p_names_ok; auto.
    + rewrite Hd.
      * apply Hfin.
      * exact Hwd.
      * rewrite !app_length in *. lia.
    + rewrite Ed. cbn [app peek_is]. unfold is.
      destruct Hk as [E|[E|[E|[E|E]]]]; rewrite E; reflexivity.
Qed.


Lemma pr_elem_shape : forall (e : elem),
  (let '(names, d, tag) := e in match names with [] => embeddable d | _ => true end) = true ->
  exists t q, pr_elem e = t :: q /\ tnl t = true /\ (tk t = KIdent \/ tk t = KMul).
Proof.
  intros [[names d] tag] H. unfold pr_elem. destruct names as [|n more].
  - destruct d as [s| | | | | | |d']; cbn [embeddable] in H; try discriminate;
      cbn [pr_dt first_nl app]; eexists; eexists; (split; [reflexivity|]); cbn; auto.
  - cbn [first_nl app]. eexists; eexists; (split; [reflexivity|]); cbn; auto.
Qed.

Lemma dt_ok : forall n d, dsize d <= n -> wf_dt d = true ->
  forall rest fuel, len (pr_dt d ++ rest) < fuel -> p_dt fuel (pr_dt d ++ rest) = Some (d, rest).
Proof.
  induction n as [|n IH]; intros d Hs Hwf rest fuel Hlen.
  { destruct d; cbn [dsize] in Hs; lia. }
  destruct fuel as [|f]; [lia|].
  destruct d as [s| | |es|al d'|d'|k v|d'].
  - (* base *)
    cbn [pr_dt app p_dt]. tok.
    cbn [wf_dt] in Hwf. unfold wf_base in Hwf.
    apply andb_true_iff in Hwf as [Hwf Hmap]. apply andb_true_iff in Hwf as [Hkw Hany].
    apply negb_true_iff in Hkw, Hany, Hmap. rewrite Hany, Hmap, Hkw. reflexivity.
  - reflexivity.
  - reflexivity.
  - (* struct *)
    cbn [pr_dt app p_dt].
    change (flat_map _ es) with (flat_map pr_elem es).
    replace (is KIdent (tP KLBrace "{")) with false by reflexivity.
    replace (is KLBrace (tP KLBrace "{")) with true by reflexivity.
    cbn iota.
    rewrite <- app_assoc. cbn [app].
    destruct es as [|e0 es0] eqn:Ees.
    { cbn [flat_map app]. destruct f as [|f']; [cbn in Hlen; lia|]. reflexivity. }
    rewrite <- Ees in *.
    set (rb := T KRBrace "}" true :: rest).
    assert (Hall : forall e, In e es ->
               (let '(names, d, tag) := e in
                forallb wf_name names && wf_member names d (wf_dt d)) = true).
    { cbn [wf_dt] in Hwf. rewrite forallb_forall in Hwf. exact Hwf. }
    assert (Hshape : forall e r, In e es -> elem_next (pr_elem e ++ r)).
    { intros e r Hin. destruct (pr_elem_shape e) as (t & q & E & Hnl & Hk).
      - specialize (Hall e Hin). destruct e as [[nm dd] tg]. apply andb_true_iff in Hall as [_ H].
        exact (wf_member_embeddable _ _ _ H).
      - rewrite E. cbn [app]. exists t, (q ++ r). split; [reflexivity|]. split; [exact Hnl|].
        destruct Hk; auto. }
    assert (Hrb : elem_next rb).
    { subst rb. eexists; eexists; split; [reflexivity|]. cbn. auto. }
    assert (Hpk : peek_in [KIdent; KMul; KRBrace] (flat_map pr_elem es ++ rb) = true).
    { rewrite Ees. cbn [flat_map]. rewrite <- app_assoc.
      destruct (Hshape e0 (flat_map pr_elem es0 ++ rb)) as (t & q & E & _ & Hk).
      { rewrite Ees. left; reflexivity. }
      rewrite E. unfold peek_in, peek_is, is. cbn [existsb].
      destruct Hk as [K|[K|K]]; rewrite K; reflexivity. }
    replace (match es with [] => false | _ :: _ => true end) with true by (rewrite Ees; reflexivity).
    fold rb. rewrite Hpk.
    cbn [pr_dt app] in Hlen.
    change (flat_map _ es) with (flat_map pr_elem es) in Hlen.
    rewrite <- app_assoc in Hlen. cbn [app List.length] in Hlen.
    replace (match es with [] => false | _ :: _ => true end) with true in Hlen by (rewrite Ees; reflexivity).
    fold rb in Hlen.
    rewrite (many_ok (p_elem_with (p_dt f) (p_names f)) pr_elem stop_rbrace follow_elem elem_next es rb
               (len (flat_map pr_elem es ++ rb))).
    + subst rb. reflexivity.
    + intros e r Hin Hr HN.
      destruct (pr_elem_shape e) as (t & q & E & Hnl & Hk).
      { specialize (Hall e Hin). destruct e as [[nm dd] tg]. apply andb_true_iff in Hall as [_ H].
        exact (wf_member_embeddable _ _ _ H). }
      split; [rewrite E; discriminate|].
      split.
      { rewrite E. cbn [app]. unfold stop_rbrace, peek_is, is. destruct Hk as [K|K]; rewrite K; reflexivity. }
      split.
      { apply elem_ok; auto.
        - lia.
        - intros rr Hwdd Hrr. apply IH; auto.
          destruct e as [[nm dd] tg]. cbn [fst snd]. pose proof (dsize_in es nm dd tg Hin). lia. }
      { apply (elem_next_facts r Hr). }
    + exact Hshape.
    + exact Hrb.
    + reflexivity.
    + lia.
    + lia.
  - (* array *)
    cbn [wf_dt dsize] in *. cbn [pr_dt app p_dt].
    destruct al as [s|]; tok; cbn [expect]; tok.
    + rewrite (IH d'); auto; [lia|lenlia].
    + rewrite (IH d'); auto; [lia|lenlia].
  - (* slice *)
    cbn [wf_dt dsize] in *. cbn [pr_dt app p_dt]. tok.
    rewrite (IH d'); auto; [lia|lenlia].
  - (* map *)
    cbn [wf_dt dsize] in *. apply andb_true_iff in Hwf as [Hk Hv].
    cbn [pr_dt app p_dt]. tok.
    change (String.eqb "map" "any") with false. change (String.eqb "map" "map") with true. cbn iota.
    cbn [expect]. tok.
    rewrite <- !app_assoc. cbn [app].
    rewrite (IH k); auto; [|lia|lenlia].
    cbn [expect]. tok.
    rewrite (IH v); auto; [lia|lenlia].
  - (* pointer *)
    cbn [wf_dt dsize] in *. apply andb_true_iff in Hwf as [Hns Hw].
    cbn [pr_dt p_dt]. tok.
    destruct (pr_dt_head_nostruct d' Hns) as (t & q & E & Hk).
    assert (Hp : peek_in [KIdent; KLBrack; KAny; KMul] (pr_dt d' ++ rest) = true).
    { rewrite E. cbn [app]. unfold peek_in, peek_is, is. cbn [existsb].
      destruct Hk as [K|[K|[K|K]]]; rewrite K; reflexivity. }
    cbn [app]. rewrite Hp. rewrite (IH d'); auto; [lia|]. clear E Hp. lenlia.
Qed.

Lemma dt_ok' : forall d, wf_dt d = true ->
  forall rest fuel, len (pr_dt d ++ rest) < fuel -> p_dt fuel (pr_dt d ++ rest) = Some (d, rest).
Proof. intros d H. apply (dt_ok (dsize d) d (le_n _) H). Qed.

Lemma texpr_ok : forall e rest fuel, wf_texpr e = true ->
  len (pr_texpr e ++ rest) < fuel -> p_texpr fuel (pr_texpr e ++ rest) = Some (e, rest).
Proof.
  intros [[n asg] d] rest fuel Hwf Hlen. unfold wf_texpr in Hwf. apply andb_true_iff in Hwf as [Hn Hd].
  unfold wf_name in Hn. unfold pr_texpr in *. cbn [app]. unfold p_texpr.
  replace (is KIdent (tI n)) with true by reflexivity. replace (tx (tI n)) with n by reflexivity.
  rewrite Hn. cbn [andb].
  destruct asg; cbn [app].
  - replace (is KAssign (tP KAssign "=")) with true by reflexivity.
    rewrite dt_ok'; auto. lenlia.
  - destruct (pr_dt_head d) as (t & q & E & _ & Hk). rewrite E. cbn [app].
    replace (is KAssign t) with false by (unfold is; destruct Hk as [K|[K|[K|[K|K]]]]; rewrite K; reflexivity).
    change (t :: q ++ rest) with ((t :: q) ++ rest). rewrite <- E.
    rewrite dt_ok'; auto. clear E. lenlia.
Qed.

(* ---------------------------------------------------------------- routes *)

Definition pr_ptail (l : list (psep * string)) : list token :=
  flat_map (fun e : psep * string =>
              match fst e with SepSub => [tP KSub "-"; tI (snd e)] | SepNone => [tI (snd e)] end) l.

(* what may follow a path: '/' (next segment) or a token of the stop set *)
Definition path_next (r : list token) : Prop := peek_is KQuo r = true \/ route_stop r = true.

Lemma ptail_ok : forall l r fuel,
  forallb (fun e : psep * string => match fst e with SepSub => true | SepNone => false end) l = true ->
  path_next r -> len (pr_ptail l ++ r) < fuel ->
  p_ptail fuel (pr_ptail l ++ r) = Some (l, r).
Proof.
  induction l as [|[sep x] l IH]; intros r fuel Hwf Hr Hlen.
  - cbn [pr_ptail flat_map app] in *. destruct fuel as [|f]; [lia|]. cbn [p_ptail].
    destruct r as [|t q]; [reflexivity|].
    destruct Hr as [H|H].
    + cbn [peek_is] in H. rewrite H. reflexivity.
    + rewrite H. rewrite orb_true_r. reflexivity.
  - cbn [forallb fst] in Hwf. destruct sep; [|discriminate].
    cbn [pr_ptail flat_map app fst snd] in *. fold (pr_ptail l) in *.
    destruct fuel as [|f]; [lia|]. cbn [p_ptail].
    replace (is KQuo (tP KSub "-")) with false by reflexivity.
    replace (route_stop (tP KSub "-" :: tI x :: pr_ptail l ++ r)) with false by reflexivity.
    cbn [orb]. replace (is KSub (tP KSub "-")) with true by reflexivity.
    replace (is KIdent (tI x)) with true by reflexivity. replace (tx (tI x)) with x by reflexivity.
    rewrite IH; auto. cbn [List.length] in *. lia.
Qed.

Definition path_toks (segs : list pseg) (trail : bool) : list token :=
  flat_map pr_pseg segs ++ (if trail then [tP KQuo "/"] else []).

Lemma pr_pseg_eq : forall s, pr_pseg s =
  tP KQuo "/" :: (if ps_colon s then [tP KColon ":"] else []) ++
  match ps_head s with PId x => tI x | PInt x => tP KInt x end :: pr_ptail (ps_tail s).
Proof. reflexivity. Qed.

Lemma psegs_ok : forall segs trail rest fuel,
  forallb wf_pseg segs = true -> route_stop rest = true ->
  len (path_toks segs trail ++ rest) < fuel ->
  p_psegs fuel (path_toks segs trail ++ rest) = Some (segs, trail, rest).
Proof.
  induction segs as [|s segs IH]; intros trail rest fuel Hwf Hrest Hlen.
  - unfold path_toks in *. cbn [flat_map app] in *. destruct fuel as [|f]; [lia|].
    destruct trail; cbn [app p_psegs].
    + replace (route_stop (tP KQuo "/" :: rest)) with false by reflexivity.
      replace (is KQuo (tP KQuo "/")) with true by reflexivity. rewrite Hrest. reflexivity.
    + rewrite Hrest. reflexivity.
  - cbn [forallb] in Hwf. apply andb_true_iff in Hwf as [Hs Hsegs].
    unfold wf_pseg in Hs. apply andb_true_iff in Hs as [Hhead Htail].
    unfold path_toks in *. cbn [flat_map] in *. rewrite <- !app_assoc in *.
    rewrite pr_pseg_eq in *. cbn [app] in *. rewrite <- !app_assoc in *.
    set (R := flat_map pr_pseg segs ++ (if trail then [tP KQuo "/"] else []) ++ rest) in *.
    assert (HR : path_next R).
    { subst R. destruct segs as [|s' segs'].
      - cbn [flat_map app]. destruct trail; cbn [app]; [left; reflexivity|right; exact Hrest].
      - cbn [flat_map]. rewrite pr_pseg_eq. left. reflexivity. }
    destruct fuel as [|f]; [lia|]. cbn [p_psegs].
    replace (route_stop (tP KQuo "/" :: _)) with false by reflexivity.
    replace (is KQuo (tP KQuo "/")) with true by reflexivity.
    destruct s as [col hd tl]. cbn [ps_colon ps_head ps_tail] in *.
    assert (Hlt : len (pr_ptail tl ++ R) < f).
    { destruct col; cbn [app List.length] in Hlen; lia. }
    assert (Hstop : col = false -> forall q, route_stop (match hd with PId x => tI x | PInt x => tP KInt x end :: q) = false).
    { intros -> q. cbn [orb] in Hhead. unfold not_returns in Hhead. apply negb_true_iff in Hhead.
      destruct hd as [x|x]; unfold route_stop, peek_is, peek_text, is, is_text; cbn [tk tx tI tP kind_eqb orb];
        rewrite Hhead; reflexivity. }
    destruct col; cbn [app].
    + replace (route_stop (tP KColon ":" :: _)) with false by reflexivity.
      replace (peek_in [KColon; KIdent; KInt] (tP KColon ":" :: _)) with true by reflexivity.
      replace (is KColon (tP KColon ":")) with true by reflexivity.
      destruct hd as [x|x].
      * replace (is KIdent (tI x)) with true by reflexivity. cbn [orb].
        rewrite ptail_ok; auto.
        assert (Hc : peek_is KQuo R || route_stop R = true) by (destruct HR as [H|H]; rewrite H; auto using orb_true_r).
        rewrite Hc. subst R. rewrite app_assoc. rewrite IH; auto.
        clear Hc HR Hlen. lenlia.
      * replace (is KIdent (tP KInt x)) with false by reflexivity.
        replace (is KInt (tP KInt x)) with true by reflexivity. cbn [orb].
        rewrite ptail_ok; auto.
        assert (Hc : peek_is KQuo R || route_stop R = true) by (destruct HR as [H|H]; rewrite H; auto using orb_true_r).
        rewrite Hc. subst R. rewrite app_assoc. rewrite IH; auto.
        clear Hc HR Hlen. lenlia.
    + rewrite (Hstop eq_refl).
      destruct hd as [x|x].
      * replace (peek_in [KColon; KIdent; KInt] (tI x :: _)) with true by reflexivity.
        replace (is KColon (tI x)) with false by reflexivity.
        replace (is KIdent (tI x)) with true by reflexivity. cbn [orb].
        rewrite ptail_ok; auto.
        assert (Hc : peek_is KQuo R || route_stop R = true) by (destruct HR as [H|H]; rewrite H; auto using orb_true_r).
        rewrite Hc. subst R. rewrite app_assoc. rewrite IH; auto.
        clear Hc HR Hlen. lenlia.
      * replace (peek_in [KColon; KIdent; KInt] (tP KInt x :: _)) with true by reflexivity.
        replace (is KColon (tP KInt x)) with false by reflexivity.
        replace (is KIdent (tP KInt x)) with false by reflexivity.
        replace (is KInt (tP KInt x)) with true by reflexivity. cbn [orb].
        rewrite ptail_ok; auto.
        assert (Hc : peek_is KQuo R || route_stop R = true) by (destruct HR as [H|H]; rewrite H; auto using orb_true_r).
        rewrite Hc. subst R. rewrite app_assoc. rewrite IH; auto.
        clear Hc HR Hlen. lenlia.
Qed.

Lemma body_ok : forall b rest, p_body (pr_body b ++ rest) = Some (b, rest).
Proof. intros [[[|] [|] v]|] rest; reflexivity. Qed.

Lemma pr_body_head : forall b, exists q, pr_body b = tP KLParen "(" :: q.
Proof. intros [x|]; cbn [pr_body]; eexists; reflexivity. Qed.

(* what follows a service item in printed text: the next item or the closing brace *)
Definition item_next (r : list token) : Prop :=
  exists q, r = tPn KAtDoc "@doc" :: q \/ r = tPn KAtHandler "@handler" :: q \/ exists b, r = T KRBrace "}" b :: q.

Lemma item_next_facts : forall r, item_next r ->
  route_stop r = true /\ peek_in [KAtDoc; KAtHandler; KRBrace] r = true /\
  peek_text "returns" r = false /\ peek_is KLParen r = false /\
  peek_is KSemi r = false /\ skip_semi r = r /\ follow_item r = true /\
  peek_in [KAtDoc; KAtHandler; KRBrace; KSemi] r = true.
Proof. intros r [q [H|[H|[b H]]]]; subst r; repeat split; reflexivity. Qed.

Lemma route_ok : forall r rest fuel, wf_route r = true -> item_next rest ->
  len (pr_route r ++ rest) < fuel -> p_route fuel (pr_route r ++ rest) = Some (r, rest).
Proof.
  intros [m [segs trail] rq rs] rest fuel Hwf Hrest Hlen.
  unfold wf_route in Hwf. cbn [r_method r_path] in Hwf. apply andb_true_iff in Hwf as [Hm Hp].
  unfold wf_path in Hp. cbn [p_segs p_trail] in Hp. apply andb_true_iff in Hp as [Hsegs Hne].
  destruct (item_next_facts rest Hrest) as (Hst & Hin3 & Hnr & Hlp & Hsemi & Hskip & _ & Hin4).
  unfold pr_route in *. cbn [r_method r_path r_req r_resp] in *.
  unfold pr_path in *. cbn [p_segs p_trail] in *. fold (path_toks segs trail) in *.
  cbn [app] in *. rewrite <- !app_assoc in *.
  unfold p_route.
  replace (is KIdent (tIn m)) with true by reflexivity. replace (tx (tIn m)) with m by reflexivity.
  rewrite Hm. cbn [andb].
  set (R := match rq with Some b => pr_body b | None => [] end ++
            match rs with Some b => tI "returns" :: pr_body b | None => [] end ++ rest) in *.
  assert (HRstop : route_stop R = true).
  { subst R. destruct rq as [b|].
    - destruct (pr_body_head b) as (q & E). rewrite E. reflexivity.
    - cbn [app]. destruct rs as [b|]; [reflexivity|exact Hst]. }
  unfold p_path.
  assert (Hns : route_stop (path_toks segs trail ++ R) = false).
  { unfold path_toks. destruct segs as [|s segs'].
    - cbn [flat_map app]. cbn in Hne. rewrite Hne. reflexivity.
    - cbn [flat_map]. rewrite pr_pseg_eq. reflexivity. }
  rewrite Hns. rewrite psegs_ok; auto; [|cbn [List.length] in Hlen; lia].
  subst R.
  destruct rq as [bq|]; destruct rs as [bs|]; cbn [app].
  - (* request and response *)
    destruct (pr_body_head bq) as (q & E).
    assert (E1 : forall X, pr_body bq ++ X = tP KLParen "(" :: q ++ X) by (intros; rewrite E; reflexivity).
    rewrite E1. pk. rewrite <- E1. rewrite body_ok. pk.
    rewrite body_ok. rewrite Hskip. reflexivity.
  - (* request only *)
    destruct (pr_body_head bq) as (q & E).
    assert (E1 : forall X, pr_body bq ++ X = tP KLParen "(" :: q ++ X) by (intros; rewrite E; reflexivity).
    rewrite E1. pk. rewrite <- E1. rewrite body_ok.
    destruct Hrest as [q' [H|[H|[b0 H]]]]; subst rest; reflexivity.
  - (* response only *)
    pk. rewrite body_ok. rewrite Hskip. reflexivity.
  - (* neither *)
    rewrite Hin3. reflexivity.
Qed.

Lemma item_ok : forall i rest fuel, wf_item i = true -> item_next rest ->
  len (pr_item i ++ rest) < fuel -> p_item fuel (pr_item i ++ rest) = Some (i, rest).
Proof.
  intros [doc h ro] rest fuel Hwf Hrest Hlen. unfold wf_item in Hwf. cbn [i_route] in Hwf.
  unfold pr_item in *. cbn [i_doc i_handler i_route] in *. rewrite <- !app_assoc in *.
  unfold p_item.
  destruct doc as [[s|l]|]; cbn [app] in *.
  - replace (is KAtDoc (tPn KAtDoc "@doc")) with true by reflexivity.
    replace (peek_is KLParen (tP KStr s :: _)) with false by reflexivity.
    cbn [expect]. replace (is KStr (tP KStr s)) with true by reflexivity.
    replace (tx (tP KStr s)) with s by reflexivity.
    replace (is KAtHandler (tPn KAtHandler "@handler")) with true by reflexivity.
    replace (is KIdent (tI h)) with true by reflexivity. replace (tx (tI h)) with h by reflexivity.
    cbn [andb]. rewrite route_ok; auto. cbn [List.length] in *. lia.
  - replace (is KAtDoc (tPn KAtDoc "@doc")) with true by reflexivity.
    replace (peek_is KLParen (tP KLParen "(" :: _)) with true by reflexivity.
    rewrite <- !app_assoc in *. cbn [app] in *.
    rewrite p_kvgroup_ok; [|cbn [List.length] in *; lia].
    replace (is KAtHandler (tPn KAtHandler "@handler")) with true by reflexivity.
    replace (is KIdent (tI h)) with true by reflexivity. replace (tx (tI h)) with h by reflexivity.
    cbn [andb]. rewrite route_ok; auto. clear Hwf. lenlia.
  - replace (is KAtDoc (tPn KAtHandler "@handler")) with false by reflexivity.
    replace (is KAtHandler (tPn KAtHandler "@handler")) with true by reflexivity.
    replace (is KIdent (tI h)) with true by reflexivity. replace (tx (tI h)) with h by reflexivity.
    cbn [andb]. rewrite route_ok; auto. cbn [List.length] in *. lia.
Qed.

(* ---------------------------------------------------------------- @server values *)

Definition pr_seplist (k : kind) (sep : string) (xs : list string) : list token :=
  flat_map (fun y => [tP k sep; tI y]) xs.

Lemma seplist_ok : forall k sep xs r fuel, is k (tP k sep) = true -> peek_is k r = false ->
  len (pr_seplist k sep xs ++ r) < fuel ->
  p_seplist fuel k (pr_seplist k sep xs ++ r) = Some (xs, r).
Proof.
  induction xs as [|x xs IH]; intros r fuel Hk Hr Hlen.
  - cbn [pr_seplist flat_map app] in *. destruct fuel as [|f]; [lia|]. cbn [p_seplist].
    destruct r as [|c q]; [reflexivity|]. cbn [peek_is] in Hr. rewrite Hr. reflexivity.
  - cbn [pr_seplist flat_map app] in *. fold (pr_seplist k sep xs) in *.
    destruct fuel as [|f]; [lia|]. cbn [p_seplist]. rewrite Hk.
    replace (is KIdent (tI x)) with true by reflexivity. replace (tx (tI x)) with x by reflexivity.
    rewrite IH; auto. cbn [List.length] in *. lia.
Qed.

Lemma ssegs_ok : forall segs r fuel, peek_is KQuo r = false -> peek_is KSub r = false ->
  len (pr_ssegs segs ++ r) < fuel -> p_ssegs fuel (pr_ssegs segs ++ r) = Some (segs, r).
Proof.
  induction segs as [|[x y] segs IH]; intros r fuel Hr Hrs Hlen.
  - cbn [pr_ssegs flat_map app] in *. destruct fuel as [|f]; [lia|]. cbn [p_ssegs].
    destruct r as [|c q]; [reflexivity|]. cbn [peek_is] in Hr. rewrite Hr. reflexivity.
  - unfold pr_ssegs in *. cbn [flat_map fst snd] in *. fold (pr_ssegs segs) in *.
    destruct fuel as [|f]; [lia|].
    assert (Hnext : forall q, pr_ssegs segs ++ r = q -> (exists t q', q = t :: q' /\ is KSub t = false) \/ q = []).
    { intros q <-. destruct segs as [|[x' y'] segs'].
      - cbn [pr_ssegs flat_map app]. destruct r as [|t q']; [right; reflexivity|left].
        exists t, q'. split; [reflexivity|]. exact Hrs.
      - left. unfold pr_ssegs. cbn [flat_map app]. eexists; eexists; split; reflexivity. }
    destruct y as [y|]; cbn [app p_ssegs].
    + replace (is KQuo (tP KQuo "/")) with true by reflexivity.
      replace (is KIdent (tI x)) with true by reflexivity.
      replace (is KSub (tP KSub "-")) with true by reflexivity.
      replace (is KIdent (tI y)) with true by reflexivity.
      replace (tx (tI x)) with x by reflexivity. replace (tx (tI y)) with y by reflexivity.
      fold (pr_ssegs segs). rewrite IH; auto. cbn [app List.length] in Hlen. fold (pr_ssegs segs) in Hlen. lia.
    + replace (is KQuo (tP KQuo "/")) with true by reflexivity.
      replace (is KIdent (tI x)) with true by reflexivity.
      replace (tx (tI x)) with x by reflexivity.
      fold (pr_ssegs segs).
      assert (Hl : len (pr_ssegs segs ++ r) < f).
      { cbn [app List.length] in Hlen. fold (pr_ssegs segs) in Hlen. lia. }
      destruct (Hnext _ eq_refl) as [(t & q' & E & Hs)|E]; rewrite E.
      * destruct q' as [|t2 q2]; rewrite Hs; rewrite <- E; rewrite IH; auto.
      * rewrite <- E. rewrite IH; auto.
Qed.

(* what follows an @server / info key-value: the next key or ')' *)
Definition kv_next (r : list token) : Prop :=
  exists t q, r = t :: q /\ (tk t = KIdent \/ tk t = KRParen).

Lemma kv_next_facts : forall r, kv_next r ->
  follow_kv r = true /\ peek_is KComma r = false /\ peek_is KSub r = false /\ peek_is KQuo r = false.
Proof.
  intros r (t & q & -> & Hk). unfold follow_kv, peek_in, peek_is, is. cbn [existsb].
  destruct Hk as [K|K]; rewrite K; repeat split; reflexivity.
Qed.

Lemma skv_ok : forall (e : skv) r fuel, wf_sval (snd e) = true -> kv_next r ->
  len (pr_skv e ++ r) < fuel -> p_skv fuel (pr_skv e ++ r) = Some (e, r).
Proof.
  intros [k v] r fuel Hwf Hr Hlen. cbn [snd] in Hwf.
  destruct (kv_next_facts r Hr) as (_ & Hc & Hs & Hq).
  unfold pr_skv in *. cbn [fst snd app] in *. unfold p_skv.
  replace (is KIdent (tIn k)) with true by reflexivity.
  replace (is KColon (tP KColon ":")) with true by reflexivity.
  replace (tx (tIn k)) with k by reflexivity. cbn [andb].
  destruct v as [s|s|s|x xs|x xs|x segs]; cbn [pr_sval app] in *.
  - reflexivity.
  - reflexivity.
  - reflexivity.
  - (* a,b,c *)
    fold (pr_seplist KComma "," xs) in *.
    destruct xs as [|y ys]; [discriminate|].
    replace (is KQuo (tI x)) with false by reflexivity. replace (is KDur (tI x)) with false by reflexivity.
    replace (is KInt (tI x)) with false by reflexivity. replace (is KStr (tI x)) with false by reflexivity.
    replace (is KIdent (tI x)) with true by reflexivity. replace (tx (tI x)) with x by reflexivity.
    replace (peek_is KComma (pr_seplist KComma "," (y :: ys) ++ r)) with true by reflexivity.
    rewrite seplist_ok; auto. cbn [List.length] in *. lia.
  - (* a-b-c *)
    fold (pr_seplist KSub "-" xs) in *.
    destruct xs as [|y ys]; [discriminate|].
    replace (is KQuo (tI x)) with false by reflexivity. replace (is KDur (tI x)) with false by reflexivity.
    replace (is KInt (tI x)) with false by reflexivity. replace (is KStr (tI x)) with false by reflexivity.
    replace (is KIdent (tI x)) with true by reflexivity. replace (tx (tI x)) with x by reflexivity.
    replace (peek_is KComma (pr_seplist KSub "-" (y :: ys) ++ r)) with false by reflexivity.
    replace (peek_is KSub (pr_seplist KSub "-" (y :: ys) ++ r)) with true by reflexivity.
    rewrite seplist_ok; auto. cbn [List.length] in *. lia.
  - (* [a] (/b[-c])* *)
    destruct x as [x|]; cbn [app] in *.
    + replace (is KQuo (tI x)) with false by reflexivity. replace (is KDur (tI x)) with false by reflexivity.
      replace (is KInt (tI x)) with false by reflexivity. replace (is KStr (tI x)) with false by reflexivity.
      replace (is KIdent (tI x)) with true by reflexivity. replace (tx (tI x)) with x by reflexivity.
      assert (Hpc : peek_is KComma (pr_ssegs segs ++ r) = false /\ peek_is KSub (pr_ssegs segs ++ r) = false).
      { destruct segs as [|[a b] segs']; [cbn [pr_ssegs flat_map app]; auto|]. split; reflexivity. }
      destruct Hpc as [H1 H2]. rewrite H1, H2.
      rewrite ssegs_ok; auto. cbn [List.length] in *. lia.
    + destruct segs as [|[a b] segs']; [discriminate|].
      set (S := (a, b) :: segs') in *.
      assert (Hh : exists q, pr_ssegs S ++ r = tP KQuo "/" :: q).
      { subst S. unfold pr_ssegs. cbn [flat_map app fst]. eexists; reflexivity. }
      destruct Hh as (q & E). rewrite E.
      replace (is KQuo (tP KQuo "/")) with true by reflexivity. rewrite <- E.
      rewrite ssegs_ok; auto. cbn [List.length] in *. lia.
Qed.

(* ---------------------------------------------------------------- statements *)

Lemma pr_item_next : forall i r, item_next (pr_item i ++ r).
Proof.
  intros [[[s|l]|] h ro] r; unfold pr_item; cbn [i_doc app]; eexists; auto.
Qed.

Lemma service_tail_ok : forall srv n (a : bool) its rest fuel,
  forallb wf_item its = true ->
  let toks := [tIn "service"; tI n] ++ (if a then [tP KSub "-"; tI "api"] else []) ++ [tP KLBrace "{"] ++
              flat_map pr_item its ++ [rb_after its] in
  len (toks ++ rest) < fuel ->
  p_service_tail fuel srv (toks ++ rest) = Some (SService srv n a its, rest).
Proof.
  intros srv n a its rest fuel Hwf toks Hlen. subst toks. rewrite <- !app_assoc in *. cbn [app] in *.
  unfold p_service_tail.
  replace (is_text "service" (tIn "service")) with true by reflexivity.
  replace (is KIdent (tI n)) with true by reflexivity. replace (tx (tI n)) with n by reflexivity.
  cbn [andb].
  assert (Hitems : forall f, len (flat_map pr_item its ++ rb_after its :: rest) < f ->
            many f stop_rbrace follow_item (p_item fuel) (flat_map pr_item its ++ rb_after its :: rest)
            = Some (its, rb_after its :: rest)).
  { intros f Hf.
    apply (many_ok (p_item fuel) pr_item stop_rbrace follow_item item_next its (rb_after its :: rest)
             (len (flat_map pr_item its ++ rb_after its :: rest))); auto.
    - intros i r Hin Hr HN. rewrite forallb_forall in Hwf.
      destruct (item_next_facts r Hr) as (_ & _ & _ & _ & _ & _ & Hfo & _).
      split; [destruct i as [[[s|l]|] h ro]; discriminate|].
      split; [destruct i as [[[s|l]|] h ro]; reflexivity|].
      split; [|exact Hfo].
      apply item_ok; auto. destruct a; cbn [app List.length] in Hlen; lia.
    - intros i r _. apply pr_item_next.
    - unfold rb_after. eexists. right. right. eexists. reflexivity. }
  destruct a; cbn [app] in *.
  - replace (is KSub (tP KSub "-")) with true by reflexivity.
    replace (is_text "api" (tI "api")) with true by reflexivity.
    cbn [expect]. replace (is KLBrace (tP KLBrace "{")) with true by reflexivity.
    rewrite Hitems; [reflexivity|]. cbn [List.length] in *. lia.
  - replace (is KSub (tP KLBrace "{")) with false by reflexivity.
    destruct (flat_map pr_item its ++ rb_after its :: rest) as [|t0 q0] eqn:E.
    { destruct (flat_map pr_item its); discriminate. }
    rewrite <- E in *. cbn [expect]. replace (is KLBrace (tP KLBrace "{")) with true by reflexivity.
    rewrite Hitems; [reflexivity|]. cbn [List.length] in *. lia.
Qed.

Lemma map_as_flat_map : forall (l : list string),
  map (tPn KStr) l = flat_map (fun v => [tPn KStr v]) l.
Proof. induction l as [|x l IH]; [reflexivity|]. cbn [map flat_map app]. rewrite IH. reflexivity. Qed.

Lemma pr_texpr_head : forall e, exists q, pr_texpr e = tI (fst (fst e)) :: q.
Proof. intros [[n a] d]. unfold pr_texpr. eexists; reflexivity. Qed.

Definition texpr_next (r : list token) : Prop :=
  exists t q, r = t :: q /\ (tk t = KIdent \/ tk t = KRParen).

Lemma stmt_ok : forall s rest fuel, wf_stmt s = true ->
  len (pr_stmt s ++ rest) < fuel -> p_stmt fuel (pr_stmt s ++ rest) = Some (s, rest).
Proof.
  intros s rest fuel Hwf Hlen. destruct s as [v|l|v|l|e|l|srv n a its]; cbn [pr_stmt] in *.
  - reflexivity.
  - (* info *)
    rewrite <- !app_assoc in *. cbn [app] in *. unfold p_stmt.
    replace (is KAtServer (tIn "info")) with false by reflexivity.
    replace (is KIdent (tIn "info")) with true by reflexivity.
    replace (is_text "syntax" (tIn "info")) with false by reflexivity.
    replace (is_text "info" (tIn "info")) with true by reflexivity.
    rewrite p_kvgroup_ok; [reflexivity|]. cbn [List.length] in *. lia.
  - reflexivity.
  - (* import group *)
    rewrite <- !app_assoc in *. cbn [app] in *. unfold p_stmt.
    replace (is KAtServer (tIn "import")) with false by reflexivity.
    replace (is KIdent (tIn "import")) with true by reflexivity.
    replace (is_text "syntax" (tIn "import")) with false by reflexivity.
    replace (is_text "info" (tIn "import")) with false by reflexivity.
    replace (is_text "service" (tIn "import")) with false by reflexivity.
    replace (is_text "type" (tIn "import")) with false by reflexivity.
    replace (is_text "import" (tIn "import")) with true by reflexivity.
    replace (peek_is KLParen (tP KLParen "(" :: _)) with true by reflexivity.
    rewrite map_as_flat_map in *.
    rewrite (many_ok (expect KStr) (fun v => [tPn KStr v]) stop_rparen follow_import
               (fun r => follow_import r = true) l (tPn KRParen ")" :: rest)
               (len (flat_map (fun v => [tPn KStr v]) l ++ tPn KRParen ")" :: rest))); auto.
    + intros v r _ Hr _. repeat split; auto. discriminate.
    + cbn [List.length] in *. lia.
  - (* type *)
    cbn [app] in *. unfold p_stmt.
    replace (is KAtServer (tIn "type")) with false by reflexivity.
    replace (is KIdent (tIn "type")) with true by reflexivity.
    replace (is_text "syntax" (tIn "type")) with false by reflexivity.
    replace (is_text "info" (tIn "type")) with false by reflexivity.
    replace (is_text "service" (tIn "type")) with false by reflexivity.
    replace (is_text "type" (tIn "type")) with true by reflexivity.
    destruct (pr_texpr_head e) as (q & E).
    assert (E1 : pr_texpr e ++ rest = tI (fst (fst e)) :: q ++ rest) by (rewrite E; reflexivity).
    rewrite E1.
    replace (peek_is KLParen (tI (fst (fst e)) :: q ++ rest)) with false by reflexivity.
    replace (peek_is KIdent (tI (fst (fst e)) :: q ++ rest)) with true by reflexivity.
    rewrite <- E1. cbn [wf_stmt] in Hwf. rewrite texpr_ok; auto. cbn [List.length] in *. lia.
  - (* type group *)
    rewrite <- !app_assoc in *. cbn [app] in *. unfold p_stmt.
    replace (is KAtServer (tIn "type")) with false by reflexivity.
    replace (is KIdent (tIn "type")) with true by reflexivity.
    replace (is_text "syntax" (tIn "type")) with false by reflexivity.
    replace (is_text "info" (tIn "type")) with false by reflexivity.
    replace (is_text "service" (tIn "type")) with false by reflexivity.
    replace (is_text "type" (tIn "type")) with true by reflexivity.
    replace (peek_is KLParen (tP KLParen "(" :: _)) with true by reflexivity.
    cbn [wf_stmt] in Hwf.
    set (pe := fun e => first_nl (pr_texpr e)) in *.
    assert (Hpe : forall e, exists q, pe e = tIn (fst (fst e)) :: q /\ len (pe e) = len (pr_texpr e)).
    { intros e. destruct (pr_texpr_head e) as (q & E). subst pe. cbn beta. rewrite E.
      eexists; split; reflexivity. }
    assert (Hnext : forall e r, texpr_next (pe e ++ r)).
    { intros e r. destruct (Hpe e) as (q & E & _). rewrite E. eexists; eexists; split; [reflexivity|]. auto. }
    assert (Hpk : peek_in [KIdent; KRParen] (flat_map pe l ++ tPn KRParen ")" :: rest) = true).
    { destruct l as [|e l']; [reflexivity|]. cbn [flat_map]. rewrite <- app_assoc.
      destruct (Hpe e) as (q & E & _). rewrite E. reflexivity. }
    rewrite Hpk.
    rewrite (many_ok (p_texpr fuel) pe stop_rparen follow_texpr texpr_next l (tPn KRParen ")" :: rest)
               (len (flat_map pe l ++ tPn KRParen ")" :: rest))); auto.
    + intros e r Hin Hr HN. destruct (Hpe e) as (q & E & El).
      split; [rewrite E; discriminate|]. split; [rewrite E; reflexivity|].
      split.
      * (* the parser does not look at the line bit of the name *)
        assert (Hsame : forall X, p_texpr fuel (pe e ++ X) = p_texpr fuel (pr_texpr e ++ X)).
        { intros X. destruct (pr_texpr_head e) as (q' & E'). subst pe. cbn beta. rewrite E'. reflexivity. }
        rewrite Hsame. rewrite forallb_forall in Hwf. apply texpr_ok; auto.
        rewrite app_length in *. rewrite <- El. cbn [List.length] in *. lia.
      * destruct Hr as (t & q' & -> & Hk). unfold follow_texpr, peek_in, peek_is, is. cbn [existsb].
        destruct Hk as [K|K]; rewrite K; reflexivity.
    + eexists; eexists; split; [reflexivity|]. auto.
    + cbn [List.length] in *. lia.
  - (* service *)
    cbn [wf_stmt] in Hwf. apply andb_true_iff in Hwf as [Hsrv Hits].
    destruct srv as [l|].
    + rewrite <- !app_assoc in *. cbn [app] in *. unfold p_stmt.
      replace (is KAtServer (tPn KAtServer "@server")) with true by reflexivity.
      cbn [expect]. replace (is KLParen (tP KLParen "(")) with true by reflexivity.
      set (TL := tIn "service" :: tI n :: (if a then [tP KSub "-"; tI "api"] else []) ++
                  tP KLBrace "{" :: flat_map pr_item its ++ rb_after its :: rest) in *.
      rewrite (many_ok (p_skv fuel) pr_skv stop_rparen follow_kv kv_next l (tPn KRParen ")" :: TL)
                 (len (flat_map pr_skv l ++ tPn KRParen ")" :: TL))); auto.
      * cbn [expect]. replace (is KRParen (tPn KRParen ")")) with true by reflexivity.
        pose proof (service_tail_ok (Some l) n a its rest fuel Hits) as H. cbn zeta in H.
        rewrite <- ?app_assoc in H. cbn [app] in H. rewrite <- ?app_assoc in H. cbn [app] in H.
        apply H. subst TL. clear H. lenlia.
      * intros [k v] r Hin Hr HN. rewrite forallb_forall in Hsrv. specialize (Hsrv _ Hin).
        destruct (kv_next_facts r Hr) as (Hfo & _).
        split; [discriminate|]. split; [reflexivity|]. split; [|exact Hfo].
        apply skv_ok; auto. cbn [List.length] in *. lia.
      * intros [k v] r _. eexists; eexists; split; [reflexivity|]. auto.
      * eexists; eexists; split; [reflexivity|]. auto.
      * cbn [List.length] in *. lia.
    + cbn [app] in *. unfold p_stmt.
      replace (is KAtServer (tIn "service")) with false by reflexivity.
      replace (is KIdent (tIn "service")) with true by reflexivity.
      replace (is_text "syntax" (tIn "service")) with false by reflexivity.
      replace (is_text "info" (tIn "service")) with false by reflexivity.
      replace (is_text "service" (tIn "service")) with true by reflexivity.
      pose proof (service_tail_ok None n a its rest fuel Hits) as H. cbn zeta in H.
      cbn [app] in H. apply H. exact Hlen.
Qed.

(* ---------------------------------------------------------------- whole programs *)

Lemma pr_stmt_nonempty : forall s, exists t q, pr_stmt s = t :: q.
Proof.
  intros [v|l|v|l|e|l|[l|] n a its]; cbn [pr_stmt app]; eexists; eexists; reflexivity.
Qed.

Lemma stmts_ok : forall a fuel gas, wf a = true ->
  len (print a) < fuel -> len (print a) < gas -> p_stmts fuel gas (print a) = Some a.
Proof.
  induction a as [|s a IH]; intros fuel gas Hwf Hf Hg.
  - destruct gas as [|g]; [cbn in Hg; lia|]. reflexivity.
  - unfold print in *. cbn [flat_map] in *. fold (print a) in *.
    cbn [wf forallb] in Hwf. apply andb_true_iff in Hwf as [Hs Ha].
    destruct gas as [|g]; [lia|]. cbn [p_stmts].
    destruct (pr_stmt_nonempty s) as (t & q & E).
    destruct (pr_stmt s ++ print a) as [|t' q'] eqn:E'.
    { rewrite E in E'. discriminate. }
    rewrite <- E' in *. clear E'. rewrite stmt_ok; auto.
    rewrite IH; auto.
    + rewrite app_length in Hf. lia.
    + rewrite app_length in Hg. rewrite E in Hg. cbn [List.length] in Hg. lia.
Qed.

Lemma parse_print : forall a, wf a = true -> parse (print a) = Some a.
Proof. intros a H. unfold parse. apply stmts_ok; auto. Qed.

(* ---------------------------------------------------------------- normalisation *)

Lemma forallb_flat_map : forall {A B} (f : B -> bool) (g : A -> list B) l,
  forallb f (flat_map g l) = forallb (fun x => forallb f (g x)) l.
Proof.
  induction l as [|x l IH]; [reflexivity|]. cbn [flat_map forallb]. rewrite forallb_app, IH. reflexivity.
Qed.

Lemma wf_norm_item : forall i, wf_item (norm_item i) = wf_item i.
Proof. intros [d h [m p rq rs]]. reflexivity. Qed.

Lemma wf_norm_stmt : forall s, wf_stmt s = true -> forallb wf_stmt (norm_stmt s) = true.
Proof.
  intros [v|l|v|l|e|l|srv n a its] H; cbn [norm_stmt].
  - reflexivity.
  - destruct (kvs_all_zero l); reflexivity.
  - destruct (zero_text v); reflexivity.
  - destruct (forallb zero_text l); reflexivity.
  - cbn [forallb]. rewrite H. reflexivity.
  - destruct l; [reflexivity|]. cbn [forallb]. rewrite H. reflexivity.
  - cbn [forallb wf_stmt] in *. apply andb_true_iff in H as [Hs Hi]. rewrite andb_true_r.
    apply andb_true_iff. split.
    + destruct srv as [l|]; [|reflexivity].
      destruct (forallb (fun e : skv => sval_zero (snd e)) l); [reflexivity|exact Hs].
    + rewrite forallb_forall in *. intros i Hin. apply in_map_iff in Hin as (i0 & <- & Hin).
      rewrite wf_norm_item. auto.
Qed.

Lemma norm_wf : forall a, wf a = true -> wf (norm a) = true.
Proof.
  intros a H. unfold wf, norm in *. rewrite forallb_flat_map.
  rewrite forallb_forall in *. intros s Hin. apply wf_norm_stmt. auto.
Qed.

Lemma norm_item_idem : forall i, norm_item (norm_item i) = norm_item i.
Proof.
  intros [d h [m p rq rs]]. unfold norm_item, norm_route. cbn [i_doc i_handler i_route r_method r_path r_req r_resp].
  f_equal.
  - destruct d as [[s|l]|]; cbn [norm_doc]; try reflexivity.
    + destruct (zero_text s) eqn:E; cbn [norm_doc]; [reflexivity|rewrite E; reflexivity].
    + destruct (kvs_all_zero l) eqn:E; cbn [norm_doc]; [reflexivity|rewrite E; reflexivity].
  - f_equal; [destruct rq as [[x|]|]|destruct rs as [[x|]|]]; reflexivity.
Qed.

Lemma norm_stmt_idem : forall s, flat_map norm_stmt (norm_stmt s) = norm_stmt s.
Proof.
  intros [v|l|v|l|e|l|srv n a its]; cbn [norm_stmt].
  - reflexivity.
  - destruct (kvs_all_zero l) eqn:E; cbn [flat_map norm_stmt app]; [reflexivity|rewrite E; reflexivity].
  - destruct (zero_text v) eqn:E; cbn [flat_map norm_stmt app]; [reflexivity|rewrite E; reflexivity].
  - destruct (forallb zero_text l) eqn:E; cbn [flat_map norm_stmt app]; [reflexivity|rewrite E; reflexivity].
  - reflexivity.
  - destruct l; reflexivity.
  - cbn [flat_map norm_stmt app]. f_equal. f_equal.
    + destruct srv as [l|]; [|reflexivity].
      destruct (forallb (fun e : skv => sval_zero (snd e)) l) eqn:E; [reflexivity|rewrite E; reflexivity].
    + rewrite map_map. apply map_ext. apply norm_item_idem.
Qed.

Lemma norm_idem : forall a, norm (norm a) = norm a.
Proof.
  induction a as [|s a IH]; [reflexivity|].
  unfold norm in *. cbn [flat_map]. rewrite flat_map_app, IH, norm_stmt_idem. reflexivity.
Qed.

(* ---------------------------------------------------------------- the model formatter *)

Lemma fmt_idempotent : forall ts a, parse ts = Some a -> wf a = true ->
  fmt ts = Some (print (norm a)) /\ fmt (print (norm a)) = Some (print (norm a)).
Proof.
  intros ts a Hp Hwf. unfold fmt. rewrite Hp. split; [reflexivity|].
  rewrite parse_print by (apply norm_wf; exact Hwf). rewrite norm_idem. reflexivity.
Qed.

Lemma fmt_meaning : forall ts a, parse ts = Some a -> wf a = true ->
  exists out, fmt ts = Some out /\ parse out = Some (norm a).
Proof.
  intros ts a Hp Hwf. exists (print (norm a)). unfold fmt. rewrite Hp. split; [reflexivity|].
  apply parse_print. apply norm_wf. exact Hwf.
Qed.
