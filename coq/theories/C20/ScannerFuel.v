(* C20 — the model scanner is TOTAL for the right reason: [scan_all] is written with fuel (the number
   of characters + 1), and on EVERY input -- valid or not, with unterminated strings and comments,
   illegal characters, NUL bytes -- every token other than a final ILLEGAL one consumes at least one
   character, so the fuel never runs out: the result is the same with any larger amount of fuel.
   "No tokens and no error" therefore always means "end of input reached", an error flag always
   means "scanner.go returns an error here" -- never "the model gave up". *)
From Coq Require Import List String Ascii Bool Arith Lia.
From GZ Require Import C20.Model C20.Scanner.
Import ListNotations.
Open Scope char_scope.
Open Scope list_scope.

Lemma span_len : forall p s a r, span p s = (a, r) -> List.length s = List.length a + List.length r.
Proof.
  induction s as [|c s IH]; intros a r H; cbn in H.
  - inversion H; reflexivity.
  - destruct (p c).
    + destruct (span p s) as [a' r'] eqn:E. inversion H; subst. cbn. rewrite (IH a' r eq_refl). reflexivity.
    + inversion H; subst. reflexivity.
Qed.

Lemma span_first : forall p c s a r, p c = true -> span p (c :: s) = (a, r) -> List.length r <= List.length s.
Proof.
  intros p c s a r Hc H. cbn in H. rewrite Hc in H. destruct (span p s) as [a' r'] eqn:E.
  inversion H; subst. apply span_len in E. lia.
Qed.

Lemma scan_str_body_len : forall d s a b, scan_str_body d s = Some (a, b) -> List.length b < List.length s.
Proof.
  induction s as [|c s IH]; intros a b H; cbn in H; [discriminate|].
  destruct (Ascii.eqb c d); [inversion H; subst; cbn; lia|].
  destruct (is_nul c); [discriminate|].
  destruct (scan_str_body d s) as [[a' b']|] eqn:E; [|discriminate].
  inversion H; subst. specialize (IH a' b eq_refl). cbn. lia.
Qed.

Lemma scan_doc_half_len : forall s a b, scan_doc_half s = Some (a, b) -> List.length b < List.length s.
Proof.
  induction s as [|c s IH]; intros a b H; cbn in H; [discriminate|].
  destruct (Ascii.eqb c "/"); [inversion H; subst; cbn; lia|].
  destruct (is_nul c); [discriminate|].
  destruct (scan_doc_half s) as [[a' b']|] eqn:E; [|discriminate].
  inversion H; subst. specialize (IH a' b eq_refl). cbn. lia.
Qed.

Lemma scan_doc_open_len : forall s a b, scan_doc_open s = Some (a, b) -> List.length b < List.length s.
Proof.
  induction s as [|c s IH]; intros a b H; cbn in H; [discriminate|].
  destruct (Ascii.eqb c "*").
  - destruct (scan_doc_half s) as [[a' b']|] eqn:E; [|discriminate].
    inversion H; subst. apply scan_doc_half_len in E. cbn. lia.
  - destruct (is_nul c); [discriminate|].
    destruct (scan_doc_open s) as [[a' b']|] eqn:E; [|discriminate].
    inversion H; subst. specialize (IH a' b eq_refl). cbn. lia.
Qed.

(* a scanner step is fine w.r.t. a bound when it is the end, an error, an ILLEGAL token (the scan
   stops there) or a token whose rest is within the bound *)
Definition good (bound : nat) (r : sres) : Prop :=
  match r with
  | STok k _ rest => k = RTok KIllegal \/ List.length rest <= bound
  | _ => True
  end.

Lemma good_weaken : forall b1 b2 r, good b1 r -> b1 <= b2 -> good b2 r.
Proof. intros b1 b2 [| |k t rest] H L; cbn in *; try exact I. destruct H; [left; assumption|right; lia]. Qed.

Lemma good_illegal : forall b acc s, good b (illegal acc s).
Proof. intros b acc [|c r]; cbn; left; reflexivity. Qed.

Lemma good_dur : forall b acc s, List.length s <= b -> good b (dur acc s).
Proof. intros b acc s H. cbn. right. exact H. Qed.

Ltac spans :=
  repeat match goal with
         | |- context [span ?p ?s] =>
           let a := fresh "ds" in let r := fresh "rs" in let E := fresh "Esp" in
           destruct (span p s) as [a r] eqn:E; apply span_len in E
         end.

Ltac brk :=
  repeat (first
            [ apply good_illegal
            | apply good_dur; cbn [List.length] in *; lia
            | exact I
            | match goal with
              | |- good _ (match ?x with _ => _ end) => destruct x eqn:?
              | |- good _ (if ?x then _ else _) => destruct x eqn:?
              end ]; cbn [List.length] in * ).

Lemma scan_ns_good : forall acc s, good (pred (List.length s)) (scan_ns acc s).
Proof. intros acc s. unfold scan_ns. brk. Qed.

Lemma scan_us_good : forall acc s, good (pred (List.length s)) (scan_us acc s).
Proof.
  intros acc s. unfold scan_us. destruct s as [|m1 [|m2 r]]; try exact I.
  destruct r as [|c r']; [apply good_illegal|]. destruct (Ascii.eqb c "s"); [|apply good_illegal].
  spans. destruct ds as [|d ds]; [apply good_dur; cbn; lia|].
  destruct rs as [|n rs']; [apply good_illegal|]. destruct (Ascii.eqb n "n"); [|apply good_illegal].
  eapply good_weaken; [apply scan_ns_good|]. cbn [List.length] in *. lia.
Qed.

Lemma scan_ms_tail_good : forall acc s, good (List.length s) (scan_ms_tail acc s).
Proof.
  intros acc s. unfold scan_ms_tail. spans. destruct ds as [|d ds]; [apply good_dur; lia|].
  destruct rs as [|n rs']; [apply good_illegal|].
  destruct (Ascii.eqb n "n"); [eapply good_weaken; [apply scan_ns_good|cbn [List.length] in *; lia]|].
  destruct (starts_mu (n :: rs')); [eapply good_weaken; [apply scan_us_good|cbn [List.length] in *; lia]|apply good_illegal].
Qed.

Lemma scan_s_good : forall acc s, good (pred (List.length s)) (scan_s acc s).
Proof.
  intros acc s. unfold scan_s. destruct s as [|c r]; [exact I|]. spans.
  destruct ds as [|d ds]; [apply good_dur; cbn; lia|].
  destruct rs as [|n r3]; [apply good_illegal|].
  destruct (Ascii.eqb n "n"); [eapply good_weaken; [apply scan_ns_good|cbn [List.length] in *; lia]|].
  destruct (starts_mu (n :: r3)); [eapply good_weaken; [apply scan_us_good|cbn [List.length] in *; lia]|].
  destruct (Ascii.eqb n "m"); [|apply good_illegal].
  destruct r3 as [|x r4]; [apply good_illegal|]. destruct (Ascii.eqb x "s"); [|apply good_illegal].
  eapply good_weaken; [apply scan_ms_tail_good|cbn [List.length] in *; lia].
Qed.

Lemma scan_min_tail_good : forall acc s, good (List.length s) (scan_min_tail acc s).
Proof.
  intros acc s. unfold scan_min_tail. spans. destruct ds as [|d ds]; [apply good_dur; lia|].
  destruct rs as [|n r3]; [apply good_illegal|].
  destruct (Ascii.eqb n "n"); [eapply good_weaken; [apply scan_ns_good|cbn [List.length] in *; lia]|].
  destruct (starts_mu (n :: r3)); [eapply good_weaken; [apply scan_us_good|cbn [List.length] in *; lia]|].
  destruct (Ascii.eqb n "m").
  - destruct r3 as [|x r4]; [apply good_illegal|]. destruct (Ascii.eqb x "s"); [|apply good_illegal].
    eapply good_weaken; [apply scan_ms_tail_good|cbn [List.length] in *; lia].
  - destruct (Ascii.eqb n "s"); [|apply good_illegal].
    eapply good_weaken; [apply scan_s_good|cbn [List.length] in *; lia].
Qed.

Lemma scan_m_good : forall acc s, good (pred (List.length s)) (scan_m acc s).
Proof.
  intros acc s. unfold scan_m. destruct s as [|m r]; [exact I|].
  destruct r as [|c r']; [apply good_dur; cbn; lia|].
  destruct (Ascii.eqb c "s"); [eapply good_weaken; [apply scan_ms_tail_good|cbn [List.length]; lia]|].
  destruct (is_digit c); [eapply good_weaken; [apply scan_min_tail_good|cbn [List.length]; lia]|].
  apply good_dur; cbn; lia.
Qed.

Lemma scan_h_good : forall acc s, good (pred (List.length s)) (scan_h acc s).
Proof.
  intros acc s. unfold scan_h. destruct s as [|h r]; [exact I|]. spans.
  destruct ds as [|d ds]; [apply good_dur; cbn; lia|].
  destruct rs as [|n r3]; [apply good_illegal|].
  destruct (Ascii.eqb n "n"); [eapply good_weaken; [apply scan_ns_good|cbn [List.length] in *; lia]|].
  destruct (starts_mu (n :: r3)); [eapply good_weaken; [apply scan_us_good|cbn [List.length] in *; lia]|].
  destruct (Ascii.eqb n "m"); [eapply good_weaken; [apply scan_m_good|cbn [List.length] in *; lia]|].
  destruct (Ascii.eqb n "s"); [eapply good_weaken; [apply scan_s_good|cbn [List.length] in *; lia]|].
  apply good_illegal.
Qed.

(* scanIntOrDuration is entered at a digit *)
Lemma scan_number_good : forall c s, is_digit c = true -> good (List.length s) (scan_number (c :: s)).
Proof.
  intros c s Hc. unfold scan_number. destruct (span is_digit (c :: s)) as [ds r] eqn:E.
  pose proof (span_first _ _ _ _ _ Hc E) as L.
  destruct r as [|x r']; [cbn; right; lia|].
  destruct (Ascii.eqb x "n"); [eapply good_weaken; [apply scan_ns_good|cbn [List.length] in *; lia]|].
  destruct (starts_mu (x :: r')); [eapply good_weaken; [apply scan_us_good|cbn [List.length] in *; lia]|].
  destruct (Ascii.eqb x "m"); [eapply good_weaken; [apply scan_m_good|cbn [List.length] in *; lia]|].
  destruct (Ascii.eqb x "s"); [eapply good_weaken; [apply scan_s_good|cbn [List.length] in *; lia]|].
  destruct (Ascii.eqb x "h"); [eapply good_weaken; [apply scan_h_good|cbn [List.length] in *; lia]|].
  cbn. right. exact L.
Qed.

(* NextToken: every token other than ILLEGAL leaves strictly less input *)
Lemma next_token_good : forall c s, good (List.length s) (next_token (c :: s)).
Proof.
  intros c s. unfold next_token.
  destruct (is_nul c); [exact I|].
  destruct (Ascii.eqb c "/") eqn:Ec.
  { apply Ascii.eqb_eq in Ec. subst c.
    destruct s as [|d r']; [cbn; right; lia|].
    destruct (Ascii.eqb d "/") eqn:Ed.
    - destruct (span (fun x => negb (is_nl x) && negb (is_nul x)) ("/" :: d :: r')) as [body rest] eqn:E.
      pose proof (span_first (fun x => negb (is_nl x) && negb (is_nul x)) "/" (d :: r') body rest eq_refl E) as L.
      cbn. right. exact L.
    - destruct (Ascii.eqb d "*").
      + destruct (scan_doc_open r') as [[body rest]|] eqn:E; [|exact I].
        apply scan_doc_open_len in E. cbn. right. cbn [List.length]. lia.
      + cbn. right. lia. }
  repeat match goal with
         | |- good _ (if Ascii.eqb c ?x then STok _ _ s else _) => destruct (Ascii.eqb c x); [cbn; right; lia|]
         end.
  destruct (Ascii.eqb c ".").
  { destruct s as [|d r']; [cbn; right; lia|].
    destruct (Ascii.eqb d "."); [|cbn; right; lia].
    destruct r' as [|e r'']; [cbn; right; cbn; lia|].
    destruct (Ascii.eqb e "."); cbn; right; cbn; lia. }
  repeat match goal with
         | |- good _ (if Ascii.eqb c ?x then STok _ _ s else _) => destruct (Ascii.eqb c x); [cbn; right; lia|]
         end.
  destruct (Ascii.eqb c "@").
  { destruct s as [|d r']; [cbn; left; reflexivity|].
    destruct (is_letter d) eqn:Hd.
    - destruct (span is_letter (d :: r')) as [ls rest] eqn:E.
      pose proof (span_first _ _ _ _ _ Hd E) as L.
      repeat match goal with |- good _ (if ?x then _ else _) => destruct x end; try exact I; cbn; right; cbn [List.length]; lia.
    - destruct (is_nul d); [cbn; left; reflexivity|exact I]. }
  destruct (Ascii.eqb c """").
  { destruct (scan_str_body c s) as [[body rest]|] eqn:E; [|exact I]. apply scan_str_body_len in E. cbn. right. lia. }
  destruct (Ascii.eqb c "`").
  { destruct (scan_str_body c s) as [[body rest]|] eqn:E; [|exact I]. apply scan_str_body_len in E. cbn. right. lia. }
  destruct (is_idl c) eqn:Hc.
  { destruct (span (fun x => is_idl x || is_digit x) (c :: s)) as [id rest] eqn:E.
    assert (L : List.length rest <= List.length s).
    { eapply span_first; [|exact E]. cbn. rewrite Hc. reflexivity. }
    destruct (chars_eqb id interface_kw); [|cbn; right; exact L].
    destruct rest as [|a [|b rest']]; try (cbn; right; exact L).
    destruct (Ascii.eqb a "{" && Ascii.eqb b "}"); cbn; right; cbn [List.length] in *; lia. }
  destruct (is_digit c) eqn:Hd; [apply scan_number_good; exact Hd|].
  cbn. left. reflexivity.
Qed.

Lemma skip_ws_len : forall s line, List.length (snd (skip_ws line s)) <= List.length s.
Proof.
  induction s as [|c s IH]; intros line; cbn; [lia|].
  destruct (is_ws c); [specialize (IH (if is_nl c then S line else line)); lia|cbn; lia].
Qed.

(* the fuel of [scan_all] is irrelevant once it exceeds the length of the input *)
Lemma scan_all_fuel : forall n s line f1 f2,
  List.length s <= n -> n < f1 -> n < f2 -> scan_all f1 line s = scan_all f2 line s.
Proof.
  induction n as [|n IH]; intros s line f1 f2 Hs H1 H2;
    (destruct f1 as [|f1]; [lia|]); (destruct f2 as [|f2]; [lia|]); cbn [scan_all].
  - destruct s; [|cbn in Hs; lia]. reflexivity.
  - pose proof (skip_ws_len s line) as Lw. destruct (skip_ws line s) as [line' s'] eqn:Ew. cbn [snd] in Lw.
    destruct s' as [|c s'']; [reflexivity|].
    pose proof (next_token_good c s'') as G.
    destruct (next_token (c :: s'')) as [| |k text rest] eqn:En; try reflexivity.
    cbn in G. cbn [List.length] in Lw.
    assert (Hrec : k <> RTok KIllegal -> scan_all f1 line' rest = scan_all f2 line' rest).
    { intros Hk. destruct G as [G|G]; [contradiction|]. apply IH; lia. }
    destruct k as [kk| |]; [destruct kk|..]; try reflexivity; rewrite Hrec by discriminate; reflexivity.
Qed.

Lemma scan_raw_fuel : forall src f, List.length (list_ascii_of_string src) < f ->
  scan_all f 1 (list_ascii_of_string src) = scan_raw src.
Proof.
  intros src f H. unfold scan_raw. apply (scan_all_fuel (List.length (list_ascii_of_string src))); lia.
Qed.

(* what "error" and "no error" mean: the first step of the scanner on the text behind the white
   space.  [scan_all] reports an error exactly when some step (before an ILLEGAL token) is SErr. *)
Lemma scan_all_step : forall f line s,
  List.length s < f ->
  scan_all f line s =
  let '(line', s') := skip_ws line s in
  match next_token s' with
  | SEof => ([], true)
  | SErr => ([], false)
  | STok k text rest =>
    let t := RT k (str text) line' in
    match k with
    | RTok KIllegal => ([t], true)
    | _ => let '(l, ok) := scan_all (List.length rest + 1) line' rest in (t :: l, ok)
    end
  end.
Proof.
  intros f line s H. destruct f as [|f]; [lia|]. cbn [scan_all].
  pose proof (skip_ws_len s line) as Lw. destruct (skip_ws line s) as [line' s'] eqn:Ew. cbn [snd] in Lw.
  destruct s' as [|c s'']; [reflexivity|].
  pose proof (next_token_good c s'') as G.
  destruct (next_token (c :: s'')) as [| |k text rest] eqn:En; try reflexivity.
  cbn in G. cbn [List.length] in Lw.
  assert (Hrec : k <> RTok KIllegal -> scan_all f line' rest = scan_all (List.length rest + 1) line' rest).
  { intros Hk. destruct G as [G|G]; [contradiction|]. apply (scan_all_fuel (List.length rest)); lia. }
  destruct k as [kk| |]; [destruct kk|..]; try reflexivity; rewrite Hrec by discriminate; reflexivity.
Qed.
