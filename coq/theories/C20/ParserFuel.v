(* C20 — the model PARSER is total for the right reason.  [parse] is written with fuel (the number of
   tokens + 1) and answers [None] both for "syntax error" and for "out of fuel".  Here: every
   sub-parser consumes what it accepts, so on EVERY token stream -- valid or not -- the fuel never
   runs out: the answer is the same with any larger amount of fuel.  A rejection by the model parser
   is therefore always a syntax error found by one of its expectation tests (the places where
   parser.go appends to p.errors), never "the model gave up". *)
From Coq Require Import List String Bool Arith Lia.
From GZ Require Import C20.Model.
Import ListNotations.
Open Scope list_scope.

Notation len := (@List.length token).

Definition shrinks {A} (p : P A) : Prop := forall ts x r, p ts = Some (x, r) -> len r <= len ts.
Definition eats {A} (p : P A) : Prop := forall ts x r, p ts = Some (x, r) -> len r < len ts.

Lemma eats_shrinks : forall A (p : P A), eats p -> shrinks p.
Proof. intros A p H ts x r E. apply H in E. lia. Qed.

(* destruct the scrutinee of the match / if that the hypothesis H is about *)
Ltac brk H :=
  repeat match type of H with
         | match ?x with _ => _ end = Some _ => let E := fresh "E" in destruct x eqn:E; try discriminate H
         | (if ?x then _ else _) = Some _ => let E := fresh "E" in destruct x eqn:E; try discriminate H
         | (let '(_, _) := ?x in _) = Some _ => let E := fresh "E" in destruct x eqn:E; try discriminate H
         end.

Ltac inv H := inversion H; subst; clear H.
Ltac ll := cbn [List.length] in *; lia.

(* ---------------------------------------------------------------- consumption *)

Lemma expect_eats : forall k, eats (expect k).
Proof. intros k ts x r H. unfold expect in H. brk H. inv H. ll. Qed.

Lemma many_shrinks : forall A (p : P A) stop follow, eats p -> forall f, shrinks (many f stop follow p).
Proof.
  intros A p stop follow Hp f. induction f as [|f IH]; intros ts x r H; cbn [many] in H; [discriminate|].
  destruct ts as [|t ts']; [inv H; ll|].
  destruct (stop (t :: ts')); [inv H; ll|].
  destruct (p (t :: ts')) as [[a r1]|] eqn:E1; [|discriminate].
  destruct (follow r1); [|discriminate].
  destruct (many f stop follow p r1) as [[l r2]|] eqn:E2; [|discriminate].
  inv H. apply Hp in E1. apply IH in E2. lia.
Qed.

Lemma p_lit_eats : eats p_lit.
Proof. intros ts x r H. unfold p_lit in H. brk H; inv H; ll. Qed.

Lemma p_kv_eats : eats p_kv.
Proof.
  intros ts x r H. unfold p_kv in H. brk H. destruct p as [v r']. inv H.
  match goal with E : p_lit _ = Some _ |- _ => apply p_lit_eats in E end. ll.
Qed.

Lemma p_kvgroup_eats : forall f, eats (p_kvgroup f).
Proof.
  intros f ts x r H. unfold p_kvgroup in H.
  destruct (expect KLParen ts) as [[u r0]|] eqn:E0; [|discriminate].
  destruct (many f stop_rparen follow_kv p_kv r0) as [[l r1]|] eqn:E1; [|discriminate].
  destruct (expect KRParen r1) as [[u2 r2]|] eqn:E2; [|discriminate].
  inv H. apply expect_eats in E0. apply (many_shrinks _ _ _ _ p_kv_eats) in E1. apply expect_eats in E2. lia.
Qed.

Lemma p_names_shrinks : forall f, shrinks (p_names f).
Proof.
  induction f as [|f IH]; intros ts x r H; cbn [p_names] in H; [discriminate|].
  destruct ts as [|c [|n r0]].
  - inv H. ll.
  - destruct (is KComma c); [discriminate|]. inv H. ll.
  - destruct (is KComma c); [|inv H; ll].
    destruct (is KIdent n && negb (is_keyword (tx n))); [|discriminate].
    destruct (p_names f r0) as [[l r']|] eqn:E; [|discriminate]. inv H. apply IH in E. ll.
Qed.

Lemma elem_finish_shrinks : forall names d r e r', elem_finish names d r = Some (e, r') -> len r' <= len r.
Proof. intros names d r e r' H. unfold elem_finish in H. brk H; inv H; ll. Qed.

Lemma p_elem_with_eats : forall pd pn, shrinks pd -> shrinks pn -> eats (p_elem_with pd pn).
Proof.
  intros pd pn Hd Hn ts x r H. unfold p_elem_with in H.
  destruct ts as [|t r0]; [discriminate|].
  destruct (is KMul t).
  { destruct r0 as [|y r1]; [discriminate|]. destruct (is KIdent y); [|discriminate].
    apply elem_finish_shrinks in H. ll. }
  destruct (is KIdent t); [|discriminate].
  destruct (is_keyword (tx t)); [discriminate|].
  destruct r0 as [|n r1]; [discriminate|].
  destruct (tnl n || is KRaw n); [apply elem_finish_shrinks in H; ll|].
  destruct (peek_in [KComma; KIdent; KLBrack; KAny; KMul; KLBrace] (n :: r1)); [|discriminate].
  destruct (pn (n :: r1)) as [[more r2]|] eqn:E1; [|discriminate].
  destruct (pd r2) as [[d r3]|] eqn:E2; [|discriminate].
  apply elem_finish_shrinks in H. apply Hn in E1. apply Hd in E2. ll.
Qed.

Lemma p_dt_eats : forall f, eats (p_dt f).
Proof.
  induction f as [|f IH]; intros ts x r H; cbn [p_dt] in H; [discriminate|].
  pose proof (many_shrinks _ _ stop_rbrace follow_elem
                (p_elem_with_eats _ _ (eats_shrinks _ _ IH) (p_names_shrinks f)) f) as Hm.
  destruct ts as [|t r0]; [discriminate|].
  destruct (is KIdent t).
  { destruct (is_text "any" t); [inv H; ll|].
    destruct (is_text "map" t).
    - destruct (expect KLBrack r0) as [[u1 r1]|] eqn:E1; [|discriminate].
      destruct (p_dt f r1) as [[k r2]|] eqn:E2; [|discriminate].
      destruct (expect KRBrack r2) as [[u3 r3]|] eqn:E3; [|discriminate].
      destruct (p_dt f r3) as [[v r4]|] eqn:E4; [|discriminate].
      inv H. apply expect_eats in E1. apply IH in E2. apply expect_eats in E3. apply IH in E4. ll.
    - destruct (is_keyword (tx t)); [discriminate|]. inv H. ll. }
  destruct (is KLBrace t).
  { destruct (peek_in [KIdent; KMul; KRBrace] r0); [|discriminate].
    destruct (many f stop_rbrace follow_elem (p_elem_with (p_dt f) (p_names f)) r0) as [[es r1]|] eqn:E1; [|discriminate].
    destruct (expect KRBrace r1) as [[u r2]|] eqn:E2; [|discriminate].
    inv H. apply Hm in E1. apply expect_eats in E2. ll. }
  destruct (is KLBrack t).
  { destruct r0 as [|y r1]; [discriminate|].
    destruct (is KRBrack y).
    - destruct (p_dt f r1) as [[d r2]|] eqn:E; [|discriminate]. inv H. apply IH in E. ll.
    - destruct (is KInt y || is KEllipsis y); [|discriminate].
      destruct (expect KRBrack r1) as [[u r2]|] eqn:E1; [|discriminate].
      destruct (p_dt f r2) as [[d r3]|] eqn:E2; [|discriminate].
      inv H. apply expect_eats in E1. apply IH in E2. ll. }
  destruct (is KAny t); [inv H; ll|].
  destruct (is KMul t); [|discriminate].
  destruct (peek_in [KIdent; KLBrack; KAny; KMul] r0); [|discriminate].
  destruct (p_dt f r0) as [[d r1]|] eqn:E; [|discriminate]. inv H. apply IH in E. ll.
Qed.

Lemma p_texpr_eats : forall f, eats (p_texpr f).
Proof.
  intros f ts x r H. unfold p_texpr in H.
  destruct ts as [|n r0]; [discriminate|].
  destruct (is KIdent n && negb (is_keyword (tx n))); [|discriminate].
  destruct r0 as [|a r1].
  - destruct (p_dt f []) as [[d r2]|] eqn:E; [|discriminate]. inv H. apply p_dt_eats in E. ll.
  - destruct (is KAssign a).
    + destruct (p_dt f r1) as [[d r2]|] eqn:E; [|discriminate]. inv H. apply p_dt_eats in E. ll.
    + destruct (p_dt f (a :: r1)) as [[d r2]|] eqn:E; [|discriminate]. inv H. apply p_dt_eats in E. ll.
Qed.

Lemma p_ptail_shrinks : forall f, shrinks (p_ptail f).
Proof.
  induction f as [|f IH]; intros ts x r H; cbn [p_ptail] in H; [discriminate|].
  destruct ts as [|t r0]; [inv H; ll|].
  destruct (is KQuo t || route_stop (t :: r0)); [inv H; ll|].
  destruct (is KSub t).
  - destruct r0 as [|y r1]; [discriminate|]. destruct (is KIdent y); [|discriminate].
    destruct (p_ptail f r1) as [[l r2]|] eqn:E; [|discriminate]. inv H. apply IH in E. ll.
  - destruct (is KIdent t); [|discriminate].
    destruct (p_ptail f r0) as [[l r2]|] eqn:E; [|discriminate]. inv H. apply IH in E. ll.
Qed.

Lemma p_psegs_shrinks : forall f ts segs trail r, p_psegs f ts = Some (segs, trail, r) -> len r <= len ts.
Proof.
  induction f as [|f IH]; intros ts segs trail r H; cbn [p_psegs] in H; [discriminate|].
  destruct (route_stop ts); [inv H; ll|].
  destruct ts as [|q r0]; [discriminate|].
  destruct (is KQuo q); [|discriminate].
  destruct (route_stop r0); [inv H; ll|].
  destruct (peek_in [KColon; KIdent; KInt] r0); [|discriminate].
  assert (Hgen : forall r1, len r1 <= len r0 ->
            match r1 with
            | h :: r2 =>
              if is KIdent h || is KInt h
              then match p_ptail f r2 with
                   | Some (tl, r3) =>
                     if peek_is KQuo r3 || route_stop r3
                     then match p_psegs f r3 with
                          | Some (segs0, trail0, r4) => Some (PSeg true (if is KIdent h then PId (tx h) else PInt (tx h)) tl :: segs0, trail0, r4)
                          | None => None
                          end
                     else None
                   | None => None
                   end
              else None
            | [] => None
            end = Some (segs, trail, r) \/
            match r1 with
            | h :: r2 =>
              if is KIdent h || is KInt h
              then match p_ptail f r2 with
                   | Some (tl, r3) =>
                     if peek_is KQuo r3 || route_stop r3
                     then match p_psegs f r3 with
                          | Some (segs0, trail0, r4) => Some (PSeg false (if is KIdent h then PId (tx h) else PInt (tx h)) tl :: segs0, trail0, r4)
                          | None => None
                          end
                     else None
                   | None => None
                   end
              else None
            | [] => None
            end = Some (segs, trail, r) -> len r <= len r0).
  { intros r1 L [G|G]; destruct r1 as [|h r2]; try discriminate;
      (destruct (is KIdent h || is KInt h); [|discriminate]);
      (destruct (p_ptail f r2) as [[tl r3]|] eqn:E1; [|discriminate]);
      (destruct (peek_is KQuo r3 || route_stop r3); [|discriminate]);
      (destruct (p_psegs f r3) as [[[s0 t0] r4]|] eqn:E2; [|discriminate]);
      inv G; apply p_ptail_shrinks in E1; apply IH in E2; ll. }
  destruct r0 as [|c r'].
  - discriminate.
  - destruct (is KColon c).
    + specialize (Hgen r'). cbn [List.length] in *. assert (len r <= S (len r')) by (apply Hgen; [lia|left; exact H]). lia.
    + specialize (Hgen (c :: r')). assert (len r <= len (c :: r')) by (apply Hgen; [lia|right; exact H]). ll.
Qed.

Lemma p_path_shrinks : forall f, shrinks (p_path f).
Proof.
  intros f ts x r H. unfold p_path in H. destruct (route_stop ts); [discriminate|].
  destruct (p_psegs f ts) as [[[segs trail] r0]|] eqn:E; [|discriminate]. inv H. eapply p_psegs_shrinks; eassumption.
Qed.

Lemma p_body_eats : eats p_body.
Proof.
  intros ts x r H. unfold p_body in H.
  destruct (expect KLParen ts) as [[u r0]|] eqn:E0; [|discriminate]. apply expect_eats in E0.
  destruct r0 as [|t r1]; [discriminate|].
  destruct (is KRParen t); [inv H; ll|].
  assert (Hfin : forall arr r2, len r2 <= len (t :: r1) ->
            match arr with
            | Some false => None
            | _ =>
              match r2 with
              | s :: v :: r3 =>
                if is KMul s
                then if is KIdent v
                     then match expect KRParen r3 with
                          | Some (_, r4) => Some (Some (Body match arr with Some _ => true | None => false end true (tx v)), r4)
                          | None => None
                          end
                     else None
                else if is KIdent s
                     then match expect KRParen (v :: r3) with
                          | Some (_, r4) => Some (Some (Body match arr with Some _ => true | None => false end false (tx s)), r4)
                          | None => None
                          end
                     else None
              | _ => None
              end
            end = Some (x, r) -> len r < len (t :: r1)).
  { intros arr r2 L G. destruct arr as [[|]|]; try discriminate;
      (destruct r2 as [|s [|v r3]]; try discriminate);
      (destruct (is KMul s);
       [destruct (is KIdent v); [|discriminate];
        destruct (expect KRParen r3) as [[u4 r4]|] eqn:E4; [|discriminate]; inv G; apply expect_eats in E4; ll
       |destruct (is KIdent s); [|discriminate];
        destruct (expect KRParen (v :: r3)) as [[u4 r4]|] eqn:E4; [|discriminate]; inv G; apply expect_eats in E4; ll]). }
  destruct r1 as [|b r'].
  - specialize (Hfin None [t]). assert (len r < len [t]) by (apply Hfin; [ll|exact H]). ll.
  - destruct (is KLBrack t).
    + specialize (Hfin (Some (is KRBrack b)) r'). assert (len r < len (t :: b :: r')) by (apply Hfin; [ll|exact H]). ll.
    + specialize (Hfin None (t :: b :: r')). assert (len r < len (t :: b :: r')) by (apply Hfin; [ll|exact H]). ll.
Qed.

Lemma skip_semi_shrinks : forall ts, len (skip_semi ts) <= len ts.
Proof. intros [|t r]; cbn; [lia|]. destruct (is KSemi t); ll. Qed.

Lemma p_route_eats : forall f, eats (p_route f).
Proof.
  intros f ts x r H. unfold p_route in H.
  destruct ts as [|m r0]; [discriminate|].
  destruct (is KIdent m && mem (tx m) http_methods); [|discriminate].
  destruct (p_path f r0) as [[pa r1]|] eqn:E1; [|discriminate]. apply p_path_shrinks in E1.
  destruct (peek_in [KAtDoc; KAtHandler; KRBrace] r1); [inv H; ll|].
  destruct (peek_is KSemi r1); [inv H; pose proof (skip_semi_shrinks r1); ll|].
  destruct (peek_text "returns" r1 || peek_is KLParen r1); [|discriminate].
  assert (Hrest : forall rq r2, len r2 <= len r1 ->
            (if peek_text "returns" r2 || peek_in [KAtDoc; KAtHandler; KRBrace; KSemi] r2
             then if peek_text "returns" r2
                  then match r2 with
                       | _ :: r3 => match p_body r3 with
                                    | Some (b, r4) => Some (Route (tx m) pa rq (Some b), skip_semi r4)
                                    | None => None
                                    end
                       | [] => None
                       end
                  else Some (Route (tx m) pa rq None, skip_semi r2)
             else None) = Some (x, r) -> len r <= len r1).
  { intros rq r2 L G.
    destruct (peek_text "returns" r2 || peek_in [KAtDoc; KAtHandler; KRBrace; KSemi] r2); [|discriminate].
    destruct (peek_text "returns" r2).
    - destruct r2 as [|u r3]; [discriminate|].
      destruct (p_body r3) as [[b r4]|] eqn:E; [|discriminate]. inv G. apply p_body_eats in E.
      pose proof (skip_semi_shrinks r4). ll.
    - inv G. pose proof (skip_semi_shrinks r2). lia. }
  destruct (peek_is KLParen r1).
  - destruct (p_body r1) as [[b r2]|] eqn:E2; [|discriminate]. apply p_body_eats in E2.
    assert (len r <= len r1) by (apply (Hrest (Some b) r2); [lia|exact H]). ll.
  - assert (len r <= len r1) by (apply (Hrest None r1); [lia|exact H]). ll.
Qed.

Lemma p_item_eats : forall f, eats (p_item f).
Proof.
  intros f ts x r H. unfold p_item in H.
  assert (Hrest : forall d r0, len r0 <= len ts ->
            match r0 with
            | h :: n :: r1 =>
              if is KAtHandler h && is KIdent n
              then match p_route f r1 with
                   | Some (ro, r2) => Some (Item d (tx n) ro, r2)
                   | None => None
                   end
              else None
            | _ => None
            end = Some (x, r) -> len r < len ts).
  { intros d r0 L G. destruct r0 as [|h [|n r1]]; try discriminate.
    destruct (is KAtHandler h && is KIdent n); [|discriminate].
    destruct (p_route f r1) as [[ro r2]|] eqn:E; [|discriminate]. inv G. apply p_route_eats in E. ll. }
  destruct ts as [|d r0].
  - apply (Hrest None []); [lia|exact H].
  - destruct (is KAtDoc d).
    + destruct (peek_is KLParen r0).
      * destruct (p_kvgroup f r0) as [[l r']|] eqn:E; [|discriminate]. apply p_kvgroup_eats in E.
        apply (Hrest (Some (DocGroup l)) r'); [ll|exact H].
      * destruct (expect KStr r0) as [[s r']|] eqn:E; [|discriminate]. apply expect_eats in E.
        apply (Hrest (Some (DocLit s)) r'); [ll|exact H].
    + apply (Hrest None (d :: r0)); [lia|exact H].
Qed.

Lemma p_seplist_shrinks : forall f k, shrinks (p_seplist f k).
Proof.
  induction f as [|f IH]; intros k ts x r H; cbn [p_seplist] in H; [discriminate|].
  destruct ts as [|c r0]; [inv H; ll|].
  destruct (is k c); [|inv H; ll].
  destruct r0 as [|y r1]; [discriminate|]. destruct (is KIdent y); [|discriminate].
  destruct (p_seplist f k r1) as [[l r2]|] eqn:E; [|discriminate]. inv H. apply IH in E. ll.
Qed.

Lemma p_ssegs_shrinks : forall f, shrinks (p_ssegs f).
Proof.
  induction f as [|f IH]; intros ts x r H; cbn [p_ssegs] in H; [discriminate|].
  destruct ts as [|q r0]; [inv H; ll|].
  destruct (is KQuo q); [|inv H; ll].
  destruct r0 as [|y r1]; [discriminate|]. destruct (is KIdent y); [|discriminate].
  assert (Hrest : forall sub r2, len r2 <= len r1 ->
            match sub with
            | Some None => None
            | Some (Some z) => match p_ssegs f r2 with Some (l, r3) => Some ((tx y, Some z) :: l, r3) | None => None end
            | None => match p_ssegs f r2 with Some (l, r3) => Some ((tx y, None) :: l, r3) | None => None end
            end = Some (x, r) -> len r <= len r1).
  { intros sub r2 L G. destruct sub as [[z|]|]; try discriminate;
      (destruct (p_ssegs f r2) as [[l r3]|] eqn:E; [|discriminate]); inv G; apply IH in E; lia. }
  destruct r1 as [|s [|z r']].
  - assert (len r <= len (@nil token)) by (apply (Hrest None []); [lia|exact H]). ll.
  - destruct (is KSub s).
    + assert (len r <= len [s]) by (apply (Hrest (Some None) []); [ll|exact H]). ll.
    + assert (len r <= len [s]) by (apply (Hrest None [s]); [ll|exact H]). ll.
  - destruct (is KSub s).
    + assert (len r <= len (s :: z :: r')) by (apply (Hrest (Some (if is KIdent z then Some (tx z) else None)) r'); [ll|exact H]). ll.
    + assert (len r <= len (s :: z :: r')) by (apply (Hrest None (s :: z :: r')); [ll|exact H]). ll.
Qed.

Lemma p_skv_eats : forall f, eats (p_skv f).
Proof.
  intros f ts x r H. unfold p_skv in H.
  destruct ts as [|k [|c r0]]; try discriminate.
  destruct (is KIdent k && is KColon c); [|discriminate].
  destruct r0 as [|v r1]; [discriminate|].
  destruct (is KQuo v).
  { destruct (p_ssegs f (v :: r1)) as [[segs r2]|] eqn:E; [|discriminate]. inv H. apply p_ssegs_shrinks in E. ll. }
  destruct (is KDur v); [inv H; ll|].
  destruct (is KInt v); [inv H; ll|].
  destruct (is KStr v); [inv H; ll|].
  destruct (is KIdent v); [|discriminate].
  destruct (peek_is KComma r1).
  { destruct (p_seplist f KComma r1) as [[l r2]|] eqn:E; [|discriminate]. inv H. apply p_seplist_shrinks in E. ll. }
  destruct (peek_is KSub r1).
  { destruct (p_seplist f KSub r1) as [[l r2]|] eqn:E; [|discriminate]. inv H. apply p_seplist_shrinks in E. ll. }
  destruct (p_ssegs f r1) as [[segs r2]|] eqn:E; [|discriminate]. inv H. apply p_ssegs_shrinks in E. ll.
Qed.

Lemma p_service_tail_eats : forall f srv, eats (p_service_tail f srv).
Proof.
  intros f srv ts x r H. unfold p_service_tail in H.
  destruct ts as [|s [|n r0]]; try discriminate.
  destruct (is_text "service" s && is KIdent n); [|discriminate].
  assert (Hrest : forall apisfx r1, len r1 <= len r0 ->
            match apisfx with
            | Some false => None
            | _ =>
              match expect KLBrace r1 with
              | Some (_, r2) =>
                match many f stop_rbrace follow_item (p_item f) r2 with
                | Some (its, r3) =>
                  match expect KRBrace r3 with
                  | Some (_, r4) => Some (SService srv (tx n) match apisfx with Some _ => true | None => false end its, r4)
                  | None => None
                  end
                | None => None
                end
              | None => None
              end
            end = Some (x, r) -> len r < len r0).
  { intros apisfx r1 L G. destruct apisfx as [[|]|]; try discriminate;
      (destruct (expect KLBrace r1) as [[u2 r2]|] eqn:E2; [|discriminate]);
      (destruct (many f stop_rbrace follow_item (p_item f) r2) as [[its r3]|] eqn:E3; [|discriminate]);
      (destruct (expect KRBrace r3) as [[u4 r4]|] eqn:E4; [|discriminate]);
      inv G; apply expect_eats in E2; apply (many_shrinks _ _ _ _ (p_item_eats f)) in E3; apply expect_eats in E4; lia. }
  destruct r0 as [|d [|a r']].
  - assert (len r < len (@nil token)) by (apply (Hrest None []); [lia|exact H]). ll.
  - destruct (is KSub d).
    + assert (len r < len [d]) by (apply (Hrest (Some false) []); [ll|exact H]). ll.
    + assert (len r < len [d]) by (apply (Hrest None [d]); [ll|exact H]). ll.
  - destruct (is KSub d).
    + assert (len r < len (d :: a :: r')) by (apply (Hrest (Some (is_text "api" a)) r'); [ll|exact H]). ll.
    + assert (len r < len (d :: a :: r')) by (apply (Hrest None (d :: a :: r')); [ll|exact H]). ll.
Qed.

Lemma p_stmt_eats : forall f, eats (p_stmt f).
Proof.
  intros f ts x r H. unfold p_stmt in H.
  destruct ts as [|t r0]; [discriminate|].
  destruct (is KAtServer t).
  { destruct (expect KLParen r0) as [[u1 r1]|] eqn:E1; [|discriminate].
    destruct (many f stop_rparen follow_kv (p_skv f) r1) as [[l r2]|] eqn:E2; [|discriminate].
    destruct (expect KRParen r2) as [[u3 r3]|] eqn:E3; [|discriminate].
    apply p_service_tail_eats in H. apply expect_eats in E1. apply (many_shrinks _ _ _ _ (p_skv_eats f)) in E2.
    apply expect_eats in E3. ll. }
  destruct (is KIdent t); [|discriminate].
  destruct (is_text "syntax" t).
  { destruct r0 as [|a [|v r']]; try discriminate. destruct (is KAssign a && is KStr v); [|discriminate]. inv H. ll. }
  destruct (is_text "info" t).
  { destruct (p_kvgroup f r0) as [[l r']|] eqn:E; [|discriminate]. inv H. apply p_kvgroup_eats in E. ll. }
  destruct (is_text "service" t); [apply p_service_tail_eats in H; exact H|].
  destruct (is_text "type" t).
  { destruct (peek_is KLParen r0).
    - destruct r0 as [|u r1]; [discriminate|].
      destruct (peek_in [KIdent; KRParen] r1); [|discriminate].
      destruct (many f stop_rparen follow_texpr (p_texpr f) r1) as [[l r2]|] eqn:E2; [|discriminate].
      destruct (expect KRParen r2) as [[u3 r3]|] eqn:E3; [|discriminate].
      inv H. apply (many_shrinks _ _ _ _ (p_texpr_eats f)) in E2. apply expect_eats in E3. ll.
    - destruct (peek_is KIdent r0); [|discriminate].
      destruct (p_texpr f r0) as [[e r']|] eqn:E; [|discriminate]. inv H. apply p_texpr_eats in E. ll. }
  destruct (is_text "import" t); [|discriminate].
  destruct (peek_is KLParen r0).
  - destruct r0 as [|u r1]; [discriminate|].
    destruct (many f stop_rparen follow_import (expect KStr) r1) as [[l r2]|] eqn:E2; [|discriminate].
    destruct (expect KRParen r2) as [[u3 r3]|] eqn:E3; [|discriminate].
    inv H. apply (many_shrinks _ _ _ _ (expect_eats KStr)) in E2. apply expect_eats in E3. ll.
  - destruct (expect KStr r0) as [[v r']|] eqn:E; [|discriminate]. inv H. apply expect_eats in E. ll.
Qed.

(* ---------------------------------------------------------------- the fuel is irrelevant *)

(* [F] gives the same answer with any two amounts of fuel above the length of the input *)
Definition stable {A} (F : nat -> P A) : Prop :=
  forall n ts f1 f2, len ts <= n -> n < f1 -> n < f2 -> F f1 ts = F f2 ts.

Lemma many_stable : forall A stop follow n (p1 p2 : P A),
  (forall ts, len ts <= n -> p1 ts = p2 ts) -> eats p1 ->
  forall ts f1 f2, len ts <= n -> n < f1 -> n < f2 -> many f1 stop follow p1 ts = many f2 stop follow p2 ts.
Proof.
  intros A stop follow. induction n as [|n IH]; intros p1 p2 Heq Hp ts f1 f2 L H1 H2;
    (destruct f1 as [|f1]; [lia|]); (destruct f2 as [|f2]; [lia|]); cbn [many].
  - destruct ts; [reflexivity|ll].
  - destruct ts as [|t ts']; [reflexivity|].
    destruct (stop (t :: ts')); [reflexivity|].
    rewrite <- (Heq (t :: ts') L).
    destruct (p1 (t :: ts')) as [[a r]|] eqn:E; [|reflexivity].
    destruct (follow r); [|reflexivity].
    apply Hp in E.
    rewrite (IH p1 p2 (fun ts0 L0 => Heq ts0 (Nat.le_trans _ _ _ L0 (Nat.le_succ_diag_r n))) Hp r f1 f2) by ll.
    reflexivity.
Qed.

Lemma p_names_stable : stable p_names.
Proof.
  intros n. induction n as [|n IH]; intros ts f1 f2 L H1 H2;
    (destruct f1 as [|f1]; [lia|]); (destruct f2 as [|f2]; [lia|]); cbn [p_names].
  - destruct ts; [reflexivity|ll].
  - destruct ts as [|c [|x r]]; try reflexivity.
    destruct (is KComma c); [|reflexivity].
    destruct (is KIdent x && negb (is_keyword (tx x))); [|reflexivity].
    rewrite (IH r f1 f2) by ll. reflexivity.
Qed.

Lemma p_elem_with_eq : forall n pd1 pd2 pn1 pn2,
  (forall ts, len ts <= n -> pd1 ts = pd2 ts) -> (forall ts, len ts <= n -> pn1 ts = pn2 ts) -> shrinks pn1 ->
  forall ts, len ts <= n -> p_elem_with pd1 pn1 ts = p_elem_with pd2 pn2 ts.
Proof.
  intros n pd1 pd2 pn1 pn2 Hd Hn Hs ts L. unfold p_elem_with.
  destruct ts as [|t r]; [reflexivity|].
  destruct (is KMul t); [reflexivity|].
  destruct (is KIdent t); [|reflexivity].
  destruct (is_keyword (tx t)); [reflexivity|].
  destruct r as [|x r1]; [reflexivity|].
  destruct (tnl x || is KRaw x); [reflexivity|].
  destruct (peek_in [KComma; KIdent; KLBrack; KAny; KMul; KLBrace] (x :: r1)); [|reflexivity].
  rewrite <- (Hn (x :: r1)) by ll.
  destruct (pn1 (x :: r1)) as [[more r2]|] eqn:E; [|reflexivity].
  apply Hs in E. rewrite <- (Hd r2) by ll. reflexivity.
Qed.

Lemma p_dt_stable : stable p_dt.
Proof.
  intros n. induction n as [|n IH]; intros ts f1 f2 L H1 H2;
    (destruct f1 as [|f1]; [lia|]); (destruct f2 as [|f2]; [lia|]); cbn [p_dt].
  - destruct ts; [reflexivity|ll].
  - destruct ts as [|t r0]; [reflexivity|].
    assert (L0 : len r0 <= n) by ll.
    assert (Hsub : forall r, len r <= n -> p_dt f1 r = p_dt f2 r) by (intros r Lr; apply (IH r f1 f2); lia).
    destruct (is KIdent t).
    { destruct (is_text "any" t); [reflexivity|].
      destruct (is_text "map" t); [|reflexivity].
      destruct (expect KLBrack r0) as [[u1 r1]|] eqn:E1; [|reflexivity]. apply expect_eats in E1.
      rewrite <- (Hsub r1) by lia.
      destruct (p_dt f1 r1) as [[k r2]|] eqn:E2; [|reflexivity]. apply p_dt_eats in E2.
      destruct (expect KRBrack r2) as [[u3 r3]|] eqn:E3; [|reflexivity]. apply expect_eats in E3.
      rewrite <- (Hsub r3) by lia. reflexivity. }
    destruct (is KLBrace t).
    { destruct (peek_in [KIdent; KMul; KRBrace] r0); [|reflexivity].
      rewrite (many_stable _ stop_rbrace follow_elem n
                 (p_elem_with (p_dt f1) (p_names f1)) (p_elem_with (p_dt f2) (p_names f2))) with (f2 := f2); try lia.
      - reflexivity.
      - intros ts' L'. apply (p_elem_with_eq n); try assumption.
        + intros r Lr. apply (p_names_stable n r f1 f2); lia.
        + apply p_names_shrinks.
      - apply p_elem_with_eats; [apply eats_shrinks, p_dt_eats|apply p_names_shrinks]. }
    destruct (is KLBrack t).
    { destruct r0 as [|x r1]; [reflexivity|].
      destruct (is KRBrack x); [rewrite <- (Hsub r1) by ll; reflexivity|].
      destruct (is KInt x || is KEllipsis x); [|reflexivity].
      destruct (expect KRBrack r1) as [[u r2]|] eqn:E; [|reflexivity]. apply expect_eats in E.
      rewrite <- (Hsub r2) by ll. reflexivity. }
    destruct (is KAny t); [reflexivity|].
    destruct (is KMul t); [|reflexivity].
    destruct (peek_in [KIdent; KLBrack; KAny; KMul] r0); [|reflexivity].
    rewrite <- (Hsub r0) by lia. reflexivity.
Qed.

Lemma p_kvgroup_stable : stable p_kvgroup.
Proof.
  intros n ts f1 f2 L H1 H2. unfold p_kvgroup.
  destruct (expect KLParen ts) as [[u r0]|] eqn:E0; [|reflexivity]. apply expect_eats in E0.
  rewrite (many_stable _ stop_rparen follow_kv n p_kv p_kv (fun _ _ => eq_refl) p_kv_eats r0 f1 f2) by lia.
  reflexivity.
Qed.

Lemma p_texpr_stable : stable p_texpr.
Proof.
  intros n ts f1 f2 L H1 H2. unfold p_texpr.
  destruct ts as [|x r]; [reflexivity|].
  destruct (is KIdent x && negb (is_keyword (tx x))); [|reflexivity].
  destruct r as [|a r1].
  - rewrite (p_dt_stable n [] f1 f2) by ll. reflexivity.
  - destruct (is KAssign a).
    + rewrite (p_dt_stable n r1 f1 f2) by ll. reflexivity.
    + rewrite (p_dt_stable n (a :: r1) f1 f2) by ll. reflexivity.
Qed.

Lemma p_ptail_stable : stable p_ptail.
Proof.
  intros n. induction n as [|n IH]; intros ts f1 f2 L H1 H2;
    (destruct f1 as [|f1]; [lia|]); (destruct f2 as [|f2]; [lia|]); cbn [p_ptail].
  - destruct ts; [reflexivity|ll].
  - destruct ts as [|t r]; [reflexivity|].
    destruct (is KQuo t || route_stop (t :: r)); [reflexivity|].
    destruct (is KSub t).
    + destruct r as [|x r']; [reflexivity|]. destruct (is KIdent x); [|reflexivity].
      rewrite (IH r' f1 f2) by ll. reflexivity.
    + destruct (is KIdent t); [|reflexivity]. rewrite (IH r f1 f2) by ll. reflexivity.
Qed.

Lemma p_psegs_stable : forall n ts f1 f2, len ts <= n -> n < f1 -> n < f2 -> p_psegs f1 ts = p_psegs f2 ts.
Proof.
  induction n as [|n IH]; intros ts f1 f2 L H1 H2;
    (destruct f1 as [|f1]; [lia|]); (destruct f2 as [|f2]; [lia|]); cbn [p_psegs].
  - destruct ts; [reflexivity|ll].
  - destruct (route_stop ts); [reflexivity|].
    destruct ts as [|q r]; [reflexivity|].
    destruct (is KQuo q); [|reflexivity].
    destruct (route_stop r); [reflexivity|].
    destruct (peek_in [KColon; KIdent; KInt] r); [|reflexivity].
    assert (Hgen : forall col r1, len r1 <= n ->
              match r1 with
              | h :: r2 =>
                if is KIdent h || is KInt h
                then match p_ptail f1 r2 with
                     | Some (tl, r3) =>
                       if peek_is KQuo r3 || route_stop r3
                       then match p_psegs f1 r3 with
                            | Some (segs, trail, r4) => Some (PSeg col (if is KIdent h then PId (tx h) else PInt (tx h)) tl :: segs, trail, r4)
                            | None => None
                            end
                       else None
                     | None => None
                     end
                else None
              | [] => None
              end =
              match r1 with
              | h :: r2 =>
                if is KIdent h || is KInt h
                then match p_ptail f2 r2 with
                     | Some (tl, r3) =>
                       if peek_is KQuo r3 || route_stop r3
                       then match p_psegs f2 r3 with
                            | Some (segs, trail, r4) => Some (PSeg col (if is KIdent h then PId (tx h) else PInt (tx h)) tl :: segs, trail, r4)
                            | None => None
                            end
                       else None
                     | None => None
                     end
                else None
              | [] => None
              end).
    { intros col r1 L1. destruct r1 as [|h r2]; [reflexivity|].
      destruct (is KIdent h || is KInt h); [|reflexivity].
      rewrite (p_ptail_stable n r2 f1 f2) by ll.
      destruct (p_ptail f2 r2) as [[tl r3]|] eqn:E; [|reflexivity]. apply p_ptail_shrinks in E.
      destruct (peek_is KQuo r3 || route_stop r3); [|reflexivity].
      rewrite (IH r3 f1 f2) by ll. reflexivity. }
    destruct r as [|c r'].
    + reflexivity.
    + destruct (is KColon c).
      * exact (Hgen true r' ltac:(ll)).
      * exact (Hgen false (c :: r') ltac:(ll)).
Qed.

Lemma p_path_stable : stable p_path.
Proof.
  intros n ts f1 f2 L H1 H2. unfold p_path. destruct (route_stop ts); [reflexivity|].
  rewrite (p_psegs_stable n ts f1 f2) by lia. reflexivity.
Qed.

Lemma p_route_stable : stable p_route.
Proof.
  intros n ts f1 f2 L H1 H2. unfold p_route.
  destruct ts as [|m r]; [reflexivity|].
  destruct (is KIdent m && mem (tx m) http_methods); [|reflexivity].
  rewrite (p_path_stable n r f1 f2) by ll. reflexivity.
Qed.

Lemma p_item_stable : stable p_item.
Proof.
  intros n ts f1 f2 L H1 H2. unfold p_item.
  assert (Hrest : forall d r0, len r0 <= n ->
            match r0 with
            | h :: x :: r1 =>
              if is KAtHandler h && is KIdent x
              then match p_route f1 r1 with Some (ro, r2) => Some (Item d (tx x) ro, r2) | None => None end
              else None
            | _ => None
            end =
            match r0 with
            | h :: x :: r1 =>
              if is KAtHandler h && is KIdent x
              then match p_route f2 r1 with Some (ro, r2) => Some (Item d (tx x) ro, r2) | None => None end
              else None
            | _ => None
            end).
  { intros d r0 L0. destruct r0 as [|h [|x r1]]; try reflexivity.
    destruct (is KAtHandler h && is KIdent x); [|reflexivity].
    rewrite (p_route_stable n r1 f1 f2) by ll. reflexivity. }
  destruct ts as [|d r0].
  - reflexivity.
  - destruct (is KAtDoc d).
    + destruct (peek_is KLParen r0).
      * rewrite (p_kvgroup_stable n r0 f1 f2) by ll.
        destruct (p_kvgroup f2 r0) as [[l r']|] eqn:E; [|reflexivity]. apply p_kvgroup_eats in E.
        exact (Hrest (Some (DocGroup l)) r' ltac:(ll)).
      * destruct (expect KStr r0) as [[s r']|] eqn:E; [|reflexivity]. apply expect_eats in E.
        exact (Hrest (Some (DocLit s)) r' ltac:(ll)).
    + exact (Hrest None (d :: r0) ltac:(lia)).
Qed.

Lemma p_seplist_stable : forall k, stable (fun f => p_seplist f k).
Proof.
  intros k n. induction n as [|n IH]; intros ts f1 f2 L H1 H2;
    (destruct f1 as [|f1]; [lia|]); (destruct f2 as [|f2]; [lia|]); cbn [p_seplist].
  - destruct ts; [reflexivity|ll].
  - destruct ts as [|c r]; [reflexivity|].
    destruct (is k c); [|reflexivity].
    destruct r as [|x r']; [reflexivity|]. destruct (is KIdent x); [|reflexivity].
    rewrite (IH r' f1 f2) by ll. reflexivity.
Qed.

Lemma p_ssegs_stable : stable p_ssegs.
Proof.
  intros n. induction n as [|n IH]; intros ts f1 f2 L H1 H2;
    (destruct f1 as [|f1]; [lia|]); (destruct f2 as [|f2]; [lia|]); cbn [p_ssegs].
  - destruct ts; [reflexivity|ll].
  - destruct ts as [|q r]; [reflexivity|].
    destruct (is KQuo q); [|reflexivity].
    destruct r as [|x r1]; [reflexivity|]. destruct (is KIdent x); [|reflexivity].
    assert (Hrest : forall sub r2, len r2 <= n ->
              match sub with
              | Some None => None
              | Some (Some z) => match p_ssegs f1 r2 with Some (l, r3) => Some ((tx x, Some z) :: l, r3) | None => None end
              | None => match p_ssegs f1 r2 with Some (l, r3) => Some ((tx x, None) :: l, r3) | None => None end
              end =
              match sub with
              | Some None => None
              | Some (Some z) => match p_ssegs f2 r2 with Some (l, r3) => Some ((tx x, Some z) :: l, r3) | None => None end
              | None => match p_ssegs f2 r2 with Some (l, r3) => Some ((tx x, None) :: l, r3) | None => None end
              end).
    { intros sub r2 L2. destruct sub as [[z|]|]; try reflexivity; rewrite (IH r2 f1 f2) by lia; reflexivity. }
    destruct r1 as [|s [|z r']].
    + exact (Hrest None [] ltac:(ll)).
    + destruct (is KSub s); [exact (Hrest (Some None) [] ltac:(ll))|exact (Hrest None [s] ltac:(ll))].
    + destruct (is KSub s);
        [exact (Hrest (Some (if is KIdent z then Some (tx z) else None)) r' ltac:(ll))|exact (Hrest None (s :: z :: r') ltac:(ll))].
Qed.

Lemma p_skv_stable : stable p_skv.
Proof.
  intros n ts f1 f2 L H1 H2. unfold p_skv.
  destruct ts as [|k [|c r]]; try reflexivity.
  destruct (is KIdent k && is KColon c); [|reflexivity].
  destruct r as [|v r1]; [reflexivity|].
  destruct (is KQuo v); [rewrite (p_ssegs_stable n (v :: r1) f1 f2) by ll; reflexivity|].
  destruct (is KDur v); [reflexivity|].
  destruct (is KInt v); [reflexivity|].
  destruct (is KStr v); [reflexivity|].
  destruct (is KIdent v); [|reflexivity].
  destruct (peek_is KComma r1); [rewrite (p_seplist_stable KComma n r1 f1 f2) by ll; reflexivity|].
  destruct (peek_is KSub r1); [rewrite (p_seplist_stable KSub n r1 f1 f2) by ll; reflexivity|].
  rewrite (p_ssegs_stable n r1 f1 f2) by ll. reflexivity.
Qed.

Lemma p_service_tail_stable : forall srv, stable (fun f => p_service_tail f srv).
Proof.
  intros srv n ts f1 f2 L H1 H2. unfold p_service_tail.
  destruct ts as [|s [|x r]]; try reflexivity.
  destruct (is_text "service" s && is KIdent x); [|reflexivity].
  assert (Hrest : forall apisfx r1, len r1 <= n ->
            match apisfx with
            | Some false => None
            | _ =>
              match expect KLBrace r1 with
              | Some (_, r2) =>
                match many f1 stop_rbrace follow_item (p_item f1) r2 with
                | Some (its, r3) =>
                  match expect KRBrace r3 with
                  | Some (_, r4) => Some (SService srv (tx x) match apisfx with Some _ => true | None => false end its, r4)
                  | None => None
                  end
                | None => None
                end
              | None => None
              end
            end =
            match apisfx with
            | Some false => None
            | _ =>
              match expect KLBrace r1 with
              | Some (_, r2) =>
                match many f2 stop_rbrace follow_item (p_item f2) r2 with
                | Some (its, r3) =>
                  match expect KRBrace r3 with
                  | Some (_, r4) => Some (SService srv (tx x) match apisfx with Some _ => true | None => false end its, r4)
                  | None => None
                  end
                | None => None
                end
              | None => None
              end
            end).
  { intros apisfx r1 L1. destruct apisfx as [[|]|]; try reflexivity;
      (destruct (expect KLBrace r1) as [[u2 r2]|] eqn:E2; [|reflexivity]); apply expect_eats in E2;
      rewrite (many_stable _ stop_rbrace follow_item n (p_item f1) (p_item f2)
                 (fun ts0 L0 => p_item_stable n ts0 f1 f2 L0 H1 H2) (p_item_eats f1) r2 f1 f2) by lia; reflexivity. }
  destruct r as [|d [|a r']].
  - exact (Hrest None [] ltac:(ll)).
  - destruct (is KSub d); [exact (Hrest (Some false) [] ltac:(ll))|exact (Hrest None [d] ltac:(ll))].
  - destruct (is KSub d); [exact (Hrest (Some (is_text "api" a)) r' ltac:(ll))|exact (Hrest None (d :: a :: r') ltac:(ll))].
Qed.

Lemma p_stmt_stable : stable p_stmt.
Proof.
  intros n ts f1 f2 L H1 H2. unfold p_stmt.
  destruct ts as [|t r]; [reflexivity|].
  destruct (is KAtServer t).
  { destruct (expect KLParen r) as [[u1 r1]|] eqn:E1; [|reflexivity]. apply expect_eats in E1.
    rewrite (many_stable _ stop_rparen follow_kv n (p_skv f1) (p_skv f2)
               (fun ts0 L0 => p_skv_stable n ts0 f1 f2 L0 H1 H2) (p_skv_eats f1) r1 f1 f2) by ll.
    destruct (many f2 stop_rparen follow_kv (p_skv f2) r1) as [[l r2]|] eqn:E2; [|reflexivity].
    apply (many_shrinks _ _ _ _ (p_skv_eats f2)) in E2.
    destruct (expect KRParen r2) as [[u3 r3]|] eqn:E3; [|reflexivity]. apply expect_eats in E3.
    apply (p_service_tail_stable (Some l) n r3 f1 f2); ll. }
  destruct (is KIdent t); [|reflexivity].
  destruct (is_text "syntax" t); [reflexivity|].
  destruct (is_text "info" t); [rewrite (p_kvgroup_stable n r f1 f2) by ll; reflexivity|].
  destruct (is_text "service" t); [apply (p_service_tail_stable None n (t :: r) f1 f2); lia|].
  destruct (is_text "type" t).
  { destruct (peek_is KLParen r).
    - destruct r as [|u r1]; [reflexivity|].
      destruct (peek_in [KIdent; KRParen] r1); [|reflexivity].
      rewrite (many_stable _ stop_rparen follow_texpr n (p_texpr f1) (p_texpr f2)
                 (fun ts0 L0 => p_texpr_stable n ts0 f1 f2 L0 H1 H2) (p_texpr_eats f1) r1 f1 f2) by ll.
      reflexivity.
    - destruct (peek_is KIdent r); [|reflexivity]. rewrite (p_texpr_stable n r f1 f2) by ll. reflexivity. }
  destruct (is_text "import" t); [|reflexivity].
  destruct (peek_is KLParen r); [|reflexivity].
  destruct r as [|u r1]; [reflexivity|].
  rewrite (many_stable _ stop_rparen follow_import n (expect KStr) (expect KStr) (fun _ _ => eq_refl) (expect_eats KStr) r1 f1 f2) by ll.
  reflexivity.
Qed.

(* the statement loop: neither the fuel of the sub-parsers nor the gas of the loop matters *)
Lemma p_stmts_stable : forall n ts f1 f2 g1 g2,
  len ts <= n -> n < f1 -> n < f2 -> n < g1 -> n < g2 -> p_stmts f1 g1 ts = p_stmts f2 g2 ts.
Proof.
  induction n as [|n IH]; intros ts f1 f2 g1 g2 L H1 H2 G1 G2;
    (destruct g1 as [|g1]; [lia|]); (destruct g2 as [|g2]; [lia|]); cbn [p_stmts].
  - destruct ts; [reflexivity|ll].
  - destruct ts as [|t r]; [reflexivity|].
    rewrite (p_stmt_stable (S n) (t :: r) f1 f2 L H1 H2).
    destruct (p_stmt f2 (t :: r)) as [[s r']|] eqn:E; [|reflexivity]. apply p_stmt_eats in E.
    rewrite (IH r' f1 f2 g1 g2) by ll. reflexivity.
Qed.

Theorem parse_fuel : forall ts f g, len ts < f -> len ts < g -> p_stmts f g ts = parse ts.
Proof. intros ts f g Hf Hg. unfold parse. apply (p_stmts_stable (len ts)); lia. Qed.

(* every statement the model parser accepts consumes at least one token, so a description of k
   statements needs at least k tokens: the loop of Parser.Parse cannot spin *)
Theorem accepted_statement_consumes : forall f ts s r, p_stmt f ts = Some (s, r) -> len r < len ts.
Proof. intros f ts s r H. exact (p_stmt_eats f ts s r H). Qed.
