(* C20 — the model scanner inverts the rendering of token streams: for every list of lexically
   well-formed tokens, scanning the text in which the tokens are separated by one blank (or by one
   line break where the token starts a line) gives back exactly the tokens, their line bits, no
   comment and no error.  Unbounded (any number of tokens, any identifier/number/string length). *)
From Coq Require Import List String Ascii Bool Arith Lia.
From GZ Require Import C20.Model C20.Scanner.
Import ListNotations.
Open Scope char_scope.
Open Scope list_scope.

Definition chars_of (s : string) : chars := list_ascii_of_string s.

(* ---------------------------------------------------------------- rendering *)

Definition sepc (b : bool) : ascii := if b then "010" else " ".

Fixpoint render (ts : list token) : chars :=
  match ts with
  | [] => ["010"]
  | t :: r => sepc (tnl t) :: chars_of (tx t) ++ render r
  end.

(* ---------------------------------------------------------------- lexical well-formedness *)

Definition units : list string := ["ns"; "µs"; "ms"; "s"; "m"; "h"]%string.

Definition fixed_text (k : kind) : option string :=
  match k with
  | KSub => Some "-" | KMul => Some "*" | KQuo => Some "/" | KAssign => Some "="
  | KLParen => Some "(" | KLBrack => Some "[" | KLBrace => Some "{" | KComma => Some ","
  | KDot => Some "." | KRParen => Some ")" | KRBrace => Some "}" | KRBrack => Some "]"
  | KSemi => Some ";" | KColon => Some ":" | KEllipsis => Some "..."
  | KAtDoc => Some "@doc" | KAtHandler => Some "@handler" | KAtServer => Some "@server"
  | KAny => Some "interface{}"
  | _ => None
  end%string.

Definition lexb (t : token) : bool :=
  let s := chars_of (tx t) in
  match tk t with
  | KIdent => match s with c :: _ => is_idl c && forallb (fun x => is_idl x || is_digit x) s | [] => false end
  | KInt => match s with _ :: _ => forallb is_digit s | [] => false end
  | KDur => let '(ds, u) := span is_digit s in
            match ds with _ :: _ => existsb (String.eqb (str u)) units | [] => false end
  | KStr => match s with
            | c :: r => Ascii.eqb c """" && match scan_str_body c r with Some (b, []) => true | _ => false end
            | [] => false
            end
  | KRaw => match s with
            | c :: r => Ascii.eqb c "`" && match scan_str_body c r with Some (b, []) => true | _ => false end
            | [] => false
            end
  | KIllegal => false
  | k => match fixed_text k with Some x => String.eqb (tx t) x | None => false end
  end.

(* ---------------------------------------------------------------- helpers *)

Lemma span_app : forall p a r,
  forallb p a = true -> match r with c :: _ => p c = false | [] => True end -> span p (a ++ r) = (a, r).
Proof.
  induction a as [|x a IH]; intros r Ha Hr; cbn [app].
  - destruct r as [|c r]; [reflexivity|]. cbn [span]. rewrite Hr. reflexivity.
  - cbn [forallb] in Ha. apply andb_true_iff in Ha as [Hx Ha]. cbn [span]. rewrite Hx, (IH r Ha Hr). reflexivity.
Qed.

Lemma span_sound : forall p s a r, span p s = (a, r) -> s = a ++ r /\ forallb p a = true.
Proof.
  induction s as [|c s IH]; intros a r H; cbn [span] in H.
  - inversion H; subst. split; reflexivity.
  - destruct (p c) eqn:E.
    + destruct (span p s) as [a' b'] eqn:E'. inversion H; subst. destruct (IH _ _ eq_refl) as [-> Hf].
      split; [reflexivity|]. cbn [forallb]. rewrite E, Hf. reflexivity.
    + inversion H; subst. split; reflexivity.
Qed.

Lemma str_chars : forall s, str (chars_of s) = s.
Proof. intros. unfold str, chars_of. apply string_of_list_ascii_of_string. Qed.

Lemma chars_str : forall l, chars_of (str l) = l.
Proof. intros. unfold str, chars_of. apply list_ascii_of_string_of_list_ascii. Qed.

Lemma scan_str_body_app : forall d r b rest,
  scan_str_body d r = Some (b, []) -> b = r /\ scan_str_body d (r ++ rest) = Some (r, rest).
Proof.
  induction r as [|c r IH]; intros b rest H; cbn [scan_str_body] in H; [discriminate|].
  cbn [app scan_str_body]. destruct (Ascii.eqb c d) eqn:E.
  - inversion H; subst. split; reflexivity.
  - destruct (is_nul c); [discriminate|].
    destruct (scan_str_body d r) as [[a b']|] eqn:E'; [|discriminate].
    inversion H; subst. destruct (IH a rest eq_refl) as [-> ->]. split; reflexivity.
Qed.

(* a separator is not part of any token *)
Lemma sep_facts : forall b,
  is_ws (sepc b) = true /\ is_digit (sepc b) = false /\ is_idl (sepc b) = false /\ is_letter (sepc b) = false /\
  is_nul (sepc b) = false.
Proof. destruct b; repeat split; reflexivity. Qed.

(* dispatch on the first character, by exhaustion over the 256 characters *)
Lemma idl_dispatch : forall c r, is_idl c = true ->
  next_token (c :: r) =
  let '(id, rest) := span (fun x => is_idl x || is_digit x) (c :: r) in
  if chars_eqb id interface_kw then
    match rest with
    | a :: b :: rest' => if Ascii.eqb a "{" && Ascii.eqb b "}" then STok (RTok KAny) (id ++ [a; b]) rest'
                         else STok (RTok KIdent) id rest
    | _ => STok (RTok KIdent) id rest
    end
  else STok (RTok KIdent) id rest.
Proof.
  intros c r H.
  destruct c as [[|] [|] [|] [|] [|] [|] [|] [|]]; try discriminate H; reflexivity.
Qed.

Lemma digit_dispatch : forall c r, is_digit c = true -> next_token (c :: r) = scan_number (c :: r).
Proof.
  intros c r H.
  destruct c as [[|] [|] [|] [|] [|] [|] [|] [|]]; try discriminate H; reflexivity.
Qed.

Lemma digit_not_ws : forall c, is_digit c = true -> is_ws c = false.
Proof. intros c H. destruct c as [[|] [|] [|] [|] [|] [|] [|] [|]]; try discriminate H; reflexivity. Qed.
Lemma idl_not_ws : forall c, is_idl c = true -> is_ws c = false.
Proof. intros c H. destruct c as [[|] [|] [|] [|] [|] [|] [|] [|]]; try discriminate H; reflexivity. Qed.

(* ---------------------------------------------------------------- one token *)

Lemma chars_eqb_eq : forall a b, chars_eqb a b = true -> a = b.
Proof.
  intros a b H. unfold chars_eqb in H. apply String.eqb_eq in H.
  rewrite <- (chars_str a), <- (chars_str b), H. reflexivity.
Qed.

Lemma dur_units : forall u, existsb (String.eqb (str u)) units = true ->
  u = chars_of "ns" \/ u = chars_of "µs" \/ u = chars_of "ms" \/ u = chars_of "s" \/ u = chars_of "m" \/ u = chars_of "h".
Proof.
  intros u H. unfold units in H. cbn [existsb] in H.
  repeat (apply orb_true_iff in H; destruct H as [H|H]);
    try (apply String.eqb_eq in H; rewrite <- (chars_str u), H; auto 7).
  discriminate.
Qed.

Lemma next_token_lex : forall t b rest, lexb t = true ->
  next_token (chars_of (tx t) ++ sepc b :: rest) = STok (RTok (tk t)) (chars_of (tx t)) (sepc b :: rest)
  /\ exists c q, chars_of (tx t) = c :: q /\ is_ws c = false.
Proof.
  intros [k x n] b rest H. unfold lexb in H. cbn [tk tx] in *.
  destruct (sep_facts b) as (Hws & Hdg & Hid & Hle & Hnu).
  destruct k; try discriminate H;
    try (cbn [fixed_text] in H; apply String.eqb_eq in H; subst x; destruct b;
         (split; [reflexivity | eexists; eexists; split; reflexivity])).
  - (* identifier *)
    destruct (chars_of x) as [|c q] eqn:E; [discriminate|].
    apply andb_true_iff in H as [Hc Hall]. split; [|exists c, q; split; [reflexivity|apply idl_not_ws; exact Hc]].
    cbn [app]. rewrite idl_dispatch by exact Hc.
    change (c :: q ++ sepc b :: rest) with ((c :: q) ++ sepc b :: rest).
    rewrite (span_app _ (c :: q) (sepc b :: rest) Hall) by (rewrite Hid, Hdg; reflexivity).
    destruct (chars_eqb (c :: q) interface_kw) eqn:Ei; [|reflexivity].
    destruct rest as [|r1 rest]; destruct b; reflexivity.
  - (* integer *)
    destruct (chars_of x) as [|c q] eqn:E; [discriminate|].
    assert (Hc : is_digit c = true) by (cbn [forallb] in H; apply andb_true_iff in H; tauto).
    split; [|exists c, q; split; [reflexivity|apply digit_not_ws; exact Hc]].
    cbn [app]. rewrite digit_dispatch by exact Hc.
    change (c :: q ++ sepc b :: rest) with ((c :: q) ++ sepc b :: rest).
    unfold scan_number. rewrite (span_app _ (c :: q) (sepc b :: rest) H) by exact Hdg.
    destruct b; reflexivity.
  - (* duration with one unit *)
    destruct (span is_digit (chars_of x)) as [ds u] eqn:Es.
    destruct (span_sound _ _ _ _ Es) as [Ex Hds].
    destruct ds as [|d ds]; [discriminate|].
    assert (Hd : is_digit d = true) by (cbn [forallb] in Hds; apply andb_true_iff in Hds; tauto).
    rewrite Ex. split; [|exists d, (ds ++ u); split; [reflexivity|apply digit_not_ws; exact Hd]].
    rewrite <- app_assoc. cbn [app]. rewrite digit_dispatch by exact Hd.
    change (d :: ds ++ u ++ sepc b :: rest) with ((d :: ds) ++ u ++ sepc b :: rest).
    unfold scan_number.
    destruct (dur_units u H) as [U|[U|[U|[U|[U|U]]]]]; subst u;
      (rewrite (span_app is_digit (d :: ds)) by (exact Hds || reflexivity));
      destruct b; cbn; rewrite <- ?app_assoc; reflexivity.
  - (* string *)
    destruct (chars_of x) as [|c q] eqn:E; [discriminate|].
    apply andb_true_iff in H as [Hc Hb]. apply Ascii.eqb_eq in Hc. subst c.
    destruct (scan_str_body """" q) as [[bd [|? ?]]|] eqn:Eb; try discriminate.
    destruct (scan_str_body_app _ _ _ (sepc b :: rest) Eb) as [-> Happ].
    split; [|eexists; eexists; split; reflexivity].
    cbn [app]. unfold next_token. cbn. rewrite Happ. reflexivity.
  - (* raw string *)
    destruct (chars_of x) as [|c q] eqn:E; [discriminate|].
    apply andb_true_iff in H as [Hc Hb]. apply Ascii.eqb_eq in Hc. subst c.
    destruct (scan_str_body "`" q) as [[bd [|? ?]]|] eqn:Eb; try discriminate.
    destruct (scan_str_body_app _ _ _ (sepc b :: rest) Eb) as [-> Happ].
    split; [|eexists; eexists; split; reflexivity].
    cbn [app]. unfold next_token. cbn. rewrite Happ. reflexivity.
Qed.

(* ---------------------------------------------------------------- the whole stream *)

Definition raw_of (line : nat) (t : token) : rtoken := RT (RTok (tk t)) (tx t) line.

(* lines: every token with the line bit is one line further down *)
Fixpoint raws (line : nat) (ts : list token) : list rtoken :=
  match ts with
  | [] => []
  | t :: r => let l := if tnl t then S line else line in raw_of l t :: raws l r
  end.

Lemma skip_ws_sep : forall b line c q, is_ws c = false ->
  skip_ws line (sepc b :: c :: q) = ((if b then S line else line), c :: q).
Proof. intros b line c q H. destruct b; cbn [skip_ws sepc]; cbn; rewrite H; reflexivity. Qed.

Lemma render_length : forall ts, 1 <= List.length (render ts).
Proof. destruct ts; cbn [render List.length]; lia. Qed.

Lemma scan_all_render : forall ts line fuel, forallb lexb ts = true ->
  List.length (render ts) < fuel ->
  scan_all fuel line (render ts) = (raws line ts, true).
Proof.
  induction ts as [|t ts IH]; intros line fuel Hl Hf.
  - destruct fuel as [|f]; [cbn in Hf; lia|]. reflexivity.
  - cbn [forallb] in Hl. apply andb_true_iff in Hl as [Ht Hts].
    destruct fuel as [|f]; [lia|]. cbn [render scan_all].
    assert (Hr : exists b' rest', render ts = sepc b' :: rest').
    { destruct ts as [|t' ts']; cbn [render]; [exists true, []; reflexivity|eexists; eexists; reflexivity]. }
    destruct Hr as (b' & rest' & Er).
    destruct (next_token_lex t b' rest' Ht) as [Hn (c & q & Ec & Hc)].
    rewrite Er. rewrite Ec in *. cbn [app]. rewrite skip_ws_sep by exact Hc.
    change (c :: q ++ sepc b' :: rest') with ((c :: q) ++ sepc b' :: rest'). rewrite Hn.
    assert (Hk : tk t <> KIllegal).
    { intro E. unfold lexb in Ht. rewrite E in Ht. discriminate. }
    rewrite <- Er.
    assert (Hlen : List.length (render ts) < f).
    { cbn [render List.length] in Hf. rewrite app_length in Hf. lia. }
    rewrite (IH _ f Hts Hlen).
    cbn [raws]. unfold raw_of. rewrite <- Ec, str_chars.
    destruct (tk t); try reflexivity. contradiction.
Qed.

(* projection of the raw stream back to parser tokens *)
Definition first_plain (ts : list token) : list token :=
  match ts with t :: r => set_nl false t :: r | [] => [] end.

Lemma project_raws : forall ts line n,
  project (Some line) n (raws line ts) = (ts, []).
Proof.
  induction ts as [|[k x b] ts IH]; intros line n; [reflexivity|].
  cbn [raws project raw_of rt_kind rt_line rt_text tk tx tnl].
  rewrite IH. destruct b.
  - replace (Nat.ltb line (S line)) with true by (symmetry; apply Nat.ltb_lt; lia). reflexivity.
  - rewrite Nat.ltb_irrefl. reflexivity.
Qed.

Lemma scan_render_chars : forall ts, forallb lexb ts = true ->
  scan (str (render ts)) = (first_plain ts, [], true).
Proof.
  intros ts H. unfold scan, scan_raw. fold (chars_of (str (render ts))). rewrite chars_str.
  rewrite scan_all_render by (auto; lia).
  destruct ts as [|[k x b] ts]; [reflexivity|].
  cbn [raws project raw_of rt_kind rt_line rt_text tk tx tnl first_plain set_nl].
  rewrite project_raws. reflexivity.
Qed.

(* ---------------------------------------------------------------- characters -> description *)
From GZ Require Import C20.Proofs.

(* the parser never looks at the line bit of the very first token *)
Lemma p_stmt_first_nl : forall fuel k x b r, p_stmt fuel (T k x b :: r) = p_stmt fuel (T k x false :: r).
Proof. intros. reflexivity. Qed.

Lemma parse_first_plain : forall ts, parse (first_plain ts) = parse ts.
Proof.
  intros [|[k x b] ts]; [reflexivity|].
  unfold parse, first_plain, set_nl. cbn [tk tx List.length p_stmts].
  rewrite (p_stmt_first_nl _ k x b ts). reflexivity.
Qed.

(* printing a description, rendering the tokens as characters, scanning and parsing gives the
   description back: the lexical and the syntactic layer of the model compose *)
Lemma char_roundtrip : forall a, wf a = true -> forallb lexb (print a) = true ->
  exists ts, scan (str (render (print a))) = (ts, [], true) /\ parse ts = Some a.
Proof.
  intros a Hwf Hlex. exists (first_plain (print a)). split.
  - apply scan_render_chars. exact Hlex.
  - rewrite parse_first_plain. apply parse_print. exact Hwf.
Qed.
