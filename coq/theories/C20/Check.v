(* C20 — correspondence / property evaluation on what the Go scanner, parser and formatter
   did with one generated program.  Executable only. *)
From Coq Require Import List String Ascii Bool Arith.
From GZ Require Export C20.Model C20.Scanner C20.Text.
Import ListNotations.
Open Scope string_scope.
Open Scope list_scope.

(* ---- decidable equality of abstract syntax (by hand: the types are nested) *)
Definition opt_eqb {A} (e : A -> A -> bool) (a b : option A) : bool :=
  match a, b with Some x, Some y => e x y | None, None => true | _, _ => false end.
Fixpoint list_eqb {A} (e : A -> A -> bool) (a b : list A) : bool :=
  match a, b with
  | [], [] => true
  | x :: a', y :: b' => e x y && list_eqb e a' b'
  | _, _ => false
  end.
Definition alen_eqb (a b : alen) : bool :=
  match a, b with ALInt x, ALInt y => String.eqb x y | ALDots, ALDots => true | _, _ => false end.

Fixpoint dtype_eqb (a b : dtype) {struct a} : bool :=
  match a, b with
  | DBase x, DBase y => String.eqb x y
  | DAny, DAny => true
  | DIface, DIface => true
  | DStruct ea, DStruct eb =>
    (fix go (l1 l2 : list (list string * dtype * option string)) {struct l1} : bool :=
       match l1, l2 with
       | [], [] => true
       | (n1, d1, t1) :: r1, (n2, d2, t2) :: r2 =>
         list_eqb String.eqb n1 n2 && dtype_eqb d1 d2 && opt_eqb String.eqb t1 t2 && go r1 r2
       | _, _ => false
       end) ea eb
  | DArray n1 d1, DArray n2 d2 => alen_eqb n1 n2 && dtype_eqb d1 d2
  | DSlice d1, DSlice d2 => dtype_eqb d1 d2
  | DMap k1 v1, DMap k2 v2 => dtype_eqb k1 k2 && dtype_eqb v1 v2
  | DPtr d1, DPtr d2 => dtype_eqb d1 d2
  | _, _ => false
  end.

Definition lit_eqb (a b : lit) := Bool.eqb (l_raw a) (l_raw b) && String.eqb (l_tx a) (l_tx b).
Definition kv_eqb (a b : kv) := String.eqb (fst a) (fst b) && lit_eqb (snd a) (snd b).
Definition sseg_eqb (a b : string * option string) :=
  String.eqb (fst a) (fst b) && opt_eqb String.eqb (snd a) (snd b).
Definition sval_eqb (a b : sval) : bool :=
  match a, b with
  | SVDur x, SVDur y | SVInt x, SVInt y | SVStr x, SVStr y => String.eqb x y
  | SVList x xs, SVList y ys | SVSubs x xs, SVSubs y ys => String.eqb x y && list_eqb String.eqb xs ys
  | SVPath x s1, SVPath y s2 => opt_eqb String.eqb x y && list_eqb sseg_eqb s1 s2
  | _, _ => false
  end.
Definition skv_eqb (a b : skv) := String.eqb (fst a) (fst b) && sval_eqb (snd a) (snd b).
Definition phead_eqb (a b : phead) :=
  match a, b with PId x, PId y | PInt x, PInt y => String.eqb x y | _, _ => false end.
Definition psep_eqb (a b : psep) :=
  match a, b with SepSub, SepSub | SepNone, SepNone => true | _, _ => false end.
Definition pseg_eqb (a b : pseg) :=
  Bool.eqb (ps_colon a) (ps_colon b) && phead_eqb (ps_head a) (ps_head b) &&
  list_eqb (fun x y : psep * string => psep_eqb (fst x) (fst y) && String.eqb (snd x) (snd y)) (ps_tail a) (ps_tail b).
Definition path_eqb (a b : path) := list_eqb pseg_eqb (p_segs a) (p_segs b) && Bool.eqb (p_trail a) (p_trail b).
Definition bodyx_eqb (a b : bodyx) :=
  Bool.eqb (b_arr a) (b_arr b) && Bool.eqb (b_star a) (b_star b) && String.eqb (b_val a) (b_val b).
Definition obody_eqb := opt_eqb (opt_eqb bodyx_eqb).
Definition route_eqb (a b : route) :=
  String.eqb (r_method a) (r_method b) && path_eqb (r_path a) (r_path b) &&
  obody_eqb (r_req a) (r_req b) && obody_eqb (r_resp a) (r_resp b).
Definition atdoc_eqb (a b : atdoc) :=
  match a, b with
  | DocLit x, DocLit y => String.eqb x y
  | DocGroup x, DocGroup y => list_eqb kv_eqb x y
  | _, _ => false
  end.
Definition item_eqb (a b : item) :=
  opt_eqb atdoc_eqb (i_doc a) (i_doc b) && String.eqb (i_handler a) (i_handler b) && route_eqb (i_route a) (i_route b).
Definition texpr_eqb (a b : texpr) :=
  let '(n1, a1, d1) := a in let '(n2, a2, d2) := b in
  String.eqb n1 n2 && Bool.eqb a1 a2 && dtype_eqb d1 d2.
Definition stmt_eqb (a b : stmt) : bool :=
  match a, b with
  | SSyntax x, SSyntax y | SImport x, SImport y => String.eqb x y
  | SInfo x, SInfo y => list_eqb kv_eqb x y
  | SImports x, SImports y => list_eqb String.eqb x y
  | SType x, SType y => texpr_eqb x y
  | STypes x, STypes y => list_eqb texpr_eqb x y
  | SService s1 n1 a1 i1, SService s2 n2 a2 i2 =>
    opt_eqb (list_eqb skv_eqb) s1 s2 && String.eqb n1 n2 && Bool.eqb a1 a2 && list_eqb item_eqb i1 i2
  | _, _ => false
  end.
Definition api_eqb : api -> api -> bool := list_eqb stmt_eqb.
Definition oapi_eqb := opt_eqb api_eqb.

(* tokens modulo layout: kind and text, not the line-break bit *)
Definition tok_eqb (a b : token) := kind_eqb (tk a) (tk b) && String.eqb (tx a) (tx b).
Definition toks_eqb := list_eqb tok_eqb.

(* ---- comments (outside the grammar model: judged as an ordered list of texts with positions) *)
Definition cmt := (nat * string)%type.   (* number of non-comment tokens before it, its text *)

(* white space inside a comment is layout: a run of blanks/tabs/CRs counts as one blank, blanks
   at the start and at the end of a line of the comment do not count *)
Definition is_blank (c : ascii) : bool :=
  Ascii.eqb c " "%char || Ascii.eqb c "009"%char || Ascii.eqb c "013"%char.
Fixpoint nws (s : string) (pend start : bool) : string :=
  match s with
  | EmptyString => EmptyString
  | String c r =>
    if is_blank c then nws r true start
    else if Ascii.eqb c "010"%char then String c (nws r false true)
    else if pend && negb start then String " "%char (String c (nws r false false))
    else String c (nws r false false)
  end.
Definition norm_cmt (c : cmt) : string := nws (snd c) false true.

Fixpoint subseq (xs ys : list string) {struct ys} : bool :=
  match xs, ys with
  | [], _ => true
  | _ :: _, [] => false
  | x :: xs', y :: ys' => if String.eqb x y then subseq xs' ys' else subseq xs ys'
  end.

(* The printed tokens of a description, each marked "kept by format.Source" or "deleted" (it
   belongs to a construct that [norm] deletes: an info/import/type group or @server/@doc block that
   is empty or holds only empty strings, import "", an empty "()" body with its "returns").  The
   kept tokens, in order, are exactly [print (norm a)] (checked again on every case below). *)
Definition mtoken := (token * bool)%type.
Definition keep_all (l : list token) : list mtoken := map (fun t => (t, true)) l.
Definition del_all (l : list token) : list mtoken := map (fun t => (t, false)) l.

Definition mark_body (ret : bool) (b : option body) : list mtoken :=
  let kw := if ret then [tI "returns"] else [] in
  match b with
  | None => []
  | Some None => del_all (kw ++ pr_body None)
  | Some (Some x) => keep_all (kw ++ pr_body (Some x))
  end.

Definition pr_doc (d : atdoc) : list token :=
  match d with
  | DocLit x => [tPn KAtDoc "@doc"; tP KStr x]
  | DocGroup l => [tPn KAtDoc "@doc"; tP KLParen "("] ++ flat_map pr_kv l ++ [tPn KRParen ")"]
  end.

Definition mark_item (i : item) : list mtoken :=
  match i_doc i with
  | None => []
  | Some d => (match norm_doc (Some d) with None => del_all | Some _ => keep_all end) (pr_doc d)
  end
  ++ keep_all ([tPn KAtHandler "@handler"; tI (i_handler i)] ++ tIn (r_method (i_route i)) :: pr_path (r_path (i_route i)))
  ++ mark_body false (r_req (i_route i)) ++ mark_body true (r_resp (i_route i)).

Definition mark_stmt (s : stmt) : list mtoken :=
  match norm_stmt s with
  | [] => del_all (pr_stmt s)
  | _ =>
    match s with
    | SService srv n a its =>
      match srv with
      | Some l =>
        (if forallb (fun e : skv => sval_zero (snd e)) l then del_all else keep_all)
          ([tPn KAtServer "@server"; tP KLParen "("] ++ flat_map pr_skv l ++ [tPn KRParen ")"])
      | None => []
      end
      ++ keep_all ([tIn "service"; tI n] ++ (if a then [tP KSub "-"; tI "api"] else []) ++ [tP KLBrace "{"])
      ++ flat_map mark_item its ++ keep_all [rb_after its]
    | _ => keep_all (pr_stmt s)
    end
  end.

Definition mark (a : api) : list mtoken := flat_map mark_stmt a.

Definition mark_consistent (a : api) : bool :=
  list_eqb (fun x y : token => tok_eqb x y && Bool.eqb (tnl x) (tnl y)) (map fst (mark a)) (print a)
  && list_eqb (fun x y : token => tok_eqb x y && Bool.eqb (tnl x) (tnl y))
              (map fst (filter snd (mark a))) (print (norm a)).

(* for every source token: is its counterpart kept, and does the canonical layout start a line
   there?  None: the token has no counterpart (a ';', which the formatter deletes) *)
Fixpoint align (src : list token) (prt : list mtoken) : list (option (bool * bool)) :=
  match src with
  | [] => []
  | x :: src' =>
    match prt with
    | (p, k) :: prt' => if tok_eqb x p then Some (k, tnl p) :: align src' prt' else None :: align src' prt
    | [] => None :: align src' []
    end
  end.

(* A comment with k source tokens before it, on the line of the token before it ([same]: the
   parser attaches it to that token as a "leading" comment) or not (then it is a "head" comment of
   the token after it), MUST survive formatting unless
   - it is attached to a token the formatter deletes, or
   - it stands between two tokens that the canonical layout prints on one line.
   So a comment on lines of its own between two printed lines, at the end of a printed line, above a
   kept declaration, at the start or at the end of the file must be in the formatted text. *)
Fixpoint next_kept (l : list (option (bool * bool))) : option bool :=
  match l with
  | [] => None
  | Some (true, nl) :: _ => Some nl
  | _ :: r => next_kept r
  end.
Definition must_survive (al : list (option (bool * bool))) (k : nat) (same : bool) : bool :=
  if same then
    (* trailing comment of token k-1 *)
    match k with
    | O => true
    | S j => match nth_error al j with
             | Some (Some (true, _)) => match next_kept (skipn k al) with Some nl => nl | None => true end
             | _ => false
             end
    end
  else
    (* head comment of token k (of the end of the file) *)
    match skipn k al with
    | [] => true
    | Some (true, nl) :: _ => nl
    | _ => false
    end.

Fixpoint placed_go (al : list (option (bool * bool))) (cs : list cmt) (sm : list bool) : list cmt :=
  match cs with
  | [] => []
  | c :: cs' =>
    let same := match sm with b :: _ => b | [] => false end in
    let rest := placed_go al cs' (tl sm) in
    if must_survive al (fst c) same then c :: rest else rest
  end.
Definition placed_cmts (src : list token) (a : api) (cs : list cmt) (sm : list bool) : list cmt :=
  placed_go (align src (mark a)) cs sm.

(* Two places where format.Source keeps a line break of the source although the canonical
   layout has none (ModeAuto in ast.Writer.write); the grammar does not look at the line there:
     "info" <break> "("            InfoStmt.Format writes the two nodes without expectSameLine
     "}" <break> `tag`             a tag after a member type that contains a struct *)
Definition free_break (prev cur : token) : bool :=
  (is KIdent prev && is_text "info" prev && tnl prev && is KLParen cur)
  || (is KRBrace prev && is KRaw cur).

(* layout of the formatted text against the canonical printer: same tokens; a line starts
   wherever the printer starts one; elsewhere only a comment may force a line break *)
Fixpoint layout_from (i : nat) (prev : token) (cpos : list nat) (f m : list token) : bool :=
  match f, m with
  | [], [] => true
  | x :: f', y :: m' =>
    tok_eqb x y
    && (if tnl y then tnl x else negb (tnl x) || existsb (Nat.eqb i) cpos || free_break prev y)
    && layout_from (S i) y cpos f' m'
  | _, _ => false
  end.
Definition layout_ok (cpos : list nat) (f m : list token) : bool :=
  match f, m with
  | [], [] => true
  | x :: f', y :: m' => tok_eqb x y && layout_from 1 y cpos f' m'
  | _, _ => false
  end.

(* ---- the case *)
Inductive outcome := OOk | OErr | OCrash.   (* OCrash: panic or no answer within the timeout *)
Definition not_crash (o : outcome) := match o with OCrash => false | _ => true end.

Record case := mkCase
  { c_src : option string;       (* the source text (None: it holds a character that cannot be written here) *)
    c_fsrc : option string;      (* the formatted text *)
    c_scan_ok : bool;            (* the Go scanner tokenised the whole source *)
    c_toks : list token;         (* its non-comment tokens *)
    c_cmts : list cmt;           (* its comment tokens *)
    c_csame : list bool;         (* per comment: on the line of the token before it? *)
    c_ast : option api;          (* AST built by the Go parser (None: it reported errors) *)
    c_pout : outcome;            (* Parser.Parse outcome *)
    c_fout : outcome;            (* format.Source outcome *)
    c_ftoks : list token;        (* non-comment tokens of the formatted text *)
    c_fcmts : list cmt;          (* comment tokens of the formatted text *)
    c_fast : option api;         (* Go parser's AST of the formatted text *)
    c_idem : bool;               (* format.Source(formatted) = formatted, byte for byte *)
    c_file_ok : bool;            (* format.File on a file holding the source = format.Source *)
    c_conc_ok : bool;            (* formatted again by 8 goroutines at once, between all the other
                                    programs of the run: the same text / the same kind of outcome *)
    c_multi_ok : bool;           (* when the program is the root of a set of files importing one another:
                                    goctl's analyzer reads the same API description off the set before
                                    and after format.File on every file, and a second pass changes nothing *)
    c_strict : bool;             (* judge the comments at full strength (no comment may be lost) *)
    c_muts : list outcome }.     (* format.Source on mutated (mostly invalid) variants *)

(* leg (o): the model SCANNER reads the same tokens (kind, text, line bit) and the same comments
   (position, text) off the characters as scanner.go, and reports an error iff scanner.go does --
   for the source and for the formatted text.  An ILLEGAL token ends both streams; its text is a
   rune there and a byte here. *)
Definition stok_eqb (a b : token) : bool :=
  (is KIllegal a && is KIllegal b) || (tok_eqb a b && Bool.eqb (tnl a) (tnl b)).
Definition cmt_eqb (a b : cmt) : bool := Nat.eqb (fst a) (fst b) && String.eqb (snd a) (snd b).
Definition scan_agrees (src : option string) (ok : bool) (toks : list token) (cmts : list cmt) : bool :=
  match src with
  | None => true
  | Some s =>
    let '(ts, cs, sok) := scan s in
    Bool.eqb sok ok && list_eqb stok_eqb ts toks && list_eqb cmt_eqb cs cmts
  end.

(* leg (t): in the sub-language where the text is a function of the description (no comments,
   struct declarations with struct-free members, no tab or line break inside a token: [l0]) the
   formatted TEXT is, character for character, what the text model of the Format methods and of the
   tabwriter writes for the description -- indentation, blanks, alignment columns, blank lines *)
Definition text_agrees (c : case) : bool :=
  match c_ast c, c_fsrc c, c_fout c with
  | Some a, Some f, OOk =>
    if (match c_cmts c with [] => true | _ => false end) && l0 (c_toks c) a then String.eqb (ptext a) f else true
  | _, _, _ => true
  end.

(* leg (i): the model parser, fed the Go scanner's tokens, builds the AST the Go parser built —
   for the source and for the formatted text *)
Definition agrees (c : case) : bool :=
  scan_agrees (c_src c) (c_scan_ok c) (c_toks c) (c_cmts c)
  && match c_fout c with OOk => scan_agrees (c_fsrc c) true (c_ftoks c) (c_fcmts c) | _ => true end
  && (if c_scan_ok c then oapi_eqb (parse (c_toks c)) (c_ast c)
   else match c_ast c with None => true | Some _ => false end)
  (* the AST the Go parser built satisfies the hypothesis of the theorems *)
  && match c_ast c with Some a => wf a | None => true end
  && match c_fout c with
     | OOk => oapi_eqb (parse (c_ftoks c)) (c_fast c)
     | _ => true
     end
  && text_agrees c.

(* comments: "only comment placement may differ".  Always: the formatter invents, duplicates
   and reorders no comment, and every comment survives unless it stood between two tokens printed
   on one line or was attached to a deleted construct (the registered finding C20-comment-dropped,
   pinned by the model's own line structure and deletions).  [c_strict]: every comment survives. *)
Definition cmts_ok (c : case) (a : api) : bool :=
  let src := map norm_cmt (c_cmts c) in
  let out := map norm_cmt (c_fcmts c) in
  subseq out src
  && mark_consistent a
  && subseq (map norm_cmt (placed_cmts (c_toks c) a (c_cmts c) (c_csame c))) out
  && (if c_strict c then list_eqb String.eqb src out else true).

(* the property on the implementation's own output *)
Definition prop_ok (c : case) : bool :=
  match c_ast c with
  | Some a =>
    (* valid source: formatting succeeds, ... *)
    match c_fout c with OOk => true | _ => false end
    (* ... the formatted text consists of exactly the tokens of the same API description: of
       the one the Go parser built, and of the one the model parser reads off the SOURCE tokens
       (so a parser that silently drops or alters something is caught on both sides), laid out
       in lines as the canonical printer lays them out ... *)
    && layout_ok (map fst (c_fcmts c)) (c_ftoks c) (print (norm a))
    && (if c_scan_ok c then
          match parse (c_toks c) with
          | Some am => layout_ok (map fst (c_fcmts c)) (c_ftoks c) (print (norm am))
          | None => true     (* model/Go disagreement: reported through [agrees] *)
          end
        else true)
    (* ... and parses (Go parser) to the same description, up to the deleted empty constructs ... *)
    && oapi_eqb (c_fast c) (Some (norm a))
    (* ... the comments are still there ... *)
    && cmts_ok c a
    (* ... and formatting again changes nothing *)
    && c_idem c
  | None =>
    (* invalid source: an error, not a crash *)
    match c_pout c, c_fout c with OErr, OErr => true | _, _ => false end
  end
  && c_file_ok c
  && c_conc_ok c
  && c_multi_ok c
  && forallb not_crash (c_muts c).

(* diagnosis for replay files: which conjunct of [prop_ok] failed, and the model's own outputs *)
Record diag := Diag
  { d_layout : bool; d_meaning : bool; d_no_invented_cmt : bool; d_placed_cmts_kept : bool;
    d_all_cmts_kept : bool; d_idem : bool; d_file : bool; d_conc : bool; d_muts : bool;
    d_placed : list string }.
Definition diagnose (c : case) : option diag :=
  match c_ast c with
  | Some a =>
    let src := map norm_cmt (c_cmts c) in
    let out := map norm_cmt (c_fcmts c) in
    let placed := map norm_cmt (placed_cmts (c_toks c) a (c_cmts c) (c_csame c)) in
    Some (Diag (layout_ok (map fst (c_fcmts c)) (c_ftoks c) (print (norm a)))
               (oapi_eqb (c_fast c) (Some (norm a)))
               (subseq out src)
               (mark_consistent a && subseq placed out)
               (list_eqb String.eqb src out)
               (c_idem c) (c_file_ok c) (c_conc_ok c) (forallb not_crash (c_muts c)) placed)
  | None => None
  end.
Definition model_text (c : case) : option string :=
  match c_ast c with
  | Some a => if (match c_cmts c with [] => true | _ => false end) && l0 (c_toks c) a then Some (ptext a) else None
  | None => None
  end.
Definition model_obs (c : case) := (diagnose c, parse (c_toks c), fmt (c_toks c), model_text c).
