(* C20 — correspondence / property evaluation on what the Go scanner, parser and formatter
   did with one generated program.  Executable only. *)
From Coq Require Import List String Bool Arith.
From GZ Require Export C20.Model.
Import ListNotations.
Open Scope string_scope.
Open Scope list_scope.

(* ---- decidable equality of abstract syntax (by hand: the types are nested) *)
Definition opt_eqb {A} (e : A -> A -> bool) (a b : option A) : bool :=
  match a, b with Some x, Some y => e x y | None, None => true | _, _ => false end.
Fixpoint list_eqb {A} (e : A -> A -> bool) (a b : list A) : bool :=
  match a, b with
  | [], [] => true
  | x :: a', y :: b' => e x y && list_eqb e a' b'
  | _, _ => false
  end.
Definition alen_eqb (a b : alen) : bool :=
  match a, b with ALInt x, ALInt y => String.eqb x y | ALDots, ALDots => true | _, _ => false end.

Fixpoint dtype_eqb (a b : dtype) {struct a} : bool :=
  match a, b with
  | DBase x, DBase y => String.eqb x y
  | DAny, DAny => true
  | DIface, DIface => true
  | DStruct ea, DStruct eb =>
    (fix go (l1 l2 : list (list string * dtype * option string)) {struct l1} : bool :=
       match l1, l2 with
       | [], [] => true
       | (n1, d1, t1) :: r1, (n2, d2, t2) :: r2 =>
         list_eqb String.eqb n1 n2 && dtype_eqb d1 d2 && opt_eqb String.eqb t1 t2 && go r1 r2
       | _, _ => false
       end) ea eb
  | DArray n1 d1, DArray n2 d2 => alen_eqb n1 n2 && dtype_eqb d1 d2
  | DSlice d1, DSlice d2 => dtype_eqb d1 d2
  | DMap k1 v1, DMap k2 v2 => dtype_eqb k1 k2 && dtype_eqb v1 v2
  | DPtr d1, DPtr d2 => dtype_eqb d1 d2
  | _, _ => false
  end.

Definition lit_eqb (a b : lit) := Bool.eqb (l_raw a) (l_raw b) && String.eqb (l_tx a) (l_tx b).
Definition kv_eqb (a b : kv) := String.eqb (fst a) (fst b) && lit_eqb (snd a) (snd b).
Definition sseg_eqb (a b : string * option string) :=
  String.eqb (fst a) (fst b) && opt_eqb String.eqb (snd a) (snd b).
Definition sval_eqb (a b : sval) : bool :=
  match a, b with
  | SVDur x, SVDur y | SVInt x, SVInt y | SVStr x, SVStr y => String.eqb x y
  | SVList x xs, SVList y ys | SVSubs x xs, SVSubs y ys => String.eqb x y && list_eqb String.eqb xs ys
  | SVPath x s1, SVPath y s2 => opt_eqb String.eqb x y && list_eqb sseg_eqb s1 s2
  | _, _ => false
  end.
Definition skv_eqb (a b : skv) := String.eqb (fst a) (fst b) && sval_eqb (snd a) (snd b).
Definition phead_eqb (a b : phead) :=
  match a, b with PId x, PId y | PInt x, PInt y => String.eqb x y | _, _ => false end.
Definition psep_eqb (a b : psep) :=
  match a, b with SepSub, SepSub | SepNone, SepNone => true | _, _ => false end.
Definition pseg_eqb (a b : pseg) :=
  Bool.eqb (ps_colon a) (ps_colon b) && phead_eqb (ps_head a) (ps_head b) &&
  list_eqb (fun x y : psep * string => psep_eqb (fst x) (fst y) && String.eqb (snd x) (snd y)) (ps_tail a) (ps_tail b).
Definition path_eqb (a b : path) := list_eqb pseg_eqb (p_segs a) (p_segs b) && Bool.eqb (p_trail a) (p_trail b).
Definition bodyx_eqb (a b : bodyx) :=
  Bool.eqb (b_arr a) (b_arr b) && Bool.eqb (b_star a) (b_star b) && String.eqb (b_val a) (b_val b).
Definition obody_eqb := opt_eqb (opt_eqb bodyx_eqb).
Definition route_eqb (a b : route) :=
  String.eqb (r_method a) (r_method b) && path_eqb (r_path a) (r_path b) &&
  obody_eqb (r_req a) (r_req b) && obody_eqb (r_resp a) (r_resp b).
Definition atdoc_eqb (a b : atdoc) :=
  match a, b with
  | DocLit x, DocLit y => String.eqb x y
  | DocGroup x, DocGroup y => list_eqb kv_eqb x y
  | _, _ => false
  end.
Definition item_eqb (a b : item) :=
  opt_eqb atdoc_eqb (i_doc a) (i_doc b) && String.eqb (i_handler a) (i_handler b) && route_eqb (i_route a) (i_route b).
Definition texpr_eqb (a b : texpr) :=
  let '(n1, a1, d1) := a in let '(n2, a2, d2) := b in
  String.eqb n1 n2 && Bool.eqb a1 a2 && dtype_eqb d1 d2.
Definition stmt_eqb (a b : stmt) : bool :=
  match a, b with
  | SSyntax x, SSyntax y | SImport x, SImport y => String.eqb x y
  | SInfo x, SInfo y => list_eqb kv_eqb x y
  | SImports x, SImports y => list_eqb String.eqb x y
  | SType x, SType y => texpr_eqb x y
  | STypes x, STypes y => list_eqb texpr_eqb x y
  | SService s1 n1 a1 i1, SService s2 n2 a2 i2 =>
    opt_eqb (list_eqb skv_eqb) s1 s2 && String.eqb n1 n2 && Bool.eqb a1 a2 && list_eqb item_eqb i1 i2
  | _, _ => false
  end.
Definition api_eqb : api -> api -> bool := list_eqb stmt_eqb.
Definition oapi_eqb := opt_eqb api_eqb.

(* tokens modulo layout: kind and text, not the line-break bit *)
Definition tok_eqb (a b : token) := kind_eqb (tk a) (tk b) && String.eqb (tx a) (tx b).
Definition toks_eqb := list_eqb tok_eqb.

(* ---- the case *)
Inductive outcome := OOk | OErr | OCrash.   (* OCrash: panic or no answer within the timeout *)
Definition not_crash (o : outcome) := match o with OCrash => false | _ => true end.

Record case := mkCase
  { c_scan_ok : bool;            (* the Go scanner tokenised the whole source *)
    c_toks : list token;         (* its non-comment tokens *)
    c_ast : option api;          (* AST built by the Go parser (None: it reported errors) *)
    c_pout : outcome;            (* Parser.Parse outcome *)
    c_fout : outcome;            (* format.Source outcome *)
    c_ftoks : list token;        (* non-comment tokens of the formatted text *)
    c_fast : option api;         (* Go parser's AST of the formatted text *)
    c_idem : bool;               (* format.Source(formatted) = formatted, byte for byte *)
    c_muts : list outcome }.     (* format.Source on mutated (mostly invalid) variants *)

(* leg (i): the model parser, fed the Go scanner's tokens, builds the AST the Go parser built —
   for the source and for the formatted text *)
Definition agrees (c : case) : bool :=
  (if c_scan_ok c then oapi_eqb (parse (c_toks c)) (c_ast c)
   else match c_ast c with None => true | Some _ => false end)
  (* the AST the Go parser built satisfies the hypothesis of the theorems *)
  && match c_ast c with Some a => wf a | None => true end
  && match c_fout c with
     | OOk => oapi_eqb (parse (c_ftoks c)) (c_fast c)
     | _ => true
     end.

(* the property on the implementation's own output *)
Definition prop_ok (c : case) : bool :=
  match c_ast c with
  | Some a =>
    (* valid source: formatting succeeds, ... *)
    match c_fout c with OOk => true | _ => false end
    (* ... the formatted text consists of exactly the tokens of the same API description: of
       the one the Go parser built, and of the one the model parser reads off the SOURCE tokens
       (so a parser that silently drops or alters something is caught on both sides) ... *)
    && toks_eqb (c_ftoks c) (print (norm a))
    && (if c_scan_ok c then
          match parse (c_toks c) with
          | Some am => toks_eqb (c_ftoks c) (print (norm am))
          | None => true     (* model/Go disagreement: reported through [agrees] *)
          end
        else true)
    (* ... and parses (Go parser) to the same description, up to the deleted empty constructs ... *)
    && oapi_eqb (c_fast c) (Some (norm a))
    (* ... and formatting again changes nothing *)
    && c_idem c
  | None =>
    (* invalid source: an error, not a crash *)
    match c_pout c, c_fout c with OErr, OErr => true | _, _ => false end
  end
  && forallb not_crash (c_muts c).

Definition model_obs (c : case) := (parse (c_toks c), fmt (c_toks c)).
