(* C16 - why the kind "stress" may be judged as a sequential history: goroutines that use
   DISJOINT keys of one map cannot influence each other's answers.  For the reference map
   (Model.map_step) and every interleaving - a list of operations tagged with the goroutine
   that issued them, in the order in which they took effect: what the operations of one
   goroutine return is what they return when that goroutine runs alone, from the same state.
   (Each call of the real object is one critical section - that is what the race detector and
   the forced schedules check - so an execution IS such an interleaving.) *)
From Coq Require Import List ZArith Bool Lia.
From GZ Require Import C16.Model C16.ProofsCache.
Import ListNotations. Open Scope Z_scope.

(* keyed operations only: Size / Range look at the whole map and are run after the goroutines *)
Definition mkey (o : smop) : option Z :=
  match o with MSet k _ => Some k | MGet k => Some k | MDel k => Some k | _ => None end.

(* run a tagged interleaving; keep the tags with the observations *)
Fixpoint map_run_tagged {T : Type} (m : amap) (ops : list (T * smop)) : list (T * obs) :=
  match ops with
  | [] => []
  | (t, o) :: ops' => let (m', r) := map_step m o in (t, r) :: map_run_tagged m' ops'
  end.

Section OneThread.
  Variable T : Type.
  Variable mine : T -> bool.          (* the goroutine under consideration *)

  Definition own (ops : list (T * smop)) : list smop := map snd (filter (fun p => mine (fst p)) ops).
  Definition own_obs (rs : list (T * obs)) : list obs := map snd (filter (fun p => mine (fst p)) rs).

  (* keys used by the goroutine / by the others *)
  Definition uses (b : bool) (k : Z) (ops : list (T * smop)) : Prop :=
    exists p, In p ops /\ mine (fst p) = b /\ mkey (snd p) = Some k.

  Lemma independent_gen : forall ops m m',
    (forall p, In p ops -> mkey (snd p) <> None) ->
    (forall k, uses true k ops -> ~ uses false k ops) ->
    (forall k, uses true k ops -> alookup k m = alookup k m') ->
    own_obs (map_run_tagged m ops) = map_run m' (own ops).
  Proof.
    induction ops as [|[t o] ops IH]; intros m m' Hk Hd Ha; [reflexivity|].
    unfold own, own_obs in *. cbn [map_run_tagged].
    destruct (map_step m o) as [m1 r] eqn:Hs. cbn [filter fst].
    assert (Hk' : forall p, In p ops -> mkey (snd p) <> None) by (intros p Hp; apply Hk; right; exact Hp).
    assert (Hd' : forall k, uses true k ops -> ~ uses false k ops).
    { intros k [p [Hp [Hm Hkk]]] [q [Hq [Hmq Hkq]]].
      apply (Hd k); [exists p|exists q]; (split; [right; assumption|split; assumption]). }
    destruct (mine t) eqn:Hmine.
    - (* an operation of this goroutine: both states change alike at its key *)
      cbn [map snd map_run].
      assert (Huse : forall k, mkey o = Some k -> alookup k m = alookup k m').
      { intros k Hko. apply Ha. exists (t, o). split; [left; reflexivity|split; assumption]. }
      destruct o as [k v|k|k| |]; cbn [map_step] in Hs |- *; inversion Hs; subst m1 r; clear Hs.
      + f_equal. apply IH; [exact Hk'|exact Hd'|].
        intros k0 Hu. rewrite !alookup_aset. destruct (k =? k0); [reflexivity|].
        apply Ha. destruct Hu as [p [Hp Hr]]. exists p. split; [right; exact Hp|exact Hr].
      + rewrite (Huse k eq_refl). f_equal. apply IH; [exact Hk'|exact Hd'|].
        intros k0 [p [Hp Hr]]. apply Ha. exists p. split; [right; exact Hp|exact Hr].
      + f_equal. apply IH; [exact Hk'|exact Hd'|].
        intros k0 Hu. rewrite !alookup_aremove. destruct (k =? k0); [reflexivity|].
        apply Ha. destruct Hu as [p [Hp Hr]]. exists p. split; [right; exact Hp|exact Hr].
      + exfalso. apply (Hk (t, MSize)); [left; reflexivity|reflexivity].
      + exfalso. apply (Hk (t, MRange)); [left; reflexivity|reflexivity].
    - (* an operation of another goroutine: it does not touch the keys this one uses *)
      apply IH; [exact Hk'|exact Hd'|].
      intros k0 Hu.
      assert (Hu0 : uses true k0 ((t, o) :: ops)).
      { destruct Hu as [p [Hp Hr]]. exists p. split; [right; exact Hp|exact Hr]. }
      rewrite <- (Ha k0 Hu0).
      assert (Hne : mkey o <> Some k0).
      { intro Heq. apply (Hd k0 Hu0). exists (t, o). split; [left; reflexivity|split; assumption]. }
      destruct o as [k v|k|k| |]; cbn [map_step] in Hs; inversion Hs; subst m1 r; cbn [mkey] in Hne.
      + rewrite alookup_aset. destruct (k =? k0) eqn:E; [apply Z.eqb_eq in E; subst; congruence|reflexivity].
      + reflexivity.
      + rewrite alookup_aremove. destruct (k =? k0) eqn:E; [apply Z.eqb_eq in E; subst; congruence|reflexivity].
      + reflexivity.
      + reflexivity.
  Qed.

  (* what a goroutine's operations return inside any interleaving with goroutines on other keys
     = what they return when it runs alone from the same state *)
  Theorem disjoint_keys_independent_proof : forall ops m,
    (forall p, In p ops -> mkey (snd p) <> None) ->
    (forall k, uses true k ops -> ~ uses false k ops) ->
    own_obs (map_run_tagged m ops) = map_run m (own ops).
  Proof. intros ops m Hk Hd. apply independent_gen; [exact Hk|exact Hd|reflexivity]. Qed.
End OneThread.
