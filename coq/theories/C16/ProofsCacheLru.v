(* C16 - the cache model (data map + keyLru recency list) evicts in
   least-recently-used order: it is observationally equal, including the evicted
   keys of every operation, to the reference cache `scache` that stamps entries
   with a logical clock and evicts the smallest stamp. *)
From Coq Require Import List ZArith Bool Lia Permutation.
From GZ Require Import C16.Model C16.ProofsCache.
Import ListNotations. Open Scope Z_scope.

Definition sent := (Z * (Z * Z))%type.

Definition proj (e : sent) : Z * Z := (fst e, fst (snd e)).

Definition stamp (E : list sent) (k : Z) : Z :=
  match s_lookup k E with Some (_, t) => t | None => 0 end.

(* strictly descending *)
Fixpoint desc (l : list Z) : Prop :=
  match l with
  | [] => True
  | x :: r => (forall y, In y r -> y < x) /\ desc r
  end.

Definition upd (k v clk : Z) (e : sent) : sent :=
  if fst e =? k then (k, (v, clk)) else e.

(* ------------------------------------------------------------------ *)
(* entry lists                                                         *)

Lemma keys_proj : forall E, map fst (map proj E) = map fst E.
Proof. intros E. rewrite map_map. apply map_ext. intros e. reflexivity. Qed.

Lemma alookup_proj : forall k E, alookup k (map proj E) = option_map fst (s_lookup k E).
Proof.
  intros k E. induction E as [|[a [w u]] E IHE]; simpl; [reflexivity|].
  destruct (a =? k); [reflexivity|exact IHE].
Qed.

Lemma proj_remove : forall k E, map proj (s_remove k E) = aremove k (map proj E).
Proof.
  intros k E. induction E as [|[a [w u]] E IHE]; simpl; [reflexivity|].
  destruct (a =? k); simpl; rewrite IHE; reflexivity.
Qed.

Lemma keys_s_remove : forall k E, map fst (s_remove k E) = sremove k (map fst E).
Proof.
  intros k E. induction E as [|[a e] E IHE]; simpl; [reflexivity|].
  destruct (a =? k); simpl; rewrite IHE; reflexivity.
Qed.

Lemma s_lookup_remove : forall x k E,
  s_lookup x (s_remove k E) = if k =? x then None else s_lookup x E.
Proof.
  intros x k E. induction E as [|[a e] E IHE]; simpl.
  - destruct (k =? x); reflexivity.
  - destruct (a =? k) eqn:Hak; simpl.
    + rewrite IHE. destruct (k =? x) eqn:Hk; [reflexivity|].
      apply Z.eqb_eq in Hak. subst a. rewrite Hk. reflexivity.
    + rewrite IHE. destruct (a =? x) eqn:Ha; [|reflexivity].
      apply Z.eqb_eq in Ha. subst a. rewrite Z.eqb_sym in Hak. rewrite Hak. reflexivity.
Qed.

Lemma s_lookup_In : forall k E e, s_lookup k E = Some e -> In (k, e) E.
Proof.
  intros k E. induction E as [|[a e'] E IHE]; simpl; intros e He; [discriminate|].
  destruct (a =? k) eqn:Hak.
  - apply Z.eqb_eq in Hak. subst a. inversion He; subst. left. reflexivity.
  - right. apply IHE. exact He.
Qed.

Lemma In_s_lookup : forall E k e, NoDup (map fst E) -> In (k, e) E -> s_lookup k E = Some e.
Proof.
  intros E k e. induction E as [|[a e'] E IHE]; simpl; intros Hnd Hin; [contradiction|].
  inversion Hnd as [|a' l' Hna Hnd']; subst.
  destruct Hin as [Hin|Hin].
  - inversion Hin; subst. rewrite Z.eqb_refl. reflexivity.
  - destruct (a =? k) eqn:Hak.
    + apply Z.eqb_eq in Hak. subst a. exfalso. apply Hna.
      apply in_map_iff. exists (k, e). split; [reflexivity|exact Hin].
    + apply IHE; assumption.
Qed.

Lemma keys_lookup : forall k E, In k (map fst E) -> exists e, s_lookup k E = Some e.
Proof.
  intros k E. induction E as [|[a e'] E IHE]; simpl; intros Hin; [contradiction|].
  destruct (a =? k) eqn:Hak; [exists e'; reflexivity|].
  destruct Hin as [Hin|Hin]; [apply Z.eqb_neq in Hak; contradiction|].
  apply IHE. exact Hin.
Qed.

Lemma lookup_keys : forall k E e, s_lookup k E = Some e -> In k (map fst E).
Proof.
  intros k E e He. apply s_lookup_In in He. apply in_map_iff.
  exists (k, e). split; [reflexivity|exact He].
Qed.

Lemma s_remove_notin : forall k E, ~ In k (map fst E) -> s_remove k E = E.
Proof.
  intros k E. induction E as [|[a e] E IHE]; simpl; intros Hn; [reflexivity|].
  destruct (a =? k) eqn:Hak.
  - apply Z.eqb_eq in Hak. subst a. exfalso. apply Hn. left. reflexivity.
  - simpl. rewrite IHE; [reflexivity|]. intros Hin. apply Hn. right. exact Hin.
Qed.

Lemma s_lookup_upd_same : forall k v clk E,
  s_lookup k (map (upd k v clk) E) =
  match s_lookup k E with Some _ => Some (v, clk) | None => None end.
Proof.
  intros k v clk E. induction E as [|[a e] E IHE]; simpl; [reflexivity|].
  unfold upd at 1. simpl fst. destruct (Z.eqb_spec a k) as [Hak|Hak]; simpl.
  - rewrite Z.eqb_refl. reflexivity.
  - apply Z.eqb_neq in Hak. rewrite Hak. exact IHE.
Qed.

Lemma s_lookup_upd_other : forall x k v clk E, x <> k ->
  s_lookup x (map (upd k v clk) E) = s_lookup x E.
Proof.
  intros x k v clk E Hne. induction E as [|[a e] E IHE]; simpl; [reflexivity|].
  unfold upd at 1. simpl fst. destruct (Z.eqb_spec a k) as [Hak|Hak]; simpl.
  - subst a. assert (Hkx : (k =? x) = false) by (apply Z.eqb_neq; congruence).
    rewrite Hkx. exact IHE.
  - destruct (a =? x); [reflexivity|exact IHE].
Qed.

Lemma keys_upd : forall k v clk E, map fst (map (upd k v clk) E) = map fst E.
Proof.
  intros k v clk E. rewrite map_map. apply map_ext. intros e. unfold upd.
  destruct (Z.eqb_spec (fst e) k) as [He|He]; simpl; congruence.
Qed.

Lemma proj_upd : forall k v t clk E, NoDup (map fst E) -> s_lookup k E = Some (v, t) ->
  map proj (map (upd k v clk) E) = map proj E.
Proof.
  intros k v t clk E Hnd Hs. rewrite map_map. apply map_ext_in.
  intros [a [w u]] Hin. unfold upd, proj. simpl.
  destruct (Z.eqb_spec a k) as [Hak|Hak]; [|reflexivity]. subst a. simpl.
  pose proof (In_s_lookup E k (w, u) Hnd Hin) as Hs'. rewrite Hs in Hs'.
  inversion Hs'; subst. reflexivity.
Qed.

(* ------------------------------------------------------------------ *)
(* stamps                                                              *)

Lemma stamp_remove : forall x k E, x <> k -> stamp (s_remove k E) x = stamp E x.
Proof.
  intros x k E Hne. unfold stamp. rewrite s_lookup_remove.
  assert (Hkx : (k =? x) = false) by (apply Z.eqb_neq; congruence).
  rewrite Hkx. reflexivity.
Qed.

Lemma stamp_cons_same : forall k v t E, stamp ((k, (v, t)) :: E) k = t.
Proof. intros k v t E. unfold stamp. simpl. rewrite Z.eqb_refl. reflexivity. Qed.

Lemma stamp_cons_other : forall x k e E, x <> k -> stamp ((k, e) :: E) x = stamp E x.
Proof.
  intros x k e E Hne. unfold stamp. simpl.
  assert (Hkx : (k =? x) = false) by (apply Z.eqb_neq; congruence).
  rewrite Hkx. reflexivity.
Qed.

Lemma stamp_upd_same : forall k v clk E e, s_lookup k E = Some e ->
  stamp (map (upd k v clk) E) k = clk.
Proof.
  intros k v clk E e He. unfold stamp. rewrite s_lookup_upd_same, He. reflexivity.
Qed.

Lemma stamp_upd_other : forall x k v clk E, x <> k ->
  stamp (map (upd k v clk) E) x = stamp E x.
Proof.
  intros x k v clk E Hne. unfold stamp. rewrite s_lookup_upd_other by exact Hne. reflexivity.
Qed.

Lemma stamp_bound : forall E clk x,
  (forall k v t, In (k, (v, t)) E -> t < clk) -> In x (map fst E) -> stamp E x < clk.
Proof.
  intros E clk x Hb Hin. destruct (keys_lookup x E Hin) as ([v t] & Hs).
  unfold stamp. rewrite Hs. apply (Hb x v t). apply s_lookup_In. exact Hs.
Qed.

(* ------------------------------------------------------------------ *)
(* descending lists                                                    *)

Lemma desc_filter_map : forall (f : Z -> Z) (p : Z -> bool) L,
  desc (map f L) -> desc (map f (filter p L)).
Proof.
  intros f p L. induction L as [|a L IHL]; simpl; intros Hd; [exact I|].
  destruct Hd as [Hlt Hd]. destruct (p a); simpl.
  - split; [|apply IHL; exact Hd].
    intros y Hy. apply in_map_iff in Hy. destruct Hy as (x & Hfx & Hx).
    apply filter_In in Hx. apply Hlt. subst y. apply in_map. tauto.
  - apply IHL. exact Hd.
Qed.

Lemma desc_app_last : forall (f : Z -> Z) L' z x,
  desc (map f (L' ++ [z])) -> In x L' -> f z < f x.
Proof.
  intros f L' z x. induction L' as [|a L' IHL]; simpl; intros Hd Hin; [contradiction|].
  destruct Hd as [Hlt Hd]. destruct Hin as [Hin|Hin].
  - subst a. apply Hlt. apply in_map. apply in_or_app. right. left. reflexivity.
  - apply IHL; assumption.
Qed.

Lemma desc_app_l : forall l1 l2, desc (l1 ++ l2) -> desc l1.
Proof.
  intros l1 l2. induction l1 as [|a l1 IHl]; simpl; intros Hd; [exact I|].
  destruct Hd as [Hlt Hd]. split; [|apply IHl; exact Hd].
  intros y Hy. apply Hlt. apply in_or_app. left. exact Hy.
Qed.

(* moving k to the front when k receives the largest stamp *)
Lemma desc_touch : forall (f g : Z -> Z) L k clk,
  (forall x, x <> k -> g x = f x) -> g k = clk ->
  (forall x, In x L -> f x < clk) ->
  desc (map f L) -> desc (map g (k :: sremove k L)).
Proof.
  intros f g L k clk Hother Hk Hb Hd. simpl.
  assert (Hext : map g (sremove k L) = map f (sremove k L)).
  { apply map_ext_in. intros x Hx. apply In_sremove in Hx. apply Hother. tauto. }
  rewrite Hext. split.
  - intros y Hy. apply in_map_iff in Hy. destruct Hy as (x & Hfx & Hx).
    apply In_sremove in Hx. subst y. rewrite Hk. apply Hb. tauto.
  - unfold sremove. apply desc_filter_map. exact Hd.
Qed.

(* ------------------------------------------------------------------ *)
(* s_oldest                                                            *)

Lemma s_oldest_none : forall E, s_oldest E = None -> E = [].
Proof.
  intros E. destruct E as [|[a [w u]] E]; simpl; [reflexivity|].
  destruct (s_oldest E) as [[k' t']|]; [destruct (t' <? u)|]; discriminate.
Qed.

Lemma s_oldest_some : forall E, E <> [] -> exists k t, s_oldest E = Some (k, t).
Proof.
  intros E HE. destruct (s_oldest E) as [[k t]|] eqn:Ho.
  - exists k, t. reflexivity.
  - apply s_oldest_none in Ho. contradiction.
Qed.

Lemma s_oldest_spec : forall E k t, s_oldest E = Some (k, t) ->
  (exists v, In (k, (v, t)) E) /\ (forall k' v' t', In (k', (v', t')) E -> t <= t').
Proof.
  intros E. induction E as [|[a [w u]] E IHE]; simpl; intros k t Ho; [discriminate|].
  destruct (s_oldest E) as [[k' t']|] eqn:Ho'.
  - destruct (IHE k' t' eq_refl) as [[v' Hin'] Hmin].
    destruct (t' <? u) eqn:Hlt; inversion Ho; subst.
    + apply Z.ltb_lt in Hlt. split; [exists v'; right; exact Hin'|].
      intros k2 v2 t2 [Heq|Hin].
      * inversion Heq; subst. lia.
      * apply (Hmin k2 v2 t2 Hin).
    + apply Z.ltb_ge in Hlt. split; [exists w; left; reflexivity|].
      intros k2 v2 t2 [Heq|Hin].
      * inversion Heq; subst. lia.
      * pose proof (Hmin k2 v2 t2 Hin) as Hle. lia.
  - apply s_oldest_none in Ho'. subst E. inversion Ho; subst.
    split; [exists w; left; reflexivity|].
    intros k2 v2 t2 [Heq|Hin]; [|contradiction].
    inversion Heq; subst. lia.
Qed.

(* the entry with the smallest stamp is the last element of the recency list *)
Lemma oldest_last : forall E L L' old,
  NoDup (map fst E) -> (forall x, In x L <-> In x (map fst E)) ->
  desc (map (stamp E) L) -> L = L' ++ [old] ->
  exists t, s_oldest E = Some (old, t).
Proof.
  intros E L L' old Hnd Heq Hdesc HL.
  assert (Hold : In old (map fst E)).
  { apply Heq. rewrite HL. apply in_or_app. right. left. reflexivity. }
  destruct (keys_lookup old E Hold) as ([vo to] & Hlo).
  assert (HE : E <> []).
  { intros HE. subst E. simpl in Hold. exact Hold. }
  destruct (s_oldest_some E HE) as (k & t & Ho).
  destruct (s_oldest_spec E k t Ho) as [[v Hin] Hmin].
  assert (Hk : In k L).
  { apply Heq. apply in_map_iff. exists (k, (v, t)). split; [reflexivity|exact Hin]. }
  assert (Hsk : stamp E k = t).
  { unfold stamp. rewrite (In_s_lookup E k (v, t) Hnd Hin). reflexivity. }
  assert (Hso : stamp E old = to).
  { unfold stamp. rewrite Hlo. reflexivity. }
  pose proof (Hmin old vo to (s_lookup_In old E (vo, to) Hlo)) as Hle.
  destruct (Z.eq_dec k old) as [Hko|Hne]; [subst k; exists t; exact Ho|].
  exfalso. rewrite HL in Hk, Hdesc. apply in_app_or in Hk.
  destruct Hk as [Hk|[Hk|[]]]; [|congruence].
  pose proof (desc_app_last (stamp E) L' old k Hdesc Hk) as Hlt. lia.
Qed.

(* ------------------------------------------------------------------ *)
(* closed forms of the reference operations                            *)

Definition s_present (s : scache) (k : Z) : bool :=
  match s_lookup k (sents s) with Some _ => true | None => false end.

Definition s_ins (s : scache) (k v : Z) : list sent :=
  (k, (v, sclock s)) :: s_remove k (sents s).

Definition s_cond (s : scache) (k v : Z) : bool :=
  negb (s_present s k) && (0 <? slimit s) && (slimit s <? Z.of_nat (length (s_ins s k v))).

Lemma s_put_eq : forall s k v,
  s_put s k v =
  if s_cond s k v then
    match s_oldest (s_ins s k v) with
    | Some (old, _) => (mkSC (slimit s) (sclock s + 1) (s_remove old (s_ins s k v)), [old])
    | None => (mkSC (slimit s) (sclock s + 1) (s_ins s k v), [])
    end
  else (mkSC (slimit s) (sclock s + 1) (s_ins s k v), []).
Proof. intros s k v. reflexivity. Qed.

Lemma s_put_plain : forall s k v, s_cond s k v = false ->
  s_put s k v = (mkSC (slimit s) (sclock s + 1) (s_ins s k v), []).
Proof. intros s k v Hc. rewrite s_put_eq, Hc. reflexivity. Qed.

Lemma s_put_evict : forall s k v old t, s_cond s k v = true ->
  s_oldest (s_ins s k v) = Some (old, t) ->
  s_put s k v = (mkSC (slimit s) (sclock s + 1) (s_remove old (s_ins s k v)), [old]).
Proof. intros s k v old t Hc Ho. rewrite s_put_eq, Hc, Ho. reflexivity. Qed.

Lemma s_get_hit : forall s k v t, s_lookup k (sents s) = Some (v, t) ->
  s_get s k = (mkSC (slimit s) (sclock s + 1) (map (upd k v (sclock s)) (sents s)), Some v).
Proof. intros s k v t Hs. unfold s_get. rewrite Hs. reflexivity. Qed.

Lemma s_get_miss : forall s k, s_lookup k (sents s) = None -> s_get s k = (s, None).
Proof. intros s k Hs. unfold s_get. rewrite Hs. reflexivity. Qed.

(* ------------------------------------------------------------------ *)
(* simulation relation                                                 *)

Definition R (c : cache) (s : scache) : Prop :=
  slimit s = climit c /\
  cdata c = map proj (sents s) /\
  Inv c /\
  (forall k v t, In (k, (v, t)) (sents s) -> t < sclock s) /\
  (0 < climit c -> desc (map (stamp (sents s)) (clru c))).

Lemma R_new : forall limit, R (c_new limit) (s_new limit).
Proof.
  intros limit. unfold R; simpl. split; [reflexivity|]. split; [reflexivity|].
  split; [apply Inv_new|]. split; [intros k v t []|intros _; exact I].
Qed.

Lemma R_keys_nodup : forall c s, R c s -> NoDup (map fst (sents s)).
Proof.
  intros c s (_ & Hdata & (Hkeys & _) & _). rewrite Hdata, keys_proj in Hkeys. exact Hkeys.
Qed.

Lemma R_lru_keys : forall c s, R c s -> 0 < climit c ->
  forall x, In x (clru c) <-> In x (map fst (sents s)).
Proof.
  intros c s (_ & Hdata & (_ & Hpos & _) & _) Hl x.
  destruct (Hpos Hl) as (_ & Heq & _). rewrite Heq, Hdata, keys_proj. tauto.
Qed.

Lemma sim_del : forall c s k, R c s -> R (c_del c k) (s_del s k).
Proof.
  intros c s k HR. pose proof HR as (Hlim & Hdata & HI & Hb & Hd).
  unfold R, s_del; simpl. rewrite climit_del, c_del_data, (c_del_lru c k HI).
  split; [exact Hlim|]. split; [rewrite proj_remove, Hdata; reflexivity|].
  split; [apply Inv_del; exact HI|]. split.
  - intros k' v' t' Hin. apply filter_In in Hin. apply (Hb k' v' t'). tauto.
  - intros Hl.
    assert (Hext : map (stamp (s_remove k (sents s))) (sremove k (clru c)) =
                   map (stamp (sents s)) (sremove k (clru c))).
    { apply map_ext_in. intros x Hx. apply In_sremove in Hx. apply stamp_remove. tauto. }
    rewrite Hext. unfold sremove. apply desc_filter_map. apply Hd. exact Hl.
Qed.

Lemma sim_get : forall c s k, R c s ->
  exists s', s_get s k = (s', snd (c_doget c k)) /\ R (fst (c_doget c k)) s'.
Proof.
  intros c s k HR. pose proof HR as (Hlim & Hdata & HI & Hb & Hd).
  pose proof (R_keys_nodup c s HR) as Hnd.
  destruct (s_lookup k (sents s)) as [[v t]|] eqn:Hs.
  - assert (Hv : alookup k (cdata c) = Some v).
    { rewrite Hdata, alookup_proj, Hs. reflexivity. }
    rewrite (c_doget_hit c k v Hv), (s_get_hit s k v t Hs). simpl fst. simpl snd.
    eexists. split; [reflexivity|].
    destruct (lru_add_hit_data c k v HI Hv) as [Hd' _].
    unfold R; simpl. rewrite climit_lru_add, Hd'.
    split; [exact Hlim|].
    split; [rewrite (proj_upd k v t (sclock s) (sents s) Hnd Hs); exact Hdata|].
    split; [pose proof (Inv_doget c k HI) as HI'; rewrite (c_doget_hit c k v Hv) in HI'; exact HI'|].
    split.
    + intros k' v' t' Hin. apply in_map_iff in Hin. destruct Hin as ([a [w u]] & Hu & Hin).
      unfold upd in Hu. simpl in Hu. destruct (a =? k).
      * inversion Hu; subst. lia.
      * inversion Hu; subst. pose proof (Hb k' v' t' Hin) as Hlt. lia.
    + intros Hl. pose proof (R_lru_keys c s HR Hl) as Heq.
      assert (Hin : In k (clru c)).
      { apply Heq. eapply lookup_keys. exact Hs. }
      rewrite (c_lru_add_present c k Hl Hin). simpl clru.
      apply desc_touch with (f := stamp (sents s)) (clk := sclock s).
      * intros x Hne. apply stamp_upd_other. exact Hne.
      * eapply stamp_upd_same. exact Hs.
      * intros x Hx. apply stamp_bound; [exact Hb|]. apply Heq. exact Hx.
      * apply Hd. exact Hl.
  - assert (Hv : alookup k (cdata c) = None).
    { rewrite Hdata, alookup_proj, Hs. reflexivity. }
    rewrite (c_doget_miss c k Hv), (s_get_miss s k Hs). simpl.
    exists s. split; [reflexivity|exact HR].
Qed.

Lemma In_s_ins_bound : forall s k v,
  (forall k' v' t', In (k', (v', t')) (sents s) -> t' < sclock s) ->
  forall k' v' t', In (k', (v', t')) (s_ins s k v) -> t' < sclock s + 1.
Proof.
  intros s k v Hb k' v' t' [Heq|Hin].
  - inversion Heq; subst. lia.
  - apply filter_In in Hin. pose proof (Hb k' v' t' (proj1 Hin)) as Hlt. lia.
Qed.

Lemma desc_touch_ins : forall c s k v, R c s -> 0 < climit c ->
  desc (map (stamp (s_ins s k v)) (k :: sremove k (clru c))).
Proof.
  intros c s k v HR Hl. pose proof HR as (Hlim & Hdata & HI & Hb & Hd).
  pose proof (R_lru_keys c s HR Hl) as Heq.
  apply desc_touch with (f := stamp (sents s)) (clk := sclock s).
  - intros x Hne. unfold s_ins. rewrite stamp_cons_other by exact Hne.
    apply stamp_remove. exact Hne.
  - unfold s_ins. apply stamp_cons_same.
  - intros x Hx. apply stamp_bound; [exact Hb|]. apply Heq. exact Hx.
  - apply Hd. exact Hl.
Qed.

Lemma sim_put : forall c s k v, R c s ->
  exists s', s_put s k v = (s', snd (c_set c k v)) /\ R (fst (c_set c k v)) s'.
Proof.
  intros c s k v HR. pose proof HR as (Hlim & Hdata & HI & Hb & Hd).
  pose proof (R_keys_nodup c s HR) as Hnd.
  pose proof (Inv_set c k v HI) as HI'.
  pose proof (In_s_ins_bound s k v Hb) as Hb'.
  assert (Hdata' : aset k v (cdata c) = map proj (s_ins s k v)).
  { unfold aset, s_ins. simpl. rewrite proj_remove, Hdata. reflexivity. }
  unfold c_set in *.
  set (c0 := mkC (climit c) (aset k v (cdata c)) (clru c)) in *.
  assert (Hlim0 : climit c0 = climit c) by reflexivity.
  destruct (Z_le_gt_dec (climit c) 0) as [Hl|Hl].
  - (* no LRU at all *)
    assert (Hc : s_cond s k v = false).
    { unfold s_cond. assert (Hf : (0 <? slimit s) = false) by (apply Z.ltb_ge; lia).
      rewrite Hf, andb_false_r. reflexivity. }
    rewrite (s_put_plain s k v Hc).
    rewrite (c_lru_add_nolimit c0 k) in * by (rewrite Hlim0; exact Hl). simpl fst in *. simpl snd.
    eexists. split; [reflexivity|]. unfold R; cbn [slimit sclock sents climit cdata clru].
    split; [exact Hlim|]. split; [exact Hdata'|]. split; [exact HI'|].
    split; [exact Hb'|]. intros Hp. lia.
  - assert (Hl' : 0 < climit c) by lia.
    pose proof (R_lru_keys c s HR Hl') as Heq.
    pose proof (desc_touch_ins c s k v HR Hl') as Hdt.
    destruct (in_dec Z.eq_dec k (clru c)) as [Hin|Hnin].
    + (* k already present: move to front *)
      assert (Hc : s_cond s k v = false).
      { unfold s_cond, s_present. apply Heq in Hin.
        destruct (keys_lookup k (sents s) Hin) as (e & He). rewrite He. reflexivity. }
      rewrite (s_put_plain s k v Hc).
      rewrite (c_lru_add_present c0 k) in * by assumption. simpl fst in *. simpl snd.
      eexists. split; [reflexivity|]. unfold R; cbn [slimit sclock sents climit cdata clru].
      split; [exact Hlim|]. split; [exact Hdata'|]. split; [exact HI'|].
      split; [exact Hb'|]. intros _. exact Hdt.
    + (* k is new *)
      assert (Hnk : ~ In k (map fst (sents s))).
      { intros Hk. apply Hnin. apply Heq. exact Hk. }
      assert (Hp : s_present s k = false).
      { unfold s_present. destruct (s_lookup k (sents s)) as [e|] eqn:He; [|reflexivity].
        exfalso. apply Hnk. eapply lookup_keys. exact He. }
      assert (Hlen : length (s_ins s k v) = S (length (clru c))).
      { unfold s_ins. simpl. rewrite (s_remove_notin k (sents s) Hnk).
        rewrite (Inv_lengths c HI Hl'), Hdata, map_length. reflexivity. }
      rewrite (sremove_notin k (clru c) Hnin) in Hdt.
      destruct (Z_lt_le_dec (climit c) (Z.of_nat (S (length (clru c))))) as [Hfull|Hfit].
      * (* full: both evict the last element of the recency list *)
        destruct (exists_last (l := k :: clru c)) as (l' & old & HL); [discriminate|].
        assert (Hc : s_cond s k v = true).
        { unfold s_cond. rewrite Hp, Hlen, Hlim. simpl negb.
          assert (H1 : (0 <? climit c) = true) by (apply Z.ltb_lt; exact Hl').
          assert (H2 : (climit c <? Z.of_nat (S (length (clru c)))) = true)
            by (apply Z.ltb_lt; exact Hfull).
          rewrite H1, H2. reflexivity. }
        assert (Hnd1 : NoDup (map fst (s_ins s k v))).
        { rewrite <- keys_proj, <- Hdata'. apply NoDup_keys_aset. exact (proj1 HI). }
        assert (Heq1 : forall x, In x (k :: clru c) <-> In x (map fst (s_ins s k v))).
        { intros x. rewrite <- keys_proj, <- Hdata', In_keys_aset. simpl.
          destruct HI as (_ & Hpos & _). destruct (Hpos Hl') as (_ & Hlk & _).
          rewrite Hlk. split; intros [H|H]; auto. }
        destruct (oldest_last (s_ins s k v) (k :: clru c) l' old Hnd1 Heq1 Hdt HL) as (t & Ho).
        rewrite (s_put_evict s k v old t Hc Ho).
        rewrite (c_lru_add_absent_full c0 k l' old) in * by assumption.
        simpl fst in *. simpl snd.
        eexists. split; [reflexivity|]. unfold R; cbn [slimit sclock sents climit cdata clru].
        split; [exact Hlim|].
        split; [rewrite proj_remove, <- Hdata'; reflexivity|].
        split; [exact HI'|]. split.
        -- intros k' v' t' Hin'. apply filter_In in Hin'. apply (Hb' k' v' t'). tauto.
        -- intros _.
           assert (HndL : NoDup (l' ++ [old])).
           { rewrite <- HL. constructor; [exact Hnin|].
             destruct HI as (_ & Hpos & _). destruct (Hpos Hl') as (HndL & _). exact HndL. }
           destruct (NoDup_remove _ _ _ HndL) as [_ Hold]. rewrite app_nil_r in Hold.
           assert (Hext : map (stamp (s_remove old (s_ins s k v))) l' =
                          map (stamp (s_ins s k v)) l').
           { apply map_ext_in. intros x Hx. apply stamp_remove. intros He. subst x. contradiction. }
           rewrite Hext. rewrite HL, map_app in Hdt. apply desc_app_l in Hdt. exact Hdt.
      * (* fits *)
        assert (Hc : s_cond s k v = false).
        { unfold s_cond. rewrite Hlen, Hlim.
          assert (H2 : (climit c <? Z.of_nat (S (length (clru c)))) = false)
            by (apply Z.ltb_ge; exact Hfit).
          rewrite H2, andb_false_r. reflexivity. }
        rewrite (s_put_plain s k v Hc).
        rewrite (c_lru_add_absent_fit c0 k) in * by assumption. simpl fst in *. simpl snd.
        eexists. split; [reflexivity|]. unfold R; cbn [slimit sclock sents climit cdata clru].
        split; [exact Hlim|]. split; [exact Hdata'|]. split; [exact HI'|].
        split; [exact Hb'|]. intros _. exact Hdt.
Qed.

Lemma sim_step : forall c s o, R c s ->
  exists s', s_step s o = (s', snd (fst (c_step c o)), snd (c_step c o)) /\
             R (fst (fst (c_step c o))) s'.
Proof.
  intros c s o HR. destruct o as [k v|k|k|k f|k].
  - rewrite c_step_set. simpl.
    destruct (sim_put c s k v HR) as (s' & Hs & HR'). rewrite Hs.
    exists s'. split; [reflexivity|exact HR'].
  - rewrite c_step_get. simpl.
    destruct (sim_get c s k HR) as (s' & Hs & HR'). rewrite Hs.
    exists s'. split; [|exact HR'].
    unfold c_doget. destruct (alookup k (cdata c)); reflexivity.
  - simpl. exists (s_del s k). split; [reflexivity|apply sim_del; exact HR].
  - destruct (sim_get c s k HR) as (s' & Hs & HR'). simpl s_step. rewrite Hs.
    destruct (alookup k (cdata c)) as [v|] eqn:Hv.
    + rewrite (c_step_take_hit c k f v Hv). rewrite (c_doget_hit c k v Hv) in *.
      simpl in *. exists s'. split; [reflexivity|exact HR'].
    + rewrite (c_doget_miss c k Hv) in *. cbn [fst snd] in *.
      destruct f as [v|].
      * rewrite (c_step_take_miss_some c k v Hv). cbn [fst snd].
        destruct (sim_put c s' k v HR') as (s'' & Hs' & HR''). rewrite Hs'.
        exists s''. split; [reflexivity|exact HR''].
      * rewrite (c_step_take_miss_none c k Hv). cbn [fst snd].
        exists s'. split; [reflexivity|exact HR'].
  - simpl. exists (s_del s k). split; [reflexivity|apply sim_del; exact HR].
Qed.

Lemma sim_run : forall ops c s, R c s ->
  c_run c ops = s_run s ops /\ c_evictions c ops = s_evictions s ops.
Proof.
  intros ops. induction ops as [|o ops IHops]; intros c s HR; simpl; [split; reflexivity|].
  destruct (sim_step c s o HR) as (s' & Hs & HR'). rewrite Hs.
  destruct (c_step c o) as [[c' r] ev]. simpl in *.
  destruct (IHops c' s' HR') as [H1 H2]. rewrite H1, H2. split; reflexivity.
Qed.

(* ------------------------------------------------------------------ *)
(* D: evictions happen in least-recently-used order                    *)

Theorem cache_evicts_lru_proof : forall limit ops,
  c_run (c_new limit) ops = s_run (s_new limit) ops /\
  c_evictions (c_new limit) ops = s_evictions (s_new limit) ops.
Proof. intros limit ops. apply sim_run. apply R_new. Qed.

Print Assumptions cache_evicts_lru_proof.
