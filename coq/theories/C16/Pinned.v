(* C16 - pinned buggy variants: what the theorems exclude.  Each variant is a
   one-line change of the model; the property is refuted on a concrete history
   (checked by vm_compute).  The same changes applied to the Go code are
   mutations of the self-test (notes/C16.md). *)
From Coq Require Import List ZArith Bool.
From GZ Require Import Lib.RollingWindow Lib.RollingWindowSpec C16.Model C16.ModelW.
Import ListNotations.
Open Scope Z_scope.

(* updateOffset without alignment of lastTime to the interval boundary
   (`rw.lastTime = now`, as in go-zero before the alignment was introduced) *)
Definition rw_update_noalign (w : rw) (now : Z) : rw :=
  let span := rw_span w now in
  match span with
  | O => w
  | _ =>
    mkRW (rsize w) (rinterval w) ((roffset w + span) mod rsize w) now (rignore w)
         (rw_reset (rsize w) (roffset w) span (rbuckets w))
  end.

Definition rw_add_noalign (w : rw) (now v : Z) : rw :=
  let w' := rw_update_noalign w now in
  let i := (roffset w' mod rsize w')%nat in
  mkRW (rsize w') (rinterval w') (roffset w') (rlast w') (rignore w')
       (set_nth i (nth i (rbuckets w') [] ++ [v]) (rbuckets w')).

Definition rw_run_noalign (w : rw) (h : list (Z * Z)) : rw :=
  fold_left (fun w p => rw_add_noalign w (fst p) (snd p)) h w.

(* adds at 19 (interval 1) and 28 (interval 2) end up in the same bucket *)
Theorem window_without_alignment_refuted : exists size iv t0 ig h now,
  (1 <= size)%nat /\ 0 < iv /\ rw_mono t0 h /\ rw_last_time t0 h <= now /\
  rw_reduce (rw_run_noalign (rw_new size iv t0 ig) h) now <> rw_reduce_spec size iv t0 ig h now.
Proof.
  exists 3%nat, 10, 0, false, [(19, 1); (28, 2)], 28.
  vm_compute. repeat split; try discriminate; try reflexivity; repeat constructor.
Qed.

(* Ring.Take starting one slot late once wrapped *)
Definition r_take_late (r : ring) : list Z :=
  let rlen := length (rels r) in
  let size := if Nat.ltb rlen (rindex r) then rlen else rindex r in
  let start := if Nat.ltb rlen (rindex r) then ((rindex r + 1) mod rlen)%nat else 0%nat in
  map (fun i => nth ((start + i) mod rlen)%nat (rels r) 0) (seq 0 size).

Theorem ring_late_start_refuted : exists n h,
  (1 <= n)%nat /\
  r_take_late (fold_left r_add h (r_new n)) <> lastn n h.
Proof.
  exists 3%nat, [1; 2; 3; 4]. vm_compute. split; [repeat constructor|discriminate].
Qed.

(* keyLru.add without MoveToFront on a hit: eviction becomes FIFO, not LRU *)
Definition c_lru_add_nomove (c : cache) (k : Z) : cache * list Z :=
  if climit c <=? 0 then (c, [])
  else if smem k (clru c) then (c, [])
  else c_lru_add c k.

Definition c_get_nomove (c : cache) (k : Z) : cache * option Z :=
  match alookup k (cdata c) with
  | Some v => (fst (c_lru_add_nomove c k), Some v)
  | None => (c, None)
  end.

(* limit 2: Set 1, Set 2, Get 1 (a use of key 1), Set 3: the reference evicts key 2,
   the variant evicts key 1 *)
Theorem cache_fifo_eviction_refuted :
  let c0 := fst (c_set (fst (c_set (c_new 2) 1 10)) 2 20) in
  let c1 := fst (c_get_nomove c0 1) in
  snd (c_set c1 3 30) = [1] /\
  s_evictions (s_new 2) [CSet 1 10; CSet 2 20; CGet 1; CSet 3 30] = [[]; []; []; [2]].
Proof. vm_compute. split; reflexivity. Qed.

(* ------------------------------------------------------------------ *)
(* cache + wheel, expiry below one wheel interval (outside the quantifier of
   cache_entry_expires_at_due_tick, hypothesis interval <= d).

   For a NEW key SetTimer clamps the delay to one interval: the entry lives one tick.
   For a key ALREADY PRESENT SetWithExpire calls MoveTimer, which for a delay below
   the interval runs the callback at once: the value just written is deleted
   immediately (observed on the real code by the correspondence run, corpus case 3 of
   kind "cachew").  With SetTimer for rewrites too (cwmv = false) the entry lives one
   tick in both cases. *)
Theorem cache_subinterval_rewrite_refuted :
  (* interval 1000, expiries 1500 then 500 on the same key: the second value is gone at once *)
  cw_run (cw_new 0 300 1000 true) [XSet 1 10 1500; XSet 1 11 500; XGet 1] = [OUnit; OUnit; OOpt None] /\
  (* the same expiry on a new key: present until the first tick *)
  cw_run (cw_new 0 300 1000 true) [XSet 1 11 500; XGet 1; XTick; XGet 1] = [OUnit; OOpt (Some 11); OUnit; OOpt None] /\
  (* rewrites through SetTimer: present until the first tick *)
  cw_run (cw_new 0 300 1000 false) [XSet 1 10 1500; XSet 1 11 500; XGet 1; XTick; XGet 1] =
    [OUnit; OUnit; OOpt (Some 11); OUnit; OOpt None].
Proof. vm_compute. repeat split. Qed.

(* a rewrite that does not refresh the timer (no MoveTimer): the stale earlier expiry
   fires and removes the rewritten entry before its own due tick *)
Definition cw_set_norefresh (s : cachew) (k v d : Z) : cachew :=
  if amem k (cdata (cwc s))
  then mkCW (fst (c_set (cwc s) k v)) (cww s) (cwmv s)
  else fst (fst (cw_set s k v d)).

Theorem cache_rewrite_without_refresh_refuted :
  let s1 := cw_set_norefresh (fst (fst (cw_set (cw_new 0 300 1000 true) 1 10 1500))) 1 11 3500 in
  let s2 := fst (fst (cw_step s1 XTick)) in
  alookup 1 (cdata (cwc s2)) = None /\ 1 <? 3500 / 1000 = true.
Proof. vm_compute. split; reflexivity. Qed.

(* ------------------------------------------------------------------ *)
(* The four independently seeded changes (seeded/C16-1..4), each as a variant of the
   model, each refuted on the multi-phase history that exposes it. *)

(* C16-1: updateOffset advances lastTime by span * interval instead of re-aligning it to
   the clock.  span is clipped to size, so after an idle gap longer than the window
   lastTime stays behind: the next Add sees span >= 1 again and wipes what was just added. *)
Definition rw_update_bystep (w : rw) (now : Z) : rw :=
  let span := rw_span w now in
  match span with
  | O => w
  | _ =>
    mkRW (rsize w) (rinterval w) ((roffset w + span) mod rsize w)
         (rlast w + Z.of_nat span * rinterval w) (rignore w)
         (rw_reset (rsize w) (roffset w) span (rbuckets w))
  end.

Definition rw_add_bystep (w : rw) (now v : Z) : rw :=
  let w' := rw_update_bystep w now in
  let i := (roffset w' mod rsize w')%nat in
  mkRW (rsize w') (rinterval w') (roffset w') (rlast w') (rignore w')
       (set_nth i (nth i (rbuckets w') [] ++ [v]) (rbuckets w')).

Definition rw_run_bystep (w : rw) (h : list (Z * Z)) : rw :=
  fold_left (fun w p => rw_add_bystep w (fst p) (snd p)) h w.

(* size 3, interval 10: one add, ten idle intervals, three adds in one interval *)
Theorem window_lasttime_by_step_refuted : exists size iv t0 ig h now,
  (1 <= size)%nat /\ 0 < iv /\ rw_mono t0 h /\ rw_last_time t0 h <= now /\
  rw_reduce (rw_run_bystep (rw_new size iv t0 ig) h) now <> rw_reduce_spec size iv t0 ig h now /\
  rw_reduce (rw_run (rw_new size iv t0 ig) h) now = rw_reduce_spec size iv t0 ig h now.
Proof.
  exists 3%nat, 10, 0, false, [(1, 1); (100, 7); (101, 8); (102, 9)], 102.
  vm_compute. repeat split; try discriminate; try reflexivity; repeat constructor.
Qed.

(* C16-2: SetWithExpire touches the recency list only for a new key: an overwritten key
   keeps its old place and is evicted although it was just written. *)
Definition c_set_newonly (c : cache) (k v : Z) : cache * list Z :=
  if amem k (cdata c) then (mkC (climit c) (aset k v (cdata c)) (clru c), [])
  else c_set c k v.

(* limit 2: Set 1, Set 2, Set 1 again, Set 3: the reference evicts key 2, the variant key 1,
   and the value just written for key 1 is gone *)
Theorem cache_overwrite_without_touch_refuted :
  let c2 := fst (c_set_newonly (fst (c_set_newonly (c_new 2) 1 10)) 2 20) in
  let c3 := fst (c_set_newonly c2 1 11) in
  snd (c_set_newonly c3 3 30) = [1] /\
  alookup 1 (cdata (fst (c_set_newonly c3 3 30))) = None /\
  s_evictions (s_new 2) [CSet 1 10; CSet 2 20; CSet 1 11; CSet 3 30] = [[]; []; []; [2]] /\
  s_run (s_new 2) [CSet 1 10; CSet 2 20; CSet 1 11; CSet 3 30; CGet 1] =
    [OUnit; OUnit; OUnit; OUnit; OOpt (Some 11)].
Proof. vm_compute. repeat split. Qed.

(* C16-3: while draining (deletionOld > maxDeletion) Set removes the key from dirtyNew
   instead of dirtyOld: an overwritten key of the old generation lives in both maps and
   Get keeps answering with the stale value. *)
Definition sm_set_wrongmap (cfg : smcfg) (m : safemap) (k v : Z) : safemap :=
  if delOld m <=? maxDeletion cfg then sm_set cfg m k v
  else
    let m1 := if amem k (dirtyNew m)
              then mkSM (delOld m + 1) (delNew m) (dirtyOld m) (aremove k (dirtyNew m))
              else m in
    mkSM (delOld m1) (delNew m1) (dirtyOld m1) (aset k v (dirtyNew m1)).

Definition sm_step_wrongmap (cfg : smcfg) (m : safemap) (o : smop) : safemap * obs :=
  match o with
  | MSet k v => (sm_set_wrongmap cfg m k v, OUnit)
  | _ => sm_step cfg m o
  end.

Fixpoint sm_run_wrongmap (cfg : smcfg) (m : safemap) (ops : list smop) : list obs :=
  match ops with
  | [] => []
  | o :: ops' => let (m', r) := sm_step_wrongmap cfg m o in r :: sm_run_wrongmap cfg m' ops'
  end.

(* thresholds (copyThreshold 2, maxDeletion 2): two live keys, three deletions (no migration:
   dirtyOld is not below copyThreshold), then the overwrite of a key of dirtyOld *)
Definition seed3_ops : list smop :=
  [MSet 1 10; MSet 2 20; MSet 9 0; MDel 9; MSet 9 0; MDel 9; MSet 9 0; MDel 9; MSet 1 11; MGet 1; MSize].

Theorem safemap_set_wrong_generation_refuted :
  sm_run_wrongmap (mkSMC 2 2) sm_new seed3_ops <> sm_run (mkSMC 2 2) sm_new seed3_ops /\
  sm_run (mkSMC 2 2) sm_new seed3_ops = map_run [] seed3_ops /\
  nth 9 (sm_run_wrongmap (mkSMC 2 2) sm_new seed3_ops) OUnit = OOpt (Some 10) /\
  nth 10 (sm_run_wrongmap (mkSMC 2 2) sm_new seed3_ops) OUnit = ONum 3.
Proof. vm_compute. repeat split. discriminate. Qed.

(* C16-4: Queue growth copies the wrapped part elements[:head] to offset size - head
   instead of len(elements) - head.  size is the INITIAL size: right for the first growth
   only.  (Take also clears the slot it vacates.)  None = the slice bound size - head is
   negative: Put panics. *)
Definition overlay_at {A} (off : nat) (src dst : list A) : list A :=
  firstn off dst ++ firstn (length dst - off) src ++ skipn (off + length src) dst.

Definition q_core_put (q : queue) (x : Z) : queue :=
  mkQ (set_nth (qtail q) x (qels q)) (qsize q) (qhead q)
      ((qtail q + 1) mod length (qels q))%nat (S (qcount q)).

Definition q_put_seed4 (q : queue) (x : Z) : option queue :=
  if Nat.eqb (qcount q) (length (qels q)) then
    if Nat.ltb (qsize q) (qhead q) then None
    else
      let nodes := overlay_at (qsize q - qhead q) (firstn (qhead q) (qels q))
                     (overlay_at 0 (skipn (qhead q) (qels q)) (repeat 0 (qcount q + qsize q))) in
      Some (q_core_put (mkQ nodes (qsize q) 0%nat (qcount q) (qcount q)) x)
  else Some (q_core_put q x).

Definition q_take_seed4 (q : queue) : queue * option Z :=
  match qcount q with
  | O => (q, None)
  | S c => (mkQ (set_nth (qhead q) 0 (qels q)) (qsize q) ((qhead q + 1) mod length (qels q))%nat (qtail q) c,
            Some (nth (qhead q) (qels q) 0))
  end.

Fixpoint q_run_seed4 (q : queue) (ops : list qop) : option (list obs) :=
  match ops with
  | [] => Some []
  | QPut x :: ops' =>
    match q_put_seed4 q x with
    | Some q' => option_map (cons OUnit) (q_run_seed4 q' ops')
    | None => None
    end
  | QTake :: ops' => let (q', r) := q_take_seed4 q in option_map (cons (OOpt r)) (q_run_seed4 q' ops')
  | QEmpty :: ops' => option_map (cons (OBool (Nat.eqb (qcount q) 0))) (q_run_seed4 q ops')
  end.

Definition puts (l : list Z) : list qop := map QPut l.

(* the FIRST growth is right whatever the head (the histories go-zero's own tests reach) ... *)
Example seed4_first_growth_is_right :
  q_run_seed4 (q_new 2) (puts [1; 2] ++ [QTake] ++ puts [3; 4; 5] ++ [QTake; QTake; QTake; QTake; QTake]) =
  Some (fifo_run [] (puts [1; 2] ++ [QTake] ++ puts [3; 4; 5] ++ [QTake; QTake; QTake; QTake; QTake])).
Proof. vm_compute. reflexivity. Qed.

(* ... the SECOND growth with head <> 0 loses an element and hands out an empty slot ... *)
Theorem queue_second_growth_wrapped_refuted : exists size ops,
  (1 <= size)%nat /\
  q_run_seed4 (q_new size) ops <> Some (fifo_run [] ops) /\
  q_run (q_new size) ops = fifo_run [] ops.
Proof.
  exists 2%nat, (puts [1; 2; 3; 4] ++ [QTake] ++ puts [5; 6] ++ [QTake; QTake; QTake; QTake; QTake]).
  vm_compute. repeat split; try discriminate; repeat constructor.
Qed.

(* ... and with head > size Put panics *)
Theorem queue_second_growth_head_beyond_size_panics :
  q_run_seed4 (q_new 2) (puts [1; 2; 3; 4] ++ [QTake; QTake; QTake] ++ puts [5; 6; 7; 8]) = None.
Proof. vm_compute. reflexivity. Qed.

(* ------------------------------------------------------------------ *)
(* C16-7: Reduce takes a snapshot of the bucket REFERENCES under the read lock and runs the
   callback after unlocking.  The positions are those of the window when Reduce was called;
   the contents are read when the callback gets there.  With an Add of another goroutine
   that rolls the window after the callback has been shown k buckets, the rest is read from
   the window AFTER the Add: a mixture.  (Sequentially - w1 = w0 - nothing changes.) *)
Definition rw_reduce_positions (w : rw) (now : Z) : list nat :=
  let span := rw_span w now in
  let diff := match span, rignore w with
              | O, true => (rsize w - 1)%nat
              | _, _ => (rsize w - span)%nat
              end in
  map (fun i => ((roffset w + span + 1 + i) mod rsize w)%nat) (seq 0 diff).

Definition rw_reduce_by_reference (k : nat) (w0 w1 : rw) (now : Z) : list (list Z) :=
  let ps := rw_reduce_positions w0 now in
  map (fun p => nth p (rbuckets w0) []) (firstn k ps) ++
  map (fun p => nth p (rbuckets w1) []) (skipn k ps).

(* without an overlapping Add it is Reduce *)
Example reduce_by_reference_sequentially :
  let w := rw_run (rw_new 3 10 0 false) [(0, 1); (10, 2); (20, 3)] in
  rw_reduce_by_reference 1 w w 20 = rw_reduce w 20.
Proof. vm_compute. reflexivity. Qed.

(* size 3, interval 10, window [1] [2] [3]; Reduce called at 20 is shown the first bucket;
   another goroutine adds 10 at time 40 (two buckets rolled: the buckets of 1 and 2 are reset,
   10 goes where 2 was); the callback goes on: [1] [10] [3] - neither the window before the
   Add ([1] [2] [3]) nor the one after it ([3] [] [10]): the values of NO run of `size` intervals *)
Lemma zrange_consecutive : forall lo hi a b l, zrange lo hi = a :: b :: l -> b = a + 1.
Proof.
  intros lo hi a b l. unfold zrange. destruct (Z.to_nat (hi - lo + 1)) as [|[|n]]; simpl; intros H; try discriminate.
  inversion H. Lia.lia.
Qed.

(* in both histories the value 1 was added in interval 0 and interval 1 holds the value 2: no
   two consecutive buckets of any Reduce read [1] and then [10] *)
Lemma no_one_then_ten : forall h, (h = [(0, 1); (10, 2); (20, 3)] \/ h = [(0, 1); (10, 2); (20, 3); (40, 10)]) ->
  forall a, rw_vals_at 0 10 h a = [1] -> rw_vals_at 0 10 h (a + 1) <> [10].
Proof.
  intros h Hh a Ha.
  assert (a = 0).
  { destruct Hh; subst h; unfold rw_vals_at, rw_idx in Ha; cbn [filter map fst snd] in Ha;
      change ((0 - 0) / 10) with 0 in Ha; change ((10 - 0) / 10) with 1 in Ha;
      change ((20 - 0) / 10) with 2 in Ha; try change ((40 - 0) / 10) with 4 in Ha;
      (destruct (Z.eqb_spec 0 a) as [E|E]; [symmetry; exact E|]);
      destruct (1 =? a); destruct (2 =? a); try destruct (4 =? a); cbn [filter map fst snd] in Ha; discriminate. }
  subst a. destruct Hh; subst h; vm_compute; discriminate.
Qed.

Theorem reduce_by_reference_mixes_states_refuted :
  let h := [(0, 1); (10, 2); (20, 3)] in
  let w0 := rw_run (rw_new 3 10 0 false) h in
  let w1 := rw_add w0 40 10 in
  rw_reduce_by_reference 1 w0 w1 20 = [[1]; [10]; [3]] /\
  rw_reduce w0 20 = [[1]; [2]; [3]] /\ rw_reduce_spec 3 10 0 false h 20 = [[1]; [2]; [3]] /\
  rw_reduce w1 40 = [[3]; []; [10]] /\ rw_reduce_spec 3 10 0 false (h ++ [(40, 10)]) 40 = [[3]; []; [10]] /\
  (forall ig now, rw_reduce_spec 3 10 0 ig h now <> [[1]; [10]; [3]]) /\
  (forall ig now, rw_reduce_spec 3 10 0 ig (h ++ [(40, 10)]) now <> [[1]; [10]; [3]]).
Proof.
  cbv zeta. repeat split; try (vm_compute; reflexivity).
  - intros ig now H. unfold rw_reduce_spec in H.
    destruct (zrange _ _) as [|a [|b l]] eqn:Hz; try discriminate.
    apply zrange_consecutive in Hz. subst b. simpl in H. inversion H as [[H1 H2 H3]].
    revert H2. apply no_one_then_ten; [left; reflexivity|exact H1].
  - intros ig now H. unfold rw_reduce_spec in H.
    destruct (zrange _ _) as [|a [|b l]] eqn:Hz; try discriminate.
    apply zrange_consecutive in Hz. subst b. simpl in H. inversion H as [[H1 H2 H3]].
    revert H2. apply no_one_then_ten; [right; reflexivity|exact H1].
Qed.

(* ------------------------------------------------------------------ *)
(* C16-9: striped "deletion counters" (one per hash(key) % 256; every Del - also the wheel's
   expiry callback - bumps its key's stripe; Take does not store the loaded value when the counter
   of its key's stripe moved while the loader ran).  Sequentially identical to the code; with the
   loader of key 1 held while ANOTHER key of the same stripe (257) is deleted, the loaded value is
   dropped: Get misses and the next Take loads again, although nobody deleted, expired or evicted
   key 1.  The code (ModelGate.c_take_held) and the reference keep it; a Del in another stripe
   (key 2) does no harm - which is why only keys sharing the stripe expose it. *)
From GZ Require Import C16.ModelGate.

Theorem cache_striped_deletion_counters_refuted :
  let stripe := fun k => k mod 256 in
  let c0 := c_new 0 in
  exists inner, Forall (fun o => cop_key o <> 1) inner /\
    let '(cs, rs, _) := c_take_held_striped stripe c0 1 (Some 10) inner in
    let '(ch, rh, _) := c_take_held c0 1 (Some 10) inner in
    rs = OTake (Some 10) true /\ rh = OTake (Some 10) true /\
    c_run cs [CGet 1; CTake 1 (Some 99)] = [OOpt None; OTake (Some 99) true] /\
    c_run ch [CGet 1; CTake 1 (Some 99)] = [OOpt (Some 10); OTake (Some 10) false] /\
    s_run (s_new 0) (inner ++ [CTake 1 (Some 10); CGet 1; CTake 1 (Some 99)]) =
      [OUnit; OTake (Some 10) true; OOpt (Some 10); OTake (Some 10) false] /\
    (* another stripe: harmless *)
    fst (fst (c_take_held_striped stripe c0 1 (Some 10) [CDel 2])) = fst (fst (c_take_held c0 1 (Some 10) [CDel 2])).
Proof.
  exists [CDel 257]. split; [repeat constructor; discriminate|]. vm_compute. repeat split.
Qed.

(* the same through an EXPIRY of the other key (the wheel's callback is Del) *)
Theorem cache_striped_deletion_counters_expiry_refuted :
  let stripe := fun k => k mod 256 in
  let c0 := c_final (c_new 0) [CSet 257 7] in
  c_run (fst (fst (c_take_held_striped stripe c0 1 (Some 10) [CExpire 257]))) [CGet 1] = [OOpt None] /\
  c_run (fst (fst (c_take_held c0 1 (Some 10) [CExpire 257]))) [CGet 1] = [OOpt (Some 10)].
Proof. vm_compute. split; reflexivity. Qed.

(* ------------------------------------------------------------------ *)
(* Finding (unchanged tree): the wheel starts the expiry callbacks of a tick on a goroutine
   of their own, after it has removed the fired timers.  A SetWithExpire of a fired key that
   gets in before its callback runs stores the new value and a NEW timer; the stale callback
   (cache.Del(key): it knows the key only) then deletes the new value and the new timer.
   The reference - an expiry concerns the entry whose time has come - keeps the new value. *)
From GZ Require Import C16.Check.

Theorem cache_stale_expiry_callback_refuted :
  let ops := [XX (XSet 1 10 1500); XTickHold; XX (XSet 1 11 3500); XRelease; XX (XGet 1); XHeld] in
  cwx_run (cw_new 0 300 1000 false) [] ops = [OUnit; OUnit; OUnit; OUnit; OOpt None; OList []] /\
  refwx_run 1000 (mkRefW (s_new 0) []) ops = [OUnit; OUnit; OUnit; OUnit; OOpt (Some 11); OList [1]] /\
  (* released before the Set, nothing is lost *)
  cwx_run (cw_new 0 300 1000 false) []
    [XX (XSet 1 10 1500); XTickHold; XRelease; XX (XSet 1 11 3500); XX (XGet 1)] =
    [OUnit; OUnit; OUnit; OUnit; OOpt (Some 11)].
Proof. vm_compute. repeat split. Qed.
