(* C16 - pinned buggy variants: what the theorems exclude.  Each variant is a
   one-line change of the model; the property is refuted on a concrete history
   (checked by vm_compute).  The same changes applied to the Go code are
   mutations of the self-test (notes/C16.md). *)
From Coq Require Import List ZArith Bool.
From GZ Require Import Lib.RollingWindow Lib.RollingWindowSpec C16.Model C16.ModelW.
Import ListNotations.
Open Scope Z_scope.

(* updateOffset without alignment of lastTime to the interval boundary
   (`rw.lastTime = now`, as in go-zero before the alignment was introduced) *)
Definition rw_update_noalign (w : rw) (now : Z) : rw :=
  let span := rw_span w now in
  match span with
  | O => w
  | _ =>
    mkRW (rsize w) (rinterval w) ((roffset w + span) mod rsize w) now (rignore w)
         (rw_reset (rsize w) (roffset w) span (rbuckets w))
  end.

Definition rw_add_noalign (w : rw) (now v : Z) : rw :=
  let w' := rw_update_noalign w now in
  let i := (roffset w' mod rsize w')%nat in
  mkRW (rsize w') (rinterval w') (roffset w') (rlast w') (rignore w')
       (set_nth i (nth i (rbuckets w') [] ++ [v]) (rbuckets w')).

Definition rw_run_noalign (w : rw) (h : list (Z * Z)) : rw :=
  fold_left (fun w p => rw_add_noalign w (fst p) (snd p)) h w.

(* adds at 19 (interval 1) and 28 (interval 2) end up in the same bucket *)
Theorem window_without_alignment_refuted : exists size iv t0 ig h now,
  (1 <= size)%nat /\ 0 < iv /\ rw_mono t0 h /\ rw_last_time t0 h <= now /\
  rw_reduce (rw_run_noalign (rw_new size iv t0 ig) h) now <> rw_reduce_spec size iv t0 ig h now.
Proof.
  exists 3%nat, 10, 0, false, [(19, 1); (28, 2)], 28.
  vm_compute. repeat split; try discriminate; try reflexivity; repeat constructor.
Qed.

(* Ring.Take starting one slot late once wrapped *)
Definition r_take_late (r : ring) : list Z :=
  let rlen := length (rels r) in
  let size := if Nat.ltb rlen (rindex r) then rlen else rindex r in
  let start := if Nat.ltb rlen (rindex r) then ((rindex r + 1) mod rlen)%nat else 0%nat in
  map (fun i => nth ((start + i) mod rlen)%nat (rels r) 0) (seq 0 size).

Theorem ring_late_start_refuted : exists n h,
  (1 <= n)%nat /\
  r_take_late (fold_left r_add h (r_new n)) <> lastn n h.
Proof.
  exists 3%nat, [1; 2; 3; 4]. vm_compute. split; [repeat constructor|discriminate].
Qed.

(* keyLru.add without MoveToFront on a hit: eviction becomes FIFO, not LRU *)
Definition c_lru_add_nomove (c : cache) (k : Z) : cache * list Z :=
  if climit c <=? 0 then (c, [])
  else if smem k (clru c) then (c, [])
  else c_lru_add c k.

Definition c_get_nomove (c : cache) (k : Z) : cache * option Z :=
  match alookup k (cdata c) with
  | Some v => (fst (c_lru_add_nomove c k), Some v)
  | None => (c, None)
  end.

(* limit 2: Set 1, Set 2, Get 1 (a use of key 1), Set 3: the reference evicts key 2,
   the variant evicts key 1 *)
Theorem cache_fifo_eviction_refuted :
  let c0 := fst (c_set (fst (c_set (c_new 2) 1 10)) 2 20) in
  let c1 := fst (c_get_nomove c0 1) in
  snd (c_set c1 3 30) = [1] /\
  s_evictions (s_new 2) [CSet 1 10; CSet 2 20; CGet 1; CSet 3 30] = [[]; []; []; [2]].
Proof. vm_compute. split; reflexivity. Qed.

(* ------------------------------------------------------------------ *)
(* cache + wheel, expiry below one wheel interval (outside the quantifier of
   cache_entry_expires_at_due_tick, hypothesis interval <= d).

   For a NEW key SetTimer clamps the delay to one interval: the entry lives one tick.
   For a key ALREADY PRESENT SetWithExpire calls MoveTimer, which for a delay below
   the interval runs the callback at once: the value just written is deleted
   immediately (observed on the real code by the correspondence run, corpus case 3 of
   kind "cachew").  With SetTimer for rewrites too (cwmv = false) the entry lives one
   tick in both cases. *)
Theorem cache_subinterval_rewrite_refuted :
  (* interval 1000, expiries 1500 then 500 on the same key: the second value is gone at once *)
  cw_run (cw_new 0 300 1000 true) [XSet 1 10 1500; XSet 1 11 500; XGet 1] = [OUnit; OUnit; OOpt None] /\
  (* the same expiry on a new key: present until the first tick *)
  cw_run (cw_new 0 300 1000 true) [XSet 1 11 500; XGet 1; XTick; XGet 1] = [OUnit; OOpt (Some 11); OUnit; OOpt None] /\
  (* rewrites through SetTimer: present until the first tick *)
  cw_run (cw_new 0 300 1000 false) [XSet 1 10 1500; XSet 1 11 500; XGet 1; XTick; XGet 1] =
    [OUnit; OUnit; OOpt (Some 11); OUnit; OOpt None].
Proof. vm_compute. repeat split. Qed.

(* a rewrite that does not refresh the timer (no MoveTimer): the stale earlier expiry
   fires and removes the rewritten entry before its own due tick *)
Definition cw_set_norefresh (s : cachew) (k v d : Z) : cachew :=
  if amem k (cdata (cwc s))
  then mkCW (fst (c_set (cwc s) k v)) (cww s) (cwmv s)
  else fst (fst (cw_set s k v d)).

Theorem cache_rewrite_without_refresh_refuted :
  let s1 := cw_set_norefresh (fst (fst (cw_set (cw_new 0 300 1000 true) 1 10 1500))) 1 11 3500 in
  let s2 := fst (fst (cw_step s1 XTick)) in
  alookup 1 (cdata (cwc s2)) = None /\ 1 <? 3500 / 1000 = true.
Proof. vm_compute. split; reflexivity. Qed.
