(* C16 - the reference that Check.prop_ok compares a cache-with-wheel history with
   ("oldest-stamp LRU + key |-> ticks remaining", Check.refw_step) is refined by the composed
   model cache + C12 wheel (ModelW.cw_step with SetTimer for rewrites, the code after 9733d1f):
   same answers, same key sets, same sizes, for every history. *)
From Coq Require Import List ZArith Bool Lia.
From GZ Require C12.Model C12.Proofs.
From GZ Require Import C16.Model C16.ProofsCache C16.ProofsCacheLru C16.ModelW C16.ProofsW C16.ProofsWClamp.
From GZ Require Import C16.Check C16.ProofsExtra.
Import ListNotations. Open Scope Z_scope.

(* ------------------------------------------------------------------ *)
(* the "ticks remaining" list                                          *)
Fixpoint dlk (x : Z) (l : list (Z * Z)) : option Z :=
  match l with
  | [] => None
  | (k, r) :: l' => if k =? x then Some r else dlk x l'
  end.

Lemma dlk_notin : forall x l, ~ In x (map fst l) -> dlk x l = None.
Proof.
  intros x l. induction l as [|[k r] l IH]; intros H; [reflexivity|]. simpl in *.
  destruct (Z.eqb_spec k x) as [E|E]; [exfalso; apply H; left; exact E|]. apply IH. tauto.
Qed.

Lemma dlk_drop : forall x k l, dlk x (due_drop k l) = if k =? x then None else dlk x l.
Proof.
  intros x k l. induction l as [|[k' r] l IH]; simpl.
  - destruct (k =? x); reflexivity.
  - destruct (Z.eqb_spec k' k) as [E1|E1].
    + rewrite IH. subst k'. destruct (Z.eqb_spec k x); reflexivity.
    + simpl. rewrite IH. destruct (Z.eqb_spec k' x) as [E2|E2]; [|reflexivity].
      destruct (Z.eqb_spec k x); [lia|reflexivity].
Qed.

Lemma dlk_put : forall x k r l, dlk x (due_put k r l) = if k =? x then Some r else dlk x l.
Proof.
  intros x k r l. unfold due_put. simpl. rewrite dlk_drop. destruct (k =? x); reflexivity.
Qed.

Lemma dlk_drops : forall ev l x,
  dlk x (fold_left (fun l e => due_drop e l) ev l) = if smem x ev then None else dlk x l.
Proof.
  intros ev. induction ev as [|a ev IH]; intros l x; [reflexivity|].
  simpl. rewrite IH, dlk_drop. unfold smem. simpl. fold (smem x ev). rewrite (Z.eqb_sym x a).
  destruct (smem x ev); [rewrite orb_true_r; reflexivity|]. rewrite orb_false_r. reflexivity.
Qed.

Lemma keys_drop : forall k l y, In y (map fst (due_drop k l)) -> In y (map fst l) /\ y <> k.
Proof.
  intros k l. induction l as [|[k' r] l IH]; intros y H; simpl in *; [contradiction|].
  destruct (Z.eqb_spec k' k) as [E|E].
  - destruct (IH y H). tauto.
  - simpl in H. destruct H as [H|H]; [subst; tauto|]. destruct (IH y H). tauto.
Qed.

Lemma nodup_drop : forall k l, NoDup (map fst l) -> NoDup (map fst (due_drop k l)).
Proof.
  intros k l. induction l as [|[k' r] l IH]; intros H; simpl in *; [constructor|].
  inversion H; subst. destruct (k' =? k); [apply IH; assumption|].
  simpl. constructor; [|apply IH; assumption]. intros Hin. apply keys_drop in Hin. tauto.
Qed.

Lemma nodup_put : forall k r l, NoDup (map fst l) -> NoDup (map fst (due_put k r l)).
Proof.
  intros k r l H. unfold due_put. simpl. constructor; [|apply nodup_drop; exact H].
  intros Hin. apply keys_drop in Hin. tauto.
Qed.

Lemma nodup_drops : forall ev l, NoDup (map fst l) ->
  NoDup (map fst (fold_left (fun l e => due_drop e l) ev l)).
Proof.
  intros ev. induction ev as [|a ev IH]; intros l H; [exact H|]. simpl. apply IH, nodup_drop, H.
Qed.

Definition due_keep (l : list (Z * Z)) : list (Z * Z) :=
  map (fun kr => (fst kr, snd kr - 1)) (filter (fun kr => negb (snd kr =? 1)) l).
Definition due_fired (l : list (Z * Z)) : list Z :=
  map fst (filter (fun kr => snd kr =? 1) l).

Lemma keys_keep : forall l y, In y (map fst (due_keep l)) -> In y (map fst l).
Proof.
  intros l y H. unfold due_keep in H. rewrite map_map in H. simpl in H.
  apply in_map_iff in H. destruct H as (p & Hp & Hin). apply filter_In in Hin.
  apply in_map_iff. exists p. tauto.
Qed.

Lemma nodup_keep : forall l, NoDup (map fst l) -> NoDup (map fst (due_keep l)).
Proof.
  intros l. induction l as [|[k r] l IH]; intros H; [constructor|].
  inversion H; subst. unfold due_keep in *. simpl. destruct (r =? 1); simpl; [apply IH; assumption|].
  constructor; [|apply IH; assumption]. intros Hin. apply H2. apply keys_keep. exact Hin.
Qed.

Lemma dlk_keep : forall x l, NoDup (map fst l) ->
  dlk x (due_keep l) = match dlk x l with
                       | Some r => if r =? 1 then None else Some (r - 1)
                       | None => None
                       end.
Proof.
  intros x l. induction l as [|[k r] l IH]; intros H; [reflexivity|].
  inversion H; subst. specialize (IH H3). unfold due_keep in *. simpl.
  destruct (Z.eqb_spec r 1) as [Er|Er]; simpl.
  - rewrite IH. destruct (Z.eqb_spec k x) as [E|E]; [|reflexivity].
    subst k. rewrite (dlk_notin x l H2). subst r. reflexivity.
  - destruct (Z.eqb_spec k x) as [E|E].
    + destruct (Z.eqb_spec r 1); [contradiction|reflexivity].
    + exact IH.
Qed.

Lemma fired_in : forall x l, NoDup (map fst l) -> (In x (due_fired l) <-> dlk x l = Some 1).
Proof.
  intros x l. induction l as [|[k r] l IH]; intros H.
  - simpl. split; [contradiction|discriminate].
  - inversion H; subst. specialize (IH H3). unfold due_fired in *. simpl.
    destruct (Z.eqb_spec r 1) as [Er|Er]; simpl.
    + destruct (Z.eqb_spec k x) as [E|E].
      * subst. split; [reflexivity|]. intros _. left. reflexivity.
      * split.
        -- intros [Hc|Hin]; [contradiction|]. apply IH. exact Hin.
        -- intros Hd. right. apply IH. exact Hd.
    + destruct (Z.eqb_spec k x) as [E|E].
      * subst. split.
        -- intros Hin. exfalso. apply H2. apply in_map_iff in Hin. destruct Hin as (p & Hp & Hin).
           apply filter_In in Hin. apply in_map_iff. exists p. tauto.
        -- intros Hd. inversion Hd. contradiction.
      * exact IH.
Qed.

(* ------------------------------------------------------------------ *)
(* deleting a set of keys from the cache: only the set matters          *)
Lemma filter_filter : forall (A : Type) (f g : A -> bool) l,
  filter f (filter g l) = filter (fun x => g x && f x) l.
Proof.
  intros A f g l. induction l as [|a l IH]; [reflexivity|]. simpl.
  destruct (g a); simpl; [destruct (f a); rewrite IH; reflexivity|exact IH].
Qed.

Lemma filter_true : forall (A : Type) (l : list A), filter (fun _ => true) l = l.
Proof. intros A l. induction l as [|a l IH]; [reflexivity|]. simpl. rewrite IH. reflexivity. Qed.

Lemma c_dels_char : forall ks c, Inv c ->
  c_dels c ks = mkC (climit c) (filter (fun p => negb (smem (fst p) ks)) (cdata c))
                    (filter (fun y => negb (smem y ks)) (clru c)).
Proof.
  intros ks. induction ks as [|k ks IH]; intros c HI.
  - unfold c_dels. simpl. rewrite !filter_true. destruct c; reflexivity.
  - unfold c_dels in *. simpl. rewrite (IH (c_del c k) (Inv_del c k HI)).
    rewrite climit_del, c_del_data, (c_del_lru c k HI). unfold aremove, sremove.
    rewrite !filter_filter. f_equal.
    + apply filter_ext. intros p. unfold smem. simpl. rewrite negb_orb. reflexivity.
    + apply filter_ext. intros y. unfold smem. simpl. rewrite negb_orb. rewrite (Z.eqb_sym y k). reflexivity.
Qed.

Lemma smem_ext : forall ks1 ks2 x, (forall y, In y ks1 <-> In y ks2) -> smem x ks1 = smem x ks2.
Proof.
  intros ks1 ks2 x H. destruct (smem x ks1) eqn:E1; destruct (smem x ks2) eqn:E2; try reflexivity.
  - apply smem_In in E1. apply H in E1. apply smem_In in E1. congruence.
  - apply smem_In in E2. apply H in E2. apply smem_In in E2. congruence.
Qed.

Lemma c_dels_ext : forall ks1 ks2 c, Inv c -> (forall y, In y ks1 <-> In y ks2) ->
  c_dels c ks1 = c_dels c ks2.
Proof.
  intros ks1 ks2 c HI H. rewrite (c_dels_char ks1 c HI), (c_dels_char ks2 c HI). f_equal.
  - apply filter_ext. intros p. rewrite (smem_ext ks1 ks2 (fst p) H). reflexivity.
  - apply filter_ext. intros y. rewrite (smem_ext ks1 ks2 y H). reflexivity.
Qed.

Lemma R_dels : forall ks c s, R c s -> R (c_dels c ks) (fold_left s_del ks s).
Proof.
  intros ks. induction ks as [|k ks IH]; intros c s HR; [exact HR|].
  unfold c_dels in *. simpl. apply IH. apply sim_del. exact HR.
Qed.

(* ------------------------------------------------------------------ *)
(* the refinement relation                                             *)
Definition RW (i : Z) (s : cachew) (r : refw) : Prop :=
  R (cwc s) (rws r) /\ G i s /\ cwmv s = false /\
  NoDup (map fst (rwdue r)) /\
  (forall x, option_map fst (wlk (cww s) x) = dlk x (rwdue r)).

Lemma RW_new : forall limit n i, 1 <= n -> 1 <= i ->
  RW i (cw_new limit n i false) (mkRefW (s_new limit) []).
Proof.
  intros limit n i Hn Hi. unfold RW. cbn [cwc cww cwmv rws rwdue cw_new].
  split; [apply R_new|]. split; [apply G_new; assumption|]. split; [reflexivity|].
  split; [constructor|]. intros x.
  pose proof (G_new limit n i false Hn Hi) as (_ & HIw & _ & _). cbn [cw_new cww] in HIw.
  destruct (wlk (TW.init n i) x) as [[r y]|] eqn:E; [|reflexivity].
  exfalso. unfold wlk in E. unfold TWP.abs in E.
  assert (Hnil : TWP.abs (TW.init n i) = []) by reflexivity.
  unfold TWP.abs in Hnil. rewrite Hnil in E. discriminate.
Qed.

Lemma set_core : forall s k v d, cwmv s = false ->
  cw_set s k v d =
  (mkCW (fst (c_set (cwc s) k v))
        (TW.set_task (tw_removes (cww s) (snd (c_set (cwc s) k v))) k v d) false,
   snd (c_set (cwc s) k v), []).
Proof.
  intros s k v d Hmv. unfold cw_set. rewrite Hmv, andb_false_r.
  destruct (c_set (cwc s) k v) as [c1 ev]. reflexivity.
Qed.

Lemma RW_set : forall i s r k v d, 1 <= i -> RW i s r ->
  RW i (fst (fst (cw_set s k v d))) (refw_put i r k v d).
Proof.
  intros i s r k v d Hi (HR & HG & Hmv & Hnd & Hdue).
  pose proof (G_step i s (XSet k v d) HG) as HG'. rewrite cw_step_set in HG'. cbn [fst] in HG'.
  rewrite (set_core s k v d Hmv) in *. cbn [fst] in *.
  destruct (sim_put (cwc s) (rws r) k v HR) as (s' & Hs & HR').
  unfold refw_put. rewrite Hs. cbn [fst snd].
  set (ev := snd (c_set (cwc s) k v)) in *.
  destruct HG as (HIc & HIw & Hsi & Hsub).
  destruct (wheel_removes ev (cww s) HIw) as (HIw1 & Hs1 & Hl1).
  destruct (wheel_set (tw_removes (cww s) ev) k v d HIw1) as (HIw2 & Hs2 & Ha2).
  unfold RW. cbn [cwc cww cwmv rws rwdue].
  split; [exact HR'|]. split; [exact HG'|]. split; [reflexivity|].
  split; [apply nodup_put, nodup_drops, Hnd|].
  intros x. rewrite dlk_put, dlk_drops. unfold wlk. rewrite Ha2. rewrite Hs1, Hsi.
  destruct (Z.eqb_spec k x) as [E|E].
  - subst x. rewrite TWP.sp_lookup_put. reflexivity.
  - rewrite TWP.sp_put_lookup_other by congruence.
    fold (wlk (tw_removes (cww s) ev) x). rewrite Hl1.
    destruct (smem x ev); [reflexivity|apply Hdue].
Qed.

Lemma s_get_miss' : forall s k, s_lookup k (sents s) = None -> s_get s k = (s, None).
Proof. intros s k H. unfold s_get. rewrite H. reflexivity. Qed.

(* one step *)
Lemma RW_step : forall i s r o, 1 <= i -> RW i s r ->
  snd (fst (cw_step s o)) = snd (refw_step i r o) /\
  RW i (fst (fst (cw_step s o))) (fst (refw_step i r o)).
Proof.
  intros i s r o Hi HRW. pose proof HRW as (HR & HG & Hmv & Hnd & Hdue).
  destruct o as [k v d|k|k|k f d|].
  - (* Set *)
    rewrite cw_step_set. cbn [fst snd refw_step]. split; [reflexivity|]. apply RW_set; assumption.
  - (* Get *)
    rewrite cw_step_get. cbn [fst snd refw_step].
    destruct (sim_get (cwc s) (rws r) k HR) as (s' & Hs & HR'). rewrite Hs. cbn [fst snd].
    split.
    + unfold c_doget. destruct (alookup k (cdata (cwc s))); reflexivity.
    + unfold RW. cbn [cwc cww cwmv rws rwdue]. split; [exact HR'|].
      split; [apply G_get; exact HG|]. split; [exact Hmv|]. split; [exact Hnd|exact Hdue].
  - (* Del *)
    cbn [cw_step fst snd refw_step]. split; [reflexivity|].
    unfold RW. cbn [cwc cww cwmv rws rwdue].
    split; [apply sim_del; exact HR|]. split; [apply G_del; exact HG|]. split; [exact Hmv|].
    split; [apply nodup_drop; exact Hnd|].
    intros x. rewrite dlk_drop. destruct HG as (_ & HIw & _ & _).
    destruct (wheel_remove (cww s) k HIw) as (_ & _ & Ha). unfold wlk. rewrite Ha, TWP.sp_drop_lookup.
    destruct (k =? x); [reflexivity|apply Hdue].
  - (* Take *)
    destruct (sim_get (cwc s) (rws r) k HR) as (s' & Hs & HR').
    destruct (alookup k (cdata (cwc s))) as [v|] eqn:Hv.
    + rewrite (cw_step_take_hit s k f d v Hv). cbn [fst snd refw_step]. rewrite Hs.
      rewrite (c_doget_hit (cwc s) k v Hv) in *. cbn [fst snd] in *.
      split; [reflexivity|]. unfold RW. cbn [cwc cww cwmv rws rwdue]. split; [exact HR'|].
      pose proof (G_get i s k HG) as HG'. rewrite (c_doget_hit (cwc s) k v Hv) in HG'. cbn [fst] in HG'.
      split; [exact HG'|]. split; [exact Hmv|]. split; [exact Hnd|exact Hdue].
    + rewrite (c_doget_miss (cwc s) k Hv) in *. cbn [fst snd] in *.
      destruct f as [v|].
      * rewrite (cw_step_take_miss_some s k v d Hv). cbn [fst snd refw_step]. rewrite Hs.
        split; [reflexivity|].
        assert (HRW' : RW i s (mkRefW s' (rwdue r))).
        { unfold RW. cbn [rws rwdue]. split; [exact HR'|]. split; [exact HG|]. split; [exact Hmv|].
          split; [exact Hnd|exact Hdue]. }
        exact (RW_set i s (mkRefW s' (rwdue r)) k v d Hi HRW').
      * rewrite (cw_step_take_miss_none s k d Hv). cbn [fst snd refw_step]. rewrite Hs.
        split; [reflexivity|]. unfold RW. cbn [rws rwdue]. split; [exact HR'|]. split; [exact HG|].
        split; [exact Hmv|]. split; [exact Hnd|exact Hdue].
  - (* Tick *)
    pose proof (G_step i s XTick HG) as HG'.
    rewrite cw_step_tick in *. cbn [fst snd refw_step] in *. split; [reflexivity|].
    destruct HG as (HIc & HIw & Hsi & Hsub).
    destruct (wheel_tick (cww s) HIw) as (HIw1 & Hs1 & Ha1 & Hf1).
    set (w1 := fst (TW.on_tick (cww s))) in *. set (f := snd (TW.on_tick (cww s))) in *.
    destruct (wheel_removes (map fst f) w1 HIw1) as (HIw2 & Hs2 & Hl2).
    destruct (TWP.abs_spwf (cww s) HIw) as [Hndw _].
    assert (Hfire : forall x, In x (map fst f) <-> exists y, wlk (cww s) x = Some (1, y)).
    { intros x. rewrite Hf1. split.
      - intros Hin. apply in_map_iff in Hin. destruct Hin as ([x' y] & Hx & Hin).
        simpl in Hx. subst x'. exists y. apply (TWP.sp_tick_fire_in x y _ Hndw). exact Hin.
      - intros (y & Hy). apply in_map_iff. exists (x, y). split; [reflexivity|].
        apply (TWP.sp_tick_fire_in x y _ Hndw). exact Hy. }
    assert (Hkeep : forall x, wlk w1 x =
              match wlk (cww s) x with
              | Some (r, y) => if r =? 1 then None else Some (r - 1, y)
              | None => None
              end).
    { intros x. unfold wlk. rewrite Ha1. apply TWP.sp_tick_keep_lookup. exact Hndw. }
    assert (Hsame : forall y, In y (map fst f) <-> In y (due_fired (rwdue r))).
    { intros y. rewrite Hfire, (fired_in y (rwdue r) Hnd), <- Hdue. split.
      - intros (z & Hz). rewrite Hz. reflexivity.
      - intros H. destruct (wlk (cww s) y) as [[r0 z]|]; [|discriminate].
        simpl in H. inversion H. exists z. reflexivity. }
    fold (due_fired (rwdue r)). fold (due_keep (rwdue r)).
    unfold RW. cbn [cwc cww cwmv rws rwdue].
    split.
    { rewrite (c_dels_ext (map fst f) (due_fired (rwdue r)) (cwc s) HIc Hsame). apply R_dels. exact HR. }
    split; [exact HG'|]. split; [exact Hmv|]. split; [apply nodup_keep; exact Hnd|].
    intros x. rewrite (dlk_keep x (rwdue r) Hnd), <- Hdue, Hl2, Hkeep.
    destruct (wlk (cww s) x) as [[r0 z]|] eqn:Hw; simpl.
    + destruct (Z.eqb_spec r0 1) as [E|E].
      * destruct (smem x (map fst f)); reflexivity.
      * assert (Hn : smem x (map fst f) = false).
        { apply smem_notin. intros Hin. apply Hfire in Hin. destruct Hin as (z' & Hz').
          rewrite Hw in Hz'. inversion Hz'. contradiction. }
        rewrite Hn. reflexivity.
    + destruct (smem x (map fst f)); reflexivity.
Qed.

(* ------------------------------------------------------------------ *)
(* histories, with the non-perturbing observations of Check.v           *)
Lemma RW_run : forall i ops s pend r, 1 <= i -> RW i s r -> forallb xx_in_scope ops = true ->
  cwx_run s pend ops = refwx_run i r ops.
Proof.
  intros i ops. induction ops as [|o ops IH]; intros s pend r Hi HRW Hsc; [reflexivity|].
  cbn [forallb] in Hsc. apply andb_true_iff in Hsc. destruct Hsc as [Ho Hsc].
  destruct o as [o| | | |]; try (simpl in Ho; discriminate Ho).
  - cbn [cwx_run refwx_run].
    assert (Hpos : match o with XSet _ _ d | XTake _ _ d => 0 < d | _ => True end).
    { destruct o; simpl in Ho; try exact I; apply Z.ltb_lt; exact Ho. }
    rewrite (cwx_step_pos s o Hpos).
    destruct (RW_step i s r o Hi HRW) as [Hobs HRW'].
    destruct (refw_step i r o) as [r' ob]. cbn [fst snd] in *. rewrite Hobs.
    rewrite (IH _ pend _ Hi HRW' Hsc). reflexivity.
  - cbn [cwx_run refwx_run]. destruct HRW as (HR & HRest). pose proof HR as (_ & Hd & _).
    rewrite Hd, keys_proj. rewrite (IH s pend r Hi (conj HR HRest) Hsc). reflexivity.
  - cbn [cwx_run refwx_run]. destruct HRW as (HR & HRest). pose proof HR as (_ & Hd & _).
    unfold alen. rewrite Hd, map_length. rewrite (IH s pend r Hi (conj HR HRest) Hsc). reflexivity.
Qed.

Theorem cachew_refines_stamp_reference_proof : forall limit n i ops, 1 <= n -> 1 <= i ->
  forallb xx_in_scope ops = true ->
  cwx_run (cw_new limit n i false) [] ops = refwx_run i (mkRefW (s_new limit) []) ops.
Proof.
  intros limit n i ops Hn Hi Hsc. apply RW_run; [exact Hi| |exact Hsc]. apply RW_new; assumption.
Qed.

Print Assumptions cachew_refines_stamp_reference_proof.
