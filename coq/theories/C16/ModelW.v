(* C16 - the in-memory Cache composed with C12's timing wheel (no proofs here).

   cache.go drives expiry through collection.TimingWheel:
     SetWithExpire : SetTimer(key, value, expiry) for a new key, MoveTimer(key, expiry)
                     for a key already in c.data (after the LRU add, whose eviction
                     calls RemoveTimer for the evicted key);
     Del           : RemoveTimer(key);
     wheel callback: cache.Del(key).
   Here the cache state of C16/Model.v is paired with the wheel model of C12/Model.v
   and expiry is no longer the oracle event CExpire but the wheel's own firing at a
   Tick (or at once, when MoveTimer is called with a delay below one interval).
   [cwmv] says whether a rewrite uses MoveTimer (the code as it stands) or SetTimer. *)
From Coq Require Import List ZArith Bool.
From GZ Require C12.Model.
From GZ Require Export C16.Model.
Import ListNotations.
Open Scope Z_scope.

Module TW := GZ.C12.Model.

Record cachew := mkCW { cwc : cache; cww : TW.state; cwmv : bool }.

Definition cw_new (limit slots interval : Z) (mv : bool) : cachew :=
  mkCW (c_new limit) (TW.init slots interval) mv.

Inductive xop :=
| XSet (k v d : Z)                    (* SetWithExpire(k, v, d); d = the (jittered) expiry *)
| XGet (k : Z)
| XDel (k : Z)
| XTake (k : Z) (fetch : option Z) (d : Z)   (* d = expiry used when the loaded value is stored *)
| XTick.                              (* the wheel's ticker fires once *)

(* RemoveTimer for each key evicted by the LRU (onEvict) *)
Definition tw_removes (w : TW.state) (ks : list Z) : TW.state :=
  fold_left TW.remove_task ks w.

(* the wheel's callback cache.Del(key) for each fired timer *)
Definition cw_callbacks (c : cache) (w : TW.state) (f : TW.fired) : cache * TW.state :=
  fold_left (fun cw kv => (c_del (fst cw) (fst kv), TW.remove_task (snd cw) (fst kv))) f (c, w).

(* SetWithExpire; returns the keys evicted by the LRU and the keys expired at once *)
Definition cw_set (s : cachew) (k v d : Z) : cachew * list Z * list Z :=
  let present := amem k (cdata (cwc s)) in
  let (c1, ev) := c_set (cwc s) k v in
  let w1 := tw_removes (cww s) ev in
  let (w2, f) := if present && cwmv s then TW.move_task w1 k d
                 else (TW.set_task w1 k v d, []) in
  let (c2, w3) := cw_callbacks c1 w2 f in
  (mkCW c2 w3 (cwmv s), ev, map fst f).

(* next state, observable, keys expired by the wheel during the operation *)
Definition cw_step (s : cachew) (o : xop) : cachew * obs * list Z :=
  match o with
  | XSet k v d => let '(s', _, ex) := cw_set s k v d in (s', OUnit, ex)
  | XGet k => let (c', r) := c_doget (cwc s) k in (mkCW c' (cww s) (cwmv s), OOpt r, [])
  | XDel k => (mkCW (c_del (cwc s) k) (TW.remove_task (cww s) k) (cwmv s), OUnit, [])
  | XTake k f d =>
    match c_doget (cwc s) k with
    | (c', Some v) => (mkCW c' (cww s) (cwmv s), OTake (Some v) false, [])
    | (c', None) =>
      match f with
      | Some v => let '(s', _, ex) := cw_set (mkCW c' (cww s) (cwmv s)) k v d in
                  (s', OTake (Some v) true, ex)
      | None => (mkCW c' (cww s) (cwmv s), OTake None true, [])
      end
    end
  | XTick =>
    let (w1, f) := TW.on_tick (cww s) in
    let (c2, w2) := cw_callbacks (cwc s) w1 f in
    (mkCW c2 w2 (cwmv s), OUnit, map fst f)
  end.

Fixpoint cw_run (s : cachew) (ops : list xop) : list obs :=
  match ops with
  | [] => []
  | o :: ops' => let '(s', r, _) := cw_step s o in r :: cw_run s' ops'
  end.

Fixpoint cw_final (s : cachew) (ops : list xop) : cachew :=
  match ops with
  | [] => s
  | o :: ops' => cw_final (fst (fst (cw_step s o))) ops'
  end.

(* the same history for the event-based cache model of C16/Model.v: an Expire k
   event exactly where the wheel fired k *)
Definition xop_events (o : xop) (expired : list Z) : list cop :=
  match o with
  | XSet k v _ => CSet k v :: map CExpire expired
  | XGet k => [CGet k]
  | XDel k => [CDel k]
  | XTake k f _ => CTake k f :: map CExpire expired
  | XTick => map CExpire expired
  end.

Fixpoint cw_trace (s : cachew) (ops : list xop) : list cop :=
  match ops with
  | [] => []
  | o :: ops' => let '(s', _, ex) := cw_step s o in xop_events o ex ++ cw_trace s' ops'
  end.

(* observables of the event-based model, the Expire events left out *)
Definition is_expire (o : cop) : bool := match o with CExpire _ => true | _ => false end.

Fixpoint c_run_visible (c : cache) (ops : list cop) : list obs :=
  match ops with
  | [] => []
  | o :: ops' =>
    let '(c', r, _) := c_step c o in
    if is_expire o then c_run_visible c' ops' else r :: c_run_visible c' ops'
  end.

Fixpoint xticks (ops : list xop) : Z :=
  match ops with
  | [] => 0
  | XTick :: ops' => 1 + xticks ops'
  | _ :: ops' => xticks ops'
  end.

(* operations that write or remove key k on purpose *)
Definition xwrites (k : Z) (o : xop) : bool :=
  match o with
  | XSet k' _ _ | XDel k' | XTake k' _ _ => k' =? k
  | _ => false
  end.

(* keys evicted by the LRU, per operation *)
Definition cw_evicted (s : cachew) (o : xop) : list Z :=
  match o with
  | XSet k v d => snd (fst (cw_set s k v d))
  | XTake k (Some v) d =>
    match c_doget (cwc s) k with
    | (c', None) => snd (fst (cw_set (mkCW c' (cww s) (cwmv s)) k v d))
    | _ => []
    end
  | _ => []
  end.

Fixpoint cw_never_evicts (s : cachew) (k : Z) (ops : list xop) : Prop :=
  match ops with
  | [] => True
  | o :: ops' => ~ In k (cw_evicted s o) /\ cw_never_evicts (fst (fst (cw_step s o))) k ops'
  end.

(* observables of the composed model, the (unit) observations of the Ticks left out:
   the event-based model has no operation corresponding to a Tick that fires nothing *)
Fixpoint cw_run_noticks (s : cachew) (ops : list xop) : list obs :=
  match ops with
  | [] => []
  | o :: ops' =>
    let '(s', r, _) := cw_step s o in
    match o with
    | XTick => cw_run_noticks s' ops'
    | _ => r :: cw_run_noticks s' ops'
    end
  end.
