(* C16 - search for a linearisation of a free-running (concurrent) history.
   Executable only; the correctness of the search (it answers true exactly when a
   linearisation exists) is proved in ProofsLin.v.

   One event = one call made by some goroutine: the operation, what it returned, and
   the values of one shared atomic counter read just before the call and just after
   the return.  If call a returned before call b was issued then lret a < lcall b.
   The object is linearisable on this history when the events can be put in SOME
   order that (1) never places an event before another one that had returned before
   it was called and (2) is a run of the sequential step function producing exactly
   the observed results. *)
From Coq Require Import List ZArith Bool.
From GZ Require Import Lib.CheckLib C16.Model.
Import ListNotations.
Open Scope Z_scope.

Record lev (Op : Type) := mkLev { lcall : Z; lret : Z; lop : Op; lobs : obs }.
Arguments mkLev {Op} _ _ _ _.
Arguments lcall {Op} _.
Arguments lret {Op} _.
Arguments lop {Op} _.
Arguments lobs {Op} _.

(* equality of observables; the iteration order of Go maps is not observable *)
Definition obs_eqb (a b : obs) : bool :=
  match a, b with
  | OUnit, OUnit => true
  | OBool x, OBool y => Bool.eqb x y
  | ONum x, ONum y => x =? y
  | OOpt x, OOpt y => opt_eqb Z.eqb x y
  | OList x, OList y => zs_eqb x y
  | OPairs x, OPairs y => pairs_eqb x y
  | OTake x lx, OTake y ly => opt_eqb Z.eqb x y && Bool.eqb lx ly
  | _, _ => false
  end.

Definition canon_obs (o : obs) : obs :=
  match o with
  | OPairs l => OPairs (sort_pairs l)
  | OList l => OList (sort_z l)
  | _ => o
  end.

(* e may come first among the pending events: none of them returned before e was called
   (for e itself: it was not returned before it was called) *)
Definition lin_minimal {Op} (e : lev Op) (pending : list (lev Op)) : bool :=
  forallb (fun e' => negb (lret e' <? lcall e)) pending.

(* every way of taking one element out of a list *)
Fixpoint picks {A} (l : list A) : list (A * list A) :=
  match l with
  | [] => []
  | x :: l' => (x, l') :: map (fun p => (fst p, x :: snd p)) (picks l')
  end.

Section Search.
  Context {St Op : Type}.
  Variable step : St -> Op -> St * obs.
  (* canon = true: results that are sets (Range, Keys) are compared up to order *)
  Variable canon : bool.

  Definition obs_match (model seen : obs) : bool :=
    if canon then obs_eqb (canon_obs model) (canon_obs seen) else obs_eqb model seen.

  (* [if] rather than [&&] / [existsb]: vm_compute evaluates the arguments of a function call
     before the call, and the search must stop at the first order that works *)
  Fixpoint any_pick {A} (f : A -> bool) (l : list A) : bool :=
    match l with
    | [] => false
    | p :: l' => if f p then true else any_pick f l'
    end.

  Fixpoint lin_search (fuel : nat) (st : St) (pending : list (lev Op)) : bool :=
    match pending with
    | [] => true
    | _ :: _ =>
      match fuel with
      | O => false
      | S f =>
        any_pick (fun p =>
                    if lin_minimal (fst p) pending then
                      let (st', r) := step st (lop (fst p)) in
                      if obs_match r (lobs (fst p)) then lin_search f st' (snd p) else false
                    else false)
                 (picks pending)
      end
    end.

  Definition linearisable_b (st : St) (evs : list (lev Op)) : bool :=
    lin_search (length evs) st evs.

  (* state after a sequential prefix *)
  Definition run_pre (st : St) (pre : list Op) : St :=
    fold_left (fun s o => fst (step s o)) pre st.
End Search.
