(* C16 - machine-checked proofs about the SafeMap and Set models of C16/Model.v:
   - safemap_refines_map_proof : SafeMap (two maps + deletion counters + migration)
     is observationally a single map, for every threshold configuration;
   - safemap_keys_unique : a key never lives in dirtyOld and dirtyNew at once;
   - set_is_set_proof : Set agrees with the history-based specification. *)
From Coq Require Import List ZArith Bool Lia Permutation.
From GZ Require Import C16.Model.
Import ListNotations. Open Scope Z_scope.

(* ------------------------------------------------------------------ *)
(* generic list facts                                                  *)

Lemma perm_filter {A : Type} (f : A -> bool) (l l' : list A) :
  Permutation l l' -> Permutation (filter f l) (filter f l').
Proof.
  intros HP.
  induction HP as [| x l l' HP IH | x y l | l l' l'' HP1 IH1 HP2 IH2]; simpl.
  - apply perm_nil.
  - destruct (f x); [apply perm_skip; exact IH | exact IH].
  - destruct (f x); destruct (f y);
      first [apply perm_swap | apply Permutation_refl].
  - eapply perm_trans; [exact IH1 | exact IH2].
Qed.

Lemma nodup_app_disj {A : Type} (l1 l2 : list A) (x : A) :
  NoDup (l1 ++ l2) -> In x l1 -> ~ In x l2.
Proof.
  induction l1 as [| y l1 IH]; simpl; intros HN HI; [contradiction |].
  inversion HN as [| z zs HNI HN']; subst.
  destruct HI as [HI | HI].
  - subst y. intros H2. apply HNI. apply in_or_app. right; exact H2.
  - apply IH; [exact HN' | exact HI].
Qed.

(* ------------------------------------------------------------------ *)
(* association lists                                                   *)

Lemma alookup_none_iff k l : alookup k l = None <-> ~ In k (map fst l).
Proof.
  induction l as [| [k' v'] l IH]; simpl.
  - split; [intros _ H; exact H | reflexivity].
  - destruct (k' =? k) eqn:E.
    + apply Z.eqb_eq in E. split; [discriminate |].
      intros H. exfalso. apply H. left; exact E.
    + apply Z.eqb_neq in E. rewrite IH. tauto.
Qed.

Lemma alookup_some_in k v l : alookup k l = Some v -> In (k, v) l.
Proof.
  induction l as [| [k' v'] l IH]; simpl; intros H.
  - discriminate.
  - destruct (k' =? k) eqn:E.
    + apply Z.eqb_eq in E. inversion H; subst. left; reflexivity.
    + right. apply IH; exact H.
Qed.

Lemma alookup_in_nodup k v l :
  NoDup (map fst l) -> In (k, v) l -> alookup k l = Some v.
Proof.
  induction l as [| [k' v'] l IH]; simpl; intros HN HI.
  - contradiction.
  - inversion HN as [| x xs HNI HN']; subst.
    destruct HI as [HI | HI].
    + inversion HI; subst. rewrite Z.eqb_refl. reflexivity.
    + destruct (k' =? k) eqn:E.
      * apply Z.eqb_eq in E. subst k'. exfalso. apply HNI.
        apply in_map_iff. exists (k, v). split; [reflexivity | exact HI].
      * apply IH; [exact HN' | exact HI].
Qed.

Lemma alookup_app k l1 l2 :
  alookup k (l1 ++ l2) =
  match alookup k l1 with Some v => Some v | None => alookup k l2 end.
Proof.
  induction l1 as [| [k' v'] l1 IH]; simpl; [reflexivity |].
  destruct (k' =? k); [reflexivity | exact IH].
Qed.

Lemma aremove_app k l1 l2 : aremove k (l1 ++ l2) = aremove k l1 ++ aremove k l2.
Proof. unfold aremove. apply filter_app. Qed.

Lemma aremove_notin k l : ~ In k (map fst l) -> aremove k l = l.
Proof.
  unfold aremove.
  induction l as [| [k' v'] l IH]; simpl; intros H; [reflexivity |].
  destruct (k' =? k) eqn:E; simpl.
  - apply Z.eqb_eq in E. exfalso. apply H. left; exact E.
  - f_equal. apply IH. intros HI. apply H. right; exact HI.
Qed.

Lemma in_keys_aremove k k' l :
  In k' (map fst (aremove k l)) <-> In k' (map fst l) /\ k' <> k.
Proof.
  unfold aremove. rewrite !in_map_iff. split.
  - intros [p [Hp HI]]. apply filter_In in HI. destruct HI as [HI Hb].
    apply negb_true_iff in Hb. apply Z.eqb_neq in Hb.
    split; [exists p; split; [exact Hp | exact HI] | subst k'; exact Hb].
  - intros [[p [Hp HI]] Hne]. exists p. split; [exact Hp |].
    apply filter_In. split; [exact HI |].
    apply negb_true_iff. apply Z.eqb_neq. subst k'. exact Hne.
Qed.

Lemma nodup_keys_aremove k l : NoDup (map fst l) -> NoDup (map fst (aremove k l)).
Proof.
  induction l as [| [k' v'] l IH]; intros HN; [exact HN |].
  simpl in HN. inversion HN as [| x xs HNI HN']; subst.
  change (aremove k ((k', v') :: l))
    with (if negb (k' =? k) then (k', v') :: aremove k l else aremove k l).
  destruct (k' =? k); simpl.
  - apply IH; exact HN'.
  - constructor; [| apply IH; exact HN'].
    intros HI. apply HNI.
    pose proof (proj1 (in_keys_aremove k k' l) HI) as [H1 _]. exact H1.
Qed.

Lemma aset_notin k v l : ~ In k (map fst l) -> aset k v l = (k, v) :: l.
Proof. intros H. unfold aset. rewrite (aremove_notin k l H). reflexivity. Qed.

Lemma amem_false k l : amem k l = false -> ~ In k (map fst l).
Proof.
  unfold amem. intros H. apply alookup_none_iff.
  destruct (alookup k l); [discriminate | reflexivity].
Qed.

Lemma amem_true k l : amem k l = true -> In k (map fst l).
Proof.
  unfold amem. intros H.
  destruct (alookup k l) as [v |] eqn:E; [| discriminate].
  apply alookup_some_in in E. apply in_map_iff.
  exists (k, v). split; [reflexivity | exact E].
Qed.

Lemma nodup_keys_perm (l l' : amap) :
  Permutation l l' -> NoDup (map fst l) -> NoDup (map fst l').
Proof.
  intros HP HN.
  eapply Permutation_NoDup; [apply Permutation_map; exact HP | exact HN].
Qed.

(* the concrete contents l represent the abstract map a *)
Definition Rl (l a : amap) : Prop := NoDup (map fst l) /\ Permutation l a.

Lemma Rl_perm l l' a : Permutation l' l -> Rl l a -> Rl l' a.
Proof.
  intros HP [HN HA]. split.
  - eapply nodup_keys_perm; [apply Permutation_sym; exact HP | exact HN].
  - eapply perm_trans; [exact HP | exact HA].
Qed.

Lemma Rl_aremove k l a : Rl l a -> Rl (aremove k l) (aremove k a).
Proof.
  intros [HN HP]. split.
  - apply nodup_keys_aremove; exact HN.
  - unfold aremove. apply perm_filter; exact HP.
Qed.

Lemma Rl_aset k v l a : Rl l a -> Rl (aset k v l) (aset k v a).
Proof.
  intros HR. destruct (Rl_aremove k l a HR) as [HN HP]. unfold aset. split.
  - simpl. constructor; [| exact HN].
    intros HI. apply in_keys_aremove in HI. destruct HI as [_ Hne].
    apply Hne; reflexivity.
  - apply perm_skip. exact HP.
Qed.

Lemma Rl_lookup k l a : Rl l a -> alookup k l = alookup k a.
Proof.
  intros [HN HP]. pose proof (nodup_keys_perm l a HP HN) as HNa.
  destruct (alookup k l) as [v |] eqn:E.
  - symmetry. apply alookup_in_nodup; [exact HNa |].
    eapply Permutation_in; [exact HP |]. apply alookup_some_in; exact E.
  - symmetry. apply alookup_none_iff. apply alookup_none_iff in E.
    intros HI. apply E.
    eapply Permutation_in;
      [apply Permutation_sym; apply Permutation_map; exact HP | exact HI].
Qed.

Lemma Rl_length l a : Rl l a -> length l = length a.
Proof. intros [_ HP]. apply Permutation_length; exact HP. Qed.

(* for k, v := range src { dst[k] = v } with disjoint key sets *)
Lemma acopy_cons k v src dst : acopy ((k, v) :: src) dst = acopy src (aset k v dst).
Proof. reflexivity. Qed.

Lemma acopy_perm src :
  forall dst, NoDup (map fst (src ++ dst)) -> Permutation (acopy src dst) (src ++ dst).
Proof.
  induction src as [| [k v] src IH]; intros dst HN.
  - apply Permutation_refl.
  - rewrite acopy_cons.
    assert (Hk : ~ In k (map fst dst)).
    { simpl in HN. inversion HN as [| x xs HNI HN']; subst.
      intros H. apply HNI. rewrite map_app. apply in_or_app. right; exact H. }
    rewrite (aset_notin k v dst Hk).
    eapply perm_trans.
    + apply IH. eapply nodup_keys_perm; [| exact HN].
      simpl. apply Permutation_middle.
    + simpl. apply Permutation_sym. apply Permutation_middle.
Qed.

(* ------------------------------------------------------------------ *)
(* SafeMap                                                             *)

Definition cat (m : safemap) : amap := dirtyOld m ++ dirtyNew m.

(* suggested invariant: keys unique across both maps, contents = abstract map *)
Definition R (m : safemap) (a : amap) : Prop := Rl (cat m) a.

Lemma sm_set_R cfg m a k v : R m a -> R (sm_set cfg m k v) (aset k v a).
Proof.
  unfold R, cat. intros HR.
  assert (Hkey1 : Rl (aset k v (dirtyOld m) ++ aremove k (dirtyNew m)) (aset k v a)).
  { replace (aset k v (dirtyOld m) ++ aremove k (dirtyNew m))
      with (aset k v (dirtyOld m ++ dirtyNew m))
      by (unfold aset; rewrite aremove_app; reflexivity).
    apply Rl_aset; exact HR. }
  assert (Hkey2 : Rl (aremove k (dirtyOld m) ++ aset k v (dirtyNew m)) (aset k v a)).
  { eapply Rl_perm; [| apply Rl_aset; exact HR].
    unfold aset. rewrite aremove_app.
    apply Permutation_sym. apply Permutation_middle. }
  unfold sm_set.
  destruct (delOld m <=? maxDeletion cfg).
  - destruct (amem k (dirtyNew m)) eqn:E.
    + exact Hkey1.
    + rewrite (aremove_notin k (dirtyNew m) (amem_false _ _ E)) in Hkey1.
      exact Hkey1.
  - destruct (amem k (dirtyOld m)) eqn:E.
    + exact Hkey2.
    + rewrite (aremove_notin k (dirtyOld m) (amem_false _ _ E)) in Hkey2.
      exact Hkey2.
Qed.

(* sm_del = delete, then the two migration checks *)
Definition del1 (m : safemap) (k : Z) : safemap :=
  if amem k (dirtyOld m)
  then mkSM (delOld m + 1) (delNew m) (aremove k (dirtyOld m)) (dirtyNew m)
  else if amem k (dirtyNew m)
  then mkSM (delOld m) (delNew m + 1) (dirtyOld m) (aremove k (dirtyNew m))
  else m.

Definition mig1 (cfg : smcfg) (m1 : safemap) : safemap :=
  if (maxDeletion cfg <=? delOld m1) && (alen (dirtyOld m1) <? copyThreshold cfg)
  then mkSM (delNew m1) 0 (acopy (dirtyOld m1) (dirtyNew m1)) []
  else m1.

Definition mig2 (cfg : smcfg) (m2 : safemap) : safemap :=
  if (maxDeletion cfg <=? delNew m2) && (alen (dirtyNew m2) <? copyThreshold cfg)
  then mkSM (delOld m2) 0 (acopy (dirtyNew m2) (dirtyOld m2)) []
  else m2.

Lemma sm_del_eq cfg m k : sm_del cfg m k = mig2 cfg (mig1 cfg (del1 m k)).
Proof. reflexivity. Qed.

Lemma del1_R m a k : R m a -> R (del1 m k) (aremove k a).
Proof.
  unfold R, cat. intros HR.
  assert (Hkey : Rl (aremove k (dirtyOld m) ++ aremove k (dirtyNew m)) (aremove k a)).
  { rewrite <- aremove_app. apply Rl_aremove; exact HR. }
  unfold del1.
  destruct (amem k (dirtyOld m)) eqn:E1.
  - assert (Hn : ~ In k (map fst (dirtyNew m))).
    { apply (nodup_app_disj (map fst (dirtyOld m))).
      - rewrite <- map_app. exact (proj1 HR).
      - apply amem_true; exact E1. }
    rewrite (aremove_notin k (dirtyNew m) Hn) in Hkey. exact Hkey.
  - rewrite (aremove_notin k (dirtyOld m) (amem_false _ _ E1)) in Hkey.
    destruct (amem k (dirtyNew m)) eqn:E2.
    + exact Hkey.
    + rewrite (aremove_notin k (dirtyNew m) (amem_false _ _ E2)) in Hkey.
      exact Hkey.
Qed.

Lemma mig1_R cfg m a : R m a -> R (mig1 cfg m) a.
Proof.
  unfold R, cat. intros HR. unfold mig1.
  destruct ((maxDeletion cfg <=? delOld m) && (alen (dirtyOld m) <? copyThreshold cfg)).
  - change (Rl (acopy (dirtyOld m) (dirtyNew m) ++ []) a).
    rewrite app_nil_r.
    eapply Rl_perm; [apply acopy_perm; exact (proj1 HR) | exact HR].
  - exact HR.
Qed.

Lemma mig2_R cfg m a : R m a -> R (mig2 cfg m) a.
Proof.
  unfold R, cat. intros HR. unfold mig2.
  destruct ((maxDeletion cfg <=? delNew m) && (alen (dirtyNew m) <? copyThreshold cfg)).
  - change (Rl (acopy (dirtyNew m) (dirtyOld m) ++ []) a).
    rewrite app_nil_r.
    eapply Rl_perm; [| exact HR].
    eapply perm_trans; [| apply Permutation_app_comm].
    apply acopy_perm.
    eapply nodup_keys_perm; [apply Permutation_app_comm | exact (proj1 HR)].
  - exact HR.
Qed.

Lemma sm_del_R cfg m a k : R m a -> R (sm_del cfg m k) (aremove k a).
Proof.
  intros HR. rewrite sm_del_eq. apply mig2_R. apply mig1_R. apply del1_R. exact HR.
Qed.

Lemma sm_get_lookup m a k : R m a -> sm_get m k = alookup k a.
Proof.
  intros HR. rewrite <- (Rl_lookup k _ _ HR). unfold cat, sm_get.
  rewrite alookup_app. reflexivity.
Qed.

Lemma sm_size_len m a : R m a -> alen (dirtyOld m) + alen (dirtyNew m) = alen a.
Proof.
  intros HR. unfold alen. rewrite <- (Rl_length _ _ HR). unfold cat.
  rewrite app_length. lia.
Qed.

Lemma sm_step_R cfg m a o :
  R m a ->
  R (fst (sm_step cfg m o)) (fst (map_step a o)) /\
  obs_equiv (snd (sm_step cfg m o)) (snd (map_step a o)).
Proof.
  intros HR. destruct o as [k v | k | k | |]; cbn [sm_step map_step fst snd].
  - split; [apply sm_set_R; exact HR | apply oe_refl].
  - split; [exact HR |]. rewrite (sm_get_lookup m a k HR). apply oe_refl.
  - split; [apply sm_del_R; exact HR | apply oe_refl].
  - split; [exact HR |]. rewrite (sm_size_len m a HR). apply oe_refl.
  - split; [exact HR |]. apply oe_pairs. exact (proj2 HR).
Qed.

Lemma sm_run_cons cfg m o ops :
  sm_run cfg m (o :: ops) =
  snd (sm_step cfg m o) :: sm_run cfg (fst (sm_step cfg m o)) ops.
Proof.
  change (sm_run cfg m (o :: ops))
    with (let (m', r) := sm_step cfg m o in r :: sm_run cfg m' ops).
  destruct (sm_step cfg m o) as [m' r]. reflexivity.
Qed.

Lemma map_run_cons a o ops :
  map_run a (o :: ops) =
  snd (map_step a o) :: map_run (fst (map_step a o)) ops.
Proof.
  change (map_run a (o :: ops))
    with (let (a', r) := map_step a o in r :: map_run a' ops).
  destruct (map_step a o) as [a' r]. reflexivity.
Qed.

Lemma sm_run_R cfg ops :
  forall m a, R m a -> Forall2 obs_equiv (sm_run cfg m ops) (map_run a ops).
Proof.
  induction ops as [| o ops IH]; intros m a HR.
  - apply Forall2_nil.
  - rewrite sm_run_cons, map_run_cons.
    destruct (sm_step_R cfg m a o HR) as [HR' Ho].
    apply Forall2_cons; [exact Ho | apply IH; exact HR'].
Qed.

Lemma R_new : R sm_new [].
Proof. split; simpl; [apply NoDup_nil | apply perm_nil]. Qed.

Theorem safemap_refines_map_proof : forall cfg ops,
  Forall2 obs_equiv (sm_run cfg sm_new ops) (map_run [] ops).
Proof. intros cfg ops. apply sm_run_R. exact R_new. Qed.

(* final state after a run *)
Fixpoint sm_final (cfg : smcfg) (m : safemap) (ops : list smop) : safemap :=
  match ops with
  | [] => m
  | o :: ops' => sm_final cfg (fst (sm_step cfg m o)) ops'
  end.

Fixpoint map_final (a : amap) (ops : list smop) : amap :=
  match ops with
  | [] => a
  | o :: ops' => map_final (fst (map_step a o)) ops'
  end.

Lemma sm_final_R cfg ops :
  forall m a, R m a -> R (sm_final cfg m ops) (map_final a ops).
Proof.
  induction ops as [| o ops IH]; intros m a HR.
  - exact HR.
  - change (R (sm_final cfg (fst (sm_step cfg m o)) ops)
              (map_final (fst (map_step a o)) ops)).
    apply IH. exact (proj1 (sm_step_R cfg m a o HR)).
Qed.

Theorem safemap_keys_unique : forall cfg ops m,
  m = sm_final cfg sm_new ops -> NoDup (map fst (dirtyOld m ++ dirtyNew m)).
Proof.
  intros cfg ops m Hm. subst m.
  exact (proj1 (sm_final_R cfg ops sm_new [] R_new)).
Qed.

(* the final contents are exactly the abstract map's (up to order) *)
Theorem safemap_final_contents : forall cfg ops,
  Permutation (dirtyOld (sm_final cfg sm_new ops) ++ dirtyNew (sm_final cfg sm_new ops))
              (map_final [] ops).
Proof.
  intros cfg ops. exact (proj2 (sm_final_R cfg ops sm_new [] R_new)).
Qed.

(* ------------------------------------------------------------------ *)
(* Set                                                                 *)

Lemma smem_true_iff k s : smem k s = true <-> In k s.
Proof.
  unfold smem. rewrite existsb_exists. split.
  - intros [x [HI He]]. apply Z.eqb_eq in He. subst x. exact HI.
  - intros HI. exists k. split; [exact HI | apply Z.eqb_refl].
Qed.

Lemma member_spec_app l1 :
  forall l2 k init,
    member_spec (l1 ++ l2) k init = member_spec l2 k (member_spec l1 k init).
Proof.
  induction l1 as [| o l1 IH]; intros l2 k init; [reflexivity |].
  destruct o; simpl; apply IH.
Qed.

Lemma member_spec_mentioned pre :
  forall k init, member_spec pre k init = true -> init = true \/ In k (mentioned pre).
Proof.
  induction pre as [| o pre IH]; intros k init H.
  - left; exact H.
  - destruct o as [k' | k' | k' | | | t]; simpl in H; simpl.
    + apply IH in H. destruct H as [H | H]; [| right; right; exact H].
      destruct (k' =? k) eqn:E.
      * apply Z.eqb_eq in E. right; left; exact E.
      * left; exact H.
    + apply IH in H. destruct H as [H | H]; [| right; exact H].
      destruct (k' =? k); [discriminate | left; exact H].
    + apply IH in H; exact H.
    + apply IH in H; exact H.
    + apply IH in H; exact H.
    + apply IH in H; exact H.
Qed.

Lemma dedup_in x l : In x (dedup l) <-> In x l.
Proof.
  induction l as [| y l IH]; simpl; [tauto |].
  destruct (smem y l) eqn:E.
  - rewrite IH. apply smem_true_iff in E. split; [tauto |].
    intros [H | H]; [subst; exact E | exact H].
  - simpl. rewrite IH. tauto.
Qed.

Lemma dedup_nodup l : NoDup (dedup l).
Proof.
  induction l as [| y l IH]; simpl; [apply NoDup_nil |].
  destruct (smem y l) eqn:E; [exact IH |].
  constructor; [| exact IH].
  rewrite dedup_in. intros HI. apply smem_true_iff in HI. congruence.
Qed.

Lemma members_in pre k : In k (members pre) <-> member_spec pre k false = true.
Proof.
  unfold members. rewrite filter_In, dedup_in. split; [tauto |].
  intros H. split; [| exact H].
  apply member_spec_mentioned in H. destruct H as [H | H]; [discriminate | exact H].
Qed.

Lemma members_nodup pre : NoDup (members pre).
Proof. unfold members. apply NoDup_filter. apply dedup_nodup. Qed.

(* invariant linking the concrete set to the history *)
Definition SInv (pre : list sop) (s : list Z) : Prop :=
  NoDup s /\ forall k, In k s <-> member_spec pre k false = true.

Lemma SInv_perm pre s : SInv pre s -> Permutation s (members pre).
Proof.
  intros [HN HI]. apply NoDup_Permutation; [exact HN | apply members_nodup |].
  intros k. rewrite HI, members_in. tauto.
Qed.

Lemma SInv_step pre s o : SInv pre s -> SInv (pre ++ [o]) (fst (set_step s o)).
Proof.
  intros [HN HI].
  destruct o as [k | k | k | | | t]; cbn [set_step fst].
  - (* SAdd *)
    split.
    + unfold sadd. destruct (smem k s) eqn:E; [exact HN |].
      constructor; [| exact HN]. rewrite <- smem_true_iff. congruence.
    + intros k'. rewrite member_spec_app. cbn [member_spec].
      unfold sadd. destruct (smem k s) eqn:E; destruct (k =? k') eqn:E2.
      * apply Z.eqb_eq in E2. subst k'. apply smem_true_iff in E.
        split; [reflexivity | intros _; exact E].
      * apply HI.
      * apply Z.eqb_eq in E2. split; [reflexivity | intros _; left; exact E2].
      * apply Z.eqb_neq in E2. simpl. rewrite <- HI. tauto.
  - (* SRemove *)
    split.
    + unfold sremove. apply NoDup_filter. exact HN.
    + intros k'. rewrite member_spec_app. cbn [member_spec].
      unfold sremove. rewrite filter_In.
      destruct (k =? k') eqn:E2.
      * apply Z.eqb_eq in E2. subst k'. rewrite Z.eqb_refl. simpl.
        split; [intros [_ H]; discriminate | discriminate].
      * rewrite (Z.eqb_sym k' k), E2. simpl. rewrite HI.
        split; [intros [H _]; exact H | intros H; split; [exact H | reflexivity]].
  - split; [exact HN |]. intros k'. rewrite member_spec_app. apply HI.
  - split; [exact HN |]. intros k'. rewrite member_spec_app. apply HI.
  - split; [exact HN |]. intros k'. rewrite member_spec_app. apply HI.
  - split; [exact HN |]. intros k'. rewrite member_spec_app. apply HI.
Qed.

Lemma SInv_obs pre s o :
  SInv pre s -> obs_equiv (snd (set_step s o)) (set_spec_obs pre o).
Proof.
  intros HInv. pose proof (SInv_perm pre s HInv) as HP. destruct HInv as [HN HI].
  destruct o as [k | k | k | | | t]; cbn [set_step snd set_spec_obs].
  - apply oe_refl.
  - apply oe_refl.
  - replace (smem k s) with (member_spec pre k false); [apply oe_refl |].
    symmetry. apply eq_true_iff_eq. rewrite smem_true_iff. apply HI.
  - rewrite (Permutation_length HP). apply oe_refl.
  - apply oe_list. exact HP.
  - apply oe_list. apply perm_filter. exact HP.
Qed.

Lemma set_run_cons s o ops :
  set_run s (o :: ops) = snd (set_step s o) :: set_run (fst (set_step s o)) ops.
Proof.
  change (set_run s (o :: ops))
    with (let (s', r) := set_step s o in r :: set_run s' ops).
  destruct (set_step s o) as [s' r]. reflexivity.
Qed.

Lemma set_run_inv ops :
  forall pre s, SInv pre s -> Forall2 obs_equiv (set_run s ops) (set_spec_run pre ops).
Proof.
  induction ops as [| o ops IH]; intros pre s HInv.
  - apply Forall2_nil.
  - rewrite set_run_cons.
    change (set_spec_run pre (o :: ops))
      with (set_spec_obs pre o :: set_spec_run (pre ++ [o]) ops).
    apply Forall2_cons.
    + apply SInv_obs; exact HInv.
    + apply IH. apply SInv_step; exact HInv.
Qed.

Lemma SInv_nil : SInv [] [].
Proof.
  split; [apply NoDup_nil |]. intros k. simpl. split; [contradiction | discriminate].
Qed.

Theorem set_is_set_proof : forall ops,
  Forall2 obs_equiv (set_run [] ops) (set_spec_run [] ops).
Proof. intros ops. apply set_run_inv. exact SInv_nil. Qed.

(* the invariant at the end of any run: no duplicates, membership = history *)
Theorem set_final_inv : forall ops,
  NoDup (set_final [] ops) /\
  forall k, In k (set_final [] ops) <-> member_spec ops k false = true.
Proof.
  assert (H : forall ops pre s, SInv pre s -> SInv (pre ++ ops) (set_final s ops)).
  { induction ops as [| o ops IH]; intros pre s HInv.
    - rewrite app_nil_r. exact HInv.
    - change (set_final s (o :: ops)) with (set_final (fst (set_step s o)) ops).
      replace (pre ++ o :: ops) with ((pre ++ [o]) ++ ops)
        by (rewrite <- app_assoc; reflexivity).
      apply IH. apply SInv_step; exact HInv. }
  intros ops. exact (H ops [] [] SInv_nil).
Qed.

Print Assumptions safemap_refines_map_proof.
Print Assumptions safemap_keys_unique.
Print Assumptions set_is_set_proof.
