(* C16 - the cache composed with the wheel when a rewrite uses SetTimer (the code after
   the repair of the sub-interval rewrite defect, cache_rewrite_uses_move_timer = false):
   SetTimer clamps an expiry below one wheel interval to one interval, for a new key and
   for a rewrite alike, so the theorems of ProofsW.v hold for EVERY expiry with
   max d interval in place of d. *)
From Coq Require Import List ZArith Bool Lia.
From GZ Require C12.Model C12.Proofs.
From GZ Require Import C16.Model C16.ProofsCache C16.ModelW C16.ProofsW.
Import ListNotations. Open Scope Z_scope.

Lemma set_task_clamp : forall w k v d,
  TW.set_task w k v d = TW.set_task w k v (Z.max d (TW.sint w)).
Proof.
  intros w k v d. unfold TW.set_task.
  replace (Z.max (Z.max d (TW.sint w)) (TW.sint w)) with (Z.max d (TW.sint w)) by lia.
  reflexivity.
Qed.

Lemma tw_removes_sint : forall ks w, TW.sint (tw_removes w ks) = TW.sint w.
Proof.
  intros ks. induction ks as [|a ks IH]; intros w; [reflexivity|].
  unfold tw_removes in *. simpl. rewrite IH. reflexivity.
Qed.

Lemma cw_set_clamp : forall s k v d, cwmv s = false ->
  cw_set s k v d = cw_set s k v (Z.max d (TW.sint (cww s))).
Proof.
  intros s k v d Hmv. unfold cw_set. rewrite Hmv, andb_false_r.
  destruct (c_set (cwc s) k v) as [c1 ev].
  rewrite (set_task_clamp (tw_removes (cww s) ev) k v d), tw_removes_sint. reflexivity.
Qed.

Lemma cw_step_mv : forall s o, cwmv (fst (fst (cw_step s o))) = cwmv s.
Proof.
  intros s o. destruct o as [k v d|k|k|k f d|].
  - rewrite cw_step_set. cbn [fst]. rewrite cw_set_eq. reflexivity.
  - rewrite cw_step_get. reflexivity.
  - reflexivity.
  - cbn [cw_step]. destruct (c_doget (cwc s) k) as [c' [x|]]; [reflexivity|].
    destruct f as [x|]; [|reflexivity].
    pose proof (cw_set_eq (mkCW c' (cww s) (cwmv s)) k x d) as E.
    destruct (cw_set (mkCW c' (cww s) (cwmv s)) k x d) as [[s' ev] ex].
    inversion E. reflexivity.
  - rewrite cw_step_tick. reflexivity.
Qed.

Lemma cw_final_mv : forall ops s, cwmv (cw_final s ops) = cwmv s.
Proof.
  intros ops. induction ops as [|o ops IH]; intros s; [reflexivity|].
  cbn [cw_final]. rewrite IH. apply cw_step_mv.
Qed.

Lemma final_set_clamp : forall limit n i pre k v d, 1 <= n -> 1 <= i ->
  cw_final (cw_new limit n i false) (pre ++ [XSet k v d]) =
  cw_final (cw_new limit n i false) (pre ++ [XSet k v (Z.max d i)]).
Proof.
  intros limit n i pre k v d Hn Hi. rewrite !cw_final_app. cbn [cw_final].
  rewrite !cw_step_set. cbn [fst].
  set (s0 := cw_final (cw_new limit n i false) pre).
  assert (HG : G i s0) by (apply G_final, G_new; assumption).
  assert (Hmv : cwmv s0 = false) by (unfold s0; rewrite cw_final_mv; reflexivity).
  destruct HG as (_ & _ & Hsi & _).
  rewrite (cw_set_clamp s0 k v d Hmv), Hsi. reflexivity.
Qed.

Theorem cache_entry_expires_clamped_proof : forall limit n i pre k v d a,
  1 <= n -> 1 <= i ->
  let s1 := cw_final (cw_new limit n i false) (pre ++ [XSet k v d]) in
  forallb (fun o => negb (xwrites k o)) a = true ->
  cw_never_evicts s1 k a ->
  alookup k (cdata (cwc (cw_final s1 a))) = if xticks a <? Z.max d i / i then Some v else None.
Proof.
  intros limit n i pre k v d a Hn Hi s1 Ha Hev. unfold s1 in *.
  rewrite (final_set_clamp limit n i pre k v d Hn Hi) in *.
  apply cache_entry_expires_at_due_tick_proof; try assumption. lia.
Qed.

Theorem cache_rewrite_clamped_proof : forall limit n i pre k v0 d0 mid v d a,
  1 <= n -> 1 <= i ->
  let s0 := cw_final (cw_new limit n i false) (pre ++ XSet k v0 d0 :: mid) in
  amem k (cdata (cwc s0)) = true ->
  let s1 := cw_final s0 [XSet k v d] in
  forallb (fun o => negb (xwrites k o)) a = true ->
  cw_never_evicts s1 k a ->
  alookup k (cdata (cwc (cw_final s1 a))) = if xticks a <? Z.max d i / i then Some v else None.
Proof.
  intros limit n i pre k v0 d0 mid v d a Hn Hi s0 Hm s1 Ha Hev.
  assert (Hs1 : s1 = cw_final (cw_new limit n i false) ((pre ++ XSet k v0 d0 :: mid) ++ [XSet k v d])).
  { unfold s1, s0. symmetry. apply cw_final_app. }
  rewrite Hs1 in *.
  apply (cache_entry_expires_clamped_proof limit n i (pre ++ XSet k v0 d0 :: mid) k v d a);
    assumption.
Qed.

(* in particular a rewrite never loses the entry before the first tick *)
Corollary cache_rewrite_survives_until_tick_proof : forall limit n i pre k v0 d0 mid v d a,
  1 <= n -> 1 <= i ->
  let s0 := cw_final (cw_new limit n i false) (pre ++ XSet k v0 d0 :: mid) in
  amem k (cdata (cwc s0)) = true ->
  let s1 := cw_final s0 [XSet k v d] in
  forallb (fun o => negb (xwrites k o)) a = true ->
  cw_never_evicts s1 k a ->
  xticks a = 0 ->
  alookup k (cdata (cwc (cw_final s1 a))) = Some v.
Proof.
  intros limit n i pre k v0 d0 mid v d a Hn Hi s0 Hm s1 Ha Hev Ht.
  pose proof (cache_rewrite_clamped_proof limit n i pre k v0 d0 mid v d a Hn Hi Hm Ha Hev) as H.
  fold s0 in H. fold s1 in H. rewrite H, Ht.
  assert (1 <= Z.max d i / i) by (apply TWP.steps_ge_1; lia).
  destruct (Z.ltb_spec 0 (Z.max d i / i)); [reflexivity|lia].
Qed.

Print Assumptions cache_entry_expires_clamped_proof.
Print Assumptions cache_rewrite_clamped_proof.
