(* C16 - proofs about the in-memory cache model (cache.go: data map + keyLru).
   A: the cache never holds more than `limit` entries (and keys are unique);
   B: a lookup returns the latest value written that was not deleted / expired /
      evicted afterwards;
   C: Take consults the loader only on a miss.
   The LRU-order simulation (D) is in ProofsCacheLru.v. *)
From Coq Require Import List ZArith Bool Lia Permutation.
From GZ Require Import C16.Model.
Import ListNotations. Open Scope Z_scope.

(* ------------------------------------------------------------------ *)
(* association lists and key lists                                     *)

Lemma alookup_aremove : forall k k' m,
  alookup k (aremove k' m) = if k' =? k then None else alookup k m.
Proof.
  intros k k' m. induction m as [|[a v] m IHm]; simpl.
  - destruct (k' =? k); reflexivity.
  - destruct (a =? k') eqn:Hak; simpl.
    + rewrite IHm. destruct (k' =? k) eqn:Hk; [reflexivity|].
      apply Z.eqb_eq in Hak. subst a. rewrite Hk. reflexivity.
    + rewrite IHm. destruct (a =? k) eqn:Ha; [|reflexivity].
      apply Z.eqb_eq in Ha. subst a. rewrite Z.eqb_sym in Hak. rewrite Hak. reflexivity.
Qed.

Lemma alookup_aset : forall k k' v m,
  alookup k (aset k' v m) = if k' =? k then Some v else alookup k m.
Proof.
  intros k k' v m. unfold aset. simpl. rewrite alookup_aremove.
  destruct (k' =? k); reflexivity.
Qed.

Lemma aremove_idem : forall k m, aremove k (aremove k m) = aremove k m.
Proof.
  intros k m. induction m as [|[a v] m IHm]; simpl; [reflexivity|].
  destruct (a =? k) eqn:Hak; simpl; [exact IHm|].
  rewrite Hak. simpl. rewrite IHm. reflexivity.
Qed.

Lemma keys_aremove : forall k m, map fst (aremove k m) = sremove k (map fst m).
Proof.
  intros k m. induction m as [|[a v] m IHm]; simpl; [reflexivity|].
  destruct (a =? k); simpl; rewrite IHm; reflexivity.
Qed.

Lemma alookup_In : forall k m v, alookup k m = Some v -> In k (map fst m).
Proof.
  intros k m. induction m as [|[a w] m IHm]; simpl; intros v Hv; [discriminate|].
  destruct (a =? k) eqn:Hak.
  - left. apply Z.eqb_eq. exact Hak.
  - right. eapply IHm. exact Hv.
Qed.

Lemma alookup_None_notin : forall k m, alookup k m = None -> ~ In k (map fst m).
Proof.
  intros k m. induction m as [|[a w] m IHm]; simpl; intros Hn Hin; [exact Hin|].
  destruct (a =? k) eqn:Hak; [discriminate|].
  destruct Hin as [Hin|Hin].
  - apply Z.eqb_neq in Hak. contradiction.
  - exact (IHm Hn Hin).
Qed.

Lemma In_sremove : forall x k l, In x (sremove k l) <-> In x l /\ x <> k.
Proof.
  intros x k l. unfold sremove. rewrite filter_In.
  rewrite Bool.negb_true_iff, Z.eqb_neq. tauto.
Qed.

Lemma NoDup_sremove : forall k l, NoDup l -> NoDup (sremove k l).
Proof. intros k l Hnd. unfold sremove. apply NoDup_filter. exact Hnd. Qed.

Lemma sremove_notin : forall k l, ~ In k l -> sremove k l = l.
Proof.
  intros k l. induction l as [|a l IHl]; simpl; intros Hn; [reflexivity|].
  destruct (a =? k) eqn:Hak.
  - apply Z.eqb_eq in Hak. subst a. exfalso. apply Hn. left. reflexivity.
  - simpl. rewrite IHl; [reflexivity|]. intros Hin. apply Hn. right. exact Hin.
Qed.

Lemma length_sremove : forall k l,
  NoDup l -> In k l -> S (length (sremove k l)) = length l.
Proof.
  intros k l. induction l as [|a l IHl]; simpl; intros Hnd Hin; [contradiction|].
  inversion Hnd as [|a' l' Hna Hnd']; subst.
  destruct (a =? k) eqn:Hak; simpl.
  - apply Z.eqb_eq in Hak. subst a.
    change (filter (fun x => negb (x =? k)) l) with (sremove k l).
    rewrite sremove_notin; [reflexivity|exact Hna].
  - destruct Hin as [Hin|Hin]; [apply Z.eqb_neq in Hak; contradiction|].
    f_equal. apply IHl; assumption.
Qed.

Lemma smem_In : forall k l, smem k l = true <-> In k l.
Proof.
  intros k l. unfold smem. rewrite existsb_exists. split.
  - intros (x & Hin & Heq). apply Z.eqb_eq in Heq. subst x. exact Hin.
  - intros Hin. exists k. split; [exact Hin|apply Z.eqb_refl].
Qed.

Lemma smem_notin : forall k l, smem k l = false <-> ~ In k l.
Proof.
  intros k l. rewrite <- smem_In. destruct (smem k l); split; intros H; congruence.
Qed.

Lemma last_opt_last : forall (A : Type) (l : list A) (a : A), last_opt (l ++ [a]) = Some a.
Proof. intros A l a. unfold last_opt. rewrite rev_app_distr. reflexivity. Qed.

(* ------------------------------------------------------------------ *)
(* closed forms of keyLru.add in the four situations                   *)

Lemma c_lru_add_nolimit : forall c k, climit c <= 0 -> c_lru_add c k = (c, []).
Proof.
  intros c k Hl. unfold c_lru_add. apply Z.leb_le in Hl. rewrite Hl. reflexivity.
Qed.

Lemma c_lru_add_present : forall c k, 0 < climit c -> In k (clru c) ->
  c_lru_add c k = (mkC (climit c) (cdata c) (k :: sremove k (clru c)), []).
Proof.
  intros c k Hl Hin. unfold c_lru_add.
  apply Z.leb_gt in Hl. rewrite Hl. apply smem_In in Hin. rewrite Hin. reflexivity.
Qed.

Lemma c_lru_add_absent_fit : forall c k, 0 < climit c -> ~ In k (clru c) ->
  Z.of_nat (S (length (clru c))) <= climit c ->
  c_lru_add c k = (mkC (climit c) (cdata c) (k :: clru c), []).
Proof.
  intros c k Hl Hin Hlen. unfold c_lru_add.
  apply Z.leb_gt in Hl. rewrite Hl. apply smem_notin in Hin. rewrite Hin.
  cbv zeta. simpl length. apply Z.ltb_ge in Hlen. rewrite Hlen. reflexivity.
Qed.

Lemma c_lru_add_absent_full : forall c k l' old, 0 < climit c -> ~ In k (clru c) ->
  climit c < Z.of_nat (S (length (clru c))) ->
  k :: clru c = l' ++ [old] ->
  c_lru_add c k = (mkC (climit c) (aremove old (cdata c)) l', [old]).
Proof.
  intros c k l' old Hl Hin Hlen HL. unfold c_lru_add.
  apply Z.leb_gt in Hl. rewrite Hl. apply smem_notin in Hin. rewrite Hin.
  cbv zeta. replace (length (k :: clru c)) with (S (length (clru c))) by reflexivity.
  apply Z.ltb_lt in Hlen. rewrite Hlen.
  rewrite HL. rewrite last_opt_last, removelast_last. reflexivity.
Qed.

Lemma climit_lru_add : forall c k, climit (fst (c_lru_add c k)) = climit c.
Proof.
  intros c k. unfold c_lru_add.
  destruct (climit c <=? 0); [reflexivity|].
  destruct (smem k (clru c)); [reflexivity|]. cbv zeta.
  destruct (climit c <? Z.of_nat (length (k :: clru c))); [|reflexivity].
  destruct (last_opt (k :: clru c)); reflexivity.
Qed.

Lemma climit_lru_remove : forall c k, climit (c_lru_remove c k) = climit c.
Proof.
  intros c k. unfold c_lru_remove.
  destruct (climit c <=? 0); [reflexivity|].
  destruct (smem k (clru c)); reflexivity.
Qed.

Lemma climit_set : forall c k v, climit (fst (c_set c k v)) = climit c.
Proof. intros c k v. unfold c_set. rewrite climit_lru_add. reflexivity. Qed.

Lemma climit_del : forall c k, climit (c_del c k) = climit c.
Proof. intros c k. unfold c_del. rewrite climit_lru_remove. reflexivity. Qed.

Lemma climit_doget : forall c k, climit (fst (c_doget c k)) = climit c.
Proof.
  intros c k. unfold c_doget. destruct (alookup k (cdata c)); simpl; [|reflexivity].
  apply climit_lru_add.
Qed.

(* the data map after keyLru.add, in terms of the evicted keys *)
Lemma c_lru_add_lookup : forall c k x,
  alookup x (cdata (fst (c_lru_add c k))) =
  latest (map EvGone (snd (c_lru_add c k))) x (alookup x (cdata c)).
Proof.
  intros c k x. unfold c_lru_add.
  destruct (climit c <=? 0); [reflexivity|].
  destruct (smem k (clru c)); [reflexivity|]. cbv zeta.
  destruct (climit c <? Z.of_nat (length (k :: clru c))); [|reflexivity].
  destruct (last_opt (k :: clru c)) as [old|]; [|reflexivity].
  simpl. apply alookup_aremove.
Qed.

(* ------------------------------------------------------------------ *)
(* closed forms of c_step                                              *)

Lemma c_step_set : forall c k v,
  c_step c (CSet k v) = (fst (c_set c k v), OUnit, snd (c_set c k v)).
Proof. intros c k v. simpl. destruct (c_set c k v); reflexivity. Qed.

Lemma c_step_get : forall c k,
  c_step c (CGet k) = (fst (c_doget c k), OOpt (alookup k (cdata c)), []).
Proof.
  intros c k. simpl. unfold c_doget. destruct (alookup k (cdata c)); reflexivity.
Qed.

Lemma c_step_take_hit : forall c k f v, alookup k (cdata c) = Some v ->
  c_step c (CTake k f) = (fst (c_lru_add c k), OTake (Some v) false, []).
Proof. intros c k f v Hv. simpl. unfold c_doget. rewrite Hv. reflexivity. Qed.

Lemma c_step_take_miss_some : forall c k v, alookup k (cdata c) = None ->
  c_step c (CTake k (Some v)) = (fst (c_set c k v), OTake (Some v) true, snd (c_set c k v)).
Proof.
  intros c k v Hn. simpl. unfold c_doget. rewrite Hn.
  destruct (c_set c k v); reflexivity.
Qed.

Lemma c_step_take_miss_none : forall c k, alookup k (cdata c) = None ->
  c_step c (CTake k None) = (c, OTake None true, []).
Proof. intros c k Hn. simpl. unfold c_doget. rewrite Hn. reflexivity. Qed.

Lemma c_doget_hit : forall c k v, alookup k (cdata c) = Some v ->
  c_doget c k = (fst (c_lru_add c k), Some v).
Proof. intros c k v Hv. unfold c_doget. rewrite Hv. reflexivity. Qed.

Lemma c_doget_miss : forall c k, alookup k (cdata c) = None -> c_doget c k = (c, None).
Proof. intros c k Hn. unfold c_doget. rewrite Hn. reflexivity. Qed.

(* ------------------------------------------------------------------ *)
(* base invariant                                                      *)

Definition Inv (c : cache) : Prop :=
  NoDup (map fst (cdata c)) /\
  (0 < climit c ->
     NoDup (clru c) /\
     (forall k, In k (clru c) <-> In k (map fst (cdata c))) /\
     Z.of_nat (length (clru c)) <= climit c) /\
  (climit c <= 0 -> clru c = []).

Lemma Inv_new : forall limit, Inv (c_new limit).
Proof.
  intros limit. unfold Inv, c_new; simpl. split; [constructor|]. split.
  - intros Hl. split; [constructor|]. split; [tauto|lia].
  - reflexivity.
Qed.

(* keyLru.add re-establishes the invariant from a state where k may be in data
   without being in the list yet *)
Lemma Inv_lru_add : forall c k,
  NoDup (map fst (cdata c)) ->
  (0 < climit c ->
     NoDup (clru c) /\
     (forall x, In x (map fst (cdata c)) <-> In x (clru c) \/ x = k) /\
     Z.of_nat (length (clru c)) <= climit c) ->
  (climit c <= 0 -> clru c = []) ->
  Inv (fst (c_lru_add c k)).
Proof.
  intros c k Hkeys Hpos Hneg.
  destruct (Z_le_gt_dec (climit c) 0) as [Hl|Hl].
  - rewrite c_lru_add_nolimit by exact Hl. simpl.
    split; [exact Hkeys|]. split; [intros Hp; lia|exact Hneg].
  - assert (Hl' : 0 < climit c) by lia.
    destruct (Hpos Hl') as (Hnd & Heq & Hlen).
    destruct (in_dec Z.eq_dec k (clru c)) as [Hin|Hnin].
    + rewrite c_lru_add_present by assumption. unfold Inv; simpl.
      split; [exact Hkeys|]. split; [|intros Hp; lia]. intros _. split.
      * constructor; [|apply NoDup_sremove; exact Hnd].
        rewrite In_sremove. intros [_ Hne]. apply Hne. reflexivity.
      * split.
        -- intros x. rewrite In_sremove, Heq.
           destruct (Z.eq_dec x k) as [He|He].
           ++ subst x. tauto.
           ++ split.
              ** intros [Hx|[Hx _]]; [congruence|left; exact Hx].
              ** intros [Hx|Hx]; [right; split; assumption|contradiction].
        -- pose proof (length_sremove k (clru c) Hnd Hin) as Hls. simpl length. lia.
    + destruct (Z_lt_le_dec (climit c) (Z.of_nat (S (length (clru c))))) as [Hfull|Hfit].
      * destruct (exists_last (l := k :: clru c)) as (l' & old & HL); [discriminate|].
        rewrite (c_lru_add_absent_full c k l' old) by assumption.
        assert (HndL : NoDup (l' ++ [old])).
        { rewrite <- HL. constructor; assumption. }
        destruct (NoDup_remove _ _ _ HndL) as [Hnd' Hold]. rewrite app_nil_r in Hnd', Hold.
        assert (HinL : forall x, (x = k \/ In x (clru c)) <-> (In x l' \/ x = old)).
        { intros x. transitivity (In x (k :: clru c)).
          - simpl. split; intros [H|H]; auto.
          - rewrite HL, in_app_iff. simpl. split.
            + intros [H|[H|[]]]; [left; exact H|right; symmetry; exact H].
            + intros [H|H]; [left; exact H|right; left; symmetry; exact H]. }
        unfold Inv; simpl.
        split; [rewrite keys_aremove; apply NoDup_sremove; exact Hkeys|].
        split; [|intros Hp; lia]. intros _. split; [exact Hnd'|]. split.
        -- intros x. rewrite keys_aremove, In_sremove, Heq. split.
           ++ intros Hx. split.
              ** assert (Hx' : In x l' \/ x = old) by (left; exact Hx).
                 apply HinL in Hx'. tauto.
              ** intros He. subst x. contradiction.
           ++ intros [Hx Hne].
              assert (Hx' : x = k \/ In x (clru c)) by tauto.
              apply HinL in Hx'. tauto.
        -- assert (Hlen' : length (k :: clru c) = length (l' ++ [old])) by (rewrite HL; reflexivity).
           rewrite app_length in Hlen'. simpl in Hlen'. lia.
      * rewrite c_lru_add_absent_fit by assumption. unfold Inv; simpl.
        split; [exact Hkeys|]. split; [|intros Hp; lia]. intros _.
        split; [constructor; assumption|]. split.
        -- intros x. rewrite Heq. split; intros [H|H]; auto.
        -- simpl length in Hfit. exact Hfit.
Qed.

Lemma NoDup_keys_aset : forall k v m, NoDup (map fst m) -> NoDup (map fst (aset k v m)).
Proof.
  intros k v m Hnd. unfold aset. simpl. rewrite keys_aremove. constructor.
  - rewrite In_sremove. intros [_ Hne]. apply Hne. reflexivity.
  - apply NoDup_sremove. exact Hnd.
Qed.

Lemma In_keys_aset : forall x k v m, In x (map fst (aset k v m)) <-> In x (map fst m) \/ x = k.
Proof.
  intros x k v m. unfold aset. simpl. rewrite keys_aremove, In_sremove.
  destruct (Z.eq_dec x k) as [He|He].
  - subst x. tauto.
  - split.
    + intros [H|[H _]]; [congruence|left; exact H].
    + intros [H|H]; [right; split; assumption|contradiction].
Qed.

Lemma Inv_set : forall c k v, Inv c -> Inv (fst (c_set c k v)).
Proof.
  intros c k v (Hkeys & Hpos & Hneg). unfold c_set. apply Inv_lru_add; cbn [cdata climit clru].
  - apply NoDup_keys_aset. exact Hkeys.
  - intros Hl. destruct (Hpos Hl) as (Hnd & Heq & Hlen).
    split; [exact Hnd|]. split; [|exact Hlen].
    intros x. rewrite In_keys_aset, Heq. tauto.
  - exact Hneg.
Qed.

Lemma Inv_doget : forall c k, Inv c -> Inv (fst (c_doget c k)).
Proof.
  intros c k HI. destruct (alookup k (cdata c)) as [v|] eqn:Hv.
  - rewrite (c_doget_hit c k v Hv). simpl.
    destruct HI as (Hkeys & Hpos & Hneg). apply Inv_lru_add.
    + exact Hkeys.
    + intros Hl. destruct (Hpos Hl) as (Hnd & Heq & Hlen).
      split; [exact Hnd|]. split; [|exact Hlen].
      intros x. rewrite Heq. split; [tauto|].
      intros [H|H]; [exact H|]. subst x. eapply alookup_In. exact Hv.
    + exact Hneg.
  - rewrite (c_doget_miss c k Hv). exact HI.
Qed.

Lemma c_del_data : forall c k, cdata (c_del c k) = aremove k (cdata c).
Proof.
  intros c k. unfold c_del, c_lru_remove. simpl.
  destruct (climit c <=? 0); [reflexivity|].
  destruct (smem k (clru c)); simpl; [apply aremove_idem|reflexivity].
Qed.

Lemma c_del_lru : forall c k, Inv c -> clru (c_del c k) = sremove k (clru c).
Proof.
  intros c k (Hkeys & Hpos & Hneg). unfold c_del, c_lru_remove. simpl.
  destruct (climit c <=? 0) eqn:Hl.
  - apply Z.leb_le in Hl. simpl. rewrite (Hneg Hl). reflexivity.
  - destruct (smem k (clru c)) eqn:Hm; simpl; [reflexivity|].
    apply smem_notin in Hm. rewrite sremove_notin; [reflexivity|exact Hm].
Qed.

Lemma Inv_del : forall c k, Inv c -> Inv (c_del c k).
Proof.
  intros c k HI. pose proof (c_del_lru c k HI) as Hlru.
  pose proof (c_del_data c k) as Hdata. pose proof (climit_del c k) as Hlim.
  destruct HI as (Hkeys & Hpos & Hneg). unfold Inv.
  rewrite Hlru, Hdata, Hlim. rewrite keys_aremove.
  split; [apply NoDup_sremove; exact Hkeys|]. split.
  - intros Hl. destruct (Hpos Hl) as (Hnd & Heq & Hlen).
    split; [apply NoDup_sremove; exact Hnd|]. split.
    + intros x. rewrite !In_sremove, Heq. tauto.
    + destruct (in_dec Z.eq_dec k (clru c)) as [Hin|Hnin].
      * pose proof (length_sremove k (clru c) Hnd Hin) as Hls. lia.
      * rewrite sremove_notin by exact Hnin. exact Hlen.
  - intros Hl. rewrite (Hneg Hl). reflexivity.
Qed.

Lemma Inv_step : forall c o, Inv c -> Inv (fst (fst (c_step c o))).
Proof.
  intros c o HI. destruct o as [k v|k|k|k f|k].
  - rewrite c_step_set. simpl. apply Inv_set. exact HI.
  - rewrite c_step_get. simpl. apply Inv_doget. exact HI.
  - simpl. apply Inv_del. exact HI.
  - destruct (alookup k (cdata c)) as [v|] eqn:Hv.
    + rewrite (c_step_take_hit c k f v Hv). simpl.
      pose proof (Inv_doget c k HI) as HI'. rewrite (c_doget_hit c k v Hv) in HI'. exact HI'.
    + destruct f as [v|].
      * rewrite (c_step_take_miss_some c k v Hv). simpl. apply Inv_set. exact HI.
      * rewrite (c_step_take_miss_none c k Hv). simpl. exact HI.
  - simpl. apply Inv_del. exact HI.
Qed.

Lemma Inv_final : forall ops c, Inv c -> Inv (c_final c ops).
Proof.
  intros ops. induction ops as [|o ops IHops]; intros c HI; simpl; [exact HI|].
  apply IHops. apply Inv_step. exact HI.
Qed.

Lemma climit_step : forall c o, climit (fst (fst (c_step c o))) = climit c.
Proof.
  intros c o. destruct o as [k v|k|k|k f|k].
  - rewrite c_step_set. simpl. apply climit_set.
  - rewrite c_step_get. simpl. apply climit_doget.
  - simpl. apply climit_del.
  - destruct (alookup k (cdata c)) as [v|] eqn:Hv.
    + rewrite (c_step_take_hit c k f v Hv). simpl. apply climit_lru_add.
    + destruct f as [v|].
      * rewrite (c_step_take_miss_some c k v Hv). simpl. apply climit_set.
      * rewrite (c_step_take_miss_none c k Hv). reflexivity.
  - simpl. apply climit_del.
Qed.

Lemma climit_final : forall ops c, climit (c_final c ops) = climit c.
Proof.
  intros ops. induction ops as [|o ops IHops]; intros c; simpl; [reflexivity|].
  rewrite IHops. apply climit_step.
Qed.

Lemma Inv_lengths : forall c, Inv c -> 0 < climit c -> length (clru c) = length (cdata c).
Proof.
  intros c (Hkeys & Hpos & _) Hl. destruct (Hpos Hl) as (Hnd & Heq & _).
  rewrite <- (map_length fst (cdata c)).
  apply Permutation_length. apply NoDup_Permutation; assumption.
Qed.

(* ------------------------------------------------------------------ *)
(* A: never over the limit                                             *)

Theorem cache_never_over_limit_proof : forall limit ops, 0 < limit ->
  let c := c_final (c_new limit) ops in
  NoDup (map fst (cdata c)) /\ Z.of_nat (length (cdata c)) <= limit.
Proof.
  intros limit ops Hl c.
  assert (HI : Inv c) by (apply Inv_final; apply Inv_new).
  assert (Hlim : climit c = limit) by (unfold c; rewrite climit_final; reflexivity).
  split; [exact (proj1 HI)|].
  assert (Hl' : 0 < climit c) by lia.
  rewrite <- (Inv_lengths c HI Hl').
  destruct HI as (_ & Hpos & _). destruct (Hpos Hl') as (_ & _ & Hlen). lia.
Qed.

(* ------------------------------------------------------------------ *)
(* B: lookups return the latest value unless the key is gone           *)

Lemma latest_app : forall e1 e2 k cur,
  latest (e1 ++ e2) k cur = latest e2 k (latest e1 k cur).
Proof.
  intros e1. induction e1 as [|e e1 IHe]; intros e2 k cur; simpl; [reflexivity|].
  destruct e as [k' v|k']; apply IHe.
Qed.

(* a hit does not change the data map (no eviction can happen) *)
Lemma lru_add_hit_data : forall c k v, Inv c -> alookup k (cdata c) = Some v ->
  cdata (fst (c_lru_add c k)) = cdata c /\ snd (c_lru_add c k) = [].
Proof.
  intros c k v (Hkeys & Hpos & Hneg) Hv.
  destruct (Z_le_gt_dec (climit c) 0) as [Hl|Hl].
  - rewrite c_lru_add_nolimit by exact Hl. split; reflexivity.
  - assert (Hl' : 0 < climit c) by lia. destruct (Hpos Hl') as (Hnd & Heq & Hlen).
    rewrite c_lru_add_present; [split; reflexivity|exact Hl'|].
    apply Heq. eapply alookup_In. exact Hv.
Qed.

Lemma c_doget_data : forall c k, Inv c -> cdata (fst (c_doget c k)) = cdata c.
Proof.
  intros c k HI. destruct (alookup k (cdata c)) as [v|] eqn:Hv.
  - rewrite (c_doget_hit c k v Hv). simpl. apply (lru_add_hit_data c k v HI Hv).
  - rewrite (c_doget_miss c k Hv). reflexivity.
Qed.

Lemma c_set_lookup : forall c k v x,
  alookup x (cdata (fst (c_set c k v))) =
  latest (EvPut k v :: map EvGone (snd (c_set c k v))) x (alookup x (cdata c)).
Proof.
  intros c k v x. unfold c_set. rewrite c_lru_add_lookup. cbn [cdata latest].
  rewrite alookup_aset. reflexivity.
Qed.

Lemma c_del_lookup : forall c k x,
  alookup x (cdata (c_del c k)) = latest [EvGone k] x (alookup x (cdata c)).
Proof. intros c k x. rewrite c_del_data, alookup_aremove. reflexivity. Qed.

Lemma c_step_lookup : forall c o x, Inv c ->
  alookup x (cdata (fst (fst (c_step c o)))) =
  latest (c_events_of o (snd (fst (c_step c o))) (snd (c_step c o))) x (alookup x (cdata c)).
Proof.
  intros c o x HI. destruct o as [k v|k|k|k f|k].
  - rewrite c_step_set. simpl fst. simpl snd. apply c_set_lookup.
  - rewrite c_step_get. simpl. apply f_equal. apply c_doget_data. exact HI.
  - simpl c_step. simpl fst. simpl snd. apply c_del_lookup.
  - destruct (alookup k (cdata c)) as [v|] eqn:Hv.
    + rewrite (c_step_take_hit c k f v Hv). simpl fst. simpl snd.
      rewrite (proj1 (lru_add_hit_data c k v HI Hv)).
      destruct f; reflexivity.
    + destruct f as [v|].
      * rewrite (c_step_take_miss_some c k v Hv). simpl fst. simpl snd. apply c_set_lookup.
      * rewrite (c_step_take_miss_none c k Hv). reflexivity.
  - simpl c_step. simpl fst. simpl snd. apply c_del_lookup.
Qed.

Lemma cache_latest_gen : forall ops c k cur, Inv c -> alookup k (cdata c) = cur ->
  alookup k (cdata (c_final c ops)) = latest (c_events c ops) k cur.
Proof.
  intros ops. induction ops as [|o ops IHops]; intros c k cur HI Hcur; simpl; [exact Hcur|].
  pose proof (c_step_lookup c o k HI) as Hstep.
  pose proof (Inv_step c o HI) as HI'.
  destruct (c_step c o) as [[c' r] ev]. simpl in *.
  rewrite latest_app. apply IHops; [exact HI'|].
  rewrite Hstep, Hcur. reflexivity.
Qed.

Theorem cache_latest_unless_gone_proof : forall limit ops k,
  alookup k (cdata (c_final (c_new limit) ops)) = latest (c_events (c_new limit) ops) k None.
Proof.
  intros limit ops k. apply cache_latest_gen; [apply Inv_new|reflexivity].
Qed.

Theorem cache_get_returns_latest : forall limit ops k,
  snd (fst (c_step (c_final (c_new limit) ops) (CGet k))) =
  OOpt (latest (c_events (c_new limit) ops) k None).
Proof.
  intros limit ops k. rewrite c_step_get. simpl.
  rewrite cache_latest_unless_gone_proof. reflexivity.
Qed.

(* ------------------------------------------------------------------ *)
(* C: Take loads only on a miss                                        *)

Theorem cache_take_loads_only_on_miss_proof : forall limit ops k f,
  let c := c_final (c_new limit) ops in
  match alookup k (cdata c) with
  | Some v => c_step c (CTake k f) = (fst (c_doget c k), OTake (Some v) false, [])
  | None => snd (fst (c_step c (CTake k f))) = OTake f true
  end.
Proof.
  intros limit ops k f c. destruct (alookup k (cdata c)) as [v|] eqn:Hv.
  - rewrite (c_step_take_hit c k f v Hv), (c_doget_hit c k v Hv). reflexivity.
  - destruct f as [v|].
    + rewrite (c_step_take_miss_some c k v Hv). reflexivity.
    + rewrite (c_step_take_miss_none c k Hv). reflexivity.
Qed.

Print Assumptions cache_never_over_limit_proof.
Print Assumptions cache_latest_unless_gone_proof.
Print Assumptions cache_get_returns_latest.
Print Assumptions cache_take_loads_only_on_miss_proof.
