(* C16 - proofs about the sequence-like collections of Model.v:
   - the growable ring-buffer Queue (fifo.go) is a FIFO list;
   - the Ring (ring.go) of size n shows the last n added values, in order. *)
From Coq Require Import List ZArith Bool Lia Arith PeanoNat.
From GZ Require Import C16.Model.
Import ListNotations. Open Scope Z_scope.

Local Open Scope nat_scope.

Local Ltac splits := repeat match goal with |- _ /\ _ => split end.

(* ------------------------------------------------------------------ *)
(* arithmetic on nat mod with a variable modulus                        *)

Lemma mod_once : forall n x, n <= x -> x < 2 * n -> x mod n = x - n.
Proof.
  intros n x Hle Hlt. symmetry. apply Nat.mod_unique with (q := 1); lia.
Qed.

Lemma mod_add_inj : forall n a i j,
  i < n -> j < n -> (a + i) mod n = (a + j) mod n -> i = j.
Proof.
  intros n a i j Hi Hj E.
  pose proof (Nat.div_mod_eq (a + i) n) as D1.
  pose proof (Nat.div_mod_eq (a + j) n) as D2.
  rewrite E in D1.
  remember ((a + i) / n) as q1 eqn:Eq1.
  remember ((a + j) / n) as q2 eqn:Eq2.
  remember ((a + j) mod n) as r eqn:Er.
  clear Eq1 Eq2 Er E.
  destruct (Nat.lt_trichotomy q1 q2) as [Hlt | [Heq | Hgt]].
  - nia.
  - subst q2. lia.
  - nia.
Qed.

Lemma mod_sub_n : forall n a, 0 < n -> n <= a -> (a - n) mod n = a mod n.
Proof.
  intros n a Hn Hle.
  remember (a - n) as b eqn:Eb.
  replace a with (b + 1 * n) by lia.
  symmetry. apply Nat.mod_add. lia.
Qed.

Lemma mod_near_neq : forall n i t, i < t -> t - i < n -> i mod n <> t mod n.
Proof.
  intros n i t Hlt Hd E.
  assert (Hz : 0 = t - i).
  { apply (mod_add_inj n i 0 (t - i)); try lia.
    rewrite Nat.add_0_r. replace (i + (t - i)) with t by lia. exact E. }
  lia.
Qed.

(* ------------------------------------------------------------------ *)
(* list lemmas                                                          *)

Lemma length_set_nth : forall (A : Type) (l : list A) i (x : A),
  length (set_nth i x l) = length l.
Proof.
  intros A l. induction l as [| y l IH]; intros i x.
  - destruct i; reflexivity.
  - destruct i as [| i]; simpl.
    + reflexivity.
    + rewrite IH. reflexivity.
Qed.

Lemma nth_set_nth_eq : forall (A : Type) (l : list A) i (x d : A),
  i < length l -> nth i (set_nth i x l) d = x.
Proof.
  intros A l. induction l as [| y l IH]; intros i x d Hi.
  - simpl in Hi. lia.
  - destruct i as [| i]; simpl.
    + reflexivity.
    + apply IH. simpl in Hi. lia.
Qed.

Lemma nth_set_nth_neq : forall (A : Type) (l : list A) i j (x d : A),
  i <> j -> nth j (set_nth i x l) d = nth j l d.
Proof.
  intros A l. induction l as [| y l IH]; intros i j x d Hne.
  - destruct i; reflexivity.
  - destruct i as [| i]; destruct j as [| j]; simpl.
    + lia.
    + reflexivity.
    + reflexivity.
    + apply IH. lia.
Qed.

Lemma nth_skipn' : forall (A : Type) (l : list A) n i (d : A),
  nth i (skipn n l) d = nth (n + i) l d.
Proof.
  intros A l. induction l as [| y l IH]; intros n i d.
  - rewrite skipn_nil. destruct i; destruct n; reflexivity.
  - destruct n as [| n]; simpl.
    + reflexivity.
    + apply IH.
Qed.

Lemma nth_firstn' : forall (A : Type) (l : list A) n i (d : A),
  i < n -> nth i (firstn n l) d = nth i l d.
Proof.
  intros A l. induction l as [| y l IH]; intros n i d Hi.
  - rewrite firstn_nil. reflexivity.
  - destruct n as [| n]; [lia |].
    destruct i as [| i]; simpl.
    + reflexivity.
    + apply IH. lia.
Qed.

Lemma nth_rot : forall (A : Type) (l : list A) h i (d : A),
  h < length l -> i < length l ->
  nth i (skipn h l ++ firstn h l) d = nth ((h + i) mod length l) l d.
Proof.
  intros A l h i d Hh Hi.
  destruct (Nat.lt_ge_cases i (length l - h)) as [Hlt | Hge].
  - rewrite app_nth1 by (rewrite skipn_length; lia).
    rewrite nth_skipn'. rewrite Nat.mod_small by lia. reflexivity.
  - rewrite app_nth2 by (rewrite skipn_length; lia).
    rewrite skipn_length. rewrite nth_firstn' by lia.
    rewrite mod_once by lia. f_equal. lia.
Qed.

Lemma nth_map_seq : forall (B : Type) (f : nat -> B) k i (d : B),
  i < k -> nth i (map f (seq 0 k)) d = f i.
Proof.
  intros B f k i d Hi.
  rewrite (nth_indep _ d (f 0)) by (rewrite map_length, seq_length; lia).
  rewrite map_nth. rewrite seq_nth by lia. reflexivity.
Qed.

(* ------------------------------------------------------------------ *)
(* Queue                                                                *)

Definition qabs (q : queue) : list Z :=
  map (fun i => nth ((qhead q + i) mod length (qels q)) (qels q) 0%Z)
      (seq 0 (qcount q)).

Definition QInv (q : queue) : Prop :=
  0 < length (qels q) /\
  0 < qsize q /\
  qhead q < length (qels q) /\
  qcount q <= length (qels q) /\
  qtail q = (qhead q + qcount q) mod length (qels q).

Definition q_grow (q : queue) : queue :=
  mkQ ((skipn (qhead q) (qels q) ++ firstn (qhead q) (qels q)) ++ repeat 0%Z (qsize q))
      (qsize q) 0 (length (qels q)) (qcount q).

Definition q_put_core (q : queue) (x : Z) : queue :=
  mkQ (set_nth (qtail q) x (qels q)) (qsize q) (qhead q)
      ((qtail q + 1) mod length (qels q)) (S (qcount q)).

Lemma q_put_unfold : forall q x,
  q_put q x =
  q_put_core (if Nat.eqb (qhead q) (qtail q) && Nat.ltb 0 (qcount q)
              then q_grow q else q) x.
Proof. intros q x. reflexivity. Qed.

Lemma q_new_inv : forall size, 1 <= size -> QInv (q_new size).
Proof.
  intros size Hs. unfold QInv, q_new; simpl. rewrite repeat_length.
  splits; try lia.
  rewrite Nat.mod_small by lia. reflexivity.
Qed.

Lemma q_new_abs : forall size, qabs (q_new size) = [].
Proof. intros size. reflexivity. Qed.

Lemma q_full_true : forall q,
  QInv q -> Nat.eqb (qhead q) (qtail q) && Nat.ltb 0 (qcount q) = true ->
  qcount q = length (qels q).
Proof.
  intros q (Hl & Hs & Hh & Hc & Ht) Hfull.
  apply andb_true_iff in Hfull. destruct Hfull as [He Hpos].
  apply Nat.eqb_eq in He. apply Nat.ltb_lt in Hpos.
  destruct (Nat.eq_dec (qcount q) (length (qels q))) as [Heq | Hne]; [exact Heq |].
  exfalso.
  assert (Hz : 0 = qcount q).
  { apply (mod_add_inj (length (qels q)) (qhead q) 0 (qcount q)); try lia.
    rewrite Nat.add_0_r. rewrite (Nat.mod_small (qhead q)) by lia.
    rewrite <- Ht. exact He. }
  lia.
Qed.

Lemma q_full_false : forall q,
  QInv q -> Nat.eqb (qhead q) (qtail q) && Nat.ltb 0 (qcount q) = false ->
  qcount q < length (qels q).
Proof.
  intros q (Hl & Hs & Hh & Hc & Ht) Hfull.
  destruct (Nat.eq_dec (qcount q) (length (qels q))) as [Heq | Hne]; [| lia].
  exfalso.
  assert (Htl : qtail q = qhead q).
  { rewrite Ht, Heq. rewrite mod_once by lia. lia. }
  assert (He : Nat.eqb (qhead q) (qtail q) = true) by (apply Nat.eqb_eq; lia).
  assert (Hp : Nat.ltb 0 (qcount q) = true) by (apply Nat.ltb_lt; lia).
  rewrite He, Hp in Hfull. discriminate Hfull.
Qed.

Lemma q_grow_ok : forall q,
  QInv q -> qcount q = length (qels q) ->
  QInv (q_grow q) /\ qabs (q_grow q) = qabs q /\
  qcount (q_grow q) < length (qels (q_grow q)).
Proof.
  intros q (Hl & Hs & Hh & Hc & Ht) Hfull.
  destruct q as [els sz h t c]. simpl in *.
  assert (Hlen : length ((skipn h els ++ firstn h els) ++ repeat 0%Z sz)
                 = length els + sz).
  { rewrite !app_length, skipn_length, firstn_length, repeat_length. lia. }
  assert (Hlen2 : length (skipn h els ++ firstn h els) = length els).
  { rewrite app_length, skipn_length, firstn_length. lia. }
  unfold QInv, qabs, q_grow; simpl. rewrite Hlen.
  split; [| split].
  - splits; try lia.
    rewrite Nat.mod_small by lia. lia.
  - apply map_ext_in. intros i Hi. apply in_seq in Hi.
    rewrite Nat.mod_small by lia.
    rewrite app_nth1 by lia.
    apply nth_rot; lia.
  - lia.
Qed.

Lemma q_put_core_ok : forall q x,
  QInv q -> qcount q < length (qels q) ->
  QInv (q_put_core q x) /\ qabs (q_put_core q x) = qabs q ++ [x].
Proof.
  intros q x (Hl & Hs & Hh & Hc & Ht) Hlt.
  destruct q as [els sz h t c]. simpl in *. subst t.
  unfold QInv, qabs, q_put_core; cbn [qels qsize qhead qtail qcount].
  rewrite length_set_nth.
  split.
  - splits; try lia.
    rewrite Nat.add_mod_idemp_l by lia. f_equal. lia.
  - rewrite seq_S, map_app. simpl. f_equal.
    + apply map_ext_in. intros i Hi. apply in_seq in Hi.
      apply nth_set_nth_neq. intro E.
      apply mod_add_inj in E; lia.
    + f_equal. apply nth_set_nth_eq. apply Nat.mod_upper_bound. lia.
Qed.

Lemma q_put_ok : forall q x,
  QInv q -> QInv (q_put q x) /\ qabs (q_put q x) = qabs q ++ [x].
Proof.
  intros q x Hinv. rewrite q_put_unfold.
  destruct (Nat.eqb (qhead q) (qtail q) && Nat.ltb 0 (qcount q)) eqn:Hfull.
  - apply q_full_true in Hfull; [| exact Hinv].
    destruct (q_grow_ok q Hinv Hfull) as (Hinv' & Habs' & Hlt').
    rewrite <- Habs'. apply q_put_core_ok; assumption.
  - apply q_full_false in Hfull; [| exact Hinv].
    apply q_put_core_ok; assumption.
Qed.

Lemma q_take_ok : forall q,
  QInv q -> qcount q <> 0 ->
  exists x q', q_take q = (q', Some x) /\ qabs q = x :: qabs q' /\ QInv q'.
Proof.
  intros q (Hl & Hs & Hh & Hc & Ht) Hne.
  destruct q as [els sz h t c]. simpl in *.
  destruct c as [| c]; [lia |].
  unfold q_take; simpl qcount.
  eexists. eexists. split; [reflexivity |].
  unfold qabs, QInv; simpl qels; simpl qhead; simpl qcount; simpl qtail; simpl qsize.
  split.
  - change (seq 0 (S c)) with (0 :: seq 1 c).
    rewrite <- seq_shift. rewrite map_cons, map_map.
    f_equal.
    + rewrite Nat.add_0_r. rewrite Nat.mod_small by lia. reflexivity.
    + apply map_ext_in. intros i Hi.
      rewrite Nat.add_mod_idemp_l by lia. do 2 f_equal. lia.
  - splits; try lia.
    + apply Nat.mod_upper_bound. lia.
    + rewrite Nat.add_mod_idemp_l by lia. rewrite Ht. f_equal. lia.
Qed.

Lemma qabs_count0 : forall q, qcount q = 0 -> qabs q = [].
Proof. intros q Hc. unfold qabs. rewrite Hc. reflexivity. Qed.

Lemma q_run_fifo : forall ops q l,
  QInv q -> qabs q = l -> q_run q ops = fifo_run l ops.
Proof.
  intros ops. induction ops as [| o ops IH]; intros q l Hinv Habs.
  - reflexivity.
  - destruct o as [x | |].
    + cbn [q_run q_step fifo_run fifo_step].
      destruct (q_put_ok q x Hinv) as [Hinv' Habs'].
      f_equal. apply IH; [exact Hinv' |]. rewrite Habs', Habs. reflexivity.
    + cbn [q_run q_step fifo_run fifo_step].
      destruct (Nat.eq_dec (qcount q) 0) as [Hz | Hnz].
      * assert (Ht : q_take q = (q, None)).
        { unfold q_take. rewrite Hz. reflexivity. }
        rewrite Ht. rewrite (qabs_count0 q Hz) in Habs. subst l.
        f_equal. apply IH; [exact Hinv |]. apply qabs_count0. exact Hz.
      * destruct (q_take_ok q Hinv Hnz) as (x & q' & Ht & Hab & Hinv').
        rewrite Ht. rewrite Hab in Habs. subst l.
        f_equal. apply IH; [exact Hinv' | reflexivity].
    + cbn [q_run q_step fifo_run fifo_step].
      assert (Hb : Nat.eqb (qcount q) 0 = match l with [] => true | _ => false end).
      { subst l. unfold qabs. destruct (qcount q) as [| c]; reflexivity. }
      rewrite Hb. f_equal. apply IH; assumption.
Qed.

Theorem queue_is_fifo_proof : forall size ops, (1 <= size)%nat ->
  q_run (q_new size) ops = fifo_run [] ops.
Proof.
  intros size ops Hs. apply q_run_fifo.
  - apply q_new_inv. exact Hs.
  - apply q_new_abs.
Qed.

(* ------------------------------------------------------------------ *)
(* Ring                                                                 *)

Definition RInv (n : nat) (r : ring) (h : list Z) : Prop :=
  length (rels r) = n /\
  rindex r < 2 * n /\
  (length h < n -> rindex r = length h) /\
  (n <= length h -> n <= rindex r) /\
  rindex r mod n = length h mod n /\
  (forall i, length h - n <= i -> i < length h ->
             nth (i mod n) (rels r) 0%Z = nth i h 0%Z).

Lemma r_new_inv : forall n, 1 <= n -> RInv n (r_new n) [].
Proof.
  intros n Hn. unfold RInv, r_new; simpl. rewrite repeat_length.
  splits; try lia.
Qed.

Lemma r_add_inv : forall n r h x,
  1 <= n -> RInv n r h -> RInv n (r_add r x) (h ++ [x]).
Proof.
  intros n r h x Hn (Hl & Hix & Hsm & Hbg & Hmod & Hnth).
  destruct r as [els ix]. cbn [rels rindex] in *.
  unfold RInv, r_add; cbn [rels rindex].
  rewrite app_length. cbn [length]. rewrite Hl.
  remember (length h) as t eqn:Et.
  assert (HS : S ix mod n = (t + 1) mod n).
  { replace (S ix) with (ix + 1) by lia.
    rewrite <- Nat.add_mod_idemp_l by lia. rewrite Hmod.
    rewrite Nat.add_mod_idemp_l by lia. reflexivity. }
  split; [| split; [| split; [| split; [| split]]]].
  - rewrite length_set_nth. exact Hl.
  - destruct (Nat.leb_spec (2 * n) (S ix)) as [Hw | Hw]; lia.
  - intros Hlt. destruct (Nat.leb_spec (2 * n) (S ix)) as [Hw | Hw]; lia.
  - intros Hge. destruct (Nat.leb_spec (2 * n) (S ix)) as [Hw | Hw].
    + lia.
    + destruct (Nat.lt_ge_cases t n) as [Hc | Hc].
      * specialize (Hsm Hc). lia.
      * specialize (Hbg Hc). lia.
  - destruct (Nat.leb_spec (2 * n) (S ix)) as [Hw | Hw].
    + rewrite mod_sub_n by lia. exact HS.
    + exact HS.
  - intros i Hlo Hhi. rewrite Hmod.
    destruct (Nat.eq_dec i t) as [Heq | Hne].
    + subst i. rewrite nth_set_nth_eq.
      * rewrite app_nth2 by lia. rewrite <- Et, Nat.sub_diag. reflexivity.
      * rewrite Hl. apply Nat.mod_upper_bound. lia.
    + rewrite nth_set_nth_neq.
      * rewrite app_nth1 by lia. apply Hnth; lia.
      * intro E. symmetry in E. revert E. apply mod_near_neq; lia.
Qed.

Lemma r_take_ok : forall n r h,
  1 <= n -> RInv n r h -> r_take r = lastn n h.
Proof.
  intros n r h Hn (Hl & Hix & Hsm & Hbg & Hmod & Hnth).
  destruct r as [els ix]. cbn [rels rindex] in *.
  unfold r_take, lastn; cbn [rels rindex]. rewrite Hl.
  remember (length h) as t eqn:Et.
  destruct (Nat.lt_ge_cases t n) as [Hc | Hc].
  - (* fewer than n values so far *)
    specialize (Hsm Hc). subst ix.
    assert (Hf : Nat.ltb n t = false) by (apply Nat.ltb_ge; lia).
    rewrite Hf.
    replace (t - n) with 0 by lia. rewrite skipn_O.
    apply nth_ext with (d := 0%Z) (d' := 0%Z).
    + rewrite map_length, seq_length. exact Et.
    + intros i Hi. rewrite map_length, seq_length in Hi.
      rewrite nth_map_seq by lia. simpl plus.
      apply Hnth; lia.
  - specialize (Hbg Hc).
    assert (Hsize : (if Nat.ltb n ix then n else ix) = n).
    { destruct (Nat.ltb_spec n ix) as [Hw | Hw]; lia. }
    assert (Hstart : (if Nat.ltb n ix then ix mod n else 0) = t mod n).
    { destruct (Nat.ltb_spec n ix) as [Hw | Hw].
      - exact Hmod.
      - assert (Hixn : ix = n) by lia. rewrite <- Hmod, Hixn.
        rewrite Nat.mod_same by lia. reflexivity. }
    rewrite Hsize, Hstart.
    apply nth_ext with (d := 0%Z) (d' := 0%Z).
    + rewrite map_length, seq_length, skipn_length. lia.
    + intros i Hi. rewrite map_length, seq_length in Hi.
      rewrite nth_map_seq by lia.
      rewrite nth_skipn'.
      rewrite Nat.add_mod_idemp_l by lia.
      rewrite <- (mod_sub_n n (t + i)) by lia.
      replace (t + i - n) with (t - n + i) by lia.
      apply Hnth; lia.
Qed.

Lemma r_run_hist : forall n ops r h,
  1 <= n -> RInv n r h -> r_run r ops = hist_run n h ops.
Proof.
  intros n ops. induction ops as [| o ops IH]; intros r h Hn Hinv.
  - reflexivity.
  - destruct o as [x |].
    + cbn [r_run r_step hist_run hist_step].
      f_equal. apply IH; [exact Hn |]. apply r_add_inv; assumption.
    + cbn [r_run r_step hist_run hist_step].
      rewrite (r_take_ok n r h Hn Hinv).
      f_equal. apply IH; assumption.
Qed.

Theorem ring_keeps_last_n_proof : forall n ops, (1 <= n)%nat ->
  r_run (r_new n) ops = hist_run n [] ops.
Proof.
  intros n ops Hn. apply r_run_hist; [exact Hn |].
  apply r_new_inv. exact Hn.
Qed.

Print Assumptions queue_is_fifo_proof.
Print Assumptions ring_keeps_last_n_proof.
