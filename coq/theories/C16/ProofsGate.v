(* C16 - a Take whose loader is held while other callers use OTHER keys is the atomic Take of the
   sequential model placed where its loader returned.  This is what lets the check judge the
   executor's forced schedule take_gate (Take(k) parked in its loader; Set / Get / Del / Take /
   expiry of hundreds of other keys meanwhile) against the sequential reference: the history
   "inner operations, then Take k". *)
From Coq Require Import List ZArith Bool Lia.
From GZ Require Import C16.Model C16.ModelW C16.ProofsCache C16.ProofsCacheLru C16.ModelGate.
Import ListNotations. Open Scope Z_scope.

Lemma latest_gone_none : forall l x, latest (map EvGone l) x None = None.
Proof.
  induction l as [|a l IH]; intros x; simpl; [reflexivity|].
  destruct (a =? x); apply IH.
Qed.

Lemma lru_add_keeps_absent : forall c k x,
  alookup x (cdata c) = None -> alookup x (cdata (fst (c_lru_add c k))) = None.
Proof. intros c k x Hx. rewrite c_lru_add_lookup, Hx. apply latest_gone_none. Qed.

Lemma set_keeps_absent : forall c k v x, k <> x ->
  alookup x (cdata c) = None -> alookup x (cdata (fst (c_set c k v))) = None.
Proof.
  intros c k v x Hk Hx. unfold c_set. apply lru_add_keeps_absent. cbn [cdata].
  rewrite alookup_aset. destruct (k =? x) eqn:E; [apply Z.eqb_eq in E; contradiction|exact Hx].
Qed.

Lemma del_keeps_absent : forall c k x,
  alookup x (cdata c) = None -> alookup x (cdata (c_del c k)) = None.
Proof.
  intros c k x Hx. rewrite c_del_data, alookup_aremove. destruct (k =? x); [reflexivity|exact Hx].
Qed.

Lemma doget_keeps_absent : forall c k x,
  alookup x (cdata c) = None -> alookup x (cdata (fst (c_doget c k))) = None.
Proof.
  intros c k x Hx. unfold c_doget. destruct (alookup k (cdata c)); cbn [fst]; [|exact Hx].
  apply lru_add_keeps_absent. exact Hx.
Qed.

(* no operation on another key makes key x appear *)
Lemma step_keeps_absent : forall c o x, cop_key o <> x ->
  alookup x (cdata c) = None -> alookup x (cdata (fst (fst (c_step c o)))) = None.
Proof.
  intros c o x Hk Hx. destruct o as [k v|k|k|k f|k]; cbn [cop_key] in Hk.
  - rewrite c_step_set. cbn [fst]. apply set_keeps_absent; assumption.
  - rewrite c_step_get. cbn [fst]. apply doget_keeps_absent. exact Hx.
  - cbn [c_step fst]. apply del_keeps_absent. exact Hx.
  - destruct (alookup k (cdata c)) as [w|] eqn:Hw.
    + rewrite (c_step_take_hit c k f w Hw). cbn [fst]. apply lru_add_keeps_absent. exact Hx.
    + destruct f as [v|].
      * rewrite (c_step_take_miss_some c k v Hw). cbn [fst]. apply set_keeps_absent; assumption.
      * rewrite (c_step_take_miss_none c k Hw). cbn [fst]. exact Hx.
  - cbn [c_step fst]. apply del_keeps_absent. exact Hx.
Qed.

Lemma final_keeps_absent : forall inner c x, Forall (fun o => cop_key o <> x) inner ->
  alookup x (cdata c) = None -> alookup x (cdata (c_final c inner)) = None.
Proof.
  induction inner as [|o inner IH]; intros c x HF Hx; cbn [c_final]; [exact Hx|].
  inversion HF as [|o' l' Ho Hl]; subst. apply IH; [exact Hl|].
  apply step_keeps_absent; assumption.
Qed.

Lemma c_run_app : forall a b c, c_run c (a ++ b) = c_run c a ++ c_run (c_final c a) b.
Proof.
  induction a as [|o a IH]; intros b c; [reflexivity|].
  cbn [app c_run c_final]. destruct (c_step c o) as [[c' r] ev]. cbn [fst]. rewrite IH. reflexivity.
Qed.

Lemma c_final_app : forall a b c, c_final c (a ++ b) = c_final (c_final c a) b.
Proof.
  induction a as [|o a IH]; intros b c; [reflexivity|]. cbn [app c_final]. apply IH.
Qed.

(* Take(k) misses, its loader is held while [inner] - operations of other callers, none of them
   on k - runs, then the loader returns: state and every observation are those of the
   sequential history "inner, then Take k" (for every state, limit, loader outcome) *)
Theorem take_held_is_take_after_proof : forall c k f inner,
  alookup k (cdata c) = None ->
  Forall (fun o => cop_key o <> k) inner ->
  let '(c', r, rs) := c_take_held c k f inner in
  c_run c (inner ++ [CTake k f]) = rs ++ [r] /\ c_final c (inner ++ [CTake k f]) = c'.
Proof.
  intros c k f inner Hk HF. unfold c_take_held.
  rewrite (c_doget_miss c k Hk). rewrite (c_doget_miss c k Hk).
  pose proof (final_keeps_absent inner c k HF Hk) as Hk3.
  rewrite c_run_app, c_final_app. cbn [c_run c_final].
  destruct f as [v|].
  - rewrite (c_step_take_miss_some _ k v Hk3). cbn [fst]. split; reflexivity.
  - rewrite (c_step_take_miss_none _ k Hk3). cbn [fst]. split; reflexivity.
Qed.

(* ... and a Take that hits has no loader to hold: it is the atomic Take, the others run after *)
Theorem take_held_hit_is_take_first_proof : forall c k f inner v,
  alookup k (cdata c) = Some v ->
  let '(c', r, rs) := c_take_held c k f inner in
  c_run c (CTake k f :: inner) = r :: rs /\ c_final c (CTake k f :: inner) = c'.
Proof.
  intros c k f inner v Hv. unfold c_take_held. rewrite (c_doget_hit c k v Hv).
  cbn [c_run c_final]. rewrite (c_step_take_hit c k f v Hv). cbn [fst]. split; reflexivity.
Qed.

(* composed with the LRU refinement: from the empty cache, after any prefix, the held Take and
   the operations run meanwhile answer exactly as the oldest-stamp reference cache (the one
   prop_ok uses) answers on "prefix, inner, Take k" *)
Theorem take_held_answers_as_reference_proof : forall limit pre k f inner,
  let c := c_final (c_new limit) pre in
  alookup k (cdata c) = None ->
  Forall (fun o => cop_key o <> k) inner ->
  let '(_, r, rs) := c_take_held c k f inner in
  s_run (s_new limit) (pre ++ inner ++ [CTake k f]) = c_run (c_new limit) pre ++ rs ++ [r].
Proof.
  intros limit pre k f inner c Hk HF.
  pose proof (take_held_is_take_after_proof c k f inner Hk HF) as H.
  destruct (c_take_held c k f inner) as [[c' r] rs]. destruct H as [Hrun _].
  rewrite <- (proj1 (cache_evicts_lru_proof limit (pre ++ inner ++ [CTake k f]))).
  rewrite c_run_app. fold c. rewrite Hrun. reflexivity.
Qed.

(* ------------------------------------------------------------------ *)
(* with the timing wheel: ticks fire other keys' timers while the loader is parked *)

Lemma callbacks_keep_absent : forall f c w x,
  alookup x (cdata c) = None -> alookup x (cdata (fst (cw_callbacks c w f))) = None.
Proof.
  unfold cw_callbacks. induction f as [|kv f IH]; intros c w x Hx; cbn [fold_left fst]; [exact Hx|].
  apply IH. cbn [fst]. apply del_keeps_absent. exact Hx.
Qed.

Lemma cw_set_keeps_absent : forall s k v d x, k <> x ->
  alookup x (cdata (cwc s)) = None ->
  alookup x (cdata (cwc (fst (fst (cw_set s k v d))))) = None.
Proof.
  intros s k v d x Hk Hx. unfold cw_set.
  pose proof (set_keeps_absent (cwc s) k v x Hk Hx) as H1.
  destruct (c_set (cwc s) k v) as [c1 ev]. cbn [fst] in H1.
  destruct (if amem k (cdata (cwc s)) && cwmv s
            then TW.move_task (tw_removes (cww s) ev) k d
            else (TW.set_task (tw_removes (cww s) ev) k v d, [])) as [w2 f].
  pose proof (callbacks_keep_absent f c1 w2 x H1) as H2.
  destruct (cw_callbacks c1 w2 f) as [c2 w3]. cbn [fst cwc]. exact H2.
Qed.

Lemma cw_step_keeps_absent : forall s o x, xop_avoids x o ->
  alookup x (cdata (cwc s)) = None ->
  alookup x (cdata (cwc (fst (fst (cw_step s o))))) = None.
Proof.
  intros s o x Ha Hx. destruct o as [k v d|k|k|k f d|]; cbn [xop_avoids] in Ha.
  - cbn [cw_step]. pose proof (cw_set_keeps_absent s k v d x Ha Hx) as H.
    destruct (cw_set s k v d) as [[s' ev] ex]. cbn [fst] in *. exact H.
  - cbn [cw_step]. pose proof (doget_keeps_absent (cwc s) k x Hx) as H.
    destruct (c_doget (cwc s) k) as [c' r]. cbn [fst cwc] in *. exact H.
  - cbn [cw_step fst cwc]. apply del_keeps_absent. exact Hx.
  - cbn [cw_step]. pose proof (doget_keeps_absent (cwc s) k x Hx) as H.
    destruct (c_doget (cwc s) k) as [c' [w|]]; cbn [fst] in H.
    + cbn [fst cwc]. exact H.
    + destruct f as [v|].
      * pose proof (cw_set_keeps_absent (mkCW c' (cww s) (cwmv s)) k v d x Ha H) as H2.
        destruct (cw_set (mkCW c' (cww s) (cwmv s)) k v d) as [[s' ev] ex]. cbn [fst] in *. exact H2.
      * cbn [fst cwc]. exact H.
  - cbn [cw_step]. destruct (TW.on_tick (cww s)) as [w1 f].
    pose proof (callbacks_keep_absent f (cwc s) w1 x Hx) as H.
    destruct (cw_callbacks (cwc s) w1 f) as [c2 w2]. cbn [fst cwc] in *. exact H.
Qed.

Lemma cw_final_keeps_absent : forall inner s x, Forall (xop_avoids x) inner ->
  alookup x (cdata (cwc s)) = None -> alookup x (cdata (cwc (cw_final s inner))) = None.
Proof.
  induction inner as [|o inner IH]; intros s x HF Hx; cbn [cw_final]; [exact Hx|].
  inversion HF as [|o' l' Ho Hl]; subst. apply IH; [exact Hl|].
  apply cw_step_keeps_absent; assumption.
Qed.

Lemma cw_run_app : forall a b s, cw_run s (a ++ b) = cw_run s a ++ cw_run (cw_final s a) b.
Proof.
  induction a as [|o a IH]; intros b s; [reflexivity|].
  cbn [app cw_run cw_final]. destruct (cw_step s o) as [[s' r] ex]. cbn [fst]. rewrite IH. reflexivity.
Qed.

Lemma cw_final_app : forall a b s, cw_final s (a ++ b) = cw_final (cw_final s a) b.
Proof.
  induction a as [|o a IH]; intros b s; [reflexivity|]. cbn [app cw_final]. apply IH.
Qed.

(* for every limit, wheel, expiry d, loader outcome: Take(k) misses, its loader is held while
   [inner] runs - operations on other keys AND ticks of the wheel (other entries expire, their
   callbacks delete them) - then returns: all observations and the final state (cache AND wheel:
   k's timer is armed when the loader returns) are those of "inner, then Take k" *)
Theorem cw_take_held_is_take_after_proof : forall s k f d inner,
  alookup k (cdata (cwc s)) = None ->
  Forall (xop_avoids k) inner ->
  let '(s', r, rs) := cw_take_held s k f d inner in
  cw_run s (inner ++ [XTake k f d]) = rs ++ [r] /\ cw_final s (inner ++ [XTake k f d]) = s'.
Proof.
  intros s k f d inner Hk HF. unfold cw_take_held.
  rewrite (c_doget_miss (cwc s) k Hk). cbn [cwc]. rewrite (c_doget_miss (cwc s) k Hk).
  assert (Hs : mkCW (cwc s) (cww s) (cwmv s) = s) by (destruct s; reflexivity).
  rewrite Hs.
  pose proof (cw_final_keeps_absent inner s k HF Hk) as Hk3.
  rewrite cw_run_app, cw_final_app. cbn [cw_run cw_final cw_step].
  rewrite (c_doget_miss _ k Hk3).
  assert (Hs3 : mkCW (cwc (cw_final s inner)) (cww (cw_final s inner)) (cwmv (cw_final s inner)) = cw_final s inner)
    by (destruct (cw_final s inner); reflexivity).
  rewrite Hs3.
  destruct f as [v|].
  - destruct (cw_set (cw_final s inner) k v d) as [[s4 ev] ex]. cbn [fst]. split; reflexivity.
  - cbn [fst]. split; reflexivity.
Qed.
