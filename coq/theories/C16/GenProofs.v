(* C16 - proofs that mention coq/gen/C16Consts.v, i.e. the constants extracted from
   today's core/collection/{safemap,cache}.go: re-checked whenever a constant changes. *)
From Coq Require Import List ZArith Bool Lia.
From GZgen Require C16Consts.
From GZ Require Import C16.Model C16.ProofsMap C16.ModelW C16.ProofsW C16.ProofsWClamp.
From GZ Require Import C16.Check C16.ProofsRefW.
Import ListNotations.
Open Scope Z_scope.

(* SafeMap with the thresholds in the source today refines a plain map *)
Lemma safemap_refines_map_today : forall ops,
  Forall2 obs_equiv
    (sm_run (mkSMC C16Consts.safemap_copyThreshold C16Consts.safemap_maxDeletion) sm_new ops)
    (map_run [] ops).
Proof. intros ops. apply safemap_refines_map_proof. Qed.

(* the cache's wheel meets the hypotheses of the wheel theorems *)
Lemma cache_wheel_params_ok :
  1 <= C16Consts.cache_slots /\ 1 <= C16Consts.cache_wheel_interval_ns.
Proof. vm_compute. split; discriminate. Qed.

(* jitter: SetWithExpire hands the wheel a duration d with
   (1 - dev) * e <= d <= (1 + dev) * e.  For an expiry of m + 1/2 wheel intervals,
   1 <= m <= 9, every such d lies strictly inside the m-th interval, so the number of
   ticks floor(d / interval) = m is determined although d is not (this is what the
   correspondence run relies on: it only uses such expiries). *)
Lemma cache_jitter_window : forall m e d,
  1 <= m <= 9 ->
  2 * e = (2 * m + 1) * C16Consts.cache_wheel_interval_ns ->
  (C16Consts.cache_expiry_deviation_den - C16Consts.cache_expiry_deviation_num) * e
    <= C16Consts.cache_expiry_deviation_den * d ->
  C16Consts.cache_expiry_deviation_den * d
    <= (C16Consts.cache_expiry_deviation_den + C16Consts.cache_expiry_deviation_num) * e ->
  d / C16Consts.cache_wheel_interval_ns = m /\ C16Consts.cache_wheel_interval_ns <= d.
Proof.
  unfold C16Consts.cache_wheel_interval_ns, C16Consts.cache_expiry_deviation_den,
    C16Consts.cache_expiry_deviation_num.
  intros m e d Hm He Hlo Hhi.
  assert (Hd : m * 1000000000 <= d < (m + 1) * 1000000000) by lia.
  split; [|lia].
  symmetry. apply Z.div_unique with (r := d - m * 1000000000); lia.
Qed.

(* with a sub-interval expiry the same window lies below one interval *)
Lemma cache_jitter_window_sub : forall e d,
  2 * e = C16Consts.cache_wheel_interval_ns ->
  0 <= d ->
  C16Consts.cache_expiry_deviation_den * d
    <= (C16Consts.cache_expiry_deviation_den + C16Consts.cache_expiry_deviation_num) * e ->
  d < C16Consts.cache_wheel_interval_ns.
Proof.
  unfold C16Consts.cache_wheel_interval_ns, C16Consts.cache_expiry_deviation_den,
    C16Consts.cache_expiry_deviation_num.
  intros e d He Hd Hhi. lia.
Qed.

(* the expiry theorem at today's wheel parameters *)
Lemma cache_entry_expires_at_due_tick_today : forall limit mv pre k v d a,
  C16Consts.cache_wheel_interval_ns <= d ->
  let s1 := cw_final (cw_new limit C16Consts.cache_slots C16Consts.cache_wheel_interval_ns mv)
                     (pre ++ [XSet k v d]) in
  forallb (fun o => negb (xwrites k o)) a = true ->
  cw_never_evicts s1 k a ->
  alookup k (cdata (cwc (cw_final s1 a))) =
  if xticks a <? d / C16Consts.cache_wheel_interval_ns then Some v else None.
Proof.
  intros limit mv pre k v d a Hd.
  destruct cache_wheel_params_ok as [Hn Hi].
  apply cache_entry_expires_at_due_tick_proof; assumption.
Qed.

(* the source today refreshes a rewritten key's timer with SetTimer (repair 9733d1f):
   the clamped theorems (ProofsWClamp.v) are the ones that apply.  If SetWithExpire goes
   back to MoveTimer this obligation breaks (and the correspondence finds the lost entry). *)
Lemma cache_rewrite_uses_set_timer_today : C16Consts.cache_rewrite_uses_move_timer = false.
Proof. reflexivity. Qed.

Lemma cache_entry_expires_clamped_today : forall limit pre k v d a,
  0 < d ->
  let s1 := cw_final (cw_new limit C16Consts.cache_slots C16Consts.cache_wheel_interval_ns
                             C16Consts.cache_rewrite_uses_move_timer)
                     (pre ++ [XSet k v d]) in
  forallb (fun o => negb (xwrites k o)) a = true ->
  cw_never_evicts s1 k a ->
  alookup k (cdata (cwc (cw_final s1 a))) =
  if xticks a <? Z.max d C16Consts.cache_wheel_interval_ns / C16Consts.cache_wheel_interval_ns
  then Some v else None.
Proof.
  intros limit pre k v d a _.
  destruct cache_wheel_params_ok as [Hn Hi].
  rewrite cache_rewrite_uses_set_timer_today.
  apply cache_entry_expires_clamped_proof; assumption.
Qed.

(* the reference of Check.prop_ok is refined by the composed model at today's wheel
   parameters and today's choice of SetTimer for rewrites *)
Lemma cachew_refines_stamp_reference_today : forall limit ops,
  forallb xx_in_scope ops = true ->
  cwx_run (cw_new limit C16Consts.cache_slots C16Consts.cache_wheel_interval_ns
                  C16Consts.cache_rewrite_uses_move_timer) [] ops =
  refwx_run C16Consts.cache_wheel_interval_ns (mkRefW (s_new limit) []) ops.
Proof.
  intros limit ops H. destruct cache_wheel_params_ok as [Hn Hi].
  rewrite cache_rewrite_uses_set_timer_today.
  apply cachew_refines_stamp_reference_proof; assumption.
Qed.
