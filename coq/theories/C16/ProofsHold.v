(* C16 - expiry callbacks that run later than the tick that fired them (Check.XTickHold /
   XRelease).  If every held tick is released before anything else happens, holding changes
   nothing: the history is the one with plain ticks, and the composed model still answers as
   the reference of Check.prop_ok.  (What happens when the fired key is written again while
   its callback is held is Pinned.cache_stale_expiry_callback_refuted.) *)
From Coq Require Import List ZArith Bool Lia.
From GZ Require C12.Model C12.Proofs.
From GZ Require Import C16.Model C16.ProofsCache C16.ProofsCacheLru C16.ModelW C16.ProofsW C16.ProofsWClamp.
From GZ Require Import C16.Check C16.ProofsExtra C16.ProofsRefW.
Import ListNotations. Open Scope Z_scope.

(* every held tick is released at once *)
Fixpoint immediate (ops : list xxop) : bool :=
  match ops with
  | [] => true
  | XTickHold :: ops' => match ops' with XRelease :: ops'' => immediate ops'' | _ => false end
  | XRelease :: _ => false
  | _ :: ops' => immediate ops'
  end.

Fixpoint collapse (ops : list xxop) : list xxop :=
  match ops with
  | [] => []
  | XTickHold :: ops' => XX XTick :: collapse ops'
  | o :: ops' => o :: collapse ops'
  end.

Lemma release_nothing : forall s ops, cwx_run s [] (XRelease :: ops) = OUnit :: cwx_run s [] ops.
Proof. intros s ops. cbn [cwx_run cw_callbacks fold_left]. rewrite cw_eta. reflexivity. Qed.

Lemma hold_release_is_tick : forall s ops,
  cwx_run s [] (XTickHold :: XRelease :: ops) = cwx_run s [] (XX XTick :: XRelease :: ops).
Proof.
  intros s ops. cbn [cwx_run cwx_step cw_step app cwc cww cwmv].
  destruct (TW.on_tick (cww s)) as [w1 f]. cbn [cwc cww cwmv].
  destruct (cw_callbacks (cwc s) w1 f) as [c2 w2].
  cbn [cw_callbacks fold_left cwc cww cwmv]. reflexivity.
Qed.

Lemma immediate_collapse_gen : forall n ops s, (length ops <= n)%nat -> immediate ops = true ->
  cwx_run s [] ops = cwx_run s [] (collapse ops).
Proof.
  induction n as [|n IH]; intros ops s Hlen Him.
  - destruct ops; [reflexivity|simpl in Hlen; lia].
  - destruct ops as [|o ops]; [reflexivity|]. simpl in Hlen.
    destruct o as [o| | | |].
    + cbn [cwx_run collapse]. destruct (cwx_step s o) as [s' r]. f_equal. apply IH; [lia|exact Him].
    + cbn [cwx_run collapse]. f_equal. apply IH; [lia|exact Him].
    + cbn [cwx_run collapse]. f_equal. apply IH; [lia|exact Him].
    + destruct ops as [|o2 ops]; [simpl in Him; discriminate Him|]. destruct o2; try (simpl in Him; discriminate Him).
      cbn [immediate] in Him. rewrite hold_release_is_tick. cbn [collapse].
      change (cwx_run s [] (XX XTick :: XRelease :: ops)) with
        (let (s', r) := cwx_step s XTick in r :: cwx_run s' [] (XRelease :: ops)).
      change (cwx_run s [] (XX XTick :: XRelease :: collapse ops)) with
        (let (s', r) := cwx_step s XTick in r :: cwx_run s' [] (XRelease :: collapse ops)).
      destruct (cwx_step s XTick) as [s' r]. f_equal. rewrite !release_nothing. f_equal.
      simpl in Hlen. apply IH; [lia|exact Him].
    + simpl in Him; discriminate Him.
Qed.

Theorem held_ticks_released_at_once_are_ticks_proof : forall ops s, immediate ops = true ->
  cwx_run s [] ops = cwx_run s [] (collapse ops).
Proof. intros ops s. apply (immediate_collapse_gen (length ops)). apply Nat.le_refl. Qed.

(* ... and then the reference is still refined *)
Definition xx_in_scope_held (o : xxop) : bool :=
  match o with XTickHold | XRelease => true | _ => xx_in_scope o end.

Lemma refwx_collapse : forall i ops r, immediate ops = true ->
  refwx_run i r ops = refwx_run i r (collapse ops).
Proof.
  intros i ops. remember (length ops) as n eqn:Hn. revert ops Hn.
  induction n as [n IH] using lt_wf_ind. intros ops Hn r Him.
  destruct ops as [|o ops]; [reflexivity|]. simpl in Hn.
  destruct o as [o| | | |].
  - cbn [refwx_run collapse]. destruct (refw_step i r o) as [r' ob]. f_equal.
    apply (IH (length ops)); [lia|reflexivity|exact Him].
  - cbn [refwx_run collapse]. f_equal. apply (IH (length ops)); [lia|reflexivity|exact Him].
  - cbn [refwx_run collapse]. f_equal. apply (IH (length ops)); [lia|reflexivity|exact Him].
  - destruct ops as [|o2 ops]; [simpl in Him; discriminate Him|]. destruct o2; try (simpl in Him; discriminate Him).
    cbn [immediate] in Him. cbn [refwx_run collapse]. destruct (refw_step i r XTick) as [r' ob].
    f_equal. f_equal. simpl in Hn. apply (IH (length ops)); [lia|reflexivity|exact Him].
  - simpl in Him; discriminate Him.
Qed.

Lemma scope_collapse : forall n ops, (length ops <= n)%nat -> immediate ops = true ->
  forallb xx_in_scope_held ops = true ->
  forallb (fun o => match o with XRelease => true | _ => xx_in_scope o end) (collapse ops) = true.
Proof.
  induction n as [|n IH]; intros ops Hlen Him Hsc.
  - destruct ops; [reflexivity|simpl in Hlen; lia].
  - destruct ops as [|o ops]; [reflexivity|]. simpl in Hlen.
    cbn [forallb] in Hsc. apply andb_true_iff in Hsc. destruct Hsc as [Ho Hsc].
    destruct o as [o| | | |].
    + cbn [collapse forallb]. apply andb_true_iff. split; [exact Ho|]. apply IH; [lia|exact Him|exact Hsc].
    + cbn [collapse forallb]. apply andb_true_iff. split; [reflexivity|]. apply IH; [lia|exact Him|exact Hsc].
    + cbn [collapse forallb]. apply andb_true_iff. split; [reflexivity|]. apply IH; [lia|exact Him|exact Hsc].
    + destruct ops as [|o2 ops]; [simpl in Him; discriminate Him|].
      destruct o2; try (simpl in Him; discriminate Him).
      cbn [immediate] in Him. cbn [forallb] in Hsc. apply andb_true_iff in Hsc. destruct Hsc as [_ Hsc].
      cbn [collapse forallb]. apply andb_true_iff. split; [reflexivity|].
      apply andb_true_iff. split; [reflexivity|]. simpl in Hlen. apply IH; [lia|exact Him|exact Hsc].
    + simpl in Him. discriminate Him.
Qed.

(* a Release with nothing pending is invisible: drop it and use the refinement theorem *)
Fixpoint drop_release (ops : list xxop) : list xxop :=
  match ops with
  | [] => []
  | XRelease :: ops' => drop_release ops'
  | o :: ops' => o :: drop_release ops'
  end.

Lemma RW_run_rel : forall i ops s r, 1 <= i -> RW i s r ->
  forallb (fun o => match o with XRelease => true | _ => xx_in_scope o end) ops = true ->
  cwx_run s [] ops = refwx_run i r ops.
Proof.
  intros i ops. induction ops as [|o ops IH]; intros s r Hi HRW Hsc; [reflexivity|].
  cbn [forallb] in Hsc. apply andb_true_iff in Hsc. destruct Hsc as [Ho Hsc].
  destruct o as [o| | | |]; try (simpl in Ho; discriminate Ho).
  - cbn [cwx_run refwx_run].
    assert (Hpos : match o with XSet _ _ d | XTake _ _ d => 0 < d | _ => True end).
    { destruct o; simpl in Ho; try exact I; apply Z.ltb_lt; exact Ho. }
    rewrite (cwx_step_pos s o Hpos).
    destruct (RW_step i s r o Hi HRW) as [Hobs HRW'].
    destruct (refw_step i r o) as [r' ob]. cbn [fst snd] in *. rewrite Hobs.
    rewrite (IH _ _ Hi HRW' Hsc). reflexivity.
  - cbn [cwx_run refwx_run]. pose proof HRW as (HR & _). pose proof HR as (_ & Hd & _).
    rewrite Hd, keys_proj. rewrite (IH s r Hi HRW Hsc). reflexivity.
  - cbn [cwx_run refwx_run]. pose proof HRW as (HR & _). pose proof HR as (_ & Hd & _).
    unfold alen. rewrite Hd, map_length. rewrite (IH s r Hi HRW Hsc). reflexivity.
  - rewrite release_nothing. cbn [refwx_run]. f_equal. apply IH; assumption.
Qed.

Theorem cachew_with_prompt_callbacks_refines_reference_proof : forall limit n i ops, 1 <= n -> 1 <= i ->
  immediate ops = true -> forallb xx_in_scope_held ops = true ->
  cwx_run (cw_new limit n i false) [] ops = refwx_run i (mkRefW (s_new limit) []) ops.
Proof.
  intros limit n i ops Hn Hi Him Hsc.
  rewrite (held_ticks_released_at_once_are_ticks_proof ops _ Him), (refwx_collapse i ops _ Him).
  apply RW_run_rel; [exact Hi|apply RW_new; assumption|apply (scope_collapse (length ops)); [apply Nat.le_refl|assumption|assumption]].
Qed.

Print Assumptions cachew_with_prompt_callbacks_refines_reference_proof.
