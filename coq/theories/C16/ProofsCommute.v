(* C16 - why the histories of the kind "stress" may be judged in the sequential order
   "script 1, script 2, ..." chosen by tools/props/c16.py, for every object it is used for:

   * objects addressed by key (Cache without a limit, the map reference of SafeMap, Set):
     goroutines on DISJOINT keys cannot influence each other - in every interleaving each one's
     operations return what they return when it runs alone, and leave its keys as they leave
     them alone; hence two interleavings with the same per-goroutine scripts give every goroutine
     the same answers ([*_disjoint_ops_commute]);
   * RollingWindow with Sum/Count buckets: Adds at non-decreasing times commute as far as the
     sums and counts of Reduce are concerned (any permutation of the history);
   * Queue / Ring, every goroutine putting the SAME value: all interleavings are the same
     operation sequence.

   (Every call of the real object is one critical section - checked by the race detector and
   the forced schedules - so an execution is an interleaving of the calls.) *)
From Coq Require Import List ZArith Bool Lia Permutation.
From GZ Require Import Lib.RollingWindow Lib.RollingWindowSpec Lib.RollingWindowProofs.
From GZ Require Import C16.Model C16.ProofsCache C16.ModelGate C16.Check.
Import ListNotations. Open Scope Z_scope.

(* ------------------------------------------------------------------ *)
(* generic: a store whose operations each address one key *)
Section Keyed.
  Variables St Op V T : Type.
  Variable key : Op -> Z.
  Variable step : St -> Op -> St * obs.
  Variable view : Z -> St -> V.          (* what the store holds under a key *)
  Variable ok : St -> Prop.              (* configurations the statement is about *)
  Hypothesis ok_step : forall s o, ok s -> ok (fst (step s o)).
  (* an operation reads and writes only what is under its key ... *)
  Hypothesis local : forall s s' o, ok s -> ok s' -> view (key o) s = view (key o) s' ->
    snd (step s o) = snd (step s' o) /\ view (key o) (fst (step s o)) = view (key o) (fst (step s' o)).
  (* ... and leaves every other key alone *)
  Hypothesis frame : forall s o k, ok s -> k <> key o -> view k (fst (step s o)) = view k s.

  Variable mine : T -> bool.             (* the goroutine under consideration *)
  Variable K : Z -> Prop.                (* its keys *)

  Fixpoint grun (s : St) (ops : list Op) : list obs :=
    match ops with [] => [] | o :: ops' => snd (step s o) :: grun (fst (step s o)) ops' end.
  Fixpoint gfin (s : St) (ops : list Op) : St :=
    match ops with [] => s | o :: ops' => gfin (fst (step s o)) ops' end.
  Fixpoint grun_tagged (s : St) (ops : list (T * Op)) : list (T * obs) :=
    match ops with
    | [] => []
    | (t, o) :: ops' => (t, snd (step s o)) :: grun_tagged (fst (step s o)) ops'
    end.

  Definition own (ops : list (T * Op)) : list Op := map snd (filter (fun p => mine (fst p)) ops).
  Definition own_obs (rs : list (T * obs)) : list obs := map snd (filter (fun p => mine (fst p)) rs).
  (* the goroutine's operations address its keys, everybody else's do not *)
  Definition separated (ops : list (T * Op)) : Prop :=
    forall p, In p ops -> if mine (fst p) then K (key (snd p)) else ~ K (key (snd p)).

  Lemma keyed_independent_gen : forall ops s s',
    ok s -> ok s' -> separated ops -> (forall k, K k -> view k s = view k s') ->
    own_obs (grun_tagged s ops) = grun s' (own ops) /\
    (forall k, K k -> view k (gfin s (map snd ops)) = view k (gfin s' (own ops))).
  Proof.
    induction ops as [|[t o] ops IH]; intros s s' Hs Hs' Hsep Ha; [split; [reflexivity|exact Ha]|].
    assert (Hsep' : separated ops) by (intros p Hp; apply Hsep; right; exact Hp).
    pose proof (Hsep (t, o) (or_introl eq_refl)) as Ho. cbn [fst snd] in Ho.
    unfold own, own_obs in *. cbn [grun_tagged map gfin snd filter fst].
    destruct (mine t) eqn:Hm.
    - destruct (local s s' o Hs Hs' (Ha _ Ho)) as [Hr Hv].
      cbn [map snd grun gfin].
      assert (Ha' : forall k, K k -> view k (fst (step s o)) = view k (fst (step s' o))).
      { intros k Hk. destruct (Z.eq_dec k (key o)) as [->|Hne]; [exact Hv|].
        rewrite (frame s o k Hs Hne), (frame s' o k Hs' Hne). apply Ha; exact Hk. }
      destruct (IH _ _ (ok_step s o Hs) (ok_step s' o Hs') Hsep' Ha') as [H1 H2].
      split; [rewrite Hr; f_equal; exact H1|exact H2].
    - assert (Ha' : forall k, K k -> view k (fst (step s o)) = view k s').
      { intros k Hk. rewrite (frame s o k Hs); [apply Ha; exact Hk|].
        intro Heq; subst k. exact (Ho Hk). }
      exact (IH _ _ (ok_step s o Hs) Hs' Hsep' Ha').
  Qed.

  (* in any interleaving, a goroutine's operations return what they return alone *)
  Theorem keyed_independent : forall ops s, ok s -> separated ops ->
    own_obs (grun_tagged s ops) = grun s (own ops) /\
    (forall k, K k -> view k (gfin s (map snd ops)) = view k (gfin s (own ops))).
  Proof. intros ops s Hs Hsep. apply keyed_independent_gen; auto. Qed.

  (* two interleavings of the same scripts: same answers for the goroutine, same contents under
     its keys at the end *)
  Theorem keyed_disjoint_ops_commute : forall ops1 ops2 s, ok s ->
    separated ops1 -> separated ops2 -> own ops1 = own ops2 ->
    own_obs (grun_tagged s ops1) = own_obs (grun_tagged s ops2) /\
    (forall k, K k -> view k (gfin s (map snd ops1)) = view k (gfin s (map snd ops2))).
  Proof.
    intros ops1 ops2 s Hs H1 H2 He.
    destruct (keyed_independent ops1 s Hs H1) as [A1 B1].
    destruct (keyed_independent ops2 s Hs H2) as [A2 B2].
    split; [rewrite A1, A2, He; reflexivity|].
    intros k Hk. rewrite (B1 k Hk), (B2 k Hk), He. reflexivity.
  Qed.
End Keyed.

(* ------------------------------------------------------------------ *)
(* the Cache without a limit (WithLimit <= 0: emptyLru); every cache operation is keyed *)
Definition cstep (c : cache) (o : cop) : cache * obs := (fst (fst (c_step c o)), snd (fst (c_step c o))).
Definition cview (k : Z) (c : cache) : option Z := alookup k (cdata c).
Definition nolimit (c : cache) : Prop := climit c <= 0.

Lemma lru_remove_nolimit : forall c k, climit c <= 0 -> c_lru_remove c k = c.
Proof. intros c k H. unfold c_lru_remove. apply Z.leb_le in H. rewrite H. reflexivity. Qed.

Lemma nolimit_set : forall c k v, climit c <= 0 ->
  c_set c k v = (mkC (climit c) (aset k v (cdata c)) (clru c), []).
Proof. intros c k v H. unfold c_set. apply c_lru_add_nolimit. exact H. Qed.

Lemma nolimit_del : forall c k, climit c <= 0 ->
  c_del c k = mkC (climit c) (aremove k (cdata c)) (clru c).
Proof. intros c k H. unfold c_del. apply lru_remove_nolimit. exact H. Qed.

Lemma nolimit_doget : forall c k, climit c <= 0 -> c_doget c k = (c, alookup k (cdata c)).
Proof.
  intros c k H. unfold c_doget. destruct (alookup k (cdata c)); [|reflexivity].
  rewrite (c_lru_add_nolimit c k H). reflexivity.
Qed.

(* what an operation does to the data and what it returns, as a function of the data only *)
Definition cdata_after (d : amap) (o : cop) : amap :=
  match o with
  | CSet k v => aset k v d
  | CGet _ => d
  | CDel k => aremove k d
  | CExpire k => aremove k d
  | CTake k f => match alookup k d, f with None, Some v => aset k v d | _, _ => d end
  end.
Definition cobs_of (d : amap) (o : cop) : obs :=
  match o with
  | CSet _ _ => OUnit
  | CGet k => OOpt (alookup k d)
  | CDel _ => OUnit
  | CExpire _ => OUnit
  | CTake k f => match alookup k d with Some v => OTake (Some v) false | None => OTake f true end
  end.

Lemma nolimit_step : forall c o, climit c <= 0 ->
  cstep c o = (mkC (climit c) (cdata_after (cdata c) o) (clru c), cobs_of (cdata c) o).
Proof.
  intros c o H. unfold cstep.
  destruct o as [k v|k|k|k f|k]; cbn [c_step cdata_after cobs_of].
  - rewrite (nolimit_set _ k v H). reflexivity.
  - rewrite (nolimit_doget _ k H). destruct c; reflexivity.
  - rewrite (nolimit_del _ k H). reflexivity.
  - rewrite (nolimit_doget _ k H). destruct (alookup k (cdata c)) as [w|]; [destruct c; reflexivity|].
    destruct f as [v|]; [rewrite (nolimit_set _ k v H); reflexivity|destruct c; reflexivity].
  - rewrite (nolimit_del _ k H). reflexivity.
Qed.

Lemma cstep_ok : forall c o, nolimit c -> nolimit (fst (cstep c o)).
Proof. intros c o H. unfold nolimit. rewrite (nolimit_step c o H). exact H. Qed.

Lemma cstep_local : forall c c' o, nolimit c -> nolimit c' ->
  cview (cop_key o) c = cview (cop_key o) c' ->
  snd (cstep c o) = snd (cstep c' o) /\
  cview (cop_key o) (fst (cstep c o)) = cview (cop_key o) (fst (cstep c' o)).
Proof.
  intros c c' o H H' Hv. unfold cview in *.
  rewrite (nolimit_step c o H), (nolimit_step c' o H'). cbn [fst snd cdata].
  destruct o as [k v|k|k|k f|k]; cbn [cop_key cdata_after cobs_of] in *.
  - split; [reflexivity|]. rewrite !alookup_aset, Z.eqb_refl. reflexivity.
  - rewrite Hv. split; reflexivity.
  - split; [reflexivity|]. rewrite !alookup_aremove, Z.eqb_refl. reflexivity.
  - rewrite Hv. destruct (alookup k (cdata c')) as [w|] eqn:E; [split; [reflexivity|]; rewrite Hv; exact (eq_sym E) |].
    destruct f as [v|]; split; try reflexivity.
    + rewrite !alookup_aset, Z.eqb_refl. reflexivity.
    + rewrite Hv, E. reflexivity.
  - split; [reflexivity|]. rewrite !alookup_aremove, Z.eqb_refl. reflexivity.
Qed.

Lemma cstep_frame : forall c o k, nolimit c -> k <> cop_key o -> cview k (fst (cstep c o)) = cview k c.
Proof.
  intros c o k H Hk. unfold cview. rewrite (nolimit_step c o H). cbn [fst cdata].
  assert (Hne : forall x, k <> x -> (x =? k) = false) by (intros x Hx; apply Z.eqb_neq; congruence).
  destruct o as [x v|x|x|x f|x]; cbn [cop_key cdata_after] in *.
  - rewrite alookup_aset, (Hne x Hk). reflexivity.
  - reflexivity.
  - rewrite alookup_aremove, (Hne x Hk). reflexivity.
  - destruct (alookup x (cdata c)); [reflexivity|]. destruct f; [|reflexivity].
    rewrite alookup_aset, (Hne x Hk). reflexivity.
  - rewrite alookup_aremove, (Hne x Hk). reflexivity.
Qed.

Lemma grun_cstep : forall ops c, grun cache cop cstep c ops = c_run c ops.
Proof.
  induction ops as [|o ops IH]; intros c; [reflexivity|].
  cbn [grun c_run]. rewrite IH. unfold cstep. destruct (c_step c o) as [[c' r] ev]. reflexivity.
Qed.

Lemma gfin_cstep : forall ops c, gfin cache cop cstep c ops = c_final c ops.
Proof.
  induction ops as [|o ops IH]; intros c; [reflexivity|]. cbn [gfin c_final]. rewrite IH. reflexivity.
Qed.

(* Cache, no limit: a goroutine on its own keys K, inside any interleaving with goroutines on
   other keys, sees what it sees alone (c_run), and its keys end as they end alone *)
Theorem cache_disjoint_keys_independent_proof :
  forall (T : Type) (mine : T -> bool) (K : Z -> Prop) (ops : list (T * cop)) (c : cache),
  climit c <= 0 -> separated cop T cop_key mine K ops ->
  own_obs T mine (grun_tagged cache cop T cstep c ops) = c_run c (own cop T mine ops) /\
  (forall k, K k -> alookup k (cdata (c_final c (map snd ops))) = alookup k (cdata (c_final c (own cop T mine ops)))).
Proof.
  intros T mine K ops c Hc Hsep.
  destruct (keyed_independent cache cop (option Z) T cop_key cstep cview nolimit cstep_ok cstep_local cstep_frame
              mine K ops c Hc Hsep) as [A B].
  rewrite grun_cstep in A. split; [exact A|].
  intros k Hk. specialize (B k Hk). rewrite !gfin_cstep in B. exact B.
Qed.

Theorem cache_disjoint_ops_commute_proof :
  forall (T : Type) (mine : T -> bool) (K : Z -> Prop) (ops1 ops2 : list (T * cop)) (c : cache),
  climit c <= 0 ->
  separated cop T cop_key mine K ops1 -> separated cop T cop_key mine K ops2 ->
  own cop T mine ops1 = own cop T mine ops2 ->
  own_obs T mine (grun_tagged cache cop T cstep c ops1) = own_obs T mine (grun_tagged cache cop T cstep c ops2) /\
  (forall k, K k -> alookup k (cdata (c_final c (map snd ops1))) = alookup k (cdata (c_final c (map snd ops2)))).
Proof.
  intros T mine K ops1 ops2 c Hc H1 H2 He.
  destruct (keyed_disjoint_ops_commute cache cop (option Z) T cop_key cstep cview nolimit cstep_ok cstep_local
              cstep_frame mine K ops1 ops2 c Hc H1 H2 He) as [A B].
  split; [exact A|]. intros k Hk. specialize (B k Hk). rewrite !gfin_cstep in B. exact B.
Qed.

(* ------------------------------------------------------------------ *)
(* the map reference of SafeMap: keyed operations Set / Get / Del *)
Inductive kmop := KSet (k v : Z) | KGet (k : Z) | KDel (k : Z).
Definition kmop_op (o : kmop) : smop :=
  match o with KSet k v => MSet k v | KGet k => MGet k | KDel k => MDel k end.
Definition kmop_key (o : kmop) : Z := match o with KSet k _ => k | KGet k => k | KDel k => k end.
Definition mstep (m : amap) (o : kmop) : amap * obs := map_step m (kmop_op o).
Definition mview (k : Z) (m : amap) : option Z := alookup k m.
Definition anymap (m : amap) : Prop := True.

Lemma mstep_local : forall m m' o, anymap m -> anymap m' -> mview (kmop_key o) m = mview (kmop_key o) m' ->
  snd (mstep m o) = snd (mstep m' o) /\ mview (kmop_key o) (fst (mstep m o)) = mview (kmop_key o) (fst (mstep m' o)).
Proof.
  intros m m' o _ _ Hv. unfold mview, mstep in *. destruct o as [k v|k|k]; cbn [kmop_op kmop_key map_step fst snd] in *.
  - split; [reflexivity|]. rewrite !alookup_aset, Z.eqb_refl. reflexivity.
  - rewrite Hv. split; reflexivity.
  - split; [reflexivity|]. rewrite !alookup_aremove, Z.eqb_refl. reflexivity.
Qed.

Lemma mstep_frame : forall m o k, anymap m -> k <> kmop_key o -> mview k (fst (mstep m o)) = mview k m.
Proof.
  intros m o k _ Hk. unfold mview, mstep.
  assert (Hne : forall x, k <> x -> (x =? k) = false) by (intros x Hx; apply Z.eqb_neq; congruence).
  destruct o as [x v|x|x]; cbn [kmop_op kmop_key map_step fst] in *.
  - rewrite alookup_aset, (Hne x Hk). reflexivity.
  - reflexivity.
  - rewrite alookup_aremove, (Hne x Hk). reflexivity.
Qed.

Lemma grun_mstep : forall ops m, grun amap kmop mstep m ops = map_run m (map kmop_op ops).
Proof.
  induction ops as [|o ops IH]; intros m; [reflexivity|].
  cbn [grun map map_run]. rewrite IH. unfold mstep. destruct (map_step m (kmop_op o)) as [m' r]. reflexivity.
Qed.

Theorem map_disjoint_ops_commute_proof :
  forall (T : Type) (mine : T -> bool) (K : Z -> Prop) (ops1 ops2 : list (T * kmop)) (m : amap),
  separated kmop T kmop_key mine K ops1 -> separated kmop T kmop_key mine K ops2 ->
  own kmop T mine ops1 = own kmop T mine ops2 ->
  own_obs T mine (grun_tagged amap kmop T mstep m ops1) = own_obs T mine (grun_tagged amap kmop T mstep m ops2) /\
  own_obs T mine (grun_tagged amap kmop T mstep m ops1) = map_run m (map kmop_op (own kmop T mine ops1)) /\
  (forall k, K k -> alookup k (gfin amap kmop mstep m (map snd ops1)) = alookup k (gfin amap kmop mstep m (map snd ops2))).
Proof.
  intros T mine K ops1 ops2 m H1 H2 He.
  assert (Hok : forall s o, anymap s -> anymap (fst (mstep s o))) by (intros; exact I).
  destruct (keyed_disjoint_ops_commute amap kmop (option Z) T kmop_key mstep mview anymap Hok mstep_local mstep_frame
              mine K ops1 ops2 m I H1 H2 He) as [A B].
  destruct (keyed_independent amap kmop (option Z) T kmop_key mstep mview anymap Hok mstep_local mstep_frame
              mine K ops1 m I H1) as [C _].
  rewrite grun_mstep in C. split; [exact A|split; [exact C|exact B]].
Qed.

(* ------------------------------------------------------------------ *)
(* Set (not used concurrently by the check - collection.Set is documented as not thread-safe -
   stated for completeness): Add / Remove / Contains of disjoint keys *)
Inductive ksop := KAdd (k : Z) | KRemove (k : Z) | KContains (k : Z).
Definition ksop_op (o : ksop) : sop :=
  match o with KAdd k => SAdd k | KRemove k => SRemove k | KContains k => SContains k end.
Definition ksop_key (o : ksop) : Z := match o with KAdd k => k | KRemove k => k | KContains k => k end.
Definition sstep (s : list Z) (o : ksop) : list Z * obs := set_step s (ksop_op o).
Definition sview (k : Z) (s : list Z) : bool := smem k s.
Definition anyset (s : list Z) : Prop := True.

Lemma smem_sadd : forall x k s, smem x (sadd k s) = (x =? k) || smem x s.
Proof.
  intros x k s. unfold sadd. destruct (smem k s) eqn:E.
  - destruct (x =? k) eqn:Ex; [|reflexivity]. apply Z.eqb_eq in Ex. subst x. rewrite E. reflexivity.
  - reflexivity.
Qed.

Lemma smem_sremove : forall x k s, smem x (sremove k s) = negb (x =? k) && smem x s.
Proof.
  intros x k s. unfold smem, sremove. induction s as [|a s IH]; cbn [filter existsb].
  - rewrite andb_false_r. reflexivity.
  - destruct (a =? k) eqn:Ea; cbn [negb existsb].
    + rewrite IH. apply Z.eqb_eq in Ea. subst a. destruct (x =? k); reflexivity.
    + rewrite IH. destruct (x =? a) eqn:Exa; [|reflexivity].
      apply Z.eqb_eq in Exa. subst a. rewrite Ea. reflexivity.
Qed.

Lemma sstep_local : forall s s' o, anyset s -> anyset s' -> sview (ksop_key o) s = sview (ksop_key o) s' ->
  snd (sstep s o) = snd (sstep s' o) /\ sview (ksop_key o) (fst (sstep s o)) = sview (ksop_key o) (fst (sstep s' o)).
Proof.
  intros s s' o _ _ Hv. unfold sview, sstep in *. destruct o as [k|k|k]; cbn [ksop_op ksop_key set_step fst snd] in *.
  - split; [reflexivity|]. rewrite !smem_sadd, Z.eqb_refl. reflexivity.
  - split; [reflexivity|]. rewrite !smem_sremove, Z.eqb_refl. reflexivity.
  - rewrite Hv. split; reflexivity.
Qed.

Lemma sstep_frame : forall s o k, anyset s -> k <> ksop_key o -> sview k (fst (sstep s o)) = sview k s.
Proof.
  intros s o k _ Hk. unfold sview, sstep.
  assert (Hne : forall x, k <> x -> (k =? x) = false) by (intros x Hx; apply Z.eqb_neq; exact Hx).
  destruct o as [x|x|x]; cbn [ksop_op ksop_key set_step fst] in *.
  - rewrite smem_sadd, (Hne x Hk). reflexivity.
  - rewrite smem_sremove, (Hne x Hk). reflexivity.
  - reflexivity.
Qed.

Theorem set_disjoint_ops_commute_proof :
  forall (T : Type) (mine : T -> bool) (K : Z -> Prop) (ops1 ops2 : list (T * ksop)) (s : list Z),
  separated ksop T ksop_key mine K ops1 -> separated ksop T ksop_key mine K ops2 ->
  own ksop T mine ops1 = own ksop T mine ops2 ->
  own_obs T mine (grun_tagged (list Z) ksop T sstep s ops1) = own_obs T mine (grun_tagged (list Z) ksop T sstep s ops2) /\
  (forall k, K k -> smem k (gfin (list Z) ksop sstep s (map snd ops1)) = smem k (gfin (list Z) ksop sstep s (map snd ops2))).
Proof.
  intros T mine K ops1 ops2 s H1 H2 He.
  assert (Hok : forall s o, anyset s -> anyset (fst (sstep s o))) by (intros; exact I).
  exact (keyed_disjoint_ops_commute (list Z) ksop bool T ksop_key sstep sview anyset Hok sstep_local sstep_frame
           mine K ops1 ops2 s I H1 H2 He).
Qed.

(* ------------------------------------------------------------------ *)
(* Queue / Ring with every goroutine putting the same value: there is only one sequence *)
Lemma all_equal_repeat : forall (A : Type) (o : A) (l : list A),
  (forall x, In x l -> x = o) -> l = repeat o (length l).
Proof.
  induction l as [|a l IH]; intros H; [reflexivity|]. cbn [length repeat].
  rewrite (H a (or_introl eq_refl)). f_equal. apply IH. intros x Hx. apply H. right. exact Hx.
Qed.

Theorem equal_ops_one_sequence_proof : forall (A : Type) (o : A) (l1 l2 : list A),
  Permutation l1 l2 -> (forall x, In x l1 -> x = o) -> l1 = l2.
Proof.
  intros A o l1 l2 HP H.
  rewrite (all_equal_repeat A o l1 H).
  rewrite (all_equal_repeat A o l2); [rewrite (Permutation_length HP); reflexivity|].
  intros x Hx. apply H. apply (Permutation_in x (Permutation_sym HP)). exact Hx.
Qed.

Theorem queue_equal_puts_commute_proof : forall size v (l1 l2 post : list qop),
  Permutation l1 l2 -> (forall o, In o l1 -> o = QPut v) ->
  q_run (q_new size) (l1 ++ post) = q_run (q_new size) (l2 ++ post).
Proof. intros size v l1 l2 post HP H. rewrite (equal_ops_one_sequence_proof qop (QPut v) l1 l2 HP H). reflexivity. Qed.

Theorem ring_equal_adds_commute_proof : forall n v (l1 l2 post : list rop),
  Permutation l1 l2 -> (forall o, In o l1 -> o = RAdd v) ->
  r_run (r_new n) (l1 ++ post) = r_run (r_new n) (l2 ++ post).
Proof. intros n v l1 l2 post HP H. rewrite (equal_ops_one_sequence_proof rop (RAdd v) l1 l2 HP H). reflexivity. Qed.

(* ------------------------------------------------------------------ *)
(* RollingWindow with the package's Sum / Count buckets: the sums and counts Reduce hands out
   do not depend on the order of the Adds (any permutation of the history with non-decreasing
   times and the same last time - in particular Adds of several goroutines at one instant) *)
Lemma Permutation_filter_z : forall (A : Type) (f : A -> bool) (l1 l2 : list A),
  Permutation l1 l2 -> Permutation (filter f l1) (filter f l2).
Proof.
  intros A f l1 l2 H. induction H as [|x l l' H IH|x y l|l l' l'' H1 IH1 H2 IH2]; cbn [filter].
  - constructor.
  - destruct (f x); [constructor|]; exact IH.
  - destruct (f x), (f y); try apply Permutation_refl. constructor.
  - exact (Permutation_trans IH1 IH2).
Qed.

Lemma bsum_perm : forall l1 l2, Permutation l1 l2 -> bsum l1 = bsum l2.
Proof.
  intros l1 l2 H. unfold bsum. f_equal.
  - induction H as [|x l l' H IH|x y l|l l' l'' H1 IH1 H2 IH2]; cbn [fold_right]; lia.
  - rewrite (Permutation_length H). reflexivity.
Qed.

Theorem window_adds_commute_proof : forall (size : nat) (iv t0 : Z) (ig : bool) (h1 h2 : list (Z * Z)) (now : Z),
  (1 <= size)%nat -> 0 < iv -> Permutation h1 h2 ->
  rw_mono t0 h1 -> rw_mono t0 h2 -> rw_last_time t0 h1 = rw_last_time t0 h2 -> rw_last_time t0 h1 <= now ->
  map bsum (rw_reduce (rw_run (rw_new size iv t0 ig) h1) now) =
  map bsum (rw_reduce (rw_run (rw_new size iv t0 ig) h2) now).
Proof.
  intros size iv t0 ig h1 h2 now Hs Hiv HP Hm1 Hm2 Hl Hn.
  rewrite (reduce_visits_last_size_intervals size iv t0 ig h1 now Hs Hiv Hm1 Hn).
  rewrite Hl in Hn.
  rewrite (reduce_visits_last_size_intervals size iv t0 ig h2 now Hs Hiv Hm2 Hn).
  unfold rw_reduce_spec. rewrite Hl. rewrite !map_map. apply map_ext. intros i.
  apply bsum_perm. unfold rw_vals_at. apply Permutation_map. apply Permutation_filter_z. exact HP.
Qed.

(* the case the executor produces: all Adds at one instant t *)
Lemma mono_instant : forall t t0 vs, t0 <= t -> rw_mono t0 (map (fun v => (t, v)) vs).
Proof.
  intros t t0 vs. revert t0. induction vs as [|v vs IH]; intros t0 H; cbn [map rw_mono]; [exact I|].
  split; [exact H|]. cbn [fst]. apply IH. lia.
Qed.

Lemma last_instant : forall t t0 (vs : list Z), vs <> [] -> rw_last_time t0 (map (fun v => (t, v)) vs) = t.
Proof.
  intros t t0 vs. unfold rw_last_time. induction vs as [|v vs IH]; intros H; [congruence|].
  cbn [map fst]. destruct vs as [|w vs]; [reflexivity|].
  cbn [map last fst] in *. apply IH. discriminate.
Qed.

Theorem window_instant_adds_commute_proof : forall (size : nat) (iv t0 : Z) (ig : bool) (t : Z) (vs1 vs2 : list Z) (now : Z),
  (1 <= size)%nat -> 0 < iv -> t0 <= t -> t <= now -> Permutation vs1 vs2 ->
  map bsum (rw_reduce (rw_run (rw_new size iv t0 ig) (map (fun v => (t, v)) vs1)) now) =
  map bsum (rw_reduce (rw_run (rw_new size iv t0 ig) (map (fun v => (t, v)) vs2)) now).
Proof.
  intros size iv t0 ig t vs1 vs2 now Hs Hiv Ht Hn HP.
  destruct vs1 as [|a vs1].
  - apply Permutation_nil in HP. subst vs2. reflexivity.
  - assert (H2 : vs2 <> []) by (intro E; subst vs2; apply Permutation_sym, Permutation_nil in HP; discriminate).
    apply window_adds_commute_proof; try assumption.
    + apply Permutation_map. exact HP.
    + apply mono_instant. exact Ht.
    + apply mono_instant. exact Ht.
    + rewrite !last_instant; [reflexivity|exact H2|discriminate].
    + rewrite last_instant; [exact Hn|discriminate].
Qed.
