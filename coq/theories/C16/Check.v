(* C16 - correspondence / property evaluation on histories observed on the
   implementation.  Executable only. *)
From Coq Require Import List ZArith Bool.
From GZ Require Export Lib.CheckLib C16.Model C16.ModelW C16.Lin.
Import ListNotations.
Open Scope Z_scope.

(* ---------- observables ([obs_eqb], [canon_obs] are in Lin.v) ---------- *)
Definition nonunit (o : obs) : bool := match o with OUnit => false | _ => true end.

Definition visible (sorted : bool) (l : list obs) : list obs :=
  let l' := filter nonunit l in if sorted then map canon_obs l' else l'.

Definition same (sorted : bool) (model impl : list obs) : bool :=
  list_eqb obs_eqb (visible sorted model) (visible sorted impl).

(* ---------- rolling window ---------- *)
Inductive wop := WAdd (t v : Z) | WReduce (t : Z).

Definition lists_eqb := list_eqb zs_eqb.

(* model: the shared window model, driven by absolute times *)
Fixpoint w_run (w : rw) (ops : list wop) : list (list (list Z)) :=
  match ops with
  | [] => []
  | WAdd t v :: ops' => w_run (rw_add w t v) ops'
  | WReduce t :: ops' => rw_reduce w t :: w_run w ops'
  end.

(* specification: values of the last `size` interval indices, from the history *)
Fixpoint w_spec (size : nat) (iv t0 : Z) (ig : bool) (h : list (Z * Z)) (ops : list wop)
  : list (list (list Z)) :=
  match ops with
  | [] => []
  | WAdd t v :: ops' => w_spec size iv t0 ig (h ++ [(t, v)]) ops'
  | WReduce t :: ops' => rw_reduce_spec size iv t0 ig h t :: w_spec size iv t0 ig h ops'
  end.

(* the package's own Bucket[T]: (Sum, Count) of the values of a bucket *)
Definition bsum (b : list Z) : Z * Z := (fold_right Z.add 0 b, Z.of_nat (length b)).
Definition sums_eqb := list_eqb pairs_eqb.
Definition to_sums (l : list (list (list Z))) : list (list (Z * Z)) := map (map bsum) l.

Definition wop_time (o : wop) : Z := match o with WAdd t _ => t | WReduce t => t end.

Fixpoint times_mono (t : Z) (ops : list wop) : bool :=
  match ops with
  | [] => true
  | o :: ops' => (t <=? wop_time o) && times_mono (wop_time o) ops'
  end.

(* ---------- safemap: bulk operations are expanded here ---------- *)
Inductive mop :=
| MP (o : smop)
| MSetSeq (k0 n v : Z)      (* Set k0 v; Set (k0+1) v; ... (n keys) *)
| MDelSeq (k0 n : Z)        (* Del k0; Del (k0+1); ... *)
| MChurn (k v n : Z)        (* n times: Set k v; Del k *)
| MRangeStop (n : Z) (vis : list (Z * Z)).
   (* Range whose callback returns false at its n-th call; vis = the pairs it was shown, in
      order (which pairs is up to Go's map iteration: an oracle argument, checked below) *)

Definition zseq (k0 n : Z) : list Z := map (fun i => k0 + Z.of_nat i) (seq 0 (Z.to_nat n)).

Definition expand1 (o : mop) : list smop :=
  match o with
  | MP o => [o]
  | MSetSeq k0 n v => map (fun k => MSet k v) (zseq k0 n)
  | MDelSeq k0 n => map MDel (zseq k0 n)
  | MChurn k v n => concat (repeat [MSet k v; MDel k] (Z.to_nat n))
  | MRangeStop _ _ => []
  end.

Definition expand (ops : list mop) : list smop := flat_map expand1 ops.

Fixpoint nodup_z (l : list Z) : bool :=
  match l with
  | [] => true
  | x :: l' => negb (existsb (Z.eqb x) l') && nodup_z l'
  end.

Definition in_amap (m : amap) (p : Z * Z) : bool := opt_eqb Z.eqb (alookup (fst p) m) (Some (snd p)).

(* what a stopped Range may have shown, by the property: min(max n 1, size) pairs of the
   map, no key twice *)
Definition sub_ok (m : amap) (n : Z) (vis : list (Z * Z)) : bool :=
  (Z.of_nat (length vis) =? Z.min (Z.max n 1) (alen m)) &&
  nodup_z (map fst vis) && forallb (in_amap m) vis.

(* ... and by the code: dirtyOld is shown completely before anything of dirtyNew *)
Definition sm_sub_ok (m : safemap) (n : Z) (vis : list (Z * Z)) : bool :=
  let k := length (dirtyOld m) in
  sub_ok (dirtyOld m ++ dirtyNew m) n vis &&
  forallb (in_amap (dirtyOld m)) (firstn k vis) && forallb (in_amap (dirtyNew m)) (skipn k vis).

(* one pass over a history with bulk operations: the visible observations (canonical: Range
   sorted) and whether every stopped Range was shown an allowed selection *)
Definition prim_acc {St} (step : St -> smop -> St * obs) (sa : St * list obs) (o : smop) : St * list obs :=
  let (s', r) := step (fst sa) o in
  (s', if nonunit r then canon_obs r :: snd sa else snd sa).

Fixpoint mrun {St} (step : St -> smop -> St * obs) (stop_ok : St -> Z -> list (Z * Z) -> bool)
         (ops : list mop) (sa : St * list obs) (ok : bool) : list obs * bool :=
  match ops with
  | [] => (rev (snd sa), ok)
  | MRangeStop n vis :: ops' => mrun step stop_ok ops' sa (if stop_ok (fst sa) n vis then ok else false)
  | o :: ops' => mrun step stop_ok ops' (fold_left (prim_acc step) (expand1 o) sa) ok
  end.

Definition mcheck {St} (step : St -> smop -> St * obs) (stop_ok : St -> Z -> list (Z * Z) -> bool)
           (init : St) (ops : list mop) (seen : list obs) : bool :=
  let (model, ok) := mrun step stop_ok ops (init, []) true in
  if ok then list_eqb obs_eqb model (visible true seen) else false.

(* ---------- cache: observations that do not touch the recency order ---------- *)
Inductive ccop :=
| CC (o : cop)
| CHeld        (* the keys of c.data *)
| CSize        (* Cache.size() *)
| CJoin (k v : Z).
   (* free-running histories only: a Take that did not run its loader and returned v, the
      value loaded by an overlapping Take of the same key.  Either it hit (then it is an
      ordinary Take hit), or it missed and was handed the result of the other Take's single
      flight (syncx.SingleFlight: its linearisation point is its own missed look-up, which
      leaves the cache as it is; that the other Take exists is checked by [joins_ok]). *)

Definition join_obs (v : Z) (r : obs) : obs :=
  match r with
  | OTake None true => OTake (Some v) false
  | _ => r
  end.

Fixpoint cc_run (c : cache) (ops : list ccop) : list obs :=
  match ops with
  | [] => []
  | CC o :: ops' => let '(c', r, _) := c_step c o in r :: cc_run c' ops'
  | CHeld :: ops' => OList (map fst (cdata c)) :: cc_run c ops'
  | CSize :: ops' => ONum (alen (cdata c)) :: cc_run c ops'
  | CJoin k v :: ops' => let '(c', r, _) := c_step c (CTake k None) in join_obs v r :: cc_run c' ops'
  end.

Fixpoint sc_run (s : scache) (ops : list ccop) : list obs :=
  match ops with
  | [] => []
  | CC o :: ops' => let '(s', r, _) := s_step s o in r :: sc_run s' ops'
  | CHeld :: ops' => OList (map fst (sents s)) :: sc_run s ops'
  | CSize :: ops' => ONum (Z.of_nat (length (sents s))) :: sc_run s ops'
  | CJoin k v :: ops' => let '(s', r, _) := s_step s (CTake k None) in join_obs v r :: sc_run s' ops'
  end.

(* one step, for the linearisation search *)
Definition cc_step (c : cache) (o : ccop) : cache * obs :=
  match o with
  | CC o => let '(c', r, _) := c_step c o in (c', r)
  | CHeld => (c, OList (map fst (cdata c)))
  | CSize => (c, ONum (alen (cdata c)))
  | CJoin k v => let '(c', r, _) := c_step c (CTake k None) in (c', join_obs v r)
  end.

Definition sc_step (s : scache) (o : ccop) : scache * obs :=
  match o with
  | CC o => let '(s', r, _) := s_step s o in (s', r)
  | CHeld => (s, OList (map fst (sents s)))
  | CSize => (s, ONum (Z.of_nat (length (sents s))))
  | CJoin k v => let '(s', r, _) := s_step s (CTake k None) in (s', join_obs v r)
  end.

(* every joined Take overlaps a Take of the same key that ran its loader and got that value *)
Definition overlaps {Op} (a b : lev Op) : bool := (lcall a <? lret b) && (lcall b <? lret a).

Definition loads (k v : Z) (e : lev ccop) : bool :=
  match lop e, lobs e with
  | CC (CTake k' (Some v')), OTake (Some v'') true => (k' =? k) && (v' =? v) && (v'' =? v)
  | _, _ => false
  end.

(* a Take of k that returned v without loading *)
Definition took (k v : Z) (e : lev ccop) : bool :=
  match lop e, lobs e with
  | CC (CTake k' _), OTake (Some v') false => (k' =? k) && (v' =? v)
  | CJoin k' _, OTake (Some v') false => (k' =? k) && (v' =? v)
  | _, _ => false
  end.

(* the flight whose result a joined Take was handed belongs to an overlapping Take that loaded
   v, or to an overlapping Take whose double check found v stored by a loading Take that
   overlapped IT *)
Definition joins_ok (evs : list (lev ccop)) : bool :=
  forallb (fun e => match lop e with
                    | CJoin k v =>
                      existsb (fun a => overlaps a e &&
                                        (loads k v a ||
                                         (took k v a && existsb (fun c => loads k v c && overlaps c a) evs))) evs
                    | _ => true
                    end) evs.

(* every size / key set the implementation reported is within the limit *)
Fixpoint sizes_ok (limit : Z) (ops : list ccop) (seen : list obs) : bool :=
  match ops, seen with
  | CC (CSet _ _) :: ops', _ | CC (CDel _) :: ops', _ | CC (CExpire _) :: ops', _ => sizes_ok limit ops' seen
  | CHeld :: ops', OList l :: seen' => (Z.of_nat (length l) <=? limit) && nodup_z l && sizes_ok limit ops' seen'
  | CSize :: ops', ONum n :: seen' => (n <=? limit) && sizes_ok limit ops' seen'
  | _ :: ops', _ :: seen' => sizes_ok limit ops' seen'
  | _, _ => true
  end.


(* ---------- cache + wheel: reference = stamp LRU + "key -> ticks remaining" ---------- *)
Fixpoint due_drop (k : Z) (l : list (Z * Z)) : list (Z * Z) :=
  match l with
  | [] => []
  | (k', r) :: l' => if k' =? k then due_drop k l' else (k', r) :: due_drop k l'
  end.

Definition due_put (k r : Z) (l : list (Z * Z)) : list (Z * Z) := (k, r) :: due_drop k l.

Record refw := mkRefW { rws : scache; rwdue : list (Z * Z) }.

Definition refw_put (interval : Z) (s : refw) (k v d : Z) : refw :=
  let (s1, ev) := s_put (rws s) k v in
  let due1 := fold_left (fun l e => due_drop e l) ev (rwdue s) in
  mkRefW s1 (due_put k (Z.max d interval / interval) due1).

Definition refw_step (interval : Z) (s : refw) (o : xop) : refw * obs :=
  match o with
  | XSet k v d => (refw_put interval s k v d, OUnit)
  | XGet k => let (s1, r) := s_get (rws s) k in (mkRefW s1 (rwdue s), OOpt r)
  | XDel k => (mkRefW (s_del (rws s) k) (due_drop k (rwdue s)), OUnit)
  | XTake k f d =>
    match s_get (rws s) k with
    | (s1, Some v) => (mkRefW s1 (rwdue s), OTake (Some v) false)
    | (s1, None) =>
      match f with
      | Some v => (refw_put interval (mkRefW s1 (rwdue s)) k v d, OTake (Some v) true)
      | None => (mkRefW s1 (rwdue s), OTake None true)
      end
    end
  | XTick =>
    let fired := map fst (filter (fun kr => snd kr =? 1) (rwdue s)) in
    let keep := map (fun kr => (fst kr, snd kr - 1)) (filter (fun kr => negb (snd kr =? 1)) (rwdue s)) in
    (mkRefW (fold_left s_del fired (rws s)) keep, OUnit)
  end.

Fixpoint refw_run (interval : Z) (s : refw) (ops : list xop) : list obs :=
  match ops with
  | [] => []
  | o :: ops' => let (s', r) := refw_step interval s o in r :: refw_run interval s' ops'
  end.

(* ---------- cache + wheel with the non-perturbing observations ---------- *)
Inductive xxop :=
| XX (o : xop) | XHeld | XSize
| XTickHold   (* a tick whose expiry callbacks (cache.Del of each fired key) are started but held back *)
| XRelease.   (* the held callbacks run now *)

(* A non-positive expiry is refused by the wheel (SetTimer returns ErrArgument, which
   SetWithExpire ignores): the value is stored, evicted keys lose their timers, and the key's
   own timer - if it has one - stays as it is.  ModelW.cw_set models positive expiries. *)
Definition cw_set_notimer (s : cachew) (k v : Z) : cachew :=
  let (c1, ev) := c_set (cwc s) k v in mkCW c1 (tw_removes (cww s) ev) (cwmv s).

Definition cwx_step (s : cachew) (o : xop) : cachew * obs :=
  match o with
  | XSet k v d =>
    if d <=? 0 then (cw_set_notimer s k v, OUnit) else let '(s', r, _) := cw_step s o in (s', r)
  | XTake k f d =>
    if d <=? 0 then
      match c_doget (cwc s) k with
      | (c', Some v) => (mkCW c' (cww s) (cwmv s), OTake (Some v) false)
      | (c', None) =>
        match f with
        | Some v => (cw_set_notimer (mkCW c' (cww s) (cwmv s)) k v, OTake (Some v) true)
        | None => (mkCW c' (cww s) (cwmv s), OTake None true)
        end
      end
    else let '(s', r, _) := cw_step s o in (s', r)
  | _ => let '(s', r, _) := cw_step s o in (s', r)
  end.

(* [pend] = the timers a held tick has fired (removed from the wheel) whose callbacks have not
   run yet.  timingwheel.go starts the callbacks of a tick on a goroutine of their own AFTER
   removing the fired timers; when they run they delete whatever the cache holds under the key
   then, and remove whatever timer the key has then. *)
Fixpoint cwx_run (s : cachew) (pend : TW.fired) (ops : list xxop) : list obs :=
  match ops with
  | [] => []
  | XX o :: ops' => let (s', r) := cwx_step s o in r :: cwx_run s' pend ops'
  | XHeld :: ops' => OList (map fst (cdata (cwc s))) :: cwx_run s pend ops'
  | XSize :: ops' => ONum (alen (cdata (cwc s))) :: cwx_run s pend ops'
  | XTickHold :: ops' =>
    let (w1, f) := TW.on_tick (cww s) in
    OUnit :: cwx_run (mkCW (cwc s) w1 (cwmv s)) (pend ++ f) ops'
  | XRelease :: ops' =>
    let (c2, w2) := cw_callbacks (cwc s) (cww s) pend in
    OUnit :: cwx_run (mkCW c2 w2 (cwmv s)) [] ops'
  end.

(* the reference: an entry whose last tick has come IS expired - when the deletion is carried
   out is the implementation's business, and it concerns that entry only *)
Fixpoint refwx_run (interval : Z) (s : refw) (ops : list xxop) : list obs :=
  match ops with
  | [] => []
  | XX o :: ops' => let (s', r) := refw_step interval s o in r :: refwx_run interval s' ops'
  | XHeld :: ops' => OList (map fst (sents (rws s))) :: refwx_run interval s ops'
  | XSize :: ops' => ONum (Z.of_nat (length (sents (rws s)))) :: refwx_run interval s ops'
  | XTickHold :: ops' => let (s', r) := refw_step interval s XTick in r :: refwx_run interval s' ops'
  | XRelease :: ops' => OUnit :: refwx_run interval s ops'
  end.

(* the property speaks of entries that expire: every expiry of the history is positive *)
Definition xx_in_scope (o : xxop) : bool :=
  match o with
  | XX (XSet _ _ d) => 0 <? d
  | XX (XTake _ _ d) => 0 <? d
  | XTickHold | XRelease => false   (* held callbacks: outside cachew_refines_stamp_reference *)
  | _ => true
  end.

(* ... for prop_ok the held ticks are in scope *)
Definition xx_judged (o : xxop) : bool :=
  match o with
  | XTickHold | XRelease => true
  | _ => xx_in_scope o
  end.

Fixpoint xsizes_ok (limit : Z) (seen : list obs) : bool :=
  match seen with
  | [] => true
  | OList l :: seen' => (Z.of_nat (length l) <=? limit) && xsizes_ok limit seen'
  | ONum n :: seen' => (n <=? limit) && xsizes_ok limit seen'
  | _ :: seen' => xsizes_ok limit seen'
  end.

(* ---------- free-running window: the clock stands still, so every add lands in the
   current bucket; Reduce shows all of them (as a multiset), or nothing when the current
   bucket is ignored ---------- *)
Inductive wlop := WLAdd (v : Z) | WLReduce.

Definition wl_step (w : rw) (now : Z) (o : wlop) : rw * obs :=
  match o with
  | WLAdd v => (rw_add w now v, OUnit)
  | WLReduce => (w, OList (concat (rw_reduce w now)))
  end.

Definition wl_spec_step (ig : bool) (l : list Z) (o : wlop) : list Z * obs :=
  match o with
  | WLAdd v => (l ++ [v], OUnit)
  | WLReduce => (l, OList (if ig then [] else l))
  end.

(* ---------- Reduce overlapping Adds of another goroutine ---------- *)
Fixpoint w_final (w : rw) (ops : list wop) : rw :=
  match ops with
  | [] => w
  | WAdd t v :: ops' => w_final (rw_add w t v) ops'
  | WReduce _ :: ops' => w_final w ops'
  end.

Fixpoint w_hist (ops : list wop) : list (Z * Z) :=
  match ops with
  | [] => []
  | WAdd t v :: ops' => (t, v) :: w_hist ops'
  | WReduce _ :: ops' => w_hist ops'
  end.

Definition adds_ops (adds : list (Z * Z)) : list wop := map (fun p => WAdd (fst p) (snd p)) adds.

(* Reduce is ONE read of the window: what its callback is shown is the Reduce of the window
   before the overlapping Adds (at the time Reduce was called), or after the first j of them
   (at the time of the j-th) - one state, never a mixture *)
Fixpoint one_state_views (size : nat) (iv t0 : Z) (ig : bool) (h : list (Z * Z)) (now : Z)
         (adds : list (Z * Z)) : list (list (list Z)) :=
  rw_reduce_spec size iv t0 ig h now ::
  match adds with
  | [] => []
  | a :: adds' => one_state_views size iv t0 ig (h ++ [a]) (fst a) adds'
  end.

(* ---------- bulk operations of a case (rendering only: n consecutive keys) ---------- *)
Definition keyseq (k0 n : Z) : list Z := map (fun i => k0 + Z.of_nat i) (seq 0 (Z.to_nat n)).
Definition cdelseq (k0 n : Z) : list ccop := map (fun k => CC (CDel k)) (keyseq k0 n).
Definition csetseq (k0 n v : Z) : list ccop := map (fun k => CC (CSet k v)) (keyseq k0 n).
Definition xdelseq (k0 n : Z) : list xxop := map (fun k => XX (XDel k)) (keyseq k0 n).
Definition xsetseq (k0 n v d : Z) : list xxop := map (fun k => XX (XSet k v d)) (keyseq k0 n).

(* n copies of a block of operations / observations (kind stress: every goroutine repeats its script) *)
Definition repn {A : Type} (n : Z) (l : list A) : list A := concat (repeat l (Z.to_nat n)).

(* ---------- cases ---------- *)
Inductive case :=
| KWindow (size : Z) (iv t0 : Z) (ig : bool) (ops : list wop) (seen : list (list (list Z)))
| KWindowSum (size : Z) (iv t0 : Z) (ig : bool) (ops : list wop) (seen : list (list (Z * Z)))
| KSafeMap (copyThr maxDel : Z) (ops : list mop) (seen : list obs)
| KQueue (size : Z) (ops : list qop) (seen : list obs)
| KRing (n : Z) (ops : list rop) (seen : list obs)
| KSet (ops : list sop) (seen : list obs)
| KCache (limit : Z) (ops : list ccop) (seen : list obs)
| KCacheW (limit slots interval : Z) (mv : bool) (ops : list xxop) (seen : list obs)
(* a Take held in its loader while another goroutine Dels the SAME key: the store lands after the
   Del (history A: the key holds the loaded value - what the code does) or the whole Take is taken to
   precede it (history B: the key is gone); both are legal, anything else is not *)
| KCacheEither (limit : Z) (opsA : list ccop) (seenA : list obs) (opsB : list ccop) (seenB : list obs)
(* free-running goroutines after a sequential prefix *)
| KLinMap (copyThr maxDel : Z) (pre : list mop) (evs : list (lev smop))
| KLinQueue (size : Z) (pre : list qop) (evs : list (lev qop))
| KLinRing (n : Z) (pre : list rop) (evs : list (lev rop))
| KLinCache (limit : Z) (pre : list ccop) (evs : list (lev ccop))
| KLinWindow (size iv t0 : Z) (ig : bool) (evs : list (lev wlop))
(* forced schedule: sequential prefix; Reduce called at [tr] and held inside its callback while
   another goroutine Adds at later times; [view] = the buckets the callback was shown;
   sequential operations afterwards *)
| KWindowGate (size iv t0 : Z) (ig : bool) (pre : list wop) (seenpre : list (list (list Z)))
              (tr : Z) (adds : list (Z * Z)) (view : list (list Z))
              (post : list wop) (seenpost : list (list (list Z))).

Definition agrees (c : case) : bool :=
  match c with
  | KWindow size iv t0 ig ops seen =>
    list_eqb lists_eqb (w_run (rw_new (Z.to_nat size) iv t0 ig) ops) seen
  | KWindowSum size iv t0 ig ops seen =>
    sums_eqb (to_sums (w_run (rw_new (Z.to_nat size) iv t0 ig) ops)) seen
  | KSafeMap ct md ops seen =>
    mcheck (sm_step (mkSMC ct md)) sm_sub_ok sm_new ops seen
  | KQueue size ops seen => same false (q_run (q_new (Z.to_nat size)) ops) seen
  | KRing n ops seen => same false (r_run (r_new (Z.to_nat n)) ops) seen
  | KSet ops seen => same true (set_run [] ops) seen
  | KCache limit ops seen => same true (cc_run (c_new limit) ops) seen
  | KCacheEither limit opsA seenA _ _ => same true (cc_run (c_new limit) opsA) seenA
  | KCacheW limit slots interval mv ops seen =>
    same true (cwx_run (cw_new limit slots interval mv) [] ops) seen
  | KLinMap ct md pre evs =>
    linearisable_b (sm_step (mkSMC ct md)) true (run_pre (sm_step (mkSMC ct md)) sm_new (expand pre)) evs
  | KLinQueue size pre evs =>
    linearisable_b q_step false (run_pre q_step (q_new (Z.to_nat size)) pre) evs
  | KLinRing n pre evs =>
    linearisable_b r_step false (run_pre r_step (r_new (Z.to_nat n)) pre) evs
  | KLinCache limit pre evs =>
    linearisable_b cc_step true (run_pre cc_step (c_new limit) pre) evs
  | KLinWindow size iv t0 ig evs =>
    linearisable_b (fun w o => wl_step w t0 o) true (rw_new (Z.to_nat size) iv t0 ig) evs
  | KWindowGate size iv t0 ig pre seenpre tr adds view post seenpost =>
    (* the code: Reduce holds the read lock from choosing its buckets to the last callback *)
    let w0 := rw_new (Z.to_nat size) iv t0 ig in
    let w1 := w_final w0 pre in
    list_eqb lists_eqb (w_run w0 pre) seenpre &&
    lists_eqb (rw_reduce w1 tr) view &&
    list_eqb lists_eqb (w_run (w_final w1 (adds_ops adds)) post) seenpost
  end.

(* the number of distinct keys a trailing run of Get hits found = entries held *)
Fixpoint hits (seen : list obs) : Z :=
  match seen with
  | [] => 0
  | OOpt (Some _) :: l => 1 + hits l
  | OTake (Some _) false :: l => 1 + hits l
  | _ :: l => hits l
  end.

(* a trailing run of Gets of pairwise distinct keys probes how many entries the
   cache holds: never more than the limit *)
Fixpoint leading_gets (ops : list ccop) : list Z :=
  match ops with
  | CC (CGet k) :: ops' => k :: leading_gets ops'
  | _ => []
  end.

Definition probe_ok (limit : Z) (ops : list ccop) (seen : list obs) : bool :=
  let ks := leading_gets (rev ops) in
  if nodup_z ks then hits (firstn (length ks) (rev (filter nonunit seen))) <=? limit else true.

(* the cache judgement: the stamp reference, and never more than the limit *)
Definition cache_prop_ok (limit : Z) (ops : list ccop) (seen : list obs) : bool :=
  same true (sc_run (s_new limit) ops) seen &&
  (if 0 <? limit then probe_ok limit ops seen && sizes_ok limit ops (filter nonunit seen) else true).

(* the property, on the implementation's own observations *)
Definition prop_ok (c : case) : bool :=
  match c with
  | KWindow size iv t0 ig ops seen =>
    if (1 <=? size) && (0 <? iv) && times_mono t0 ops then
      list_eqb lists_eqb (w_spec (Z.to_nat size) iv t0 ig [] ops) seen
    else true
  | KWindowSum size iv t0 ig ops seen =>
    if (1 <=? size) && (0 <? iv) && times_mono t0 ops then
      sums_eqb (to_sums (w_spec (Z.to_nat size) iv t0 ig [] ops)) seen
    else true
  | KSafeMap _ _ ops seen => mcheck map_step sub_ok [] ops seen
  | KQueue size ops seen => if 1 <=? size then same false (fifo_run [] ops) seen else true
  | KRing n ops seen => if 1 <=? n then same false (hist_run (Z.to_nat n) [] ops) seen else true
  | KSet ops seen =>
    (* Contains/Count/Keys as determined by the last Add/Remove of each key *)
    same true (set_spec_run [] ops) seen
  | KCache limit ops seen => cache_prop_ok limit ops seen
  | KCacheEither limit opsA seenA opsB seenB => cache_prop_ok limit opsA seenA || cache_prop_ok limit opsB seenB
  | KCacheW limit slots interval mv ops seen =>
    if (1 <=? slots) && (1 <=? interval) && forallb xx_judged ops then
      same true (refwx_run interval (mkRefW (s_new limit) []) ops) seen &&
      (if 0 <? limit then xsizes_ok limit seen else true)
    else true
  | KLinMap _ _ pre evs =>
    linearisable_b map_step true (run_pre map_step [] (expand pre)) evs
  | KLinQueue size pre evs =>
    if 1 <=? size then linearisable_b fifo_step false (run_pre fifo_step [] pre) evs else true
  | KLinRing n pre evs =>
    if 1 <=? n then linearisable_b (hist_step (Z.to_nat n)) false (run_pre (hist_step (Z.to_nat n)) [] pre) evs
    else true
  | KLinCache limit pre evs =>
    joins_ok evs && linearisable_b sc_step true (run_pre sc_step (s_new limit) pre) evs
  | KLinWindow size iv t0 ig evs =>
    if (1 <=? size) && (0 <? iv) then linearisable_b (wl_spec_step ig) true [] evs else true
  | KWindowGate size iv t0 ig pre seenpre tr adds view post seenpost =>
    if (1 <=? size) && (0 <? iv) && times_mono t0 (pre ++ WReduce tr :: adds_ops adds ++ post) then
      let h := w_hist pre in
      list_eqb lists_eqb (w_spec (Z.to_nat size) iv t0 ig [] pre) seenpre &&
      existsb (fun v => lists_eqb v view) (one_state_views (Z.to_nat size) iv t0 ig h tr adds) &&
      list_eqb lists_eqb (w_spec (Z.to_nat size) iv t0 ig (h ++ adds) post) seenpost
    else true
  end.

Inductive mobs := MW (l : list (list (list Z))) | MO (l : list obs) | MB (b : bool).

Definition model_obs (c : case) : mobs :=
  match c with
  | KWindow size iv t0 ig ops _ => MW (w_run (rw_new (Z.to_nat size) iv t0 ig) ops)
  | KWindowSum size iv t0 ig ops _ => MW (w_run (rw_new (Z.to_nat size) iv t0 ig) ops)
  | KSafeMap ct md ops _ => MO (fst (mrun (sm_step (mkSMC ct md)) sm_sub_ok ops (sm_new, []) true))
  | KQueue size ops _ => MO (visible false (q_run (q_new (Z.to_nat size)) ops))
  | KRing n ops _ => MO (visible false (r_run (r_new (Z.to_nat n)) ops))
  | KSet ops _ => MO (visible true (set_run [] ops))
  | KCache limit ops _ => MO (visible true (cc_run (c_new limit) ops))
  | KCacheEither limit opsA _ _ _ => MO (visible true (cc_run (c_new limit) opsA))
  | KCacheW limit slots interval mv ops _ => MO (visible true (cwx_run (cw_new limit slots interval mv) [] ops))
  | KWindowGate size iv t0 ig pre _ tr adds _ post _ =>
    let w1 := w_final (rw_new (Z.to_nat size) iv t0 ig) pre in
    MW (w_run (rw_new (Z.to_nat size) iv t0 ig) pre ++ [rw_reduce w1 tr] ++ w_run (w_final w1 (adds_ops adds)) post)
  | _ => MB (agrees c)
  end.
