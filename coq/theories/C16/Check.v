(* C16 - correspondence / property evaluation on histories observed on the
   implementation.  Executable only. *)
From Coq Require Import List ZArith Bool.
From GZ Require Export Lib.CheckLib C16.Model C16.ModelW.
Import ListNotations.
Open Scope Z_scope.

(* ---------- observables ---------- *)
Definition obs_eqb (a b : obs) : bool :=
  match a, b with
  | OUnit, OUnit => true
  | OBool x, OBool y => Bool.eqb x y
  | ONum x, ONum y => x =? y
  | OOpt x, OOpt y => opt_eqb Z.eqb x y
  | OList x, OList y => zs_eqb x y
  | OPairs x, OPairs y => pairs_eqb x y
  | OTake x lx, OTake y ly => opt_eqb Z.eqb x y && Bool.eqb lx ly
  | _, _ => false
  end.

Definition nonunit (o : obs) : bool := match o with OUnit => false | _ => true end.

(* map iteration order is not observable: sort Range / Keys results *)
Definition canon_obs (o : obs) : obs :=
  match o with
  | OPairs l => OPairs (sort_pairs l)
  | OList l => OList (sort_z l)
  | _ => o
  end.

Definition visible (sorted : bool) (l : list obs) : list obs :=
  let l' := filter nonunit l in if sorted then map canon_obs l' else l'.

Definition same (sorted : bool) (model impl : list obs) : bool :=
  list_eqb obs_eqb (visible sorted model) (visible sorted impl).

(* ---------- rolling window ---------- *)
Inductive wop := WAdd (t v : Z) | WReduce (t : Z).

Definition lists_eqb := list_eqb zs_eqb.

(* model: the shared window model, driven by absolute times *)
Fixpoint w_run (w : rw) (ops : list wop) : list (list (list Z)) :=
  match ops with
  | [] => []
  | WAdd t v :: ops' => w_run (rw_add w t v) ops'
  | WReduce t :: ops' => rw_reduce w t :: w_run w ops'
  end.

(* specification: values of the last `size` interval indices, from the history *)
Fixpoint w_spec (size : nat) (iv t0 : Z) (ig : bool) (h : list (Z * Z)) (ops : list wop)
  : list (list (list Z)) :=
  match ops with
  | [] => []
  | WAdd t v :: ops' => w_spec size iv t0 ig (h ++ [(t, v)]) ops'
  | WReduce t :: ops' => rw_reduce_spec size iv t0 ig h t :: w_spec size iv t0 ig h ops'
  end.

Definition wop_time (o : wop) : Z := match o with WAdd t _ => t | WReduce t => t end.

Fixpoint times_mono (t : Z) (ops : list wop) : bool :=
  match ops with
  | [] => true
  | o :: ops' => (t <=? wop_time o) && times_mono (wop_time o) ops'
  end.

(* ---------- safemap: bulk operations are expanded here ---------- *)
Inductive mop :=
| MP (o : smop)
| MSetSeq (k0 n v : Z)      (* Set k0 v; Set (k0+1) v; ... (n keys) *)
| MDelSeq (k0 n : Z)        (* Del k0; Del (k0+1); ... *)
| MChurn (k v n : Z).       (* n times: Set k v; Del k *)

Definition zseq (k0 n : Z) : list Z := map (fun i => k0 + Z.of_nat i) (seq 0 (Z.to_nat n)).

Definition expand1 (o : mop) : list smop :=
  match o with
  | MP o => [o]
  | MSetSeq k0 n v => map (fun k => MSet k v) (zseq k0 n)
  | MDelSeq k0 n => map MDel (zseq k0 n)
  | MChurn k v n => concat (repeat [MSet k v; MDel k] (Z.to_nat n))
  end.

Definition expand (ops : list mop) : list smop := flat_map expand1 ops.


(* ---------- cache + wheel: reference = stamp LRU + "key -> ticks remaining" ---------- *)
Fixpoint due_drop (k : Z) (l : list (Z * Z)) : list (Z * Z) :=
  match l with
  | [] => []
  | (k', r) :: l' => if k' =? k then due_drop k l' else (k', r) :: due_drop k l'
  end.

Definition due_put (k r : Z) (l : list (Z * Z)) : list (Z * Z) := (k, r) :: due_drop k l.

Record refw := mkRefW { rws : scache; rwdue : list (Z * Z) }.

Definition refw_put (interval : Z) (s : refw) (k v d : Z) : refw :=
  let (s1, ev) := s_put (rws s) k v in
  let due1 := fold_left (fun l e => due_drop e l) ev (rwdue s) in
  mkRefW s1 (due_put k (Z.max d interval / interval) due1).

Definition refw_step (interval : Z) (s : refw) (o : xop) : refw * obs :=
  match o with
  | XSet k v d => (refw_put interval s k v d, OUnit)
  | XGet k => let (s1, r) := s_get (rws s) k in (mkRefW s1 (rwdue s), OOpt r)
  | XDel k => (mkRefW (s_del (rws s) k) (due_drop k (rwdue s)), OUnit)
  | XTake k f d =>
    match s_get (rws s) k with
    | (s1, Some v) => (mkRefW s1 (rwdue s), OTake (Some v) false)
    | (s1, None) =>
      match f with
      | Some v => (refw_put interval (mkRefW s1 (rwdue s)) k v d, OTake (Some v) true)
      | None => (mkRefW s1 (rwdue s), OTake None true)
      end
    end
  | XTick =>
    let fired := map fst (filter (fun kr => snd kr =? 1) (rwdue s)) in
    let keep := map (fun kr => (fst kr, snd kr - 1)) (filter (fun kr => negb (snd kr =? 1)) (rwdue s)) in
    (mkRefW (fold_left s_del fired (rws s)) keep, OUnit)
  end.

Fixpoint refw_run (interval : Z) (s : refw) (ops : list xop) : list obs :=
  match ops with
  | [] => []
  | o :: ops' => let (s', r) := refw_step interval s o in r :: refw_run interval s' ops'
  end.

(* expiries of at least one wheel interval (below that the wheel clamps to one interval;
   [refw_put] says so and [prop_ok] holds the implementation to it for every expiry) *)
Definition xop_in_scope (interval : Z) (o : xop) : bool :=
  match o with
  | XSet _ _ d => interval <=? d
  | XTake _ _ d => interval <=? d
  | _ => true
  end.

(* ---------- cases ---------- *)
Inductive case :=
| KWindow (size : Z) (iv t0 : Z) (ig : bool) (ops : list wop) (seen : list (list (list Z)))
| KSafeMap (copyThr maxDel : Z) (ops : list mop) (seen : list obs)
| KQueue (size : Z) (ops : list qop) (seen : list obs)
| KRing (n : Z) (ops : list rop) (seen : list obs)
| KSet (ops : list sop) (seen : list obs)
| KCache (limit : Z) (ops : list cop) (seen : list obs)
| KCacheW (limit slots interval : Z) (mv : bool) (ops : list xop) (seen : list obs).

Definition agrees (c : case) : bool :=
  match c with
  | KWindow size iv t0 ig ops seen =>
    list_eqb lists_eqb (w_run (rw_new (Z.to_nat size) iv t0 ig) ops) seen
  | KSafeMap ct md ops seen => same true (sm_run (mkSMC ct md) sm_new (expand ops)) seen
  | KQueue size ops seen => same false (q_run (q_new (Z.to_nat size)) ops) seen
  | KRing n ops seen => same false (r_run (r_new (Z.to_nat n)) ops) seen
  | KSet ops seen => same true (set_run [] ops) seen
  | KCache limit ops seen => same false (c_run (c_new limit) ops) seen
  | KCacheW limit slots interval mv ops seen =>
    same false (cw_run (cw_new limit slots interval mv) ops) seen
  end.

(* the number of distinct keys a trailing run of Get hits found = entries held *)
Fixpoint hits (seen : list obs) : Z :=
  match seen with
  | [] => 0
  | OOpt (Some _) :: l => 1 + hits l
  | OTake (Some _) false :: l => 1 + hits l
  | _ :: l => hits l
  end.

Fixpoint nodup_z (l : list Z) : bool :=
  match l with
  | [] => true
  | x :: l' => negb (existsb (Z.eqb x) l') && nodup_z l'
  end.

(* a trailing run of Gets of pairwise distinct keys probes how many entries the
   cache holds: never more than the limit *)
Fixpoint leading_gets (ops : list cop) : list Z :=
  match ops with
  | CGet k :: ops' => k :: leading_gets ops'
  | _ => []
  end.

Definition probe_ok (limit : Z) (ops : list cop) (seen : list obs) : bool :=
  let ks := leading_gets (rev ops) in
  if nodup_z ks then hits (firstn (length ks) (rev (filter nonunit seen))) <=? limit else true.

(* the property, on the implementation's own observations *)
Definition prop_ok (c : case) : bool :=
  match c with
  | KWindow size iv t0 ig ops seen =>
    if (1 <=? size) && (0 <? iv) && times_mono t0 ops then
      list_eqb lists_eqb (w_spec (Z.to_nat size) iv t0 ig [] ops) seen
    else true
  | KSafeMap _ _ ops seen => same true (map_run [] (expand ops)) seen
  | KQueue size ops seen => if 1 <=? size then same false (fifo_run [] ops) seen else true
  | KRing n ops seen => if 1 <=? n then same false (hist_run (Z.to_nat n) [] ops) seen else true
  | KSet ops seen =>
    (* Contains/Count/Keys as determined by the last Add/Remove of each key *)
    same true (set_spec_run [] ops) seen
  | KCache limit ops seen =>
    same false (s_run (s_new limit) ops) seen &&
    (if 0 <? limit then probe_ok limit ops seen else true)
  | KCacheW limit slots interval mv ops seen =>
    if (1 <=? slots) && (1 <=? interval) then
      same false (refw_run interval (mkRefW (s_new limit) []) ops) seen
    else true
  end.

Inductive mobs := MW (l : list (list (list Z))) | MO (l : list obs).

Definition model_obs (c : case) : mobs :=
  match c with
  | KWindow size iv t0 ig ops _ => MW (w_run (rw_new (Z.to_nat size) iv t0 ig) ops)
  | KSafeMap ct md ops _ => MO (visible true (sm_run (mkSMC ct md) sm_new (expand ops)))
  | KQueue size ops _ => MO (visible false (q_run (q_new (Z.to_nat size)) ops))
  | KRing n ops _ => MO (visible false (r_run (r_new (Z.to_nat n)) ops))
  | KSet ops _ => MO (visible true (set_run [] ops))
  | KCache limit ops _ => MO (visible false (c_run (c_new limit) ops))
  | KCacheW limit slots interval mv ops _ => MO (visible false (cw_run (cw_new limit slots interval mv) ops))
  end.
