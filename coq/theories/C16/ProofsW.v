(* C16 - proofs about the in-memory cache composed with the timing wheel
   (C16/ModelW.v = cache model of C16/Model.v + wheel model of C12/Model.v).
   T1: the composed model is the event-based cache model with an Expire event
       exactly where the wheel fired;
   T2: an entry written with expiry d is readable until the (d / interval)-th tick
       and gone from then on (unless rewritten / deleted / evicted);
   T3: a rewrite resets the expiry;
   T4: the wheel reports the key as expired at the due tick. *)
From Coq Require Import List ZArith Bool Lia.
From GZ Require C12.Model C12.Proofs.
From GZ Require Import C16.Model C16.ProofsCache C16.ModelW.
Module TWP := GZ.C12.Proofs.
Import ListNotations. Open Scope Z_scope.

(* ------------------------------------------------------------------ *)
(* callbacks = delete the fired keys from the cache and from the wheel  *)

Definition c_dels (c : cache) (ks : list Z) : cache := fold_left c_del ks c.

Lemma cw_callbacks_eq : forall f c w,
  cw_callbacks c w f = (c_dels c (map fst f), tw_removes w (map fst f)).
Proof.
  intros f. induction f as [|a f IHf]; intros c w; [reflexivity|].
  unfold cw_callbacks in *. simpl. apply IHf.
Qed.

Lemma cw_eta : forall s, mkCW (cwc s) (cww s) (cwmv s) = s.
Proof. intros s. destruct s; reflexivity. Qed.

Definition set_wop (s : cachew) (k v d : Z) : TW.op :=
  if amem k (cdata (cwc s)) && cwmv s then TW.OMove k d else TW.OSet k v d.

Definition set_w1 (s : cachew) (k v : Z) : TW.state :=
  tw_removes (cww s) (snd (c_set (cwc s) k v)).

Definition set_wf (s : cachew) (k v d : Z) : TW.state * TW.fired :=
  TW.step (set_w1 s k v) (set_wop s k v d).

Lemma cw_set_eq : forall s k v d,
  cw_set s k v d =
  (mkCW (c_dels (fst (c_set (cwc s) k v)) (map fst (snd (set_wf s k v d))))
        (tw_removes (fst (set_wf s k v d)) (map fst (snd (set_wf s k v d))))
        (cwmv s),
   snd (c_set (cwc s) k v),
   map fst (snd (set_wf s k v d))).
Proof.
  intros s k v d. unfold cw_set, set_wf, set_w1, set_wop.
  destruct (c_set (cwc s) k v) as [c1 ev]. cbn [fst snd].
  destruct (amem k (cdata (cwc s)) && cwmv s); cbn [TW.step].
  - destruct (TW.move_task (tw_removes (cww s) ev) k d) as [w2 f].
    rewrite cw_callbacks_eq. reflexivity.
  - rewrite cw_callbacks_eq. reflexivity.
Qed.

(* closed forms of cw_step *)
Lemma cw_step_set : forall s k v d,
  cw_step s (XSet k v d) = (fst (fst (cw_set s k v d)), OUnit, snd (cw_set s k v d)).
Proof. intros s k v d. simpl. destruct (cw_set s k v d) as [[s' ev] ex]. reflexivity. Qed.

Lemma cw_step_get : forall s k,
  cw_step s (XGet k) =
  (mkCW (fst (c_doget (cwc s) k)) (cww s) (cwmv s), OOpt (alookup k (cdata (cwc s))), []).
Proof.
  intros s k. simpl. unfold c_doget. destruct (alookup k (cdata (cwc s))); reflexivity.
Qed.

Lemma cw_step_take_hit : forall s k f d v, alookup k (cdata (cwc s)) = Some v ->
  cw_step s (XTake k f d) =
  (mkCW (fst (c_lru_add (cwc s) k)) (cww s) (cwmv s), OTake (Some v) false, []).
Proof. intros s k f d v Hv. simpl. unfold c_doget. rewrite Hv. reflexivity. Qed.

Lemma cw_step_take_miss_some : forall s k v d, alookup k (cdata (cwc s)) = None ->
  cw_step s (XTake k (Some v) d) =
  (fst (fst (cw_set s k v d)), OTake (Some v) true, snd (cw_set s k v d)).
Proof.
  intros s k v d Hn. simpl. unfold c_doget. rewrite Hn. rewrite cw_eta.
  destruct (cw_set s k v d) as [[s' ev] ex]. reflexivity.
Qed.

Lemma cw_step_take_miss_none : forall s k d, alookup k (cdata (cwc s)) = None ->
  cw_step s (XTake k None d) = (s, OTake None true, []).
Proof. intros s k d Hn. simpl. unfold c_doget. rewrite Hn. rewrite cw_eta. reflexivity. Qed.

Lemma cw_step_tick : forall s,
  cw_step s XTick =
  (mkCW (c_dels (cwc s) (map fst (snd (TW.on_tick (cww s)))))
        (tw_removes (fst (TW.on_tick (cww s))) (map fst (snd (TW.on_tick (cww s)))))
        (cwmv s),
   OUnit, map fst (snd (TW.on_tick (cww s)))).
Proof.
  intros s. simpl. destruct (TW.on_tick (cww s)) as [w1 f].
  rewrite cw_callbacks_eq. reflexivity.
Qed.

(* ------------------------------------------------------------------ *)
(* T1: refinement of the event-based cache model                       *)

Lemma expires_visible : forall ks c rest,
  c_run_visible c (map CExpire ks ++ rest) = c_run_visible (c_dels c ks) rest.
Proof.
  intros ks. induction ks as [|a ks IHks]; intros c rest; [reflexivity|].
  simpl. apply IHks.
Qed.

Lemma expires_final : forall ks c rest,
  c_final c (map CExpire ks ++ rest) = c_final (c_dels c ks) rest.
Proof.
  intros ks. induction ks as [|a ks IHks]; intros c rest; [reflexivity|].
  simpl. apply IHks.
Qed.

Lemma visible_cons : forall c o rest, is_expire o = false ->
  c_run_visible c (o :: rest) =
  snd (fst (c_step c o)) :: c_run_visible (fst (fst (c_step c o))) rest.
Proof.
  intros c o rest Ho. cbn [c_run_visible]. destruct (c_step c o) as [[c' r] ev].
  rewrite Ho. reflexivity.
Qed.

(* the observable OUnit of a tick has no counterpart among the events; cw_run_noticks
   (ModelW.v) leaves it out *)
Definition xvis (o : xop) (r : obs) : list obs :=
  match o with XTick => [] | _ => [r] end.

Lemma cw_run_noticks_cons : forall s o ops,
  cw_run_noticks s (o :: ops) =
  xvis o (snd (fst (cw_step s o))) ++ cw_run_noticks (fst (fst (cw_step s o))) ops.
Proof.
  intros s o ops. cbn [cw_run_noticks]. destruct (cw_step s o) as [[s' r] ex].
  destruct o; reflexivity.
Qed.

Lemma cw_step_events : forall s o rest,
  c_run_visible (cwc s) (xop_events o (snd (cw_step s o)) ++ rest) =
    xvis o (snd (fst (cw_step s o))) ++ c_run_visible (cwc (fst (fst (cw_step s o)))) rest /\
  c_final (cwc s) (xop_events o (snd (cw_step s o)) ++ rest) =
    c_final (cwc (fst (fst (cw_step s o)))) rest.
Proof.
  intros s o rest. destruct o as [k v d|k|k|k f d|]; cbn [xvis app].
  - rewrite cw_step_set, cw_set_eq. cbn [fst snd xop_events cwc].
    rewrite <- app_comm_cons. rewrite visible_cons by reflexivity.
    cbn [c_final]. rewrite c_step_set. cbn [fst snd].
    rewrite expires_visible, expires_final. split; reflexivity.
  - rewrite cw_step_get. cbn [fst snd xop_events cwc app].
    rewrite visible_cons by reflexivity. cbn [c_final].
    rewrite c_step_get. cbn [fst snd]. split; reflexivity.
  - cbn [cw_step fst snd xop_events cwc app].
    rewrite visible_cons by reflexivity. cbn [c_final c_step fst snd]. split; reflexivity.
  - destruct (alookup k (cdata (cwc s))) as [v|] eqn:Hv.
    + rewrite (cw_step_take_hit s k f d v Hv). cbn [fst snd xop_events cwc app map].
      rewrite visible_cons by reflexivity. cbn [c_final].
      rewrite (c_step_take_hit (cwc s) k f v Hv). cbn [fst snd]. split; reflexivity.
    + destruct f as [v|].
      * rewrite (cw_step_take_miss_some s k v d Hv), cw_set_eq. cbn [fst snd xop_events cwc].
        rewrite <- app_comm_cons. rewrite visible_cons by reflexivity. cbn [c_final].
        rewrite (c_step_take_miss_some (cwc s) k v Hv). cbn [fst snd].
        rewrite expires_visible, expires_final. split; reflexivity.
      * rewrite (cw_step_take_miss_none s k d Hv). cbn [fst snd xop_events cwc app map].
        rewrite visible_cons by reflexivity. cbn [c_final].
        rewrite (c_step_take_miss_none (cwc s) k Hv). cbn [fst snd]. split; reflexivity.
  - rewrite cw_step_tick. cbn [fst snd xop_events cwc].
    rewrite expires_visible, expires_final. split; reflexivity.
Qed.

Lemma cw_trace_cons : forall s o ops,
  cw_trace s (o :: ops) =
  xop_events o (snd (cw_step s o)) ++ cw_trace (fst (fst (cw_step s o))) ops.
Proof. intros s o ops. cbn [cw_trace]. destruct (cw_step s o) as [[s' r] ex]. reflexivity. Qed.

Theorem cachew_refines_event_cache_proof : forall ops s,
  cw_run_noticks s ops = c_run_visible (cwc s) (cw_trace s ops) /\
  cwc (cw_final s ops) = c_final (cwc s) (cw_trace s ops).
Proof.
  intros ops. induction ops as [|o ops IHops]; intros s; [split; reflexivity|].
  rewrite cw_trace_cons, cw_run_noticks_cons. cbn [cw_final].
  pose proof (cw_step_events s o (cw_trace (fst (fst (cw_step s o))) ops)) as [Hv Hf].
  destruct (IHops (fst (fst (cw_step s o)))) as [IH1 IH2].
  rewrite Hv, Hf, IH1, IH2. split; reflexivity.
Qed.


(* ------------------------------------------------------------------ *)
(* deleting a list of keys from the cache / from the wheel             *)

Lemma Inv_dels : forall ks c, Inv c -> Inv (c_dels c ks).
Proof.
  intros ks. induction ks as [|a ks IHks]; intros c HI; [exact HI|].
  simpl. apply IHks. apply Inv_del. exact HI.
Qed.

Lemma alookup_dels : forall ks c x,
  alookup x (cdata (c_dels c ks)) = if smem x ks then None else alookup x (cdata c).
Proof.
  intros ks. induction ks as [|a ks IHks]; intros c x; [reflexivity|].
  simpl. rewrite IHks, c_del_data, alookup_aremove.
  unfold smem. simpl. fold (smem x ks). rewrite (Z.eqb_sym a x).
  destruct (smem x ks); [rewrite orb_true_r; reflexivity|].
  rewrite orb_false_r. reflexivity.
Qed.

Definition wlk (w : TW.state) (x : Z) : option (Z * Z) := TW.sp_lookup x (TWP.abs w).

Lemma wheel_remove : forall w k, TWP.Inv w ->
  TWP.Inv (TW.remove_task w k) /\
  TW.sint (TW.remove_task w k) = TW.sint w /\
  TWP.abs (TW.remove_task w k) = TW.sp_drop k (TWP.abs w).
Proof.
  intros w k HI. destruct (TWP.step_refines w (TW.ORemove k) HI) as (H1 & H2 & H3).
  cbn [TW.step TW.sp_step fst snd] in *.
  split; [exact H1|]. split; [exact H3|]. inversion H2. reflexivity.
Qed.

Lemma wheel_removes : forall ks w, TWP.Inv w ->
  TWP.Inv (tw_removes w ks) /\
  TW.sint (tw_removes w ks) = TW.sint w /\
  (forall x, wlk (tw_removes w ks) x = if smem x ks then None else wlk w x).
Proof.
  intros ks. induction ks as [|a ks IHks]; intros w HI.
  - split; [exact HI|]. split; reflexivity.
  - destruct (wheel_remove w a HI) as (HI1 & Hs1 & Ha1).
    destruct (IHks (TW.remove_task w a) HI1) as (HI2 & Hs2 & Hl2).
    unfold tw_removes in *. simpl.
    split; [exact HI2|]. split; [rewrite Hs2; exact Hs1|].
    intros x. rewrite Hl2. unfold wlk. rewrite Ha1, TWP.sp_drop_lookup.
    unfold smem. simpl. fold (smem x ks). rewrite (Z.eqb_sym a x).
    destruct (smem x ks); [rewrite orb_true_r; reflexivity|].
    rewrite orb_false_r. reflexivity.
Qed.

Lemma wheel_set : forall w k v d, TWP.Inv w ->
  TWP.Inv (TW.set_task w k v d) /\
  TW.sint (TW.set_task w k v d) = TW.sint w /\
  TWP.abs (TW.set_task w k v d) =
    TW.sp_put k (Z.max d (TW.sint w) / TW.sint w, v) (TWP.abs w).
Proof.
  intros w k v d HI. destruct (TWP.step_refines w (TW.OSet k v d) HI) as (H1 & H2 & H3).
  cbn [TW.step TW.sp_step fst snd] in *.
  split; [exact H1|]. split; [exact H3|]. inversion H2. reflexivity.
Qed.

Lemma wheel_move : forall w k d, TWP.Inv w ->
  TWP.Inv (fst (TW.move_task w k d)) /\
  TW.sint (fst (TW.move_task w k d)) = TW.sint w /\
  match wlk w k with
  | None => TWP.abs (fst (TW.move_task w k d)) = TWP.abs w /\ snd (TW.move_task w k d) = []
  | Some (_, v0) =>
    if d <? TW.sint w
    then TWP.abs (fst (TW.move_task w k d)) = TWP.abs w /\
         snd (TW.move_task w k d) = [(k, v0)]
    else TWP.abs (fst (TW.move_task w k d)) = TW.sp_put k (d / TW.sint w, v0) (TWP.abs w) /\
         snd (TW.move_task w k d) = []
  end.
Proof.
  intros w k d HI. destruct (TWP.step_refines w (TW.OMove k d) HI) as (H1 & H2 & H3).
  cbn [TW.step TW.sp_step fst snd] in *.
  split; [exact H1|]. split; [exact H3|]. unfold wlk.
  destruct (TW.sp_lookup k (TWP.abs w)) as [[r0 v0]|].
  - destruct (d <? TW.sint w); inversion H2; split; reflexivity.
  - inversion H2; split; reflexivity.
Qed.

Lemma wheel_tick : forall w, TWP.Inv w ->
  TWP.Inv (fst (TW.on_tick w)) /\
  TW.sint (fst (TW.on_tick w)) = TW.sint w /\
  TWP.abs (fst (TW.on_tick w)) = TWP.sp_tick_keep (TWP.abs w) /\
  snd (TW.on_tick w) = TWP.sp_tick_fire (TWP.abs w).
Proof.
  intros w HI. destruct (TWP.step_refines w TW.OTick HI) as (H1 & H2 & H3).
  cbn [TW.step TW.sp_step fst snd] in *.
  split; [exact H1|]. split; [exact H3|]. inversion H2. split; reflexivity.
Qed.

(* the wheel part of SetWithExpire: SetTimer or MoveTimer on key k *)
Lemma wheel_wop : forall w o k v d, TWP.Inv w ->
  o = TW.OSet k v d \/ o = TW.OMove k d ->
  TWP.Inv (fst (TW.step w o)) /\
  TW.sint (fst (TW.step w o)) = TW.sint w /\
  (forall x, x <> k -> wlk (fst (TW.step w o)) x = wlk w x) /\
  (forall y, In y (map fst (snd (TW.step w o))) -> y = k) /\
  (o = TW.OSet k v d \/ wlk w k <> None ->
     (~ In k (map fst (snd (TW.step w o))) -> wlk (fst (TW.step w o)) k <> None) /\
     (TW.sint w <= d ->
        snd (TW.step w o) = [] /\
        exists y, wlk (fst (TW.step w o)) k = Some (d / TW.sint w, y))).
Proof.
  intros w o k v d HI [Ho|Ho]; subst o; cbn [TW.step fst snd].
  - destruct (wheel_set w k v d HI) as (H1 & H2 & H3).
    split; [exact H1|]. split; [exact H2|]. split.
    { intros x Hx. unfold wlk. rewrite H3. apply TWP.sp_put_lookup_other. congruence. }
    split; [intros y []|]. intros _. split.
    + intros _. unfold wlk. rewrite H3, TWP.sp_lookup_put. discriminate.
    + intros Hd. split; [reflexivity|]. exists v. unfold wlk.
      rewrite H3, TWP.sp_lookup_put. rewrite Z.max_l by lia. reflexivity.
  - destruct (wheel_move w k d HI) as (H1 & H2 & H3).
    split; [exact H1|]. split; [exact H2|].
    destruct (wlk w k) as [[r0 v0]|] eqn:Hk.
    + destruct (Z.ltb_spec d (TW.sint w)) as [Hlt|Hge]; destruct H3 as [Ha Hf]; rewrite Hf.
      * split; [intros x Hx; unfold wlk; rewrite Ha; reflexivity|].
        split; [intros y [Hy|[]]; symmetry; exact Hy|].
        intros _. split; [intros Hn; exfalso; apply Hn; left; reflexivity|].
        intros Hd. lia.
      * split.
        { intros x Hx. unfold wlk. rewrite Ha. apply TWP.sp_put_lookup_other. congruence. }
        split; [intros y []|]. intros _. split.
        -- intros _. unfold wlk. rewrite Ha, TWP.sp_lookup_put. discriminate.
        -- intros _. split; [reflexivity|]. exists v0. unfold wlk.
           rewrite Ha, TWP.sp_lookup_put. reflexivity.
    + destruct H3 as [Ha Hf]. rewrite Hf.
      split; [intros x Hx; unfold wlk; rewrite Ha; reflexivity|].
      split; [intros y []|]. intros [Hc|Hc]; [discriminate|]. exfalso. apply Hc. reflexivity.
Qed.

(* ------------------------------------------------------------------ *)
(* global invariant of the composed model                              *)

Definition G (i : Z) (s : cachew) : Prop :=
  Inv (cwc s) /\ TWP.Inv (cww s) /\ TW.sint (cww s) = i /\
  (forall x, alookup x (cdata (cwc s)) <> None -> wlk (cww s) x <> None).

Lemma G_new : forall limit n i mv, 1 <= n -> 1 <= i -> G i (cw_new limit n i mv).
Proof.
  intros limit n i mv Hn Hi. unfold G, cw_new. cbn [cwc cww].
  split; [apply Inv_new|]. split; [apply TWP.inv_init; assumption|].
  split; [reflexivity|]. intros x Hx. exfalso. apply Hx. reflexivity.
Qed.

Lemma latest_gone : forall l x cur,
  latest (map EvGone l) x cur = if smem x l then None else cur.
Proof.
  intros l. induction l as [|a l IHl]; intros x cur; [reflexivity|].
  simpl. rewrite IHl. unfold smem. simpl. fold (smem x l). rewrite (Z.eqb_sym a x).
  destruct (x =? a); simpl; [destruct (smem x l); reflexivity|reflexivity].
Qed.

Lemma c_set_data : forall c k v x,
  alookup x (cdata (fst (c_set c k v))) =
  if smem x (snd (c_set c k v)) then None
  else if k =? x then Some v else alookup x (cdata c).
Proof.
  intros c k v x. rewrite c_set_lookup. cbn [latest]. apply latest_gone.
Qed.

(* the LRU never evicts the key being written *)
Lemma set_ev_not_self : forall c k v, Inv c -> ~ In k (snd (c_set c k v)).
Proof.
  intros c k v (Hkeys & Hpos & Hneg). unfold c_set.
  set (c0 := mkC (climit c) (aset k v (cdata c)) (clru c)).
  destruct (Z_le_gt_dec (climit c) 0) as [Hl|Hl].
  - rewrite (c_lru_add_nolimit c0 k) by exact Hl. intros [].
  - assert (Hl' : 0 < climit c0) by (cbn; lia).
    destruct (Hpos ltac:(lia)) as (Hnd & Heq & Hlen).
    destruct (in_dec Z.eq_dec k (clru c)) as [Hin|Hnin].
    + rewrite (c_lru_add_present c0 k Hl' Hin). intros [].
    + destruct (Z_lt_le_dec (climit c) (Z.of_nat (S (length (clru c))))) as [Hfull|Hfit].
      * destruct (exists_last (l := k :: clru c)) as (l' & old & HL); [discriminate|].
        rewrite (c_lru_add_absent_full c0 k l' old Hl' Hnin Hfull HL). cbn [snd].
        intros [Hk|[]]. subst old. destruct l' as [|a l'].
        -- simpl in HL. inversion HL as [Hlru]. rewrite Hlru in Hfull. simpl in Hfull. lia.
        -- simpl in HL. inversion HL as [[Ha Hlru]]. apply Hnin. rewrite Hlru.
           apply in_or_app. right. left. congruence.
      * rewrite (c_lru_add_absent_fit c0 k Hl' Hnin Hfit). intros [].
Qed.

Lemma cw_set_facts : forall i s k v d, G i s ->
  G i (fst (fst (cw_set s k v d))) /\
  (forall x, x <> k -> ~ In x (snd (fst (cw_set s k v d))) ->
     alookup x (cdata (cwc (fst (fst (cw_set s k v d))))) = alookup x (cdata (cwc s)) /\
     wlk (cww (fst (fst (cw_set s k v d)))) x = wlk (cww s) x) /\
  (i <= d ->
     alookup k (cdata (cwc (fst (fst (cw_set s k v d))))) = Some v /\
     exists y, wlk (cww (fst (fst (cw_set s k v d)))) k = Some (d / i, y)).
Proof.
  intros i s k v d (HIc & HIw & Hsi & Hsub). rewrite cw_set_eq. cbn [fst snd cwc cww].
  pose proof (c_set_data (cwc s) k v) as Hc1.
  pose proof (set_ev_not_self (cwc s) k v HIc) as Hnk.
  pose proof (Inv_set (cwc s) k v HIc) as HIc1.
  set (c1 := fst (c_set (cwc s) k v)) in *. set (ev := snd (c_set (cwc s) k v)) in *.
  unfold set_wf. set (o := set_wop s k v d).
  assert (Hw1 : set_w1 s k v = tw_removes (cww s) ev) by reflexivity.
  set (w1 := set_w1 s k v) in *.
  destruct (wheel_removes ev (cww s) HIw) as (HIw1 & Hs1 & Hl1). rewrite <- Hw1 in HIw1, Hs1, Hl1.
  assert (Ho : o = TW.OSet k v d \/ o = TW.OMove k d).
  { unfold o, set_wop. destruct (amem k (cdata (cwc s)) && cwmv s); auto. }
  destruct (wheel_wop w1 o k v d HIw1 Ho) as (HIw2 & Hs2 & Hoth & Hfk & Hself).
  assert (Hcond : o = TW.OSet k v d \/ wlk w1 k <> None).
  { unfold o, set_wop. destruct (amem k (cdata (cwc s)) && cwmv s) eqn:Hb; [right|left; reflexivity].
    apply andb_true_iff in Hb. destruct Hb as [Hm _]. unfold amem in Hm.
    rewrite Hl1. apply smem_notin in Hnk. rewrite Hnk. apply Hsub.
    destruct (alookup k (cdata (cwc s))); [discriminate|discriminate]. }
  destruct (Hself Hcond) as [Hself1 Hself2].
  set (w2 := fst (TW.step w1 o)) in *. set (f := snd (TW.step w1 o)) in *.
  destruct (wheel_removes (map fst f) w2 HIw2) as (HIw3 & Hs3 & Hl3).
  assert (Hi1 : TW.sint w1 = i) by (rewrite Hs1; exact Hsi).
  split; [|split].
  - unfold G. cbn [cwc cww].
    split; [apply Inv_dels; exact HIc1|]. split; [exact HIw3|].
    split; [rewrite Hs3, Hs2; exact Hi1|].
    intros x Hx. rewrite alookup_dels in Hx.
    destruct (smem x (map fst f)) eqn:Hxf; [congruence|]. rewrite Hl3, Hxf.
    rewrite Hc1 in Hx. destruct (smem x ev) eqn:Hxe; [congruence|].
    destruct (Z.eq_dec x k) as [He|He].
    + subst x. apply Hself1. apply smem_notin. exact Hxf.
    + rewrite Hoth by exact He. rewrite Hl1, Hxe. apply Hsub.
      assert (Hkx : (k =? x) = false) by (apply Z.eqb_neq; congruence).
      rewrite Hkx in Hx. exact Hx.
  - intros x Hne Hnev. apply smem_notin in Hnev.
    assert (Hxf : smem x (map fst f) = false).
    { apply smem_notin. intros Hin. apply Hfk in Hin. contradiction. }
    assert (Hkx : (k =? x) = false) by (apply Z.eqb_neq; congruence).
    rewrite alookup_dels, Hxf, Hc1, Hnev, Hkx. split; [reflexivity|].
    rewrite Hl3, Hxf, Hoth by exact Hne. rewrite Hl1, Hnev. reflexivity.
  - intros Hd. rewrite <- Hi1 in Hd. destruct (Hself2 Hd) as (Hf & y & Hy).
    assert (Hkf : smem k (map fst f) = false) by (rewrite Hf; reflexivity).
    split.
    + rewrite alookup_dels, Hkf, Hc1.
      apply smem_notin in Hnk. rewrite Hnk, Z.eqb_refl. reflexivity.
    + exists y. rewrite Hl3, Hkf, Hy, Hi1. reflexivity.
Qed.

Lemma cw_tick_facts : forall i s, G i s ->
  G i (fst (fst (cw_step s XTick))) /\
  forall x,
    match wlk (cww s) x with
    | Some (r, y) =>
      if r =? 1
      then alookup x (cdata (cwc (fst (fst (cw_step s XTick))))) = None /\
           In x (snd (cw_step s XTick))
      else alookup x (cdata (cwc (fst (fst (cw_step s XTick))))) = alookup x (cdata (cwc s)) /\
           wlk (cww (fst (fst (cw_step s XTick)))) x = Some (r - 1, y)
    | None => True
    end.
Proof.
  intros i s (HIc & HIw & Hsi & Hsub). rewrite cw_step_tick. cbn [fst snd cwc cww].
  destruct (wheel_tick (cww s) HIw) as (HIw1 & Hs1 & Ha1 & Hf1).
  set (w1 := fst (TW.on_tick (cww s))) in *. set (f := snd (TW.on_tick (cww s))) in *.
  destruct (wheel_removes (map fst f) w1 HIw1) as (HIw2 & Hs2 & Hl2).
  destruct (TWP.abs_spwf (cww s) HIw) as [Hnd _].
  assert (Hfire : forall x, In x (map fst f) <-> exists y, wlk (cww s) x = Some (1, y)).
  { intros x. rewrite Hf1. split.
    - intros Hin. apply in_map_iff in Hin. destruct Hin as ([x' y] & Hx & Hin).
      simpl in Hx. subst x'. exists y. apply (TWP.sp_tick_fire_in x y _ Hnd). exact Hin.
    - intros (y & Hy). apply in_map_iff. exists (x, y). split; [reflexivity|].
      apply (TWP.sp_tick_fire_in x y _ Hnd). exact Hy. }
  assert (Hkeep : forall x, wlk w1 x =
            match wlk (cww s) x with
            | Some (r, y) => if r =? 1 then None else Some (r - 1, y)
            | None => None
            end).
  { intros x. unfold wlk. rewrite Ha1. apply TWP.sp_tick_keep_lookup. exact Hnd. }
  assert (Hper : forall x r y, wlk (cww s) x = Some (r, y) ->
            if r =? 1 then smem x (map fst f) = true
            else smem x (map fst f) = false /\ wlk w1 x = Some (r - 1, y)).
  { intros x r y Hx. destruct (Z.eqb_spec r 1) as [Hr|Hr].
    - apply smem_In. apply Hfire. exists y. rewrite Hx, Hr. reflexivity.
    - split.
      + apply smem_notin. intros Hin. apply Hfire in Hin. destruct Hin as (y' & Hy').
        rewrite Hx in Hy'. inversion Hy'. contradiction.
      + rewrite Hkeep, Hx. apply Z.eqb_neq in Hr. rewrite Hr. reflexivity. }
  split.
  - unfold G. cbn [cwc cww].
    split; [apply Inv_dels; exact HIc|]. split; [exact HIw2|].
    split; [rewrite Hs2, Hs1; exact Hsi|].
    intros x Hx. rewrite alookup_dels in Hx.
    destruct (smem x (map fst f)) eqn:Hxf; [congruence|].
    rewrite Hl2, Hxf. pose proof (Hsub x Hx) as Hw.
    destruct (wlk (cww s) x) as [[r y]|] eqn:Hwx; [|congruence].
    pose proof (Hper x r y Hwx) as Hp. destruct (r =? 1); [congruence|].
    destruct Hp as [_ Hp]. rewrite Hp. discriminate.
  - intros x. destruct (wlk (cww s) x) as [[r y]|] eqn:Hwx; [|exact I].
    pose proof (Hper x r y Hwx) as Hp. destruct (r =? 1).
    + rewrite alookup_dels, Hp. split; [reflexivity|]. apply smem_In. exact Hp.
    + destruct Hp as [Hp1 Hp2]. rewrite alookup_dels, Hp1, Hl2, Hp1.
      split; [reflexivity|exact Hp2].
Qed.

Lemma G_get : forall i s k, G i s -> G i (mkCW (fst (c_doget (cwc s) k)) (cww s) (cwmv s)).
Proof.
  intros i s k (HIc & HIw & Hsi & Hsub). unfold G. cbn [cwc cww].
  split; [apply Inv_doget; exact HIc|]. split; [exact HIw|]. split; [exact Hsi|].
  rewrite (c_doget_data (cwc s) k HIc). exact Hsub.
Qed.

Lemma G_del : forall i s k, G i s ->
  G i (mkCW (c_del (cwc s) k) (TW.remove_task (cww s) k) (cwmv s)).
Proof.
  intros i s k (HIc & HIw & Hsi & Hsub). unfold G. cbn [cwc cww].
  destruct (wheel_remove (cww s) k HIw) as (H1 & H2 & H3).
  split; [apply Inv_del; exact HIc|]. split; [exact H1|]. split; [rewrite H2; exact Hsi|].
  intros x Hx. rewrite c_del_data, alookup_aremove in Hx. unfold wlk.
  rewrite H3, TWP.sp_drop_lookup. destruct (k =? x); [congruence|]. apply Hsub. exact Hx.
Qed.

Lemma G_step : forall i s o, G i s -> G i (fst (fst (cw_step s o))).
Proof.
  intros i s o HG. destruct o as [k v d|k|k|k f d|].
  - rewrite cw_step_set. cbn [fst]. apply (cw_set_facts i s k v d HG).
  - rewrite cw_step_get. cbn [fst]. apply G_get. exact HG.
  - cbn [cw_step fst]. apply G_del. exact HG.
  - destruct (alookup k (cdata (cwc s))) as [v|] eqn:Hv.
    + rewrite (cw_step_take_hit s k f d v Hv). cbn [fst].
      pose proof (G_get i s k HG) as HG'. rewrite (c_doget_hit (cwc s) k v Hv) in HG'. exact HG'.
    + destruct f as [v|].
      * rewrite (cw_step_take_miss_some s k v d Hv). cbn [fst]. apply (cw_set_facts i s k v d HG).
      * rewrite (cw_step_take_miss_none s k d Hv). exact HG.
  - apply (cw_tick_facts i s HG).
Qed.

Lemma G_final : forall i ops s, G i s -> G i (cw_final s ops).
Proof.
  intros i ops. induction ops as [|o ops IHops]; intros s HG; [exact HG|].
  cbn [cw_final]. apply IHops. apply G_step. exact HG.
Qed.

Lemma cw_final_app : forall a b s, cw_final s (a ++ b) = cw_final (cw_final s a) b.
Proof.
  intros a. induction a as [|o a IHa]; intros b s; [reflexivity|].
  cbn [app cw_final]. apply IHa.
Qed.

(* ------------------------------------------------------------------ *)
(* following one key k through operations that do not write it         *)

Lemma xticks_nonneg : forall a, 0 <= xticks a.
Proof.
  intros a. induction a as [|o a IHa]; [simpl; lia|].
  destruct o; cbn [xticks]; lia.
Qed.

Lemma lru_add_none : forall c k' k, alookup k (cdata c) = None ->
  alookup k (cdata (fst (c_lru_add c k'))) = None.
Proof.
  intros c k' k Hn. rewrite c_lru_add_lookup, latest_gone, Hn.
  destruct (smem k (snd (c_lru_add c k'))); reflexivity.
Qed.

Lemma cw_set_none : forall s k' v d k, (k' =? k) = false ->
  alookup k (cdata (cwc s)) = None ->
  alookup k (cdata (cwc (fst (fst (cw_set s k' v d))))) = None.
Proof.
  intros s k' v d k Hne Hn. rewrite cw_set_eq. cbn [fst snd cwc].
  rewrite alookup_dels, c_set_data, Hne, Hn.
  destruct (smem k (map fst (snd (set_wf s k' v d)))); [reflexivity|].
  destruct (smem k (snd (c_set (cwc s) k' v))); reflexivity.
Qed.

(* a key that is absent stays absent as long as nobody writes it *)
Lemma none_step : forall s k o, alookup k (cdata (cwc s)) = None -> xwrites k o = false ->
  alookup k (cdata (cwc (fst (fst (cw_step s o))))) = None.
Proof.
  intros s k o Hn Hw. destruct o as [k' v d|k'|k'|k' f d|]; cbn [xwrites] in Hw.
  - rewrite cw_step_set. cbn [fst]. apply cw_set_none; assumption.
  - rewrite cw_step_get. cbn [fst cwc]. unfold c_doget.
    destruct (alookup k' (cdata (cwc s))); cbn [fst]; [apply lru_add_none|]; exact Hn.
  - cbn [cw_step fst cwc]. rewrite c_del_data, alookup_aremove, Hn.
    destruct (k' =? k); reflexivity.
  - destruct (alookup k' (cdata (cwc s))) as [v|] eqn:Hv.
    + rewrite (cw_step_take_hit s k' f d v Hv). cbn [fst cwc]. apply lru_add_none. exact Hn.
    + destruct f as [v|].
      * rewrite (cw_step_take_miss_some s k' v d Hv). cbn [fst]. apply cw_set_none; assumption.
      * rewrite (cw_step_take_miss_none s k' d Hv). exact Hn.
  - rewrite cw_step_tick. cbn [fst cwc]. rewrite alookup_dels, Hn.
    destruct (smem k (map fst (snd (TW.on_tick (cww s))))); reflexivity.
Qed.

Lemma absent_stays : forall a s k, alookup k (cdata (cwc s)) = None ->
  forallb (fun o => negb (xwrites k o)) a = true ->
  alookup k (cdata (cwc (cw_final s a))) = None.
Proof.
  intros a. induction a as [|o a IHa]; intros s k Hn Ha; [exact Hn|].
  cbn [forallb] in Ha. apply andb_true_iff in Ha. destruct Ha as [Ho Ha].
  apply negb_true_iff in Ho. cbn [cw_final]. apply IHa; [|exact Ha].
  apply none_step; assumption.
Qed.

(* operations other than a tick that neither write nor evict k leave k alone *)
Lemma step_track : forall i s k o, G i s -> xwrites k o = false ->
  ~ In k (cw_evicted s o) -> o <> XTick ->
  alookup k (cdata (cwc (fst (fst (cw_step s o))))) = alookup k (cdata (cwc s)) /\
  wlk (cww (fst (fst (cw_step s o)))) k = wlk (cww s) k.
Proof.
  intros i s k o HG Hw Hev Ht. pose proof HG as (HIc & HIw & Hsi & Hsub).
  destruct o as [k' v d|k'|k'|k' f d|]; cbn [xwrites] in Hw; [| | | |contradiction].
  - cbn [cw_evicted] in Hev. rewrite cw_step_set. cbn [fst].
    destruct (cw_set_facts i s k' v d HG) as (_ & Hoth & _).
    apply Hoth; [|exact Hev]. apply Z.eqb_neq in Hw. congruence.
  - rewrite cw_step_get. cbn [fst cwc cww]. rewrite (c_doget_data (cwc s) k' HIc).
    split; reflexivity.
  - cbn [cw_step fst cwc cww]. rewrite c_del_data, alookup_aremove, Hw.
    destruct (wheel_remove (cww s) k' HIw) as (_ & _ & H3).
    unfold wlk. rewrite H3, TWP.sp_drop_lookup, Hw. split; reflexivity.
  - destruct (alookup k' (cdata (cwc s))) as [v|] eqn:Hv.
    + rewrite (cw_step_take_hit s k' f d v Hv). cbn [fst cwc cww].
      rewrite (proj1 (lru_add_hit_data (cwc s) k' v HIc Hv)). split; reflexivity.
    + destruct f as [v|].
      * cbn [cw_evicted] in Hev. rewrite (c_doget_miss (cwc s) k' Hv), cw_eta in Hev.
        rewrite (cw_step_take_miss_some s k' v d Hv). cbn [fst].
        destruct (cw_set_facts i s k' v d HG) as (_ & Hoth & _).
        apply Hoth; [|exact Hev]. apply Z.eqb_neq in Hw. congruence.
      * rewrite (cw_step_take_miss_none s k' d Hv). split; reflexivity.
Qed.

Lemma xticks_nontick : forall o a, o <> XTick -> xticks (o :: a) = xticks a.
Proof. intros o a Ho. destruct o; try reflexivity. contradiction. Qed.

(* an entry with r ticks to go is readable for r - 1 more ticks and gone afterwards *)
Lemma expiry_gen : forall i k v a s r, G i s -> 1 <= r ->
  alookup k (cdata (cwc s)) = Some v ->
  (exists x, wlk (cww s) k = Some (r, x)) ->
  forallb (fun o => negb (xwrites k o)) a = true ->
  cw_never_evicts s k a ->
  if xticks a <? r
  then alookup k (cdata (cwc (cw_final s a))) = Some v /\
       exists x, wlk (cww (cw_final s a)) k = Some (r - xticks a, x)
  else alookup k (cdata (cwc (cw_final s a))) = None.
Proof.
  intros i k v a. induction a as [|o a IHa]; intros s r HG Hr Hv (x & Hx) Ha Hev.
  - cbn [xticks cw_final]. assert (H0 : (0 <? r) = true) by (apply Z.ltb_lt; lia).
    rewrite H0. split; [exact Hv|]. exists x. rewrite Z.sub_0_r. exact Hx.
  - cbn [forallb] in Ha. apply andb_true_iff in Ha. destruct Ha as [Ho Ha].
    apply negb_true_iff in Ho. cbn [cw_never_evicts] in Hev. destruct Hev as [Hne Hev].
    pose proof (G_step i s o HG) as HG'. cbn [cw_final].
    assert (Hcase : o = XTick \/ o <> XTick) by (destruct o; auto; right; discriminate).
    destruct Hcase as [Ht|Ht].
    + subst o. destruct (cw_tick_facts i s HG) as (_ & Htick). specialize (Htick k).
      rewrite Hx in Htick. cbn [xticks]. pose proof (xticks_nonneg a) as Hnn.
      destruct (Z.eqb_spec r 1) as [Hr1|Hr1].
      * destruct Htick as [Hnone _].
        assert (Hlt : (1 + xticks a <? r) = false) by (apply Z.ltb_ge; lia).
        rewrite Hlt. apply absent_stays; assumption.
      * destruct Htick as [Hsame Hwl]. rewrite Hv in Hsame.
        assert (Hr' : 1 <= r - 1) by lia.
        pose proof (IHa _ (r - 1) HG' Hr' Hsame (ex_intro _ x Hwl) Ha Hev) as IH.
        destruct (Z.ltb_spec (xticks a) (r - 1)) as [Hlt|Hge].
        -- assert (Hlt' : (1 + xticks a <? r) = true) by (apply Z.ltb_lt; lia).
           rewrite Hlt'. destruct IH as [IH1 (y & IH2)]. split; [exact IH1|].
           exists y. rewrite IH2. f_equal. f_equal. lia.
        -- assert (Hlt' : (1 + xticks a <? r) = false) by (apply Z.ltb_ge; lia).
           rewrite Hlt'. exact IH.
    + rewrite (xticks_nontick o a Ht).
      destruct (step_track i s k o HG Ho Hne Ht) as [Hd Hw].
      apply IHa; [exact HG'|exact Hr|rewrite Hd; exact Hv| |exact Ha|exact Hev].
      exists x. rewrite Hw. exact Hx.
Qed.

(* state right after SetWithExpire(k, v, d) with d >= interval *)
Lemma after_set : forall limit n i mv pre k v d, 1 <= n -> 1 <= i -> i <= d ->
  let s1 := cw_final (cw_new limit n i mv) (pre ++ [XSet k v d]) in
  G i s1 /\ alookup k (cdata (cwc s1)) = Some v /\
  exists x, wlk (cww s1) k = Some (d / i, x).
Proof.
  intros limit n i mv pre k v d Hn Hi Hd s1. unfold s1.
  rewrite cw_final_app. cbn [cw_final]. rewrite cw_step_set. cbn [fst].
  assert (HG : G i (cw_final (cw_new limit n i mv) pre)) by (apply G_final, G_new; assumption).
  destruct (cw_set_facts i _ k v d HG) as (HG' & _ & Hself).
  destruct (Hself Hd) as [H1 H2]. split; [exact HG'|]. split; [exact H1|exact H2].
Qed.

(* ------------------------------------------------------------------ *)
(* T2 - T4                                                             *)

Theorem cache_entry_expires_at_due_tick_proof : forall limit n i mv pre k v d a,
  1 <= n -> 1 <= i -> i <= d ->
  let s1 := cw_final (cw_new limit n i mv) (pre ++ [XSet k v d]) in
  forallb (fun o => negb (xwrites k o)) a = true ->
  cw_never_evicts s1 k a ->
  alookup k (cdata (cwc (cw_final s1 a))) = if xticks a <? d / i then Some v else None.
Proof.
  intros limit n i mv pre k v d a Hn Hi Hd s1 Ha Hev.
  destruct (after_set limit n i mv pre k v d Hn Hi Hd) as (HG & Hv & Hx). fold s1 in HG, Hv, Hx.
  assert (Hr : 1 <= d / i) by (apply TWP.steps_ge_1; assumption).
  pose proof (expiry_gen i k v a s1 (d / i) HG Hr Hv Hx Ha Hev) as H.
  destruct (xticks a <? d / i); [exact (proj1 H)|exact H].
Qed.

Theorem cache_rewrite_resets_expiry_proof : forall limit n i mv pre k v0 d0 mid v d a,
  1 <= n -> 1 <= i -> i <= d ->
  let s0 := cw_final (cw_new limit n i mv) (pre ++ XSet k v0 d0 :: mid) in
  amem k (cdata (cwc s0)) = true ->
  let s1 := cw_final s0 [XSet k v d] in
  forallb (fun o => negb (xwrites k o)) a = true ->
  cw_never_evicts s1 k a ->
  alookup k (cdata (cwc (cw_final s1 a))) = if xticks a <? d / i then Some v else None.
Proof.
  intros limit n i mv pre k v0 d0 mid v d a Hn Hi Hd s0 Hm s1 Ha Hev.
  assert (Hs1 : s1 = cw_final (cw_new limit n i mv) ((pre ++ XSet k v0 d0 :: mid) ++ [XSet k v d])).
  { unfold s1, s0. symmetry. apply cw_final_app. }
  rewrite Hs1 in *.
  apply (cache_entry_expires_at_due_tick_proof limit n i mv (pre ++ XSet k v0 d0 :: mid) k v d a);
    assumption.
Qed.

Theorem cache_expiry_event_at_due_tick_proof : forall limit n i mv pre k v d a,
  1 <= n -> 1 <= i -> i <= d ->
  let s1 := cw_final (cw_new limit n i mv) (pre ++ [XSet k v d]) in
  forallb (fun o => negb (xwrites k o)) a = true ->
  cw_never_evicts s1 k a ->
  xticks a + 1 = d / i ->
  In k (snd (cw_step (cw_final s1 a) XTick)).
Proof.
  intros limit n i mv pre k v d a Hn Hi Hd s1 Ha Hev Hdue.
  destruct (after_set limit n i mv pre k v d Hn Hi Hd) as (HG & Hv & Hx). fold s1 in HG, Hv, Hx.
  assert (Hr : 1 <= d / i) by (apply TWP.steps_ge_1; assumption).
  pose proof (expiry_gen i k v a s1 (d / i) HG Hr Hv Hx Ha Hev) as H.
  assert (Hlt : (xticks a <? d / i) = true) by (apply Z.ltb_lt; lia).
  rewrite Hlt in H. destruct H as [_ (x & Hw)].
  replace (d / i - xticks a) with 1 in Hw by lia.
  destruct (cw_tick_facts i (cw_final s1 a) (G_final i a s1 HG)) as (_ & Htick).
  specialize (Htick k). rewrite Hw in Htick. cbn in Htick. exact (proj2 Htick).
Qed.

Print Assumptions cachew_refines_event_cache_proof.
Print Assumptions cache_entry_expires_at_due_tick_proof.
Print Assumptions cache_rewrite_resets_expiry_proof.
Print Assumptions cache_expiry_event_at_due_tick_proof.
