(* C16 - property theorems only.  Every theorem is closed by [exact] of a lemma
   proved in Lib/RollingWindowProofs.v or C16/Proofs*.v and followed by
   [Print Assumptions]; the Examples show the hypotheses are met by concrete,
   non-trivial states (wrapped window, migrated SafeMap, grown queue, ...). *)
From Coq Require Import List ZArith Bool Permutation.
From GZ Require Import Lib.RollingWindow Lib.RollingWindowSpec Lib.RollingWindowProofs.
From GZ Require Import C16.Model C16.ProofsMap C16.ProofsSeq C16.ProofsCache C16.ProofsCacheLru.
From GZ Require Import C16.ModelW C16.ProofsW C16.ProofsWClamp.
From GZ Require Import C16.Lin C16.ProofsLin C16.Check C16.ProofsExtra C16.ProofsRefW C16.ProofsHold.
From GZ Require Import C16.ModelGate C16.ProofsGate C16.ProofsStress C16.ProofsCommute.
Import ListNotations.
Open Scope Z_scope.

(* ------------------------------------------------------------------ *)
(* RollingWindow.  h is the list of (time, value) pairs given to Add, oldest first;
   rw_idx t0 iv t = (t - t0) / iv is the interval index of a time.

   For every size >= 1, interval > 0, creation time t0, every history of adds at
   non-decreasing times >= t0 and every now >= the last add: Reduce hands out one
   bucket per interval index from idx(now)-size+1 up to the index of the last add
   (min'ed with idx(now)-1 when the current bucket is ignored), the j-th bucket
   holding exactly the values added during that interval, in order.  Intervals
   after the last add hold no value and are skipped; nothing older than `size`
   intervals is ever visited. *)
Theorem reduce_visits_last_size_intervals : forall (size : nat) (iv t0 : Z) (ig : bool)
    (h : list (Z * Z)) (now : Z),
  (1 <= size)%nat -> 0 < iv -> rw_mono t0 h -> rw_last_time t0 h <= now ->
  rw_reduce (rw_run (rw_new size iv t0 ig) h) now =
  map (rw_vals_at t0 iv h)
      (zrange (rw_idx t0 iv now - Z.of_nat size + 1)
              (Z.min (rw_idx t0 iv (rw_last_time t0 h)) (rw_upper ig (rw_idx t0 iv now)))).
Proof. exact GZ.Lib.RollingWindowProofs.reduce_visits_last_size_intervals. Qed.
Print Assumptions reduce_visits_last_size_intervals.

(* ... hence, concatenated: exactly the values whose interval index lies in
   (idx(now) - size, idx(now)]  (idx(now) itself excluded when ignoreCurrent), in
   the order they were added. *)
Theorem reduce_visits_exactly_the_window : forall (size : nat) (iv t0 : Z) (ig : bool)
    (h : list (Z * Z)) (now : Z),
  (1 <= size)%nat -> 0 < iv -> rw_mono t0 h -> rw_last_time t0 h <= now ->
  concat (rw_reduce (rw_run (rw_new size iv t0 ig) h) now) =
  map snd (filter (fun p => (rw_idx t0 iv now - Z.of_nat size + 1 <=? rw_idx t0 iv (fst p)) &&
                            (rw_idx t0 iv (fst p) <=? (if ig then rw_idx t0 iv now - 1 else rw_idx t0 iv now))) h).
Proof. exact reduce_concat_window. Qed.
Print Assumptions reduce_visits_exactly_the_window.

(* sums and counts over the buckets are sums and counts over the window *)
Theorem reduce_sums_the_window : forall (size : nat) (iv t0 : Z) (ig : bool) (h : list (Z * Z)) (now : Z),
  (1 <= size)%nat -> 0 < iv -> rw_mono t0 h -> rw_last_time t0 h <= now ->
  let w := rw_run (rw_new size iv t0 ig) h in
  let win := rw_vals_in t0 iv h (rw_idx t0 iv now - Z.of_nat size + 1) (rw_upper ig (rw_idx t0 iv now)) in
  zsum (map zsum (rw_reduce w now)) = zsum win /\
  zsum (map (fun b => Z.of_nat (length b)) (rw_reduce w now)) = Z.of_nat (length win).
Proof. exact reduce_sum_window. Qed.
Print Assumptions reduce_sums_the_window.

(* Reduce is ONE read of the window: rw_reduce above is applied to one window state.  The code
   provides this by holding the window's read lock from choosing the buckets to the last callback
   (an Add from another goroutine waits; forced-schedule kind `window_gate`).  For a Reduce that
   overlaps Adds, Check.prop_ok accepts the Reduce of the state before them or after the first j
   of them - never a mixture (Pinned.reduce_by_reference_mixes_states_refuted) - and what the
   code does is among these. *)
Theorem reduce_under_lock_is_a_one_state_view : forall (size : nat) (iv t0 : Z) (ig : bool)
    (h : list (Z * Z)) (now : Z) (adds : list (Z * Z)),
  (1 <= size)%nat -> 0 < iv -> rw_mono t0 h -> rw_last_time t0 h <= now ->
  In (rw_reduce (rw_run (rw_new size iv t0 ig) h) now) (one_state_views size iv t0 ig h now adds).
Proof. exact reduce_under_lock_is_a_one_state_view_proof. Qed.
Print Assumptions reduce_under_lock_is_a_one_state_view.

(* non-vacuity: 3 buckets of 10ns created at 100; adds in intervals 0,0,1,3 (the ring
   has wrapped: interval 3 reuses the bucket of interval 0); Reduce at 140 (interval 4)
   sees intervals 2 and 3 only; with ignoreCurrent at 139 (interval 3) only 1 and 2. *)
Definition ex_h : list (Z * Z) := [(100, 1); (105, 2); (110, 3); (139, 4)].
Example ex_window_hyps : rw_mono 100 ex_h /\ rw_last_time 100 ex_h <= 140.
Proof. vm_compute. repeat split; discriminate. Qed.
Example ex_window_140 : rw_reduce (rw_run (rw_new 3 10 100 false) ex_h) 140 = [[]; [4]].
Proof. vm_compute. reflexivity. Qed.
Example ex_window_139_ignore : rw_reduce (rw_run (rw_new 3 10 100 true) ex_h) 139 = [[3]; []].
Proof. vm_compute. reflexivity. Qed.
Example ex_window_119 : rw_reduce (rw_run (rw_new 3 10 100 false) (firstn 3 ex_h)) 119 = [[]; [1; 2]; [3]].
Proof. vm_compute. reflexivity. Qed.

(* ------------------------------------------------------------------ *)
(* SafeMap: for all thresholds and all operation sequences, every Get / Size / Range
   (as a set of pairs) answers as a plain map does - through every generation switch;
   the two generations never hold the same key. *)
Theorem safemap_refines_map : forall cfg ops,
  Forall2 obs_equiv (sm_run cfg sm_new ops) (map_run [] ops).
Proof. exact safemap_refines_map_proof. Qed.
Print Assumptions safemap_refines_map.

Theorem safemap_generations_disjoint : forall cfg ops m,
  m = sm_final cfg sm_new ops -> NoDup (map fst (dirtyOld m ++ dirtyNew m)).
Proof. exact safemap_keys_unique. Qed.
Print Assumptions safemap_generations_disjoint.

(* While deletionOld <= maxDeletion the new generation is empty and its deletion counter is 0:
   writes reach dirtyNew only while deletionOld > maxDeletion ("draining") and the only way
   back, the first migration of Del, empties dirtyNew.  Hence the branch of Set that removes
   the key from dirtyNew before writing dirtyOld is dead code (no history executes it: the
   coverage report lists it as never reached, this is why). *)
Theorem safemap_new_generation_only_while_draining : forall cfg ops,
  let m := sm_final cfg sm_new ops in
  delOld m <= maxDeletion cfg -> dirtyNew m = [] /\ delNew m = 0.
Proof. exact safemap_new_generation_only_while_draining_proof. Qed.
Print Assumptions safemap_new_generation_only_while_draining.

Theorem safemap_set_dead_branch : forall cfg ops k,
  let m := sm_final cfg sm_new ops in
  delOld m <= maxDeletion cfg -> amem k (dirtyNew m) = false.
Proof. exact safemap_set_dead_branch_proof. Qed.
Print Assumptions safemap_set_dead_branch.

(* Range whose callback stops it after n calls was shown n pairs (all of them when the map is
   smaller) of the map, no key twice - whatever the generations look like. *)
Theorem safemap_stopped_range_shows_map_entries : forall cfg ops n,
  let m := sm_final cfg sm_new ops in
  let a := map_final [] ops in
  let vis := firstn n (dirtyOld m ++ dirtyNew m) in
  NoDup (map fst vis) /\ forallb (in_amap a) vis = true /\ length vis = Nat.min n (length a).
Proof. exact range_prefix_allowed_proof. Qed.
Print Assumptions safemap_stopped_range_shows_map_entries.

(* Check.v runs a SafeMap history with its bulk operations in one pass (mcheck); a case it
   accepts shows exactly the visible observations (Range sorted) of the plain map [map_run] of
   safemap_refines_map on the expanded history - prop_ok - resp. of the transcribed model
   [sm_run] - agrees.  So the decidable check is the theorem's reference, not a third thing. *)
Theorem safemap_check_runs_the_reference : forall ct md ops seen,
  (prop_ok (KSafeMap ct md ops seen) = true ->
   visible true (map_run [] (expand ops)) = visible true seen) /\
  (agrees (KSafeMap ct md ops seen) = true ->
   visible true (sm_run (mkSMC ct md) sm_new (expand ops)) = visible true seen).
Proof. exact safemap_check_runs_the_reference_proof. Qed.
Print Assumptions safemap_check_runs_the_reference.

(* non-vacuity: draining state (thresholds 2, 2): key 1 has moved to the new generation *)
Example ex_safemap_draining :
  let m := sm_final (mkSMC 2 2) sm_new
             [MSet 1 10; MSet 2 20; MSet 9 0; MDel 9; MSet 9 0; MDel 9; MSet 9 0; MDel 9; MSet 1 11] in
  m = mkSM 4 0 [(2, 20)] [(1, 11)] /\ (delOld m <=? 2) = false.
Proof. vm_compute. split; reflexivity. Qed.

(* non-vacuity: thresholds (copyThreshold 3, maxDeletion 3); the third deletion
   copies dirtyOld into dirtyNew, swaps the generations and resets the counters *)
Definition ex_sm_ops : list smop :=
  [MSet 1 10; MSet 2 20; MDel 2; MSet 2 21; MDel 2; MSet 2 22; MSet 3 30; MDel 2; MSet 4 40; MGet 1; MGet 2; MSize].
Example ex_safemap_migrated :
  sm_final (mkSMC 3 3) sm_new (firstn 7 ex_sm_ops) = mkSM 2 0 [(3, 30); (2, 22); (1, 10)] [] /\
  sm_final (mkSMC 3 3) sm_new (firstn 8 ex_sm_ops) = mkSM 0 0 [(1, 10); (3, 30)] [] /\
  sm_run (mkSMC 3 3) sm_new ex_sm_ops =
    [OUnit; OUnit; OUnit; OUnit; OUnit; OUnit; OUnit; OUnit; OUnit; OOpt (Some 10); OOpt None; ONum 3].
Proof. vm_compute. repeat split. Qed.

(* ------------------------------------------------------------------ *)
(* Queue: for every initial size >= 1 and every sequence of Put / Take / Empty the
   results are those of a list used as a FIFO - through growth and wrap-around. *)
Theorem queue_is_fifo : forall size ops, (1 <= size)%nat ->
  q_run (q_new size) ops = fifo_run [] ops.
Proof. exact queue_is_fifo_proof. Qed.
Print Assumptions queue_is_fifo.

(* non-vacuity: size 2, the buffer is full while head = tail = 1 (wrapped) and grows *)
Example ex_queue_grows_wrapped :
  let q := fold_left (fun q o => fst (q_step q o)) [QPut 1; QPut 2; QTake; QPut 3] (q_new 2) in
  (qhead q, qtail q, qcount q, qels q) = (1%nat, 1%nat, 2%nat, [3; 2]) /\
  qels (q_put q 4) = [2; 3; 4; 0] /\
  q_run (q_new 2) [QPut 1; QPut 2; QTake; QPut 3; QPut 4; QTake; QTake; QTake; QTake] =
    [OUnit; OUnit; OOpt (Some 1); OUnit; OUnit; OOpt (Some 2); OOpt (Some 3); OOpt (Some 4); OOpt None].
Proof. vm_compute. repeat split. Qed.

(* ------------------------------------------------------------------ *)
(* Ring: for every n >= 1, Take returns the last n added elements (all of them while
   fewer than n were added), oldest first. *)
Theorem ring_keeps_last_n : forall n ops, (1 <= n)%nat ->
  r_run (r_new n) ops = hist_run n [] ops.
Proof. exact ring_keeps_last_n_proof. Qed.
Print Assumptions ring_keeps_last_n.

(* non-vacuity: n = 3, seven adds (the index has been folded back once) *)
Example ex_ring_wrapped :
  r_run (r_new 3) [RAdd 1; RAdd 2; RTake; RAdd 3; RAdd 4; RAdd 5; RAdd 6; RAdd 7; RTake] =
    [OUnit; OUnit; OList [1; 2]; OUnit; OUnit; OUnit; OUnit; OUnit; OList [5; 6; 7]].
Proof. vm_compute. reflexivity. Qed.

(* ------------------------------------------------------------------ *)
(* Set: Contains / Count / Keys answer as the mathematical set in which a key is a
   member iff its last Add/Remove in the history is an Add. *)
Theorem set_is_set : forall ops,
  Forall2 obs_equiv (set_run [] ops) (set_spec_run [] ops).
Proof. exact set_is_set_proof. Qed.
Print Assumptions set_is_set.

Theorem set_members_are_last_added : forall ops,
  NoDup (set_final [] ops) /\
  forall k, In k (set_final [] ops) <-> member_spec ops k false = true.
Proof. exact set_final_inv. Qed.
Print Assumptions set_members_are_last_added.

Example ex_set :
  set_run [] [SAdd 1; SAdd 4294967297; SAdd 1; SRemove 1; SContains 1; SContains 4294967297; SCount; SAdd 1; SKeysOf 0] =
    [OUnit; OUnit; OUnit; OUnit; OBool false; OBool true; ONum 1; OUnit; OList [1]].
Proof. vm_compute. reflexivity. Qed.

(* ------------------------------------------------------------------ *)
(* Cache (limit, LRU, Take; expiry as the event CExpire k). *)

(* Get returns the latest value written for the key (by Set or by a loading Take)
   unless a later Del, Expire or LRU eviction removed it - then it misses. *)
Theorem cache_latest_unless_gone : forall limit ops k,
  snd (fst (c_step (c_final (c_new limit) ops) (CGet k))) =
  OOpt (latest (c_events (c_new limit) ops) k None).
Proof. exact cache_get_returns_latest. Qed.
Print Assumptions cache_latest_unless_gone.

(* never more than `limit` entries (keys are unique, so length counts entries) *)
Theorem cache_never_over_limit : forall limit ops, 0 < limit ->
  let c := c_final (c_new limit) ops in
  NoDup (map fst (cdata c)) /\ Z.of_nat (length (cdata c)) <= limit.
Proof. exact cache_never_over_limit_proof. Qed.
Print Assumptions cache_never_over_limit.

(* the recency-list implementation answers, and evicts, exactly as the reference
   cache that stamps every entry with the time of its last use (Set, Get hit, Take)
   and, when a new key would exceed the limit, removes the entry with the oldest
   stamp - for every limit and every operation sequence *)
Theorem cache_evicts_lru : forall limit ops,
  c_run (c_new limit) ops = s_run (s_new limit) ops /\
  c_evictions (c_new limit) ops = s_evictions (s_new limit) ops.
Proof. exact cache_evicts_lru_proof. Qed.
Print Assumptions cache_evicts_lru.

(* Take consults the loader only on a miss: on a hit the result, the next state and
   the evictions do not depend on what the loader would return *)
Theorem cache_take_loads_only_on_miss : forall limit ops k f,
  let c := c_final (c_new limit) ops in
  match alookup k (cdata c) with
  | Some v => c_step c (CTake k f) = (fst (c_doget c k), OTake (Some v) false, [])
  | None => snd (fst (c_step c (CTake k f))) = OTake f true
  end.
Proof. exact cache_take_loads_only_on_miss_proof. Qed.
Print Assumptions cache_take_loads_only_on_miss.

(* ... when the loader fails on a miss nothing is stored, nothing evicted, the recency order
   untouched: the cache is exactly as it was (the error is not cached) ... *)
Theorem cache_take_failure_stores_nothing : forall limit ops k,
  let c := c_final (c_new limit) ops in
  alookup k (cdata c) = None ->
  c_step c (CTake k None) = (c, OTake None true, []).
Proof. exact cache_take_failure_stores_nothing_proof. Qed.
Print Assumptions cache_take_failure_stores_nothing.

(* ... and a successful load on a miss is a Set of the loaded value *)
Theorem cache_take_miss_is_set : forall limit ops k v,
  let c := c_final (c_new limit) ops in
  alookup k (cdata c) = None ->
  c_step c (CTake k (Some v)) = (fst (c_set c k v), OTake (Some v) true, snd (c_set c k v)).
Proof. exact cache_take_miss_is_set_proof. Qed.
Print Assumptions cache_take_miss_is_set.

(* the recency-list cache and the oldest-stamp reference hold the same keys, in the same
   number, after every prefix of every history (observations CHeld / CSize of Check.v, which
   read c.data without touching the recency order) *)
Theorem cache_holds_reference_keys : forall limit ops,
  cc_run (c_new limit) ops = sc_run (s_new limit) ops.
Proof. exact cache_holds_reference_keys_proof. Qed.
Print Assumptions cache_holds_reference_keys.

(* non-vacuity: limit 1; a failed load of key 2 leaves key 1 where it was *)
Example ex_cache_failed_load :
  cc_run (c_new 1) [CC (CSet 1 10); CC (CTake 2 None); CHeld; CSize; CC (CTake 2 (Some 20)); CHeld] =
    [OUnit; OTake None true; OList [1]; ONum 1; OTake (Some 20) true; OList [2]].
Proof. vm_compute. reflexivity. Qed.

(* non-vacuity: limit 2; Get 1 makes key 2 the least recently used, Set 3 evicts it *)
Definition ex_c_ops : list cop := [CSet 1 10; CSet 2 20; CGet 1; CSet 3 30; CTake 2 (Some 21); CTake 3 None].
Example ex_cache :
  c_run (c_new 2) ex_c_ops =
    [OUnit; OUnit; OOpt (Some 10); OUnit; OTake (Some 21) true; OTake (Some 30) false] /\
  c_evictions (c_new 2) ex_c_ops = [[]; []; []; [2]; [1]; []] /\
  clru (c_final (c_new 2) ex_c_ops) = [3; 2].
Proof. vm_compute. repeat split. Qed.

(* Take is NOT one critical section: doGet ; (in the single flight) doGet again ; fetch() with the
   cache unlocked ; Set.  ModelGate.c_take_held runs it with the operations [inner] of other
   callers taking effect while fetch() is parked.  If none of them addresses k (Set / Get / Del /
   Take / expiry of ANY other keys, any number, in any order, any limit - evictions included),
   every observation and the final state are those of the sequential history "inner, then
   Take k": the value loaded is stored and the next Take of k does not load.  (Executor kind
   take_gate forces this schedule on the real code; prop_ok judges "inner, Take k".) *)
Theorem cache_take_held_is_take_after : forall c k f inner,
  alookup k (cdata c) = None ->
  Forall (fun o => cop_key o <> k) inner ->
  let '(c', r, rs) := c_take_held c k f inner in
  c_run c (inner ++ [CTake k f]) = rs ++ [r] /\ c_final c (inner ++ [CTake k f]) = c'.
Proof. exact take_held_is_take_after_proof. Qed.
Print Assumptions cache_take_held_is_take_after.

(* ... a Take that hits has no loader to hold ... *)
Theorem cache_take_held_hit_is_take_first : forall c k f inner v,
  alookup k (cdata c) = Some v ->
  let '(c', r, rs) := c_take_held c k f inner in
  c_run c (CTake k f :: inner) = r :: rs /\ c_final c (CTake k f :: inner) = c'.
Proof. exact take_held_hit_is_take_first_proof. Qed.
Print Assumptions cache_take_held_hit_is_take_first.

(* ... and, after any prefix from the empty cache, all of it answers as the oldest-stamp
   reference cache does on "prefix, inner, Take k" *)
Theorem cache_take_held_answers_as_reference : forall limit pre k f inner,
  let c := c_final (c_new limit) pre in
  alookup k (cdata c) = None ->
  Forall (fun o => cop_key o <> k) inner ->
  let '(_, r, rs) := c_take_held c k f inner in
  s_run (s_new limit) (pre ++ inner ++ [CTake k f]) = c_run (c_new limit) pre ++ rs ++ [r].
Proof. exact take_held_answers_as_reference_proof. Qed.
Print Assumptions cache_take_held_answers_as_reference.

(* ... and with the cache's timing wheel in the picture (ModelW: cache + C12's wheel), for every
   limit, wheel size, interval, expiry d: the operations run while the loader of k is parked may
   include TICKS - other entries expire, the wheel's callbacks delete them - and still every
   observation and the final state, k's timer included (armed when the loader returns), are
   those of "inner, then Take k" *)
Theorem cachew_take_held_is_take_after : forall s k f d inner,
  alookup k (cdata (cwc s)) = None ->
  Forall (xop_avoids k) inner ->
  let '(s', r, rs) := cw_take_held s k f d inner in
  cw_run s (inner ++ [XTake k f d]) = rs ++ [r] /\ cw_final s (inner ++ [XTake k f d]) = s'.
Proof. exact cw_take_held_is_take_after_proof. Qed.
Print Assumptions cachew_take_held_is_take_after.

(* non-vacuity: key 257 (one tick to live) expires while the loader of key 1 is parked; key 1 is
   stored afterwards and lives its own 2 ticks *)
Example ex_cachew_take_held :
  let s := cw_final (cw_new 0 300 1000 false) [XSet 257 7 1500] in
  let inner := [XTick; XGet 257] in
  alookup 1 (cdata (cwc s)) = None /\ Forall (xop_avoids 1) inner /\
  snd (cw_take_held s 1 (Some 10) 2500 inner) = [OUnit; OOpt None] /\
  cw_run (fst (fst (cw_take_held s 1 (Some 10) 2500 inner))) [XGet 1; XTick; XGet 1; XTick; XGet 1] =
    [OOpt (Some 10); OUnit; OOpt (Some 10); OUnit; OOpt None].
Proof. vm_compute. repeat split; repeat constructor; discriminate. Qed.

(* non-vacuity: limit 2, keys 2 and 3 held; Take 1 parked in its loader while key 257 is written
   (evicting 2) and deleted again and 3 is read; then 1 is stored: held = {1, 3}, no reload *)
Example ex_take_held :
  let c := c_final (c_new 2) [CSet 2 20; CSet 3 30] in
  let inner := [CSet 257 5; CDel 257; CGet 3] in
  alookup 1 (cdata c) = None /\ Forall (fun o => cop_key o <> 1) inner /\
  snd (c_take_held c 1 (Some 10) inner) = [OUnit; OUnit; OOpt (Some 30)] /\
  snd (fst (c_take_held c 1 (Some 10) inner)) = OTake (Some 10) true /\
  cc_run (fst (fst (c_take_held c 1 (Some 10) inner))) [CHeld; CC (CTake 1 (Some 99))] =
    [OList [1; 3]; OTake (Some 10) false].
Proof. vm_compute. repeat split; repeat constructor; discriminate. Qed.

(* Goroutines that use DISJOINT keys of one map cannot influence each other's answers: in every
   interleaving (operations tagged with their goroutine, in the order they took effect; keyed
   operations only) what the operations of one goroutine return is what they return when it runs
   alone from the same state.  The sequential history "script 1, script 2, ..." is one such
   interleaving: this is why the kind stress (3-4 goroutines on their own keys, run under the race
   detector) is judged against that history. *)
Theorem map_disjoint_keys_independent : forall (T : Type) (mine : T -> bool) (ops : list (T * smop)) (m : amap),
  (forall p, In p ops -> mkey (snd p) <> None) ->
  (forall k, ProofsStress.uses T mine true k ops -> ~ ProofsStress.uses T mine false k ops) ->
  ProofsStress.own_obs T mine (map_run_tagged m ops) = map_run m (ProofsStress.own T mine ops).
Proof. exact disjoint_keys_independent_proof. Qed.
Print Assumptions map_disjoint_keys_independent.

(* non-vacuity: goroutine 1 on key 1, goroutine 2 on key 2, interleaved *)
Example ex_disjoint_keys :
  let ops := [(1, MSet 1 10); (2, MSet 2 20); (2, MDel 2); (1, MGet 1); (2, MGet 2); (1, MDel 1); (1, MGet 1)] in
  ProofsStress.own_obs Z (Z.eqb 1) (map_run_tagged [] ops) = [OUnit; OOpt (Some 10); OUnit; OOpt None] /\
  map_run [] (ProofsStress.own Z (Z.eqb 1) ops) = [OUnit; OOpt (Some 10); OUnit; OOpt None].
Proof. vm_compute. split; reflexivity. Qed.

(* ------------------------------------------------------------------ *)
(* The sequential order in which tools/props/c16.py hands a "stress" history (several
   goroutines on ONE object) to the judgements above is justified for every object it is used
   for.  An execution is an interleaving: operations tagged with their goroutine, in the order
   they took effect.  [separated ... mine K ops]: the goroutine [mine] addresses only keys in K,
   everybody else none of them; [own] = its script, [own_obs] = what its operations returned. *)

(* Cache without a limit: inside ANY interleaving with goroutines on other keys a goroutine's
   operations (Set / Get / Del / Take / expiry) return what they return when it runs alone, and
   its keys end as they end alone ... *)
Theorem cache_disjoint_keys_independent :
  forall (T : Type) (mine : T -> bool) (K : Z -> Prop) (ops : list (T * cop)) (c : cache),
  climit c <= 0 -> separated cop T cop_key mine K ops ->
  own_obs T mine (grun_tagged cache cop T cstep c ops) = c_run c (own cop T mine ops) /\
  (forall k, K k -> alookup k (cdata (c_final c (map snd ops))) = alookup k (cdata (c_final c (own cop T mine ops)))).
Proof. exact cache_disjoint_keys_independent_proof. Qed.
Print Assumptions cache_disjoint_keys_independent.

(* ... hence any two interleavings of the same scripts (the real one and "script 1, script 2,
   ...") agree on every goroutine's answers and on what is held under its keys at the end *)
Theorem cache_disjoint_ops_commute :
  forall (T : Type) (mine : T -> bool) (K : Z -> Prop) (ops1 ops2 : list (T * cop)) (c : cache),
  climit c <= 0 ->
  separated cop T cop_key mine K ops1 -> separated cop T cop_key mine K ops2 ->
  own cop T mine ops1 = own cop T mine ops2 ->
  own_obs T mine (grun_tagged cache cop T cstep c ops1) = own_obs T mine (grun_tagged cache cop T cstep c ops2) /\
  (forall k, K k -> alookup k (cdata (c_final c (map snd ops1))) = alookup k (cdata (c_final c (map snd ops2)))).
Proof. exact cache_disjoint_ops_commute_proof. Qed.
Print Assumptions cache_disjoint_ops_commute.

(* the same for the map reference of SafeMap (Set / Get / Del), with the final contents *)
Theorem map_disjoint_ops_commute :
  forall (T : Type) (mine : T -> bool) (K : Z -> Prop) (ops1 ops2 : list (T * kmop)) (m : amap),
  separated kmop T kmop_key mine K ops1 -> separated kmop T kmop_key mine K ops2 ->
  own kmop T mine ops1 = own kmop T mine ops2 ->
  own_obs T mine (grun_tagged amap kmop T mstep m ops1) = own_obs T mine (grun_tagged amap kmop T mstep m ops2) /\
  own_obs T mine (grun_tagged amap kmop T mstep m ops1) = map_run m (map kmop_op (own kmop T mine ops1)) /\
  (forall k, K k -> alookup k (gfin amap kmop mstep m (map snd ops1)) = alookup k (gfin amap kmop mstep m (map snd ops2))).
Proof. exact map_disjoint_ops_commute_proof. Qed.
Print Assumptions map_disjoint_ops_commute.

(* and for Set (Add / Remove / Contains) - for completeness: collection.Set is documented as not
   thread-safe and the check never uses it from several goroutines *)
Theorem set_disjoint_ops_commute :
  forall (T : Type) (mine : T -> bool) (K : Z -> Prop) (ops1 ops2 : list (T * ksop)) (s : list Z),
  separated ksop T ksop_key mine K ops1 -> separated ksop T ksop_key mine K ops2 ->
  own ksop T mine ops1 = own ksop T mine ops2 ->
  own_obs T mine (grun_tagged (list Z) ksop T sstep s ops1) = own_obs T mine (grun_tagged (list Z) ksop T sstep s ops2) /\
  (forall k, K k -> smem k (gfin (list Z) ksop sstep s (map snd ops1)) = smem k (gfin (list Z) ksop sstep s (map snd ops2))).
Proof. exact set_disjoint_ops_commute_proof. Qed.
Print Assumptions set_disjoint_ops_commute.

(* RollingWindow, Sum / Count buckets (collection.Bucket): what Reduce hands out - per bucket the
   sum and the number of values - is the same for every ORDER of the Adds: any permutation of the
   history with non-decreasing times and the same last time ... *)
Theorem window_adds_commute : forall (size : nat) (iv t0 : Z) (ig : bool) (h1 h2 : list (Z * Z)) (now : Z),
  (1 <= size)%nat -> 0 < iv -> Permutation h1 h2 ->
  rw_mono t0 h1 -> rw_mono t0 h2 -> rw_last_time t0 h1 = rw_last_time t0 h2 -> rw_last_time t0 h1 <= now ->
  map bsum (rw_reduce (rw_run (rw_new size iv t0 ig) h1) now) =
  map bsum (rw_reduce (rw_run (rw_new size iv t0 ig) h2) now).
Proof. exact window_adds_commute_proof. Qed.
Print Assumptions window_adds_commute.

(* ... in particular the Adds of several goroutines at one instant (the kind stress) *)
Theorem window_instant_adds_commute : forall (size : nat) (iv t0 : Z) (ig : bool) (t : Z) (vs1 vs2 : list Z) (now : Z),
  (1 <= size)%nat -> 0 < iv -> t0 <= t -> t <= now -> Permutation vs1 vs2 ->
  map bsum (rw_reduce (rw_run (rw_new size iv t0 ig) (map (fun v => (t, v)) vs1)) now) =
  map bsum (rw_reduce (rw_run (rw_new size iv t0 ig) (map (fun v => (t, v)) vs2)) now).
Proof. exact window_instant_adds_commute_proof. Qed.
Print Assumptions window_instant_adds_commute.

(* Queue / Ring: every goroutine puts the SAME value, so all interleavings are one and the same
   operation sequence, whatever follows *)
Theorem equal_ops_one_sequence : forall (A : Type) (o : A) (l1 l2 : list A),
  Permutation l1 l2 -> (forall x, In x l1 -> x = o) -> l1 = l2.
Proof. exact equal_ops_one_sequence_proof. Qed.
Print Assumptions equal_ops_one_sequence.

Theorem queue_equal_puts_commute : forall size v (l1 l2 post : list qop),
  Permutation l1 l2 -> (forall o, In o l1 -> o = QPut v) ->
  q_run (q_new size) (l1 ++ post) = q_run (q_new size) (l2 ++ post).
Proof. exact queue_equal_puts_commute_proof. Qed.
Print Assumptions queue_equal_puts_commute.

Theorem ring_equal_adds_commute : forall n v (l1 l2 post : list rop),
  Permutation l1 l2 -> (forall o, In o l1 -> o = RAdd v) ->
  r_run (r_new n) (l1 ++ post) = r_run (r_new n) (l2 ++ post).
Proof. exact ring_equal_adds_commute_proof. Qed.
Print Assumptions ring_equal_adds_commute.

(* non-vacuity: two goroutines (1 on key 1, 2 on key 2) of an unlimited cache, two interleavings *)
Example ex_cache_disjoint :
  let a := [(1, CSet 1 10); (2, CTake 2 (Some 20)); (1, CGet 1); (2, CDel 2); (2, CGet 2); (1, CTake 1 (Some 11))] in
  let b := [(1, CSet 1 10); (1, CGet 1); (1, CTake 1 (Some 11)); (2, CTake 2 (Some 20)); (2, CDel 2); (2, CGet 2)] in
  own cop Z (Z.eqb 1) a = own cop Z (Z.eqb 1) b /\
  own_obs Z (Z.eqb 1) (grun_tagged cache cop Z cstep (c_new 0) a) = [OUnit; OOpt (Some 10); OTake (Some 10) false] /\
  own_obs Z (Z.eqb 1) (grun_tagged cache cop Z cstep (c_new 0) b) = [OUnit; OOpt (Some 10); OTake (Some 10) false].
Proof. vm_compute. repeat split. Qed.

(* non-vacuity: three Adds at one instant in two orders, size 2 *)
Example ex_window_commute :
  map bsum (rw_reduce (rw_run (rw_new 2 1000 0 false) [(5, 1); (5, 2); (5, 4)]) 5) = [(0, 0); (7, 3)] /\
  map bsum (rw_reduce (rw_run (rw_new 2 1000 0 false) [(5, 4); (5, 1); (5, 2)]) 5) = [(0, 0); (7, 3)].
Proof. vm_compute. split; reflexivity. Qed.

(* ------------------------------------------------------------------ *)
(* Cache composed with C12's timing wheel (C16/ModelW.v): expiry is the wheel's own
   firing, not an oracle event.  n = wheel slots, i = wheel interval, mv = whether a
   rewrite refreshes the timer with MoveTimer (as the code does) or SetTimer. *)

(* An entry written with expiry d >= one interval and not rewritten / deleted / evicted
   afterwards is present, with that value, after every operation sequence containing
   fewer than floor(d / interval) ticks, and absent from the floor(d / interval)-th tick
   on - whatever happened before (in particular whether the Set was a rewrite of a live
   entry with another expiry), wherever the wheel stands, for every wheel size, limit
   and interleaving of operations on other keys. *)
Theorem cache_entry_expires_at_due_tick : forall limit n i mv pre k v d a,
  1 <= n -> 1 <= i -> i <= d ->
  let s1 := cw_final (cw_new limit n i mv) (pre ++ [XSet k v d]) in
  forallb (fun o => negb (xwrites k o)) a = true ->
  cw_never_evicts s1 k a ->
  alookup k (cdata (cwc (cw_final s1 a))) = if xticks a <? d / i then Some v else None.
Proof. exact cache_entry_expires_at_due_tick_proof. Qed.
Print Assumptions cache_entry_expires_at_due_tick.

(* ... and it is the wheel's firing at that very tick that removes it *)
Theorem cache_expiry_fires_at_due_tick : forall limit n i mv pre k v d a,
  1 <= n -> 1 <= i -> i <= d ->
  let s1 := cw_final (cw_new limit n i mv) (pre ++ [XSet k v d]) in
  forallb (fun o => negb (xwrites k o)) a = true ->
  cw_never_evicts s1 k a ->
  xticks a + 1 = d / i ->
  In k (snd (cw_step (cw_final s1 a) XTick)).
Proof. exact cache_expiry_event_at_due_tick_proof. Qed.
Print Assumptions cache_expiry_fires_at_due_tick.

(* rewriting a live entry restarts its life: the earlier expiry d0 and the ticks already
   consumed play no role *)
Theorem cache_rewrite_resets_expiry : forall limit n i mv pre k v0 d0 mid v d a,
  1 <= n -> 1 <= i -> i <= d ->
  let s0 := cw_final (cw_new limit n i mv) (pre ++ XSet k v0 d0 :: mid) in
  amem k (cdata (cwc s0)) = true ->
  let s1 := cw_final s0 [XSet k v d] in
  forallb (fun o => negb (xwrites k o)) a = true ->
  cw_never_evicts s1 k a ->
  alookup k (cdata (cwc (cw_final s1 a))) = if xticks a <? d / i then Some v else None.
Proof. exact cache_rewrite_resets_expiry_proof. Qed.
Print Assumptions cache_rewrite_resets_expiry.

(* The code as repaired (9733d1f: a rewrite refreshes the timer with SetTimer, mv = false)
   for EVERY expiry d the wheel accepts, also below one wheel interval: the entry lives for
   floor(max d interval / interval) >= 1 ticks from its latest Set - a rewrite never
   makes the entry vanish before it expired (with MoveTimer a rewrite with d < interval
   removed it at once: Pinned.cache_subinterval_rewrite_refuted).
   0 < d: TimingWheel.SetTimer refuses a delay <= 0 (ErrArgument, ignored by SetWithExpire), so
   with a non-positive expiry the value is stored and the key's timer - none for a new key, the
   previous one for a rewrite - is left as it is (modelled by Check.cwx_step and compared with
   the code; outside the property, which speaks of entries that expire). *)
Theorem cache_entry_expires_clamped : forall limit n i pre k v d a,
  1 <= n -> 1 <= i -> 0 < d ->
  let s1 := cw_final (cw_new limit n i false) (pre ++ [XSet k v d]) in
  forallb (fun o => negb (xwrites k o)) a = true ->
  cw_never_evicts s1 k a ->
  alookup k (cdata (cwc (cw_final s1 a))) = if xticks a <? Z.max d i / i then Some v else None.
Proof. exact cache_entry_expires_clamped_pos. Qed.
Print Assumptions cache_entry_expires_clamped.

Theorem cache_rewrite_resets_expiry_clamped : forall limit n i pre k v0 d0 mid v d a,
  1 <= n -> 1 <= i -> 0 < d ->
  let s0 := cw_final (cw_new limit n i false) (pre ++ XSet k v0 d0 :: mid) in
  amem k (cdata (cwc s0)) = true ->
  let s1 := cw_final s0 [XSet k v d] in
  forallb (fun o => negb (xwrites k o)) a = true ->
  cw_never_evicts s1 k a ->
  alookup k (cdata (cwc (cw_final s1 a))) = if xticks a <? Z.max d i / i then Some v else None.
Proof. exact cache_rewrite_clamped_pos. Qed.
Print Assumptions cache_rewrite_resets_expiry_clamped.

Theorem cache_rewrite_survives_until_tick : forall limit n i pre k v0 d0 mid v d a,
  1 <= n -> 1 <= i -> 0 < d ->
  let s0 := cw_final (cw_new limit n i false) (pre ++ XSet k v0 d0 :: mid) in
  amem k (cdata (cwc s0)) = true ->
  let s1 := cw_final s0 [XSet k v d] in
  forallb (fun o => negb (xwrites k o)) a = true ->
  cw_never_evicts s1 k a ->
  xticks a = 0 ->
  alookup k (cdata (cwc (cw_final s1 a))) = Some v.
Proof. exact cache_rewrite_survives_until_tick_pos. Qed.
Print Assumptions cache_rewrite_survives_until_tick.

(* non-vacuity: key 1 live, rewritten with half an interval, read back before the tick *)
Example ex_cachew_sub :
  cw_run (cw_new 2 300 1000 false) [XSet 1 10 1500; XSet 1 11 500; XGet 1; XTick; XGet 1] =
    [OUnit; OUnit; OOpt (Some 11); OUnit; OOpt None].
Proof. vm_compute. reflexivity. Qed.

(* the composed model is the event-based cache model of the theorems above, run on the
   same history with an Expire k event exactly where the wheel fired k: same answers,
   same final cache state *)
Theorem cachew_refines_event_cache : forall ops s,
  cw_run_noticks s ops = c_run_visible (cwc s) (cw_trace s ops) /\
  cwc (cw_final s ops) = c_final (cwc s) (cw_trace s ops).
Proof. exact cachew_refines_event_cache_proof. Qed.
Print Assumptions cachew_refines_event_cache.

(* non-vacuity: limit 2, 300 slots of 1000; key 1 is live (set with 1500, one tick gone)
   and rewritten with 3500; operations on key 2 and Gets in between *)
Definition ex_w_pre : list xop := [XSet 1 10 1500; XSet 2 5 2500; XTick].
Definition ex_w_a : list xop := [XGet 1; XTick; XSet 2 20 3500; XTick; XGet 1].
Example ex_cachew_hyps :
  let s1 := cw_final (cw_new 2 300 1000 true) (ex_w_pre ++ [XSet 1 11 3500]) in
  forallb (fun o => negb (xwrites 1 o)) ex_w_a = true /\ cw_never_evicts s1 1 ex_w_a /\
  forallb (fun o => negb (xwrites 1 o)) (ex_w_a ++ [XTick]) = true /\ cw_never_evicts s1 1 (ex_w_a ++ [XTick]).
Proof. vm_compute. repeat split; tauto. Qed.
Example ex_cachew_run :
  cw_run (cw_new 2 300 1000 true) (ex_w_pre ++ [XSet 1 11 3500] ++ ex_w_a ++ [XTick; XGet 1; XGet 2]) =
    [OUnit; OUnit; OUnit; OUnit; OOpt (Some 11); OUnit; OUnit; OUnit; OOpt (Some 11); OUnit; OOpt None; OOpt (Some 20)].
Proof. vm_compute. reflexivity. Qed.

(* The composed model (cache + C12 wheel, rewrites through SetTimer as the code does since
   9733d1f) answers every history of positive expiries exactly as the reference that
   Check.prop_ok holds the implementation to: the oldest-stamp LRU cache of cache_evicts_lru
   plus, per key, the number of ticks it has left - floor(max d interval / interval) from its
   latest Set or loading Take, one less at every tick, removed at 0, on Del and on eviction.
   Same Get / Take results, same key sets (XHeld), same sizes (XSize), at every step: expiry,
   LRU order and limit together, for all limits, wheel sizes, intervals and histories. *)
Theorem cachew_refines_stamp_reference : forall limit n i ops, 1 <= n -> 1 <= i ->
  forallb xx_in_scope ops = true ->
  cwx_run (cw_new limit n i false) [] ops = refwx_run i (mkRefW (s_new limit) []) ops.
Proof. exact cachew_refines_stamp_reference_proof. Qed.
Print Assumptions cachew_refines_stamp_reference.

(* non-vacuity: limit 1; key 2 evicts key 1 (whose timer goes with it), lives 2 ticks, a rewrite
   with a sub-interval expiry leaves it one more tick *)
Example ex_refw :
  let ops := [XX (XSet 1 10 3500); XX (XSet 2 20 2500); XHeld; XX XTick; XX (XSet 2 21 500); XX (XGet 2);
              XX XTick; XHeld; XSize] in
  forallb xx_in_scope ops = true /\
  refwx_run 1000 (mkRefW (s_new 1) []) ops =
    [OUnit; OUnit; OList [2]; OUnit; OUnit; OOpt (Some 21); OUnit; OList []; ONum 0].
Proof. vm_compute. split; reflexivity. Qed.

(* Expiry callbacks that run later than their tick (the wheel starts them on a goroutine of
   their own after removing the fired timers; Check.XTickHold / XRelease, forced by a gate in
   front of the callback).  For every history in which each held tick is released before the
   next operation, holding changes nothing - the run is the run with plain ticks - and the
   composed model answers as the reference.  With a write of the fired key between the tick and
   its callback the two differ: Pinned.cache_stale_expiry_callback_refuted (a finding). *)
Theorem held_ticks_released_at_once_are_ticks : forall ops s, immediate ops = true ->
  cwx_run s [] ops = cwx_run s [] (collapse ops).
Proof. exact held_ticks_released_at_once_are_ticks_proof. Qed.
Print Assumptions held_ticks_released_at_once_are_ticks.

Theorem cachew_with_prompt_callbacks_refines_reference : forall limit n i ops, 1 <= n -> 1 <= i ->
  immediate ops = true -> forallb xx_in_scope_held ops = true ->
  cwx_run (cw_new limit n i false) [] ops = refwx_run i (mkRefW (s_new limit) []) ops.
Proof. exact cachew_with_prompt_callbacks_refines_reference_proof. Qed.
Print Assumptions cachew_with_prompt_callbacks_refines_reference.

Example ex_held_tick :
  let ops := [XX (XSet 1 10 1500); XTickHold; XRelease; XX (XGet 1); XX (XSet 1 11 1500); XX (XGet 1)] in
  immediate ops = true /\ forallb xx_in_scope_held ops = true /\
  cwx_run (cw_new 0 300 1000 false) [] ops = [OUnit; OUnit; OUnit; OOpt None; OUnit; OOpt (Some 11)].
Proof. vm_compute. repeat split. Qed.

(* ------------------------------------------------------------------ *)
(* Concurrent use (Lin.v).  The theorems above are about sequences of operations; the
   collections serialise concurrent callers with a mutex, so a concurrent history must be
   explainable as SOME sequence consistent with real time.  The search that decides this for
   the histories observed on the implementation is exact: it answers true iff the events can
   be ordered so that (1) no event is placed before one that had returned before it was called
   and (2) the order is a run of the sequential step function with the observed results -
   for every step function (each structure's reference model), state and finite set of events. *)
Theorem linearisation_search_is_exact : forall (St Op : Type) (step : St -> Op -> St * obs) (canon : bool)
    (st : St) (evs : list (lev Op)),
  linearisable_b step canon st evs = true <-> linearisable step canon st evs.
Proof. exact (@linearisable_b_correct). Qed.
Print Assumptions linearisation_search_is_exact.

(* non-vacuity: Put 1 and Take overlap, then Take (after both): the first Take saw the element,
   so it is ordered after the Put; with the Take BEFORE the Put in real time there is no order *)
Example ex_lin_queue :
  linearisable_b fifo_step false [] [mkLev 1 4 (QPut 1) OUnit; mkLev 2 3 QTake (OOpt (Some 1)); mkLev 5 6 QTake (OOpt None)] = true /\
  linearisable_b fifo_step false [] [mkLev 3 4 (QPut 1) OUnit; mkLev 1 2 QTake (OOpt (Some 1))] = false.
Proof. vm_compute. split; reflexivity. Qed.
