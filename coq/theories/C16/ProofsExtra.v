(* C16 - further facts: SafeMap's dead branch, what a failed load leaves behind, the
   cache theorems with the non-perturbing observations of Check.v, and the expiry
   theorems restricted to the expiries the wheel accepts (positive ones). *)
From Coq Require Import List ZArith Bool Lia Permutation.
From GZ Require Import C16.Model C16.ProofsMap C16.ProofsCache C16.ProofsCacheLru.
From GZ Require Import C16.ModelW C16.ProofsW C16.ProofsWClamp C16.Check.
From GZ Require Import Lib.RollingWindowProofs.
Import ListNotations.
Open Scope Z_scope.

(* ------------------------------------------------------------------ *)
(* SafeMap: while deletionOld <= maxDeletion nothing lives in dirtyNew and deletionNew = 0.
   Hence the branch of Set that deletes the key from dirtyNew before writing dirtyOld
   (safemap.go, "if _, ok := m.dirtyNew[key]; ok { delete(m.dirtyNew, key); m.deletionNew++ }")
   is never taken: writes reach dirtyNew only while deletionOld > maxDeletion, and the only
   way back (the first migration of Del) empties dirtyNew. *)
Definition calm (cfg : smcfg) (m : safemap) : Prop :=
  delOld m <= maxDeletion cfg -> dirtyNew m = [] /\ delNew m = 0.

Lemma calm_new : forall cfg, calm cfg sm_new.
Proof. intros cfg _. split; reflexivity. Qed.

Lemma acopy_nil : forall d, acopy [] d = d.
Proof. reflexivity. Qed.

Lemma calm_set : forall cfg m k v, calm cfg m -> calm cfg (sm_set cfg m k v).
Proof.
  intros cfg m k v H. unfold calm, sm_set in *.
  destruct (delOld m <=? maxDeletion cfg) eqn:E.
  - apply Z.leb_le in E. destruct (H E) as [Hn Hd]. rewrite Hn. simpl. intros _. rewrite Hn, Hd. split; reflexivity.
  - apply Z.leb_gt in E. destruct (amem k (dirtyOld m)); simpl; intros; lia.
Qed.

Lemma calm_del : forall cfg m k, calm cfg m -> calm cfg (sm_del cfg m k).
Proof.
  intros cfg m k H. rewrite sm_del_eq.
  assert (H1 : calm cfg (del1 m k)).
  { unfold calm, del1 in *. destruct (amem k (dirtyOld m)) eqn:Eo; simpl.
    - intros Hle. apply H. lia.
    - destruct (amem k (dirtyNew m)) eqn:En; simpl.
      + intros Hle. destruct (H Hle) as [Hn _]. rewrite Hn in En. discriminate.
      + exact H. }
  assert (H2 : calm cfg (mig1 cfg (del1 m k))).
  { unfold calm, mig1 in *.
    destruct ((maxDeletion cfg <=? delOld (del1 m k)) && (alen (dirtyOld (del1 m k)) <? copyThreshold cfg)); simpl.
    - intros _. split; reflexivity.
    - exact H1. }
  unfold calm, mig2 in *.
  destruct ((maxDeletion cfg <=? delNew (mig1 cfg (del1 m k))) &&
            (alen (dirtyNew (mig1 cfg (del1 m k))) <? copyThreshold cfg)); simpl.
  - intros _. split; reflexivity.
  - exact H2.
Qed.

Lemma calm_final : forall cfg ops m, calm cfg m -> calm cfg (sm_final cfg m ops).
Proof.
  intros cfg ops. induction ops as [|o ops IH]; intros m H; [exact H|].
  cbn [sm_final]. apply IH. destruct o; simpl; try exact H.
  - apply calm_set. exact H.
  - apply calm_del. exact H.
Qed.

Theorem safemap_new_generation_only_while_draining_proof : forall cfg ops,
  let m := sm_final cfg sm_new ops in
  delOld m <= maxDeletion cfg -> dirtyNew m = [] /\ delNew m = 0.
Proof. intros cfg ops. apply calm_final. apply calm_new. Qed.

(* so Set, in the state reached by any history, never takes that branch *)
Theorem safemap_set_dead_branch_proof : forall cfg ops k,
  let m := sm_final cfg sm_new ops in
  delOld m <= maxDeletion cfg -> amem k (dirtyNew m) = false.
Proof.
  intros cfg ops k m H. destruct (safemap_new_generation_only_while_draining_proof cfg ops H) as [Hn _].
  fold m in Hn. rewrite Hn. reflexivity.
Qed.

(* what a stopped Range may be shown (any prefix of the model's iteration) is allowed by
   the reference map: distinct keys, each pair in the map *)
Lemma in_amap_true : forall m p, NoDup (map fst m) -> In p m -> in_amap m p = true.
Proof.
  intros m [k v] Hnd Hin. unfold in_amap. simpl. rewrite (alookup_in_nodup k v m Hnd Hin).
  simpl. apply Z.eqb_refl.
Qed.

Lemma nodup_z_true : forall l, NoDup l -> nodup_z l = true.
Proof.
  intros l H. induction H as [|x l Hx Hnd IH]; [reflexivity|]. simpl. rewrite IH, andb_true_r.
  apply negb_true_iff. destruct (existsb (Z.eqb x) l) eqn:E; [|reflexivity].
  apply existsb_exists in E. destruct E as (y & Hy & Hxy). apply Z.eqb_eq in Hxy. subst y. contradiction.
Qed.

Lemma In_firstn_in : forall (A : Type) n (l : list A) x, In x (firstn n l) -> In x l.
Proof.
  intros A n. induction n as [|n IH]; intros l x H; [contradiction|].
  destruct l as [|y l]; [contradiction|]. simpl in H. destruct H as [H|H]; [left; exact H|right; apply IH; exact H].
Qed.

Lemma NoDup_firstn : forall (A : Type) n (l : list A), NoDup l -> NoDup (firstn n l).
Proof.
  intros A n. induction n as [|n IH]; intros l H; [constructor|].
  destruct l as [|x l]; [constructor|]. simpl. inversion H; subst. constructor.
  - intros Hin. apply H2. eapply In_firstn_in. exact Hin. 
  - apply IH. assumption.
Qed.

Theorem range_prefix_allowed_proof : forall cfg ops n,
  let m := sm_final cfg sm_new ops in
  let a := map_final [] ops in
  let vis := firstn n (dirtyOld m ++ dirtyNew m) in
  NoDup (map fst vis) /\ forallb (in_amap a) vis = true /\
  (length vis = Nat.min n (length a)).
Proof.
  intros cfg ops n m a vis.
  destruct (sm_final_R cfg ops sm_new [] ProofsMap.R_new) as [Hnd Hperm]. fold m a in Hnd, Hperm. unfold cat in *.
  assert (Hnda : NoDup (map fst a)).
  { eapply Permutation_NoDup; [apply Permutation_map; exact Hperm|exact Hnd]. }
  split; [|split].
  - unfold vis. rewrite <- firstn_map. apply NoDup_firstn. exact Hnd.
  - apply forallb_forall. intros p Hp. apply in_amap_true; [exact Hnda|].
    eapply Permutation_in; [exact Hperm|]. eapply In_firstn_in. exact Hp.
  - unfold vis. rewrite firstn_length. rewrite (Permutation_length Hperm). reflexivity.
Qed.

(* ------------------------------------------------------------------ *)
(* Cache.Take whose loader fails on a miss: nothing is stored, nothing is evicted, the
   recency order is untouched - the cache is exactly as before. *)
Theorem cache_take_failure_stores_nothing_proof : forall limit ops k,
  let c := c_final (c_new limit) ops in
  alookup k (cdata c) = None ->
  c_step c (CTake k None) = (c, OTake None true, []).
Proof.
  intros limit ops k c H. cbn [c_step]. rewrite (c_doget_miss c k H). reflexivity.
Qed.

(* a successful load on a miss is a Set of the loaded value *)
Theorem cache_take_miss_is_set_proof : forall limit ops k v,
  let c := c_final (c_new limit) ops in
  alookup k (cdata c) = None ->
  c_step c (CTake k (Some v)) = (fst (c_set c k v), OTake (Some v) true, snd (c_set c k v)).
Proof.
  intros limit ops k v c H. cbn [c_step]. rewrite (c_doget_miss c k H).
  destruct (c_set c k v). reflexivity.
Qed.

(* ------------------------------------------------------------------ *)
(* the recency-list cache and the oldest-stamp reference hold the same keys, in the same
   number, at every point of every history: what Check.prop_ok compares the observed key
   sets and sizes with *)
Lemma ccsc_run : forall ops c s, R c s -> cc_run c ops = sc_run s ops.
Proof.
  intros ops. induction ops as [|o ops IH]; intros c s HR; [reflexivity|].
  destruct o as [o| | |k v].
  - cbn [cc_run sc_run]. destruct (sim_step c s o HR) as (s' & Hs & HR'). rewrite Hs.
    destruct (c_step c o) as [[c' r] ev]. simpl in *. rewrite (IH c' s' HR'). reflexivity.
  - cbn [cc_run sc_run]. pose proof HR as HR0. destruct HR as (Hl & Hd & HR).
    rewrite Hd, keys_proj. f_equal. apply IH. exact HR0.
  - cbn [cc_run sc_run]. pose proof HR as HR0. destruct HR as (Hl & Hd & HR).
    unfold alen. rewrite Hd, map_length. f_equal. apply IH. exact HR0.
  - cbn [cc_run sc_run]. destruct (sim_step c s (CTake k None) HR) as (s' & Hs & HR'). rewrite Hs.
    destruct (c_step c (CTake k None)) as [[c' r] ev]. simpl in *. rewrite (IH c' s' HR'). reflexivity.
Qed.

Theorem cache_holds_reference_keys_proof : forall limit ops,
  cc_run (c_new limit) ops = sc_run (s_new limit) ops.
Proof. intros limit ops. apply ccsc_run. apply R_new. Qed.

(* ------------------------------------------------------------------ *)
(* expiry theorems for the expiries the wheel accepts.  TimingWheel.SetTimer refuses a
   delay <= 0 (ErrArgument, ignored by SetWithExpire), so ModelW.cw_set describes the code
   for positive expiries only; Check.cwx_step has the other case. *)
Theorem cache_entry_expires_clamped_pos : forall limit n i pre k v d a,
  1 <= n -> 1 <= i -> 0 < d ->
  let s1 := cw_final (cw_new limit n i false) (pre ++ [XSet k v d]) in
  forallb (fun o => negb (xwrites k o)) a = true ->
  cw_never_evicts s1 k a ->
  alookup k (cdata (cwc (cw_final s1 a))) = if xticks a <? Z.max d i / i then Some v else None.
Proof. intros limit n i pre k v d a Hn Hi _. apply cache_entry_expires_clamped_proof; assumption. Qed.

Theorem cache_rewrite_clamped_pos : forall limit n i pre k v0 d0 mid v d a,
  1 <= n -> 1 <= i -> 0 < d ->
  let s0 := cw_final (cw_new limit n i false) (pre ++ XSet k v0 d0 :: mid) in
  amem k (cdata (cwc s0)) = true ->
  let s1 := cw_final s0 [XSet k v d] in
  forallb (fun o => negb (xwrites k o)) a = true ->
  cw_never_evicts s1 k a ->
  alookup k (cdata (cwc (cw_final s1 a))) = if xticks a <? Z.max d i / i then Some v else None.
Proof. intros limit n i pre k v0 d0 mid v d a Hn Hi _. apply cache_rewrite_clamped_proof; assumption. Qed.

Theorem cache_rewrite_survives_until_tick_pos : forall limit n i pre k v0 d0 mid v d a,
  1 <= n -> 1 <= i -> 0 < d ->
  let s0 := cw_final (cw_new limit n i false) (pre ++ XSet k v0 d0 :: mid) in
  amem k (cdata (cwc s0)) = true ->
  let s1 := cw_final s0 [XSet k v d] in
  forallb (fun o => negb (xwrites k o)) a = true ->
  cw_never_evicts s1 k a ->
  xticks a = 0 ->
  alookup k (cdata (cwc (cw_final s1 a))) = Some v.
Proof. intros limit n i pre k v0 d0 mid v d a Hn Hi _. apply cache_rewrite_survives_until_tick_proof; assumption. Qed.

(* for positive expiries the step function of Check.v IS ModelW's *)
Lemma cwx_step_pos : forall s o,
  (match o with XSet _ _ d | XTake _ _ d => 0 < d | _ => True end) ->
  cwx_step s o = (fst (fst (cw_step s o)), snd (fst (cw_step s o))).
Proof.
  intros s o H. destruct o as [k v d|k|k|k f d|]; unfold cwx_step.
  - destruct (d <=? 0) eqn:E; [apply Z.leb_le in E; lia|]. destruct (cw_step s (XSet k v d)) as [[s' r] ex]. reflexivity.
  - destruct (cw_step s (XGet k)) as [[s' r] ex]. reflexivity.
  - destruct (cw_step s (XDel k)) as [[s' r] ex]. reflexivity.
  - destruct (d <=? 0) eqn:E; [apply Z.leb_le in E; lia|]. destruct (cw_step s (XTake k f d)) as [[s' r] ex]. reflexivity.
  - destruct (cw_step s XTick) as [[s' r] ex]. reflexivity.
Qed.

(* ------------------------------------------------------------------ *)
(* the one-pass runner of Check.v (bulk operations, stopped Ranges) produces the visible,
   canonical observations of the plain run over the expanded history: Check.prop_ok for a
   SafeMap case compares with [map_run] of the theorem safemap_refines_map, Check.agrees
   with [sm_run] *)
Fixpoint grun {St} (step : St -> smop -> St * obs) (st : St) (ops : list smop) : list obs :=
  match ops with
  | [] => []
  | o :: ops' => let (s', r) := step st o in r :: grun step s' ops'
  end.

Fixpoint gfinal {St} (step : St -> smop -> St * obs) (st : St) (ops : list smop) : St :=
  match ops with
  | [] => st
  | o :: ops' => gfinal step (fst (step st o)) ops'
  end.

Lemma grun_sm : forall cfg ops m, grun (sm_step cfg) m ops = sm_run cfg m ops.
Proof.
  intros cfg ops. induction ops as [|o ops IH]; intros m; [reflexivity|].
  cbn [grun sm_run]. destruct (sm_step cfg m o) as [m' r]. rewrite IH. reflexivity.
Qed.

Lemma grun_map : forall ops a, grun map_step a ops = map_run a ops.
Proof.
  intros ops. induction ops as [|o ops IH]; intros a; [reflexivity|].
  cbn [grun map_run]. destruct (map_step a o) as [a' r]. rewrite IH. reflexivity.
Qed.

Lemma grun_app : forall (St : Type) (step : St -> smop -> St * obs) a b st,
  grun step st (a ++ b) = grun step st a ++ grun step (gfinal step st a) b.
Proof.
  intros St step a. induction a as [|o a IH]; intros b st; [reflexivity|].
  cbn [app grun gfinal]. destruct (step st o) as [s' r]. cbn [fst]. rewrite IH. reflexivity.
Qed.

Lemma gfinal_app : forall (St : Type) (step : St -> smop -> St * obs) a b st,
  gfinal step st (a ++ b) = gfinal step (gfinal step st a) b.
Proof.
  intros St step a. induction a as [|o a IH]; intros b st; [reflexivity|]. cbn [app gfinal]. apply IH.
Qed.

Definition vis (l : list obs) : list obs := map canon_obs (filter nonunit l).

Lemma vis_app : forall a b, vis (a ++ b) = vis a ++ vis b.
Proof. intros a b. unfold vis. rewrite filter_app, map_app. reflexivity. Qed.

Lemma fold_prims : forall (St : Type) (step : St -> smop -> St * obs) prims st acc,
  fold_left (prim_acc step) prims (st, acc) =
  (gfinal step st prims, rev (vis (grun step st prims)) ++ acc).
Proof.
  intros St step prims. induction prims as [|o prims IH]; intros st acc; [reflexivity|].
  cbn [fold_left grun gfinal]. unfold prim_acc at 2. cbn [fst snd].
  destruct (step st o) as [s' r]. cbn [fst]. rewrite IH. f_equal.
  unfold vis. cbn [filter]. destruct (nonunit r); cbn [map rev]; [rewrite <- app_assoc|]; reflexivity.
Qed.

Lemma mrun_obs : forall (St : Type) (step : St -> smop -> St * obs) stop ops st acc ok,
  fst (mrun step stop ops (st, acc) ok) = rev acc ++ vis (grun step st (expand ops)).
Proof.
  intros St step stop ops. induction ops as [|o ops IH]; intros st acc ok.
  - cbn. rewrite app_nil_r. reflexivity.
  - assert (Hgen : forall sa', fold_left (prim_acc step) (expand1 o) (st, acc) = sa' ->
              fst (mrun step stop ops sa' ok) =
              rev acc ++ vis (grun step st (expand1 o ++ expand ops))).
    { intros sa' Hsa. rewrite fold_prims in Hsa. subst sa'. rewrite IH.
      rewrite rev_app_distr, rev_involutive, grun_app, vis_app, app_assoc. reflexivity. }
    destruct o as [p|k0 n v|k0 n|k v n|n vs].
    1-4: cbn [mrun]; unfold expand; cbn [flat_map]; fold (expand ops); apply Hgen; reflexivity.
    cbn [mrun]. unfold expand. cbn [flat_map expand1 app]. fold (expand ops). apply IH.
Qed.

Lemma list_eqb_obs_eq : forall l1 l2, list_eqb obs_eqb l1 l2 = true -> l1 = l2.
Proof.
  induction l1 as [|a l1 IH]; intros [|b l2] H; try discriminate; [reflexivity|].
  cbn [list_eqb] in H. apply andb_true_iff in H. destruct H as [Hab H]. f_equal; [|apply IH; exact H].
  destruct a, b; cbn [obs_eqb] in Hab; try discriminate; try reflexivity.
  - apply Bool.eqb_prop in Hab. subst. reflexivity.
  - apply Z.eqb_eq in Hab. subst. reflexivity.
  - destruct o, o0; cbn in Hab; try discriminate; [apply Z.eqb_eq in Hab; subst|]; reflexivity.
  - f_equal. revert l0 Hab. induction l as [|x l IHl]; intros [|y l0] Hab; try discriminate; [reflexivity|].
    cbn in Hab. apply andb_true_iff in Hab. destruct Hab as [Hxy Hab]. apply Z.eqb_eq in Hxy. subst.
    f_equal. apply IHl. exact Hab.
  - f_equal. revert l0 Hab. induction l as [|x l IHl]; intros [|y l0] Hab; try discriminate; [reflexivity|].
    cbn in Hab. apply andb_true_iff in Hab. destruct Hab as [Hxy Hab]. unfold pair_eqb in Hxy.
    apply andb_true_iff in Hxy. destruct Hxy as [H1 H2]. apply Z.eqb_eq in H1. apply Z.eqb_eq in H2.
    destruct x, y. cbn in *. subst. f_equal. apply IHl. exact Hab.
  - apply andb_true_iff in Hab. destruct Hab as [H1 H2]. apply Bool.eqb_prop in H2. subst.
    destruct r, r0; cbn in H1; try discriminate; [apply Z.eqb_eq in H1; subst|]; reflexivity.
Qed.

Lemma mcheck_true : forall (St : Type) (step : St -> smop -> St * obs) stop init ops seen,
  mcheck step stop init ops seen = true ->
  vis (grun step init (expand ops)) = visible true seen.
Proof.
  intros St step stop init ops seen H. unfold mcheck in H.
  pose proof (mrun_obs St step stop ops init [] true) as Hm.
  destruct (mrun step stop ops (init, []) true) as [model ok]. cbn [fst rev app] in Hm.
  destruct ok; [|discriminate H]. subst model. apply list_eqb_obs_eq. exact H.
Qed.

(* a SafeMap case accepted by prop_ok shows exactly the visible observations of the plain map
   on the expanded history; one accepted by agrees, those of the transcribed model *)
Theorem safemap_check_runs_the_reference_proof : forall ct md ops seen,
  (prop_ok (KSafeMap ct md ops seen) = true ->
   visible true (map_run [] (expand ops)) = visible true seen) /\
  (agrees (KSafeMap ct md ops seen) = true ->
   visible true (sm_run (mkSMC ct md) sm_new (expand ops)) = visible true seen).
Proof.
  intros ct md ops seen. split; intros H; cbn [prop_ok agrees] in H; apply mcheck_true in H.
  - rewrite grun_map in H. exact H.
  - rewrite grun_sm in H. exact H.
Qed.

(* ------------------------------------------------------------------ *)
(* Reduce as ONE read of the window.  The window theorems are about rw_reduce applied to one
   window state: the code provides this by holding the read lock from the moment Reduce chooses
   its buckets to its last callback (an Add of another goroutine waits).  What Check.prop_ok
   accepts for a Reduce that overlaps Adds - the Reduce of the state before them, or after the
   first j of them - contains what the code does (the state before). *)
Theorem reduce_under_lock_is_a_one_state_view_proof : forall (size : nat) (iv t0 : Z) (ig : bool)
    (h : list (Z * Z)) (now : Z) (adds : list (Z * Z)),
  (1 <= size)%nat -> 0 < iv -> rw_mono t0 h -> rw_last_time t0 h <= now ->
  In (rw_reduce (rw_run (rw_new size iv t0 ig) h) now) (one_state_views size iv t0 ig h now adds).
Proof.
  intros size iv t0 ig h now adds Hs Hiv Hm Hl. destruct adds; left; unfold rw_reduce_spec; symmetry;
    apply reduce_visits_last_size_intervals; assumption.
Qed.
