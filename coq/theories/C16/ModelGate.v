(* C16 - Cache.Take in its separate steps, with other callers' operations in between.

   cache.go:  Take(key, fetch) = doGet(key)                        (under c.lock)
                                 ; barrier.Do(key, { doGet(key)    (under c.lock: the double check)
                                                   ; fetch()       (NO lock held: the loader may take long)
                                                   ; Set(key, v) } (under c.lock)
   While fetch() runs the cache is unlocked: other goroutines' operations take effect in
   between.  [c_take_held c k f inner] is that execution with the operations [inner] of other
   callers run while the loader is parked (the forced schedule of the executor's take_gate).
   Executable definitions only; the theorems are in ProofsGate.v, the pinned variant of the
   seeded change C16-9 (striped deletion counters) in Pinned.v. *)
From Coq Require Import List ZArith Bool.
From GZ Require Import C16.Model C16.ModelW.
Import ListNotations. Open Scope Z_scope.

(* the key an operation addresses *)
Definition cop_key (o : cop) : Z :=
  match o with CSet k _ => k | CGet k => k | CDel k => k | CTake k _ => k | CExpire k => k end.

(* result: final state, what Take returned, what the inner operations returned *)
Definition c_take_held (c : cache) (k : Z) (f : option Z) (inner : list cop) : cache * obs * list obs :=
  match c_doget c k with
  | (c1, Some v) => (c_final c1 inner, OTake (Some v) false, c_run c1 inner)   (* a hit: no loader to hold *)
  | (c1, None) =>
    match c_doget c1 k with                                                    (* double check in the flight *)
    | (c2, Some v) => (c_final c2 inner, OTake (Some v) false, c_run c2 inner)
    | (c2, None) =>
      let c3 := c_final c2 inner in                                            (* ... fetch() parked ... *)
      match f with
      | Some v => (fst (c_set c3 k v), OTake (Some v) true, c_run c2 inner)    (* Set(key, v) *)
      | None => (c3, OTake None true, c_run c2 inner)                          (* the error is returned, nothing stored *)
      end
    end
  end.

(* The seeded change C16-9: "deletion counters", one per stripe of keys ([stripe] stands for
   hash(key) % 256), bumped by every Del - also the wheel's expiry callback; Take reads the
   counter of its key's stripe before the double check and does not store the loaded value when
   the counter has moved.  (Counting only the deletions between the two reads is all that
   matters: the counter moved iff some inner Del / Expire addressed a key of the stripe.) *)
Definition bumps (stripe : Z -> Z) (k : Z) (o : cop) : bool :=
  match o with
  | CDel k' => stripe k' =? stripe k
  | CExpire k' => stripe k' =? stripe k
  | _ => false
  end.

Definition c_take_held_striped (stripe : Z -> Z) (c : cache) (k : Z) (f : option Z) (inner : list cop)
  : cache * obs * list obs :=
  match c_doget c k with
  | (c1, Some v) => (c_final c1 inner, OTake (Some v) false, c_run c1 inner)
  | (c1, None) =>
    match c_doget c1 k with
    | (c2, Some v) => (c_final c2 inner, OTake (Some v) false, c_run c2 inner)
    | (c2, None) =>
      let c3 := c_final c2 inner in
      match f with
      | Some v => (if existsb (bumps stripe k) inner then c3 else fst (c_set c3 k v),
                   OTake (Some v) true, c_run c2 inner)
      | None => (c3, OTake None true, c_run c2 inner)
      end
    end
  end.

(* ---- the same with the cache's timing wheel (ModelW): the operations run while the loader is
   parked include TICKS of the wheel, whose callbacks delete the entries that expire meanwhile;
   the loaded value's own timer is set when the loader returns *)
Definition xop_avoids (k : Z) (o : xop) : Prop :=
  match o with
  | XSet k' _ _ => k' <> k
  | XGet k' => k' <> k
  | XDel k' => k' <> k
  | XTake k' _ _ => k' <> k
  | XTick => True
  end.

Definition cw_take_held (s : cachew) (k : Z) (f : option Z) (d : Z) (inner : list xop)
  : cachew * obs * list obs :=
  match c_doget (cwc s) k with
  | (c1, Some v) =>
    let s1 := mkCW c1 (cww s) (cwmv s) in (cw_final s1 inner, OTake (Some v) false, cw_run s1 inner)
  | (c1, None) =>
    let s1 := mkCW c1 (cww s) (cwmv s) in
    let s3 := cw_final s1 inner in                        (* ... fetch() parked ... *)
    match c_doget (cwc s1) k with                         (* (the double check came before) *)
    | (_, Some v) => (s3, OTake (Some v) false, cw_run s1 inner)
    | (_, None) =>
      match f with
      | Some v => (fst (fst (cw_set s3 k v d)), OTake (Some v) true, cw_run s1 inner)
      | None => (s3, OTake None true, cw_run s1 inner)
      end
    end
  end.
