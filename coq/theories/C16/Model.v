(* C16 - executable models of core/collection/{safemap,fifo,ring,set,cache}.go and their
   abstract reference specifications.  The RollingWindow model is shared
   (Lib/RollingWindow.v, spec in Lib/RollingWindowSpec.v).  No proofs here.

   Conventions: keys and values are integers (Z); Go maps are association lists
   without duplicate keys (iteration order is not observable: the correspondence
   sorts, the theorems use Permutation); slices are lists indexed by nat. *)
From Coq Require Import List ZArith Bool Permutation.
From GZ Require Export Lib.RollingWindow Lib.RollingWindowSpec.
Import ListNotations.
Open Scope Z_scope.

(* one observable result per operation *)
Inductive obs :=
| OUnit
| OBool (b : bool)
| ONum (z : Z)
| OOpt (o : option Z)
| OList (l : list Z)
| OPairs (l : list (Z * Z))
| OTake (r : option Z) (loaded : bool).

(* equality of observables up to the (unobservable) iteration order of Go maps *)
Inductive obs_equiv : obs -> obs -> Prop :=
| oe_pairs : forall l1 l2, Permutation l1 l2 -> obs_equiv (OPairs l1) (OPairs l2)
| oe_list : forall l1 l2, Permutation l1 l2 -> obs_equiv (OList l1) (OList l2)
| oe_refl : forall o, obs_equiv o o.

(* ------------------------------------------------------------------ *)
(* Go map[K]V as association list                                      *)

Definition amap := list (Z * Z).

Fixpoint alookup (k : Z) (m : amap) : option Z :=
  match m with
  | [] => None
  | (k', v) :: m' => if k' =? k then Some v else alookup k m'
  end.

Definition aremove (k : Z) (m : amap) : amap :=
  filter (fun p => negb (fst p =? k)) m.

Definition aset (k v : Z) (m : amap) : amap := (k, v) :: aremove k m.

Definition amem (k : Z) (m : amap) : bool :=
  match alookup k m with Some _ => true | None => false end.

Definition alen (m : amap) : Z := Z.of_nat (length m).

(* for k, v := range src { dst[k] = v } *)
Definition acopy (src dst : amap) : amap :=
  fold_left (fun m p => aset (fst p) (snd p) m) src dst.

(* ------------------------------------------------------------------ *)
(* SafeMap (safemap.go)                                                *)

Record smcfg := mkSMC { copyThreshold : Z; maxDeletion : Z }.

Record safemap := mkSM
  { delOld : Z; delNew : Z; dirtyOld : amap; dirtyNew : amap }.

Definition sm_new : safemap := mkSM 0 0 [] [].

Inductive smop :=
| MSet (k v : Z) | MGet (k : Z) | MDel (k : Z) | MSize | MRange.

Definition sm_set (cfg : smcfg) (m : safemap) (k v : Z) : safemap :=
  if delOld m <=? maxDeletion cfg then
    let m1 := if amem k (dirtyNew m)
              then mkSM (delOld m) (delNew m + 1) (dirtyOld m) (aremove k (dirtyNew m))
              else m in
    mkSM (delOld m1) (delNew m1) (aset k v (dirtyOld m1)) (dirtyNew m1)
  else
    let m1 := if amem k (dirtyOld m)
              then mkSM (delOld m + 1) (delNew m) (aremove k (dirtyOld m)) (dirtyNew m)
              else m in
    mkSM (delOld m1) (delNew m1) (dirtyOld m1) (aset k v (dirtyNew m1)).

Definition sm_del (cfg : smcfg) (m : safemap) (k : Z) : safemap :=
  let m1 := if amem k (dirtyOld m)
            then mkSM (delOld m + 1) (delNew m) (aremove k (dirtyOld m)) (dirtyNew m)
            else if amem k (dirtyNew m)
            then mkSM (delOld m) (delNew m + 1) (dirtyOld m) (aremove k (dirtyNew m))
            else m in
  let m2 := if (maxDeletion cfg <=? delOld m1) && (alen (dirtyOld m1) <? copyThreshold cfg)
            then mkSM (delNew m1) 0 (acopy (dirtyOld m1) (dirtyNew m1)) []
            else m1 in
  if (maxDeletion cfg <=? delNew m2) && (alen (dirtyNew m2) <? copyThreshold cfg)
  then mkSM (delOld m2) 0 (acopy (dirtyNew m2) (dirtyOld m2)) []
  else m2.

Definition sm_get (m : safemap) (k : Z) : option Z :=
  match alookup k (dirtyOld m) with
  | Some v => Some v
  | None => alookup k (dirtyNew m)
  end.

Definition sm_step (cfg : smcfg) (m : safemap) (o : smop) : safemap * obs :=
  match o with
  | MSet k v => (sm_set cfg m k v, OUnit)
  | MGet k => (m, OOpt (sm_get m k))
  | MDel k => (sm_del cfg m k, OUnit)
  | MSize => (m, ONum (alen (dirtyOld m) + alen (dirtyNew m)))
  | MRange => (m, OPairs (dirtyOld m ++ dirtyNew m))
  end.

Fixpoint sm_run (cfg : smcfg) (m : safemap) (ops : list smop) : list obs :=
  match ops with
  | [] => []
  | o :: ops' => let (m', r) := sm_step cfg m o in r :: sm_run cfg m' ops'
  end.

(* specification: one map *)
Definition map_step (m : amap) (o : smop) : amap * obs :=
  match o with
  | MSet k v => (aset k v m, OUnit)
  | MGet k => (m, OOpt (alookup k m))
  | MDel k => (aremove k m, OUnit)
  | MSize => (m, ONum (alen m))
  | MRange => (m, OPairs m)
  end.

Fixpoint map_run (m : amap) (ops : list smop) : list obs :=
  match ops with
  | [] => []
  | o :: ops' => let (m', r) := map_step m o in r :: map_run m' ops'
  end.

(* ------------------------------------------------------------------ *)
(* Queue (fifo.go): growable ring buffer                               *)

Record queue := mkQ
  { qels : list Z; qsize : nat; qhead : nat; qtail : nat; qcount : nat }.

Definition q_new (size : nat) : queue := mkQ (repeat 0 size) size 0%nat 0%nat 0%nat.

Inductive qop := QPut (x : Z) | QTake | QEmpty.

Definition q_put (q : queue) (x : Z) : queue :=
  let q1 :=
    if Nat.eqb (qhead q) (qtail q) && Nat.ltb 0 (qcount q)
    then mkQ ((skipn (qhead q) (qels q) ++ firstn (qhead q) (qels q)) ++ repeat 0 (qsize q))
             (qsize q) 0%nat (length (qels q)) (qcount q)
    else q in
  mkQ (set_nth (qtail q1) x (qels q1)) (qsize q1) (qhead q1)
      ((qtail q1 + 1) mod length (qels q1))%nat (S (qcount q1)).

Definition q_take (q : queue) : queue * option Z :=
  match qcount q with
  | O => (q, None)
  | S c => (mkQ (qels q) (qsize q) ((qhead q + 1) mod length (qels q))%nat (qtail q) c,
            Some (nth (qhead q) (qels q) 0))
  end.

Definition q_step (q : queue) (o : qop) : queue * obs :=
  match o with
  | QPut x => (q_put q x, OUnit)
  | QTake => let (q', r) := q_take q in (q', OOpt r)
  | QEmpty => (q, OBool (Nat.eqb (qcount q) 0))
  end.

Fixpoint q_run (q : queue) (ops : list qop) : list obs :=
  match ops with
  | [] => []
  | o :: ops' => let (q', r) := q_step q o in r :: q_run q' ops'
  end.

(* specification: a list, put at the back, take from the front *)
Definition fifo_step (l : list Z) (o : qop) : list Z * obs :=
  match o with
  | QPut x => (l ++ [x], OUnit)
  | QTake => match l with [] => ([], OOpt None) | x :: l' => (l', OOpt (Some x)) end
  | QEmpty => (l, OBool (match l with [] => true | _ => false end))
  end.

Fixpoint fifo_run (l : list Z) (ops : list qop) : list obs :=
  match ops with
  | [] => []
  | o :: ops' => let (l', r) := fifo_step l o in r :: fifo_run l' ops'
  end.

(* ------------------------------------------------------------------ *)
(* Ring (ring.go)                                                      *)

Record ring := mkR { rels : list Z; rindex : nat }.

Definition r_new (n : nat) : ring := mkR (repeat 0 n) 0%nat.

Inductive rop := RAdd (x : Z) | RTake.

Definition r_add (r : ring) (x : Z) : ring :=
  let rlen := length (rels r) in
  let els := set_nth (rindex r mod rlen)%nat x (rels r) in
  let ix := S (rindex r) in
  mkR els (if Nat.leb (2 * rlen) ix then (ix - rlen)%nat else ix).

Definition r_take (r : ring) : list Z :=
  let rlen := length (rels r) in
  let size := if Nat.ltb rlen (rindex r) then rlen else rindex r in
  let start := if Nat.ltb rlen (rindex r) then (rindex r mod rlen)%nat else 0%nat in
  map (fun i => nth ((start + i) mod rlen)%nat (rels r) 0) (seq 0 size).

Definition r_step (r : ring) (o : rop) : ring * obs :=
  match o with
  | RAdd x => (r_add r x, OUnit)
  | RTake => (r, OList (r_take r))
  end.

Fixpoint r_run (r : ring) (ops : list rop) : list obs :=
  match ops with
  | [] => []
  | o :: ops' => let (r', x) := r_step r o in x :: r_run r' ops'
  end.

(* specification: remember everything, show the last n *)
Definition lastn {A} (n : nat) (l : list A) : list A := skipn (length l - n) l.

Definition hist_step (n : nat) (h : list Z) (o : rop) : list Z * obs :=
  match o with
  | RAdd x => (h ++ [x], OUnit)
  | RTake => (h, OList (lastn n h))
  end.

Fixpoint hist_run (n : nat) (h : list Z) (ops : list rop) : list obs :=
  match ops with
  | [] => []
  | o :: ops' => let (h', x) := hist_step n h o in x :: hist_run n h' ops'
  end.

(* ------------------------------------------------------------------ *)
(* Set (set.go): map[any]struct{}.  A key is the pair (dynamic type, value)
   encoded as tag * 2^32 + value with 0 <= value < 2^32; tag 0 = int,
   1 = int64, 2 = uint, 3 = string (decimal digits).  validate() only logs. *)

Definition skey_tag (k : Z) : Z := k / 4294967296.

Definition smem (k : Z) (s : list Z) : bool := existsb (Z.eqb k) s.
Definition sremove (k : Z) (s : list Z) : list Z := filter (fun x => negb (x =? k)) s.
Definition sadd (k : Z) (s : list Z) : list Z := if smem k s then s else k :: s.

Inductive sop :=
| SAdd (k : Z) | SRemove (k : Z) | SContains (k : Z) | SCount | SKeys | SKeysOf (tag : Z).

Definition set_step (s : list Z) (o : sop) : list Z * obs :=
  match o with
  | SAdd k => (sadd k s, OUnit)
  | SRemove k => (sremove k s, OUnit)
  | SContains k => (s, OBool (smem k s))
  | SCount => (s, ONum (Z.of_nat (length s)))
  | SKeys => (s, OList s)
  | SKeysOf t => (s, OList (filter (fun k => skey_tag k =? t) s))
  end.

Fixpoint set_run (s : list Z) (ops : list sop) : list obs :=
  match ops with
  | [] => []
  | o :: ops' => let (s', r) := set_step s o in r :: set_run s' ops'
  end.

Fixpoint set_final (s : list Z) (ops : list sop) : list Z :=
  match ops with
  | [] => s
  | o :: ops' => set_final (fst (set_step s o)) ops'
  end.

(* specification, from the history alone: a key is a member iff its last
   Add/Remove in the history is an Add *)
Fixpoint member_spec (ops : list sop) (k : Z) (init : bool) : bool :=
  match ops with
  | [] => init
  | SAdd k' :: ops' => member_spec ops' k (if k' =? k then true else init)
  | SRemove k' :: ops' => member_spec ops' k (if k' =? k then false else init)
  | _ :: ops' => member_spec ops' k init
  end.

Fixpoint mentioned (ops : list sop) : list Z :=
  match ops with
  | [] => []
  | SAdd k :: ops' => k :: mentioned ops'
  | _ :: ops' => mentioned ops'
  end.

Fixpoint dedup (l : list Z) : list Z :=
  match l with
  | [] => []
  | x :: l' => if smem x l' then dedup l' else x :: dedup l'
  end.

Definition members (pre : list sop) : list Z :=
  filter (fun k => member_spec pre k false) (dedup (mentioned pre)).

Definition set_spec_obs (pre : list sop) (o : sop) : obs :=
  match o with
  | SContains k => OBool (member_spec pre k false)
  | SCount => ONum (Z.of_nat (length (members pre)))
  | SKeys => OList (members pre)
  | SKeysOf t => OList (filter (fun k => skey_tag k =? t) (members pre))
  | _ => OUnit
  end.

Fixpoint set_spec_run (pre : list sop) (ops : list sop) : list obs :=
  match ops with
  | [] => []
  | o :: ops' => set_spec_obs pre o :: set_spec_run (pre ++ [o]) ops'
  end.

(* ------------------------------------------------------------------ *)
(* in-memory Cache (cache.go) with keyLru; expiry is the event CExpire   *)

Record cache := mkC
  { climit : Z;            (* WithLimit; <= 0 : emptyLru, nothing is evicted *)
    cdata : amap;          (* c.data *)
    clru : list Z }.       (* keyLru.evicts, front = most recently used *)

Definition c_new (limit : Z) : cache := mkC limit [] [].

Inductive cop :=
| CSet (k v : Z)
| CGet (k : Z)
| CDel (k : Z)
| CTake (k : Z) (fetch : option Z)   (* what the loader would return: Some v / error *)
| CExpire (k : Z).                   (* the timing wheel fires the key's timer *)

Definition last_opt {A} (l : list A) : option A :=
  match rev l with [] => None | x :: _ => Some x end.

(* keyLru.add; returns the evicted keys (at most one) *)
Definition c_lru_add (c : cache) (k : Z) : cache * list Z :=
  if climit c <=? 0 then (c, [])
  else if smem k (clru c) then (mkC (climit c) (cdata c) (k :: sremove k (clru c)), [])
  else
    let l := k :: clru c in
    if climit c <? Z.of_nat (length l) then
      match last_opt l with
      | Some old => (mkC (climit c) (aremove old (cdata c)) (removelast l), [old])
      | None => (mkC (climit c) (cdata c) l, [])
      end
    else (mkC (climit c) (cdata c) l, []).

(* keyLru.remove + onEvict *)
Definition c_lru_remove (c : cache) (k : Z) : cache :=
  if climit c <=? 0 then c
  else if smem k (clru c) then mkC (climit c) (aremove k (cdata c)) (sremove k (clru c))
  else c.

Definition c_set (c : cache) (k v : Z) : cache * list Z :=
  c_lru_add (mkC (climit c) (aset k v (cdata c)) (clru c)) k.

Definition c_del (c : cache) (k : Z) : cache :=
  c_lru_remove (mkC (climit c) (aremove k (cdata c)) (clru c)) k.

(* doGet *)
Definition c_doget (c : cache) (k : Z) : cache * option Z :=
  match alookup k (cdata c) with
  | Some v => (fst (c_lru_add c k), Some v)
  | None => (c, None)
  end.

(* state, observable, keys evicted by the LRU during the operation *)
Definition c_step (c : cache) (o : cop) : cache * obs * list Z :=
  match o with
  | CSet k v => let (c', ev) := c_set c k v in (c', OUnit, ev)
  | CGet k => let (c', r) := c_doget c k in (c', OOpt r, [])
  | CDel k => (c_del c k, OUnit, [])
  | CExpire k => (c_del c k, OUnit, [])
  | CTake k f =>
    match c_doget c k with
    | (c', Some v) => (c', OTake (Some v) false, [])
    | (c', None) =>
      match f with
      | Some v => let (c'', ev) := c_set c' k v in (c'', OTake (Some v) true, ev)
      | None => (c', OTake None true, [])
      end
    end
  end.

Fixpoint c_run (c : cache) (ops : list cop) : list obs :=
  match ops with
  | [] => []
  | o :: ops' => let '(c', r, _) := c_step c o in r :: c_run c' ops'
  end.

Fixpoint c_final (c : cache) (ops : list cop) : cache :=
  match ops with
  | [] => c
  | o :: ops' => c_final (fst (fst (c_step c o))) ops'
  end.

(* what happened to keys, in order: written with a value, or gone (deleted /
   expired / evicted) *)
Inductive cevent := EvPut (k v : Z) | EvGone (k : Z).

Definition c_events_of (o : cop) (r : obs) (evicted : list Z) : list cevent :=
  (match o, r with
   | CSet k v, _ => [EvPut k v]
   | CDel k, _ => [EvGone k]
   | CExpire k, _ => [EvGone k]
   | CTake k (Some v), OTake _ true => [EvPut k v]
   | _, _ => []
   end) ++ map EvGone evicted.

Fixpoint c_events (c : cache) (ops : list cop) : list cevent :=
  match ops with
  | [] => []
  | o :: ops' => let '(c', r, ev) := c_step c o in c_events_of o r ev ++ c_events c' ops'
  end.

(* the latest value put for k that is not followed by a "gone" event *)
Fixpoint latest (evs : list cevent) (k : Z) (cur : option Z) : option Z :=
  match evs with
  | [] => cur
  | EvPut k' v :: evs' => latest evs' k (if k' =? k then Some v else cur)
  | EvGone k' :: evs' => latest evs' k (if k' =? k then None else cur)
  end.

(* specification of "evicts in least-recently-used order": every entry carries the
   logical time of its last use (Set / Get hit / Take); inserting into a full
   cache removes the entry with the smallest stamp. *)
Record scache := mkSC
  { slimit : Z; sclock : Z; sents : list (Z * (Z * Z)) (* key, (value, stamp) *) }.

Definition s_new (limit : Z) : scache := mkSC limit 0 [].

Fixpoint s_lookup (k : Z) (l : list (Z * (Z * Z))) : option (Z * Z) :=
  match l with
  | [] => None
  | (k', e) :: l' => if k' =? k then Some e else s_lookup k l'
  end.

Definition s_remove (k : Z) (l : list (Z * (Z * Z))) : list (Z * (Z * Z)) :=
  filter (fun p => negb (fst p =? k)) l.

(* key with the smallest stamp *)
Fixpoint s_oldest (l : list (Z * (Z * Z))) : option (Z * Z) (* key, stamp *) :=
  match l with
  | [] => None
  | (k, (_, t)) :: l' =>
    match s_oldest l' with
    | Some (k', t') => if t' <? t then Some (k', t') else Some (k, t)
    | None => Some (k, t)
    end
  end.

Definition s_put (s : scache) (k v : Z) : scache * list Z :=
  let present := match s_lookup k (sents s) with Some _ => true | None => false end in
  let l := (k, (v, sclock s)) :: s_remove k (sents s) in
  if negb present && (0 <? slimit s) && (slimit s <? Z.of_nat (length l)) then
    match s_oldest l with
    | Some (old, _) => (mkSC (slimit s) (sclock s + 1) (s_remove old l), [old])
    | None => (mkSC (slimit s) (sclock s + 1) l, [])
    end
  else (mkSC (slimit s) (sclock s + 1) l, []).

Definition s_get (s : scache) (k : Z) : scache * option Z :=
  match s_lookup k (sents s) with
  | Some (v, _) =>
    (mkSC (slimit s) (sclock s + 1)
          (map (fun e => if fst e =? k then (k, (v, sclock s)) else e) (sents s)), Some v)
  | None => (s, None)
  end.

Definition s_del (s : scache) (k : Z) : scache :=
  mkSC (slimit s) (sclock s) (s_remove k (sents s)).

Definition s_step (s : scache) (o : cop) : scache * obs * list Z :=
  match o with
  | CSet k v => let (s', ev) := s_put s k v in (s', OUnit, ev)
  | CGet k => let (s', r) := s_get s k in (s', OOpt r, [])
  | CDel k => (s_del s k, OUnit, [])
  | CExpire k => (s_del s k, OUnit, [])
  | CTake k f =>
    match s_get s k with
    | (s', Some v) => (s', OTake (Some v) false, [])
    | (s', None) =>
      match f with
      | Some v => let (s'', ev) := s_put s' k v in (s'', OTake (Some v) true, ev)
      | None => (s', OTake None true, [])
      end
    end
  end.

Fixpoint s_run (s : scache) (ops : list cop) : list obs :=
  match ops with
  | [] => []
  | o :: ops' => let '(s', r, _) := s_step s o in r :: s_run s' ops'
  end.

(* evicted keys per operation (for the LRU-order theorem) *)
Fixpoint c_evictions (c : cache) (ops : list cop) : list (list Z) :=
  match ops with
  | [] => []
  | o :: ops' => let '(c', _, ev) := c_step c o in ev :: c_evictions c' ops'
  end.

Fixpoint s_evictions (s : scache) (ops : list cop) : list (list Z) :=
  match ops with
  | [] => []
  | o :: ops' => let '(s', _, ev) := s_step s o in ev :: s_evictions s' ops'
  end.
