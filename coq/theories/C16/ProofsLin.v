(* C16 - the linearisation search of Lin.v is correct: it answers true exactly when
   the events can be ordered consistently with real time into a run of the sequential
   step function that produces the observed results. *)
From Coq Require Import List ZArith Bool Permutation Lia.
From GZ Require Import C16.Model C16.Lin.
Import ListNotations.
Open Scope Z_scope.

Section Correct.
  Context {St Op : Type}.
  Variable step : St -> Op -> St * obs.
  Variable canon : bool.

  (* real-time order: an event is never placed before one that had returned before it
     was called (and no event returns before it is called) *)
  Fixpoint rt_ok (l : list (lev Op)) : Prop :=
    match l with
    | [] => True
    | e :: l' => lcall e <= lret e /\ (forall e', In e' l' -> ~ lret e' < lcall e) /\ rt_ok l'
    end.

  (* the order is a sequential run with the observed results *)
  Fixpoint run_ok (st : St) (l : list (lev Op)) : Prop :=
    match l with
    | [] => True
    | e :: l' => obs_match canon (snd (step st (lop e))) (lobs e) = true /\
                 run_ok (fst (step st (lop e))) l'
    end.

  Definition linearisable (st : St) (evs : list (lev Op)) : Prop :=
    exists order, Permutation order evs /\ rt_ok order /\ run_ok st order.

  Lemma picks_perm : forall (A : Type) (l : list A) x r, In (x, r) (picks l) -> Permutation (x :: r) l.
  Proof.
    intros A l. induction l as [|y l IH]; intros x r Hin; simpl in Hin; [contradiction|].
    destruct Hin as [Heq|Hin].
    - inversion Heq; subst. apply Permutation_refl.
    - apply in_map_iff in Hin. destruct Hin as ([x' r'] & Heq & Hin). simpl in Heq.
      inversion Heq; subst. apply IH in Hin.
      eapply perm_trans; [apply perm_swap|]. apply perm_skip. exact Hin.
  Qed.

  Lemma picks_in : forall (A : Type) (l : list A) x, In x l ->
    exists r, In (x, r) (picks l) /\ Permutation (x :: r) l.
  Proof.
    intros A l. induction l as [|y l IH]; intros x Hin; [contradiction|].
    destruct Hin as [Heq|Hin].
    - subst. exists l. split; [left; reflexivity|apply Permutation_refl].
    - destruct (IH x Hin) as (r & Hp & Hperm). exists (y :: r). split.
      + simpl. right. apply in_map_iff. exists (x, r). split; [reflexivity|exact Hp].
      + eapply perm_trans; [apply perm_swap|]. apply perm_skip. exact Hperm.
  Qed.

  Lemma lin_minimal_spec : forall (e : lev Op) pending,
    lin_minimal e pending = true <-> forall e', In e' pending -> ~ lret e' < lcall e.
  Proof.
    intros e pending. unfold lin_minimal. rewrite forallb_forall. split; intros H e' Hin.
    - specialize (H e' Hin). apply negb_true_iff in H. apply Z.ltb_ge in H. lia.
    - specialize (H e' Hin). apply negb_true_iff. apply Z.ltb_ge. lia.
  Qed.

  Lemma any_pick_existsb : forall (A : Type) (f : A -> bool) l, any_pick f l = existsb f l.
  Proof.
    intros A f l. induction l as [|p l IH]; [reflexivity|]. simpl. rewrite IH.
    destruct (f p); reflexivity.
  Qed.

  Lemma existsb_ext' : forall (A : Type) (f g : A -> bool) l,
    (forall x, f x = g x) -> existsb f l = existsb g l.
  Proof.
    intros A f g l H. induction l as [|x l IH]; [reflexivity|]. simpl. rewrite H, IH. reflexivity.
  Qed.

  Theorem lin_search_correct_proof : forall fuel st pending, (length pending <= fuel)%nat ->
    lin_search step canon fuel st pending = true <-> linearisable st pending.
  Proof.
    induction fuel as [|f IH]; intros st pending Hlen.
    - destruct pending as [|e p]; [|simpl in Hlen; lia]. simpl. split; [|reflexivity].
      intros _. exists []. repeat split. apply perm_nil.
    - destruct pending as [|e0 p0].
      + simpl. split; [|reflexivity]. intros _. exists []. repeat split. apply perm_nil.
      + remember (e0 :: p0) as pending eqn:Hp.
        assert (Hs : lin_search step canon (S f) st pending =
                     existsb (fun p => lin_minimal (fst p) pending &&
                                (let (st', r) := step st (lop (fst p)) in
                                 obs_match canon r (lobs (fst p)) && lin_search step canon f st' (snd p)))
                             (picks pending)).
        { subst pending. cbn [lin_search]. rewrite any_pick_existsb. apply existsb_ext'.
          intros p. destruct (lin_minimal (fst p) (e0 :: p0)); [|reflexivity]. simpl.
          destruct (step st (lop (fst p))) as [st' r]. destruct (obs_match canon r (lobs (fst p))); reflexivity. }
        rewrite Hs. rewrite existsb_exists. split.
        * intros ([e r] & Hin & Hb). simpl in Hb.
          apply andb_true_iff in Hb. destruct Hb as [Hmin Hb].
          pose proof (picks_perm _ _ _ _ Hin) as Hperm.
          destruct (step st (lop e)) as [st' o] eqn:Hstep.
          apply andb_true_iff in Hb. destruct Hb as [Hobs Hrec].
          assert (Hlr : (length r <= f)%nat).
          { apply Permutation_length in Hperm. simpl in Hperm. lia. }
          apply (IH st' r Hlr) in Hrec. destruct Hrec as (order & Hpo & Hrt & Hrun).
          exists (e :: order). split; [|split].
          -- eapply perm_trans; [apply perm_skip; exact Hpo|exact Hperm].
          -- simpl. rewrite lin_minimal_spec in Hmin. split; [|split].
             ++ assert (He : In e pending) by (eapply Permutation_in; [exact Hperm|left; reflexivity]).
                specialize (Hmin e He). lia.
             ++ intros e' Hin'. apply Hmin. eapply Permutation_in; [exact Hperm|].
                right. eapply Permutation_in; [exact Hpo|exact Hin'].
             ++ exact Hrt.
          -- simpl. rewrite Hstep. simpl. split; [exact Hobs|exact Hrun].
        * intros (order & Hpo & Hrt & Hrun).
          destruct order as [|e order].
          { apply Permutation_nil in Hpo. subst pending. discriminate. }
          assert (He : In e pending) by (eapply Permutation_in; [exact Hpo|left; reflexivity]).
          destruct (picks_in _ _ _ He) as (r & Hpick & Hperm).
          exists (e, r). split; [exact Hpick|]. simpl.
          simpl in Hrt. destruct Hrt as (Hwf & Hafter & Hrt).
          simpl in Hrun. destruct Hrun as [Hobs Hrun].
          assert (Hor : Permutation order r).
          { apply Permutation_cons_inv with (a := e).
            eapply perm_trans; [exact Hpo|apply Permutation_sym; exact Hperm]. }
          apply andb_true_iff. split.
          -- apply lin_minimal_spec. intros e' Hin'.
             apply (Permutation_in _ (Permutation_sym Hpo)) in Hin'. destruct Hin' as [Heq|Hin'].
             ++ subst e'. lia.
             ++ apply Hafter. exact Hin'.
          -- destruct (step st (lop e)) as [st' o] eqn:Hstep. simpl in Hobs, Hrun.
             apply andb_true_iff. split; [exact Hobs|].
             assert (Hlr : (length r <= f)%nat).
             { apply Permutation_length in Hperm. simpl in Hperm. lia. }
             apply (IH st' r Hlr). exists order. split; [exact Hor|split; assumption].
  Qed.

  Theorem linearisable_b_correct : forall st evs,
    linearisable_b step canon st evs = true <-> linearisable st evs.
  Proof. intros st evs. apply lin_search_correct_proof. apply Nat.le_refl. Qed.
End Correct.

Print Assumptions linearisable_b_correct.
