(* C08 — corollaries of the characterisation: the three directions, and what [meets] says about
   one scalar field of the top-level struct. *)
From Coq Require Import List ZArith Bool String Ascii Lia.
From GZ Require Import C08.Model C08.Spec C08.Proofs.
Import ListNotations.
Open Scope Z_scope.

Lemma accept_sound_lemma : forall cfg fs d v,
  unmarshal fixed cfg fs d = Ok v -> meets cfg fs d = true.
Proof. intros cfg fs d v H. apply unmarshal_iff in H. tauto. Qed.

Lemma accept_exact_lemma : forall cfg fs d v,
  unmarshal fixed cfg fs d = Ok v -> decode cfg fs d = Some v.
Proof. intros cfg fs d v H. apply unmarshal_iff in H. tauto. Qed.

Lemma accept_complete_lemma : forall cfg fs d v,
  decode cfg fs d = Some v -> meets cfg fs d = true -> unmarshal fixed cfg fs d = Ok v.
Proof. intros cfg fs d v H1 H2. apply unmarshal_iff. tauto. Qed.

(* membership of a field in a struct type *)
Fixpoint field_in (key : string) (o : option fopts) (t : ftype) (fs : fields) : Prop :=
  match fs with
  | FNil => False
  | FCons k' o' t' rest => (k' = key /\ o' = o /\ t' = t) \/ field_in key o t rest
  | FEmbed opt _ inner rest =>
    (* the members of a non-optional embedded struct are fields of the same object *)
    (opt = false /\ field_in key o t inner) \/ field_in key o t rest
  end.

(* the primitive kind behind any number of pointers *)
Fixpoint scalar_kind (t : ftype) : option kind :=
  match t with TPrim k => Some k | TPtr t' => scalar_kind t' | _ => None end.

Definition field_cond (cfg : ucfg) (key : string) (o : option fopts) (t : ftype) (obj : list (string * jv)) : bool :=
  opts_ok o && dep_respected key o obj &&
  match field_input cfg t key obj with
  | None => match opt_default o with Some _ => true | None => declared_optional o obj || meets_absent cfg t end
  | Some JNull => declared_optional o obj
  | Some v => meets_present cfg t o v
  end.

Lemma meets_fields_field : forall cfg fs obj key o t,
  meets_fields cfg fs obj = true -> field_in key o t fs -> field_cond cfg key o t obj = true.
Proof.
  intros cfg fs.
  apply (fields_mind (fun _ => True)
           (fun fs => forall obj key o t, meets_fields cfg fs obj = true -> field_in key o t fs ->
                                          field_cond cfg key o t obj = true)); auto.
  - intros k' o' t' _ rest IH obj key o t Hm Hin.
    simpl in Hm. apply andb_true_iff in Hm. destruct Hm as [Hm Hr].
    destruct Hin as [[Hk [Ho Ht]]|Hin].
    + subst. exact Hm.
    + apply (IH obj key o t Hr Hin).
  - intros opt ptr inner IHi rest IHr obj key o t Hm Hin.
    simpl in Hm. apply andb_true_iff in Hm. destruct Hm as [Hm Hr].
    destruct Hin as [[Hopt Hin]|Hin].
    + subst opt. apply (IHi obj key o t Hm Hin).
    + apply (IHr obj key o t Hr Hin).
Qed.

Lemma meets_scalar : forall cfg t k o v,
  scalar_kind t = Some k ->
  meets_present cfg t o v = range_ok (reads_strings cfg o) k (opt_range o) v && options_ok (opt_options o) v.
Proof.
  intros cfg t. induction t; intros k' o v H; simpl in H; try discriminate.
  - inversion H. reflexivity.
  - simpl. apply IHt. exact H.
Qed.

Lemma meets_absent_scalar : forall cfg t k, scalar_kind t = Some k -> meets_absent cfg t = false.
Proof.
  intros cfg t. induction t; intros k' H; simpl in H; try discriminate.
  - reflexivity.
  - simpl. apply (IHt k'). exact H.
Qed.

Lemma top_meets : forall cfg fs obj v,
  unmarshal fixed cfg fs (Some (JObj obj)) = Ok v -> meets_fields cfg fs obj = true.
Proof. intros cfg fs obj v H. apply accept_sound_lemma in H. exact H. Qed.

Lemma required_supplied_lemma : forall cfg fs obj v key o t k,
  unmarshal fixed cfg fs (Some (JObj obj)) = Ok v ->
  field_in key o t fs -> scalar_kind t = Some k ->
  opt_default o = None -> declared_optional o obj = false ->
  exists x, field_input cfg t key obj = Some x /\ x <> JNull.
Proof.
  intros cfg fs obj v key o t k Hu Hin Hk Hd Ho.
  pose proof (meets_fields_field _ _ _ _ _ _ (top_meets _ _ _ _ Hu) Hin) as Hc.
  unfold field_cond in Hc. apply andb_true_iff in Hc. destruct Hc as [_ Hc].
  rewrite Hd, Ho, (meets_absent_scalar cfg t k Hk) in Hc.
  destruct (field_input cfg t key obj) as [x|]; [|discriminate].
  exists x. split; [reflexivity|]. intro Hx. subst x. discriminate.
Qed.

Lemma supplied_in_range_lemma : forall cfg fs obj v key o t k x r,
  unmarshal fixed cfg fs (Some (JObj obj)) = Ok v ->
  field_in key o t fs -> scalar_kind t = Some k ->
  field_input cfg t key obj = Some x -> x <> JNull -> opt_range o = Some r ->
  exists d, supplied_num (reads_strings cfg o) k x = Some (FDec d) /\
            match r_l r with None => True | Some l => if r_li r then dec_leb l d = true else dec_ltb l d = true end /\
            match r_r r with None => True | Some h => if r_ri r then dec_leb d h = true else dec_ltb d h = true end.
Proof.
  intros cfg fs obj v key o t k x r Hu Hin Hk Hx Hnn Hr.
  pose proof (meets_fields_field _ _ _ _ _ _ (top_meets _ _ _ _ Hu) Hin) as Hc.
  unfold field_cond in Hc. apply andb_true_iff in Hc. destruct Hc as [_ Hc]. rewrite Hx in Hc.
  assert (Hm : meets_present cfg t o x = true) by (destruct x; try exact Hc; contradiction).
  rewrite (meets_scalar cfg t k o x Hk) in Hm. apply andb_true_iff in Hm. destruct Hm as [Hm _].
  unfold range_ok in Hm. rewrite Hr in Hm.
  destruct (supplied_num (reads_strings cfg o) k x) as [[d| |]|]; try discriminate.
  exists d. split; [reflexivity|]. unfold in_range in Hm. apply andb_true_iff in Hm. destruct Hm as [H1 H2].
  split.
  - destruct (r_l r); [|exact I]. destruct (r_li r); exact H1.
  - destruct (r_r r); [|exact I]. destruct (r_ri r); exact H2.
Qed.

Lemma str_in_In : forall s l, str_in s l = true -> In s l.
Proof.
  intros s l. unfold str_in. rewrite existsb_exists. intros [y [Hin He]].
  apply String.eqb_eq in He. subst. exact Hin.
Qed.

Lemma supplied_in_options_lemma : forall cfg fs obj v key o t k x,
  unmarshal fixed cfg fs (Some (JObj obj)) = Ok v ->
  field_in key o t fs -> scalar_kind t = Some k ->
  field_input cfg t key obj = Some x -> x <> JNull -> opt_options o <> [] ->
  exists s, supplied_text x = Some s /\ In s (opt_options o).
Proof.
  intros cfg fs obj v key o t k x Hu Hin Hk Hx Hnn Ho.
  pose proof (meets_fields_field _ _ _ _ _ _ (top_meets _ _ _ _ Hu) Hin) as Hc.
  unfold field_cond in Hc. apply andb_true_iff in Hc. destruct Hc as [_ Hc]. rewrite Hx in Hc.
  assert (Hm : meets_present cfg t o x = true) by (destruct x; try exact Hc; contradiction).
  rewrite (meets_scalar cfg t k o x Hk) in Hm. apply andb_true_iff in Hm. destruct Hm as [_ Hm].
  unfold options_ok in Hm. destruct (opt_options o) as [|s0 l0] eqn:Hl; [contradiction|].
  destruct (supplied_text x) as [s|]; [|discriminate].
  exists s. split; [reflexivity|]. apply str_in_In. exact Hm.
Qed.

Lemma dependency_respected_lemma : forall cfg fs obj v key o t,
  unmarshal fixed cfg fs (Some (JObj obj)) = Ok v ->
  field_in key o t fs -> dep_respected key o obj = true.
Proof.
  intros cfg fs obj v key o t Hu Hin.
  pose proof (meets_fields_field _ _ _ _ _ _ (top_meets _ _ _ _ Hu) Hin) as Hc.
  unfold field_cond in Hc. apply andb_true_iff in Hc. destruct Hc as [Hc _].
  apply andb_true_iff in Hc. tauto.
Qed.

(* ------------------------------------------------------------------ sequences of requests *)

Lemma requests_independent_lemma : forall pre r post,
  nth_error (run_requests fixed (pre ++ r :: post)) (List.length pre) = Some (serve fixed r).
Proof.
  intros pre r post. unfold run_requests. rewrite map_app. simpl.
  rewrite nth_error_app2; rewrite map_length; [|apply Nat.le_refl].
  rewrite Nat.sub_diag. reflexivity.
Qed.

Lemma sequence_each_lemma : forall rs i r v,
  nth_error rs i = Some r ->
  nth_error (run_requests fixed rs) i = Some (Ok v) ->
  decode (rq_cfg r) (rq_type r) (rq_doc r) = Some v /\ meets (rq_cfg r) (rq_type r) (rq_doc r) = true.
Proof.
  intros rs i r v Hr Hv. unfold run_requests in Hv.
  rewrite (map_nth_error (serve fixed) i rs Hr) in Hv. inversion Hv as [Hs].
  unfold serve in Hs. apply unmarshal_iff in Hs. exact Hs.
Qed.

Lemma sequence_no_panic_lemma : forall rs i, nth_error (run_requests fixed rs) i <> Some Panic.
Proof.
  intros rs i H. unfold run_requests in H. apply nth_error_In in H. apply in_map_iff in H.
  destruct H as [r [Hs _]]. unfold serve in Hs. exact (unmarshal_no_panic _ _ _ Hs).
Qed.
