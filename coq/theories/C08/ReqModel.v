(* C08 — the REQUEST OBJECT the REST entry points look at, and rest/httpx.GetFormValues.
   Executable only, no proofs.

   KModel.v knows calls: every call brings its own documents.  A handler, a validator and a
   middleware of one HTTP request look at ONE *http.Request: net/http parses the form once and
   keeps it (r.Form), the headers and the path variables are maps of the request, and each of
   httpx.Parse / ParseForm / ParsePath / ParseHeaders / ParseJsonBody / GetFormValues derives the
   document of its unmarshaller from that object every time it is applied.  This file models

   * [form_values] = rest/httpx/util.go GetFormValues: the values of every parameter with the empty
     ones dropped (order kept), parameters left without a value dropped, a trailing "[]" of the
     name removed, more than maxFormParamCount values refused;
   * the documents the other passes derive (path variables, headers);
   * [serve_shared]: a list of looks at one request, the request handed from look to look through
     [touch] — what an entry point leaves behind in the caller's object.  go-zero's entry points
     leave it as it was ([touch_head]); the variant that drops the empty values in place
     ([touch_inplace], seeded change C08-10) is refuted in PinnedK.v. *)
From Coq Require Import List ZArith Bool String Ascii.
From GZ Require Import C08.Model C08.KModel.
Import ListNotations.
Local Open Scope Z_scope.
Local Open Scope string_scope.

(* r.Form / r.Header: name -> the values in the order the client sent them *)
Definition rform := list (string * list string).

Definition nonempty (s : string) : bool := negb (String.eqb s "").

(* the values GetFormValues keeps *)
Definition kept (vs : list string) : list string := filter nonempty vs.

(* names[] -> names (bracket notation of repeated parameters) *)
Fixpoint strip_suffix (s : string) : string :=
  if String.eqb s "[]" then ""
  else match s with
       | String c r => String c (strip_suffix r)
       | EmptyString => EmptyString
       end.

Fixpoint total_kept (f : rform) : Z :=
  match f with
  | [] => 0
  | (_, vs) :: rest => Z.of_nat (List.length (kept vs)) + total_kept rest
  end.

Fixpoint params_of (f : rform) : list (string * jv) :=
  match f with
  | [] => []
  | (name, vs) :: rest =>
    match kept vs with
    | [] => params_of rest
    | k :: ks => (strip_suffix name, JArr (map JStr (k :: ks))) :: params_of rest
    end
  end.

(* GetFormValues: [None] = "too many form values" (ParseForm fails before the unmarshaller runs) *)
Definition form_values (max : Z) (f : rform) : option jv :=
  if total_kept f >? max then None else Some (JObj (params_of f)).

Record hrequest := mkHReq
  { hr_vars : list (string * string);    (* pathvar.Vars(r) *)
    hr_form : rform;                     (* r.Form: query, posted and multipart parameters *)
    hr_header : rform;                   (* r.Header *)
    hr_body : option jv }.               (* what the decoder makes of the JSON body ({} without one; None: refused) *)

Definition path_doc (r : hrequest) : option jv :=
  Some (JObj (map (fun p => (fst p, JStr (snd p))) (hr_vars r))).

(* rest/internal/encoding.ParseHeaders: a single value stays a string *)
Definition header_doc (r : hrequest) : option jv :=
  Some (JObj (map (fun p => (fst p, match snd p with [v] => JStr v | vs => JArr (map JStr vs) end)) (hr_header r))).

(* the target type as each unmarshaller of httpx sees it (fields tagged for it) *)
Record views := mkViews { v_path : fields; v_form : fields; v_header : fields; v_json : fields }.

Inductive entry :=
| EParse (validator : option bool)
| EParseForm | EGetFormValues | EParsePath | EParseHeaders | EParseJsonBody.

Record look := mkLook { l_entry : entry; l_views : views }.

Section Looks.
  Variable max : Z.                       (* maxFormParamCount *)

  Definition pass_path (vw : views) (r : hrequest) : pass := mkPass kc_path (v_path vw) (path_doc r).
  Definition pass_form (vw : views) (r : hrequest) : pass := mkPass kc_form (v_form vw) (form_values max (hr_form r)).
  Definition pass_header (vw : views) (r : hrequest) : pass := mkPass kc_header (v_header vw) (header_doc r).
  Definition pass_json (vw : views) (r : hrequest) : pass := mkPass kc_json (v_json vw) (hr_body r).

  (* the call an entry point makes of the request it is given *)
  Definition call_on (r : hrequest) (l : look) : call :=
    let vw := l_views l in
    match l_entry l with
    | EParse vd => mkCall [pass_path vw r; pass_form vw r; pass_header vw r; pass_json vw r] vd
    | EParseForm | EGetFormValues => mkCall [pass_form vw r] None
    | EParsePath => mkCall [pass_path vw r] None
    | EParseHeaders => mkCall [pass_header vw r] None
    | EParseJsonBody => mkCall [pass_json vw r] None
    end.

  (* what an entry point leaves in the caller's request *)
  Variable touch : entry -> hrequest -> hrequest.

  Fixpoint serve_shared (r : hrequest) (ls : list look) : hrequest * list cresult :=
    match ls with
    | [] => (r, [])
    | l :: ls' =>
      let res := serve_call (call_on r l) in
      let '(r', rs) := serve_shared (touch (l_entry l) r) ls' in
      (r', res :: rs)
    end.
End Looks.

(* go-zero: GetFormValues copies the values it keeps; nothing is written into the request *)
Definition touch_head (e : entry) (r : hrequest) : hrequest := r.

(* `filtered := values[:0]` + append: the kept values are written over the front of the very
   slice r.Form holds; its length stays *)
Definition compact (vs : list string) : list string := (kept vs ++ skipn (List.length (kept vs)) vs)%list.

Definition touch_inplace (e : entry) (r : hrequest) : hrequest :=
  match e with
  | EParsePath | EParseHeaders | EParseJsonBody => r
  | _ => mkHReq (hr_vars r) (map (fun p => (fst p, compact (snd p))) (hr_form r)) (hr_header r) (hr_body r)
  end.

(* structural equality of documents (Check.v: the document the generator hands to a form pass is
   [form_values] of the parameters it sent) *)
Fixpoint jv_eqb (a b : jv) {struct a} : bool :=
  match a, b with
  | JNull, JNull => true
  | JBool x, JBool y => Bool.eqb x y
  | JNum x, JNum y => String.eqb x y
  | JStr x, JStr y => String.eqb x y
  | JNat k x, JNat k' y => kind_eqb k k' && String.eqb x y
  | JArr l1, JArr l2 =>
    (fix go (l1 l2 : list jv) : bool :=
       match l1, l2 with
       | [], [] => true
       | x :: l1', y :: l2' => jv_eqb x y && go l1' l2'
       | _, _ => false
       end) l1 l2
  | JObj o1, JObj o2 =>
    (fix go (o1 o2 : list (string * jv)) : bool :=
       match o1, o2 with
       | [], [] => true
       | (k, x) :: o1', (k', y) :: o2' => String.eqb k k' && jv_eqb x y && go o1' o2'
       | _, _ => false
       end) o1 o2
  | _, _ => false
  end.

Definition optjv_eqb (a b : option jv) : bool :=
  match a, b with
  | Some x, Some y => jv_eqb x y
  | None, None => true
  | _, _ => false
  end.
