(* C08 — the property's own vocabulary, executable, written without looking at the
   unmarshaller's control flow:

     [decode cfg fs doc]  typed decoding: which Go value the document denotes at the struct
                          type (supplied values converted at the field's kind, declared
                          defaults for absent keys, zero values otherwise); [None] when some
                          supplied value is not of the field's type.  No constraint is looked at.
     [meets cfg fs doc]   every declared constraint holds of the document: tags are
                          well-formed, dependency options are respected, every field that is
                          neither optional (in its context) nor defaulted is supplied, every
                          supplied number lies inside its range, every supplied optioned value
                          is one of its options — recursively through structs, slices, maps.

   Props.v proves   unmarshal = Ok v  <->  decode = Some v /\ meets = true.
   Check.v evaluates [decode] / [meets] directly on what the implementation returned. *)
From Coq Require Import List ZArith Bool String Ascii.
From GZ Require Import C08.Model.
Import ListNotations.
Open Scope Z_scope.

Definition obind {A B} (o : option A) (f : A -> option B) : option B :=
  match o with Some a => f a | None => None end.

Fixpoint omapM {A B} (f : A -> option B) (l : list A) : option (list B) :=
  match l with
  | [] => Some []
  | x :: l' => obind (f x) (fun y => obind (omapM f l') (fun ys => Some (y :: ys)))
  end.

(* ---- optional-ness of a field in the context of its object ---- *)

(* "optional": always; "optional=b": exactly when b is absent; "optional=!b": exactly when b is present *)
Definition declared_optional {A} (o : option fopts) (obj : list (string * A)) : bool :=
  match o with
  | None => false
  | Some o =>
    o_optional o &&
    match o_dep o with
    | None => true
    | Some (neg, dep) =>
      if String.eqb dep "" then true else if neg then has dep obj else negb (has dep obj)
    end
  end.

(* "optional=b": both or neither supplied; "optional=!b": exactly one of the two *)
Definition dep_respected {A} (key : string) (o : option fopts) (obj : list (string * A)) : bool :=
  match o with
  | None => true
  | Some o =>
    if o_optional o then
      match o_dep o with
      | None => true
      | Some (neg, dep) =>
        if String.eqb dep "" then negb neg
        else if neg then negb (Bool.eqb (has dep obj) (has key obj))
        else Bool.eqb (has dep obj) (has key obj)
      end
    else true
  end.

Definition opt_default (o : option fopts) : option string :=
  match o with Some o => o_default o | None => None end.
Definition opt_range (o : option fopts) : option range :=
  match o with Some o => o_range o | None => None end.
Definition opt_options (o : option fopts) : list string :=
  match o with Some o => o_options o | None => [] end.
Definition opt_string (o : option fopts) : bool :=
  match o with Some o => o_string o | None => false end.

(* ---- supplied scalars ---- *)

(* values are read "from strings" under form/path/header and under the [string] tag option *)
Definition reads_strings (cfg : ucfg) (o : option fopts) : bool := u_fromString cfg || opt_string o.

(* the Go value a supplied scalar denotes at kind k *)
Definition decode_prim (fs : bool) (k : kind) (v : jv) : option gval :=
  if fs then
    match v with
    | JStr s | JNum s => conv_string k s
    | _ => None
    end
  else
    match v with
    | JNum s =>
      match k with
      | KInt _ | KUint _ => conv_string k s
      | KF32 => obind (parse_float false s) (fun f => if overflow32 f then None else Some (VFloat f))
      | KF64 => option_map VFloat (parse_float false s)
      | KBool | KStr => None
      end
    | JBool b => if kind_eqb k KBool then Some (VBool b) else None
    | JStr s => if kind_eqb k KStr then Some (VStr s) else None
    | JNat k' s => if kind_eqb k k' && is_numeric k then conv_string k s else None
    | _ => None
    end.

(* the number a supplied scalar stands for (None: it is not a number) *)
Definition supplied_num (fs : bool) (k : kind) (v : jv) : option fval :=
  match v with
  | JNum s => parse_float false s
  | JStr s => if fs then obind (conv_string k s) gval_num else None
  | JNat _ s => if fs then None else obind (conv_string k s) gval_num
  | _ => None
  end.

(* the text compared with the declared options *)
Definition supplied_text (v : jv) : option string :=
  match v with
  | JNum s | JStr s | JNat _ s => Some s
  | JBool b => Some (bool_text b)
  | _ => None
  end.

Definition range_ok (fs : bool) (k : kind) (r : option range) (v : jv) : bool :=
  match r with
  | None => true
  | Some r =>
    match supplied_num fs k v with
    | Some (FDec d) => in_range r d
    | _ => false                      (* NaN, infinities and non-numbers are never inside a range *)
    end
  end.

Definition options_ok (opts : list string) (v : jv) : bool :=
  match opts with
  | [] => true
  | l => match supplied_text v with Some s => str_in s l | None => false end
  end.

Definition decode_elem_prim (inmap : bool) (k : kind) (v : jv) : option gval :=
  match v with
  | JNum s => conv_string k s
  | JStr s => if inmap then (if kind_eqb k KStr then Some (VStr s) else None) else conv_string k s
  | JBool b => if kind_eqb k KBool then Some (VBool b) else None
  | JNat k' s => if inmap then None
                 else if kind_eqb k k' && is_numeric k then conv_string k s else None
  | _ => None
  end.

Definition decode_slice (f : jv -> option gval) (z : gval) (l : list jv) : option gval :=
  match l with
  | [] => Some (VSlice [])
  | _ =>
    obind (omapM (fun v => match v with JNull => Some z | _ => f v end) l)
          (fun xs => Some (if forallb is_null l then VNil else VSlice xs))
  end.

Definition decode_map (f : jv -> option gval) (o : list (string * jv)) : option gval :=
  obind (omapM (fun kv => obind (f (snd kv)) (fun x => Some (fst kv, x))) o) (fun xs => Some (VMap xs)).

Fixpoint decode_default (t : ftype) (d : string) : option gval :=
  match t with
  | TPrim k => conv_string k d
  | TPtr t' => option_map VPtr (decode_default t' d)
  | _ => None
  end.

(* ---- typed decoding ---- *)

Fixpoint decode_present (cfg : ucfg) (fs : bool) (t : ftype) (v : jv) {struct t} : option gval :=
  match t with
  | TPrim k => decode_prim fs k v
  | TPtr t' => option_map VPtr (decode_present cfg fs t' v)
  | TStruct fl => match v with JObj o => option_map VStruct (decode_fields cfg fl o) | _ => None end
  | TSlice e => match v with JArr l => decode_slice (decode_elem cfg false e) (zero e) l | _ => None end
  | TMap e => match v with JObj o => decode_map (decode_elem cfg true e) o | _ => None end
  end

with decode_elem (cfg : ucfg) (inmap : bool) (t : ftype) (v : jv) {struct t} : option gval :=
  match t with
  | TPrim k => decode_elem_prim inmap k v
  | TPtr t' => option_map VPtr (decode_elem cfg inmap t' v)
  | TStruct fl => match v with JObj o => option_map VStruct (decode_fields cfg fl o) | _ => None end
  | TSlice e => match v with JArr l => decode_slice (decode_elem cfg false e) (zero e) l | _ => None end
  | TMap e => match v with JObj o => decode_map (decode_elem cfg true e) o | _ => None end
  end

(* an absent field that is neither optional nor defaulted: a struct is filled from the
   empty object, a map is made empty, anything else stays zero (and [meets] fails) *)
with decode_absent (cfg : ucfg) (t : ftype) {struct t} : option gval :=
  match t with
  | TPrim _ => Some (zero t)
  | TPtr t' => option_map VPtr (decode_absent cfg t')
  | TSlice _ => Some VNil
  | TMap _ => Some (VMap [])
  | TStruct fl => option_map VStruct (decode_fields cfg fl [])
  end

with decode_fields (cfg : ucfg) (fl : fields) (obj : list (string * jv)) {struct fl} : option (list gval) :=
  match fl with
  | FNil => Some []
  | FCons key o t rest =>
    obind (match field_input cfg t key obj with
           | None =>
             match opt_default o with
             | Some d => decode_default t d
             | None => if declared_optional o obj then Some (zero t) else decode_absent cfg t
             end
           | Some JNull => Some (zero t)
           | Some v => decode_present cfg (reads_strings cfg o) t v
           end)
          (fun x => obind (decode_fields cfg rest obj) (fun xs => Some (x :: xs)))
  | FEmbed opt ptr inner rest =>
    (* an embedded struct's members are read from the same object.  A non-optional one is
       always built; an optional one is built only if some member key is present, and then its
       absent members hold their defaults (zero without one) *)
    obind (if opt then
             let filled := any_present inner obj in
             obind (decode_opt_members cfg inner obj filled)
                   (fun xs => Some (if ptr then (if filled then VPtr (VStruct xs) else VNil) else VStruct xs))
           else
             obind (decode_fields cfg inner obj)
                   (fun xs => Some (if ptr then VPtr (VStruct xs) else VStruct xs)))
          (fun x => obind (decode_fields cfg rest obj) (fun xs => Some (x :: xs)))
  end

with decode_opt_members (cfg : ucfg) (fl : fields) (obj : list (string * jv)) (filled : bool)
                        {struct fl} : option (list gval) :=
  match fl with
  | FNil => Some []
  | FCons key o t rest =>
    obind (match field_input cfg t key obj with
           | None =>
             match opt_default o with
             | Some d => if filled then decode_default t d else Some (zero t)
             | None => Some (zero t)
             end
           | Some JNull => Some (zero t)
           | Some v => decode_present cfg (reads_strings cfg o) t v
           end)
          (fun x => obind (decode_opt_members cfg rest obj filled) (fun xs => Some (x :: xs)))
  | FEmbed _ ptr inner rest =>
    obind (decode_opt_members cfg rest obj filled)
          (fun xs => Some ((if ptr then VNil else VStruct (zero_fields inner)) :: xs))
  end.

Definition decode (cfg : ucfg) (fl : fields) (d : option jv) : option gval :=
  match d with
  | Some (JObj o) => option_map VStruct (decode_fields cfg fl o)
  | _ => None
  end.

(* ---- constraints ---- *)

Definition all_elems (f : jv -> bool) (l : list jv) : bool :=
  forallb (fun v => match v with JNull => true | _ => f v end) l.
Definition all_values (f : jv -> bool) (o : list (string * jv)) : bool :=
  forallb (fun kv => f (snd kv)) o.

(* "fully set": every member of an optional embedded struct is supplied, defaulted, or
   optional in its context (an embedded struct nested in it can never be supplied) *)
Fixpoint fully_set (fl : fields) (obj : list (string * jv)) : bool :=
  match fl with
  | FNil => true
  | FCons key o _ rest =>
    (has key obj || declared_optional o obj || match opt_default o with Some _ => true | None => false end)
    && fully_set rest obj
  | FEmbed opt _ _ rest => opt && fully_set rest obj
  end.

Fixpoint meets_present (cfg : ucfg) (t : ftype) (o : option fopts) (v : jv) {struct t} : bool :=
  match t with
  | TPrim k => range_ok (reads_strings cfg o) k (opt_range o) v && options_ok (opt_options o) v
  | TPtr t' => meets_present cfg t' o v
  | TStruct fl => match v with JObj ob => meets_fields cfg fl ob | _ => true end
  | TSlice e => match v with JArr l => all_elems (meets_elem cfg e) l | _ => true end
  | TMap e => match v with JObj ob => all_values (meets_elem cfg e) ob | _ => true end
  end

with meets_elem (cfg : ucfg) (t : ftype) (v : jv) {struct t} : bool :=
  match t with
  | TPrim _ => true
  | TPtr t' => meets_elem cfg t' v
  | TStruct fl => match v with JObj ob => meets_fields cfg fl ob | _ => true end
  | TSlice e => match v with JArr l => all_elems (meets_elem cfg e) l | _ => true end
  | TMap e => match v with JObj ob => all_values (meets_elem cfg e) ob | _ => true end
  end

(* may a field that is neither optional nor defaulted be left out?  Only a map, or a struct
   none of whose own fields has to be supplied *)
with meets_absent (cfg : ucfg) (t : ftype) {struct t} : bool :=
  match t with
  | TPrim _ => false
  | TPtr t' => meets_absent cfg t'
  | TSlice _ => false
  | TMap _ => true
  | TStruct fl => negb (required_fields fl) && meets_fields cfg fl []
  end

with meets_fields (cfg : ucfg) (fl : fields) (obj : list (string * jv)) {struct fl} : bool :=
  match fl with
  | FNil => true
  | FCons key o t rest =>
    opts_ok o && dep_respected key o obj &&
    match field_input cfg t key obj with
    | None =>
      match opt_default o with
      | Some _ => true
      | None => declared_optional o obj || meets_absent cfg t
      end
    | Some JNull => declared_optional o obj
    | Some v => meets_present cfg t o v
    end &&
    meets_fields cfg rest obj
  | FEmbed opt ptr inner rest =>
    (if opt then
       (* the supplied members meet their constraints, and if any is supplied the struct is fully set *)
       meets_opt_members cfg inner obj && (negb (any_present inner obj) || fully_set inner obj)
     else meets_fields cfg inner obj) &&
    meets_fields cfg rest obj
  end

with meets_opt_members (cfg : ucfg) (fl : fields) (obj : list (string * jv)) {struct fl} : bool :=
  match fl with
  | FNil => true
  | FCons key o t rest =>
    opts_ok o && dep_respected key o obj &&
    match field_input cfg t key obj with
    | None => true
    | Some JNull => declared_optional o obj
    | Some v => meets_present cfg t o v
    end &&
    meets_opt_members cfg rest obj
  | FEmbed _ _ _ rest => meets_opt_members cfg rest obj
  end.

Definition meets (cfg : ucfg) (fl : fields) (d : option jv) : bool :=
  match d with
  | Some (JObj o) => meets_fields cfg fl o
  | _ => false
  end.
