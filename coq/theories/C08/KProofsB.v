(* C08 — proofs, part B of the key look-up semantics:
   - the three directions of the characterisation, per call (several passes + validator);
   - what the two segmenters of go-zero do (opaque: the parameter of that name; dotted: the
     member at the end of the path), and that they differ on keys with a dot;
   - on keys that are their own single segment the unmarshaller of KModel.v IS the one of
     Model.v (so Model.v's theorems, used by C17, are the special case);
   - calls served by one process are independent. *)
From Coq Require Import List ZArith Bool String Ascii Lia.
From GZ Require Import C08.Model C08.Spec C08.Proofs C08.KModel C08.KSpec C08.KProofs.
Import ListNotations.
Open Scope Z_scope.

(* ------------------------------------------------------------------ directions *)

Lemma acceptK_sound_lemma : forall kc fs d v,
  unmarshalK kc fs d = Ok v -> meetsK kc fs d = true.
Proof. intros kc fs d v H. apply unmarshalK_iff in H. tauto. Qed.

Lemma acceptK_exact_lemma : forall kc fs d v,
  unmarshalK kc fs d = Ok v -> decodeK kc fs d = Some v.
Proof. intros kc fs d v H. apply unmarshalK_iff in H. tauto. Qed.

Lemma acceptK_complete_lemma : forall kc fs d v,
  decodeK kc fs d = Some v -> meetsK kc fs d = true -> unmarshalK kc fs d = Ok v.
Proof. intros kc fs d v H1 H2. apply unmarshalK_iff. tauto. Qed.

(* ------------------------------------------------------------------ the segmenters *)

Fixpoint no_dot (s : string) : bool :=
  match s with EmptyString => true | String c r => negb (is_dot c) && no_dot r end.

Lemma append_nonempty : forall a c, String.eqb (a ++ String c "") "" = false.
Proof. intros a c. destruct a; reflexivity. Qed.

Lemma split_dot_go_nodot : forall s acc,
  no_dot s = true -> String.eqb (acc ++ s) "" = false -> split_dot_go s acc = [(acc ++ s)%string].
Proof.
  induction s as [|c r IH]; intros acc Hn Hne; simpl.
  - assert (E : (acc ++ "")%string = acc).
    { clear. induction acc; simpl; [reflexivity | rewrite IHacc; reflexivity]. }
    rewrite E in *. rewrite Hne. reflexivity.
  - simpl in Hn. apply andb_true_iff in Hn. destruct Hn as [Hc Hr]. apply negb_true_iff in Hc. rewrite Hc.
    assert (E : ((acc ++ String c "") ++ r)%string = (acc ++ String c r)%string).
    { clear. induction acc; simpl; [reflexivity | rewrite IHacc; reflexivity]. }
    rewrite IH; [rewrite E; reflexivity | exact Hr | rewrite E; exact Hne].
Qed.

(* a non-empty key without a dot is its own single segment *)
Lemma seg_dotted_simple : forall key,
  no_dot key = true -> String.eqb key "" = false -> seg_dotted key = [key].
Proof. intros key Hn Hne. unfold seg_dotted. rewrite split_dot_go_nodot; auto. Qed.

Lemma getv_single : forall kc env key o, k_seg kc key = [key] -> getv kc env key o = lookup key o.
Proof. intros kc env key o H. unfold getv. rewrite H. destruct (lookup key o); reflexivity. Qed.

(* opaque keys: the entry of that name, whatever characters the key contains *)
Lemma getv_opaque : forall cfg env key o, getv (mkK cfg seg_opaque) env key o = lookup key o.
Proof. intros. apply getv_single. reflexivity. Qed.

(* chained keys, two segments: the member of the nested object (when it is not itself an object
   that an enclosing scope extends) *)
Lemma getv_nested : forall kc env key k0 k1 o vm v,
  k_seg kc key = [k0; k1] -> lookup k0 o = Some (JObj vm) -> lookup k1 vm = Some v ->
  (forall m, v <> JObj m) -> getv kc env key o = Some v.
Proof.
  intros kc env key k0 k1 o vm v Hs H0 H1 Hv. unfold getv. rewrite Hs, H0. simpl. rewrite H1.
  destruct v; try reflexivity. exfalso. apply (Hv l). reflexivity.
Qed.

(* chained keys never see an entry whose name is the whole dotted text *)
Lemma getv_first_segment_absent : forall kc env key k0 ks o,
  k_seg kc key = k0 :: ks -> lookup k0 o = None -> getv kc env key o = None.
Proof. intros kc env key k0 ks o Hs H0. unfold getv. rewrite Hs, H0. reflexivity. Qed.

(* ------------------------------------------------------------------ collapse onto Model.v *)

Definition plain_key (kc : kcfg) (key : string) : bool :=
  match k_seg kc key with [k] => String.eqb k key | _ => false end && negb (ignored key).

Fixpoint plain_type (kc : kcfg) (t : ftype) : bool :=
  match t with
  | TPrim _ => true
  | TPtr t' | TSlice t' | TMap t' => plain_type kc t'
  | TStruct fs => plain_fields kc fs
  end
with plain_fields (kc : kcfg) (fs : fields) : bool :=
  match fs with
  | FNil => true
  | FCons key o t rest =>
    plain_key kc key && plain_type kc t
    && match opt_default o with Some _ => negb (is_slice_deref t) | None => true end   (* Model.v has no default on slices *)
    && plain_fields kc rest
  | FEmbed _ _ inner rest => plain_fields kc inner && plain_fields kc rest
  end.

Lemma plain_key_seg : forall kc key, plain_key kc key = true -> k_seg kc key = [key] /\ ignored key = false.
Proof.
  intros kc key H. unfold plain_key in H. apply andb_true_iff in H. destruct H as [H1 H2].
  apply negb_true_iff in H2. split; [|exact H2].
  destruct (k_seg kc key) as [|k [|k' r]]; try discriminate. apply String.eqb_eq in H1. subst. reflexivity.
Qed.

Lemma any_presentK_plain : forall kc env fs o,
  plain_fields kc fs = true -> any_presentK kc env fs o = any_present fs o.
Proof.
  intros kc env fs o. induction fs as [|key op t rest IH|opt ptr inner IHi rest IH]; intro H; simpl in *.
  - reflexivity.
  - apply andb_true_iff in H. destruct H as [H Hr]. apply andb_true_iff in H. destruct H as [H _].
    apply andb_true_iff in H. destruct H as [Hk _].
    apply plain_key_seg in Hk. destruct Hk as [Hk _].
    unfold hasv. rewrite (getv_single kc env key o Hk). unfold has. rewrite IH by exact Hr. reflexivity.
  - apply IH. apply andb_true_iff in H. tauto.
Qed.

(* Model.v refuses a string for a slice field; KModel.v reads it as a JSON array.  The two agree on
   documents none of whose strings spells a JSON array or null. *)
Definition str_inert (s : string) : bool :=
  match json_value s with Some (JArr _) | Some JNull => false | _ => true end.

Fixpoint doc_inert (v : jv) : bool :=
  match v with
  | JStr s => str_inert s
  | JArr l => (fix go (l : list jv) := match l with [] => true | x :: r => doc_inert x && go r end) l
  | JObj o => (fix go (o : list (string * jv)) := match o with [] => true | (_, x) :: r => doc_inert x && go r end) o
  | _ => true
  end.

Lemma inert_arr : forall l x, doc_inert (JArr l) = true -> In x l -> doc_inert x = true.
Proof.
  induction l as [|y r IH]; intros x H Hin; [destruct Hin|].
  simpl in H. apply andb_true_iff in H. destruct H as [Hy Hr]. destruct Hin as [E|Hin]; [subst; exact Hy|].
  apply IH; [exact Hr | exact Hin].
Qed.

Lemma inert_obj : forall (o : list (string * jv)) kv, doc_inert (JObj o) = true -> In kv o -> doc_inert (snd kv) = true.
Proof.
  induction o as [|[k y] r IH]; intros kv H Hin; [destruct Hin|].
  simpl in H. apply andb_true_iff in H. destruct H as [Hy Hr]. destruct Hin as [E|Hin]; [subst; exact Hy|].
  apply IH; [exact Hr | exact Hin].
Qed.

Lemma inert_lookup : forall (o : list (string * jv)) k v, doc_inert (JObj o) = true -> lookup k o = Some v -> doc_inert v = true.
Proof.
  induction o as [|[k' y] r IH]; intros k v H Hl; [discriminate|].
  simpl in H. apply andb_true_iff in H. destruct H as [Hy Hr]. simpl in Hl.
  destruct (String.eqb k k'); [inversion Hl; subst; exact Hy | apply (IH k v Hr Hl)].
Qed.

Lemma inert_from_array : forall cfg t v, doc_inert v = true -> doc_inert (from_array cfg t v) = true.
Proof.
  intros cfg t v H. unfold from_array. destruct (u_fromArray cfg); [|exact H].
  destruct t; try exact H; destruct v; try exact H; destruct l; try exact H;
    simpl in H; apply andb_true_iff in H; tauto.
Qed.

Section Collapse.
Variable kc : kcfg.

Definition CK_type (t : ftype) : Prop :=
  plain_type kc t = true ->
  (forall env ro v, doc_inert v = true -> umk_present kc env t ro v = um_present fixed (k_cfg kc) t ro v) /\
  (forall inmap v, doc_inert v = true -> umk_elem kc inmap t v = um_elem fixed (k_cfg kc) inmap t v) /\
  umk_absent kc t = um_absent fixed (k_cfg kc) t.

Definition CK_fields (fs : fields) : Prop :=
  plain_fields kc fs = true ->
  (forall env o, doc_inert (JObj o) = true -> umk_fields kc env fs o = um_fields fixed (k_cfg kc) fs o) /\
  (forall env o filled, doc_inert (JObj o) = true ->
                        umk_opt_members kc env fs o filled = um_opt_members fixed (k_cfg kc) fs o filled).

Lemma mapM_ext_in : forall {A B} (f g : A -> result B) (l : list A),
  (forall a, In a l -> f a = g a) -> mapM f l = mapM g l.
Proof.
  intros A B f g l. induction l as [|x r IH]; intro H; simpl; [reflexivity|].
  rewrite (H x (or_introl eq_refl)), IH; [reflexivity|]. intros a Ha. apply H. right. exact Ha.
Qed.

Lemma slice_with_ext : forall f g z l, (forall v, In v l -> f v = g v) -> slice_with f z l = slice_with g z l.
Proof.
  intros f g z l H. unfold slice_with. destruct l as [|a l0]; [reflexivity|].
  rewrite (mapM_ext_in (fun v => match v with JNull => Ok z | _ => f v end)
                       (fun v => match v with JNull => Ok z | _ => g v end) (a :: l0)); [reflexivity|].
  intros v Hv. destruct v; try rewrite (H _ Hv); reflexivity.
Qed.

Lemma map_with_ext : forall f g (o : list (string * jv)),
  (forall kv, In kv o -> f (snd kv) = g (snd kv)) -> map_with f o = map_with g o.
Proof.
  intros f g o H. unfold map_with.
  rewrite (mapM_ext_in (fun kv : string * jv => x <- f (snd kv);; Ok (fst kv, x))
                       (fun kv : string * jv => x <- g (snd kv);; Ok (fst kv, x)) o); [reflexivity|].
  intros kv Hkv. rewrite (H kv Hkv). reflexivity.
Qed.

Lemma umk_default_plain : forall t d, is_slice_deref t = false -> umk_default kc t d = um_default t d.
Proof.
  induction t; intros d H; simpl in *; cbn [umk_default]; try reflexivity; try discriminate.
  rewrite IHt by exact H. reflexivity.
Qed.

Lemma str_slice_inert : forall e s, str_inert s = true -> str_slice e s = Err EType.
Proof.
  intros e s H. unfold str_inert in H. unfold str_slice.
  destruct (json_value s) as [[| | | |l| |]|]; try reflexivity; discriminate.
Qed.

Lemma collapse_mutual : (forall t, CK_type t) /\ (forall fs, CK_fields fs).
Proof.
  apply ftype_fields_ind.
  - intros k _. simpl. repeat split.
  - intros t IH Hp. simpl in Hp. destruct (IH Hp) as [H1 [H2 H3]].
    simpl. cbn [umk_absent um_absent]. repeat split.
    + intros env ro v Hv. rewrite H1 by exact Hv. reflexivity.
    + intros inmap v Hv. rewrite H2 by exact Hv. simpl. rewrite andb_false_r. reflexivity.
    + rewrite H3. reflexivity.
  - intros e IH Hp. simpl in Hp. destruct (IH Hp) as [H1 [H2 H3]].
    simpl. cbn [umk_absent um_absent]. repeat split.
    + intros env ro v Hv. destruct v; try reflexivity.
      * apply str_slice_inert. exact Hv.
      * apply slice_with_ext. intros x Hx. apply H2. apply (inert_arr l x Hv Hx).
    + intros inmap v Hv. destruct v; try reflexivity. apply slice_with_ext. intros x Hx. apply H2. apply (inert_arr l x Hv Hx).
  - intros e IH Hp. simpl in Hp. destruct (IH Hp) as [H1 [H2 H3]].
    simpl. cbn [umk_absent um_absent]. repeat split.
    + intros env ro v Hv. destruct v; try reflexivity. apply map_with_ext. intros kv Hkv. apply H2. apply (inert_obj l kv Hv Hkv).
    + intros inmap v Hv. destruct v; try reflexivity. apply map_with_ext. intros kv Hkv. apply H2. apply (inert_obj l kv Hv Hkv).
  - intros fs IH Hp. simpl in Hp. destruct (IH Hp) as [H1 H2].
    simpl. cbn [umk_absent um_absent]. repeat split.
    + intros env ro v Hv. destruct v; try reflexivity. rewrite H1 by exact Hv. reflexivity.
    + intros inmap v Hv. destruct v; try reflexivity. rewrite H1 by exact Hv. reflexivity.
    + rewrite H1 by reflexivity. reflexivity.
  - intros _. simpl. split; reflexivity.
  - intros key op t IHt rest IHr Hp. simpl in Hp.
    apply andb_true_iff in Hp. destruct Hp as [Hp Hrest]. apply andb_true_iff in Hp. destruct Hp as [Hp Hdef].
    apply andb_true_iff in Hp. destruct Hp as [Hk Ht].
    destruct (IHt Ht) as [H1 [H2 H3]]. destruct (IHr Hrest) as [R1 R2].
    apply plain_key_seg in Hk. destruct Hk as [Hseg Hign].
    assert (Hin : forall env o, field_inputK kc env t key o = field_input (k_cfg kc) t key o).
    { intros env o. unfold field_inputK, field_input. rewrite (getv_single kc env key o Hseg). reflexivity. }
    assert (Hiv : forall o v, doc_inert (JObj o) = true -> field_input (k_cfg kc) t key o = Some v -> doc_inert v = true).
    { intros o v Ho Hf. unfold field_input in Hf. destruct (lookup key o) as [w|] eqn:Hl; [|discriminate].
      simpl in Hf. inversion Hf. apply inert_from_array. apply (inert_lookup o key w Ho Hl). }
    split.
    + intros env o Ho. simpl. rewrite Hign, Hin, (R1 env o Ho), H3.
      destruct (guard (opts_ok op) ETag); simpl; try reflexivity.
      destruct (resolve fixed (u_canonical (k_cfg kc)) key op o) as [ro| |] eqn:Hres; simpl; try reflexivity.
      destruct (field_input (k_cfg kc) t key o) as [v|] eqn:Hf.
      * pose proof (Hiv o v Ho Hf) as Hv. destruct v; try rewrite (H1 _ _ _ Hv); reflexivity.
      * destruct (ro_default ro) as [d|] eqn:Hd; [|reflexivity].
        rewrite umk_default_plain; [reflexivity|].
        assert (Hod : opt_default op = Some d).
        { destruct op as [op'|]; simpl in *.
          - unfold resolve in Hres. destruct (o_optional op'); [destruct (o_dep op') as [[ng dp]|]|];
              repeat match type of Hres with
                     | (if ?c then _ else _) = _ => destruct c
                     end; try discriminate; inversion Hres; subst ro; simpl in Hd; exact Hd.
          - inversion Hres. subst ro. discriminate. }
        rewrite Hod in Hdef. apply negb_true_iff in Hdef. exact Hdef.
    + intros env o filled Ho. simpl. rewrite Hin, (R2 env o filled Ho).
      unfold hasv. rewrite (getv_single kc env key o Hseg). fold (has key o).
      destruct (guard (opts_ok op) ETag); simpl; try reflexivity.
      destruct (resolve fixed (u_canonical (k_cfg kc)) key op o) as [ro| |]; simpl; try reflexivity.
      destruct (field_input (k_cfg kc) t key o) as [v|] eqn:Hf.
      * pose proof (Hiv o v Ho Hf) as Hv. destruct v; try rewrite (H1 _ _ _ Hv); reflexivity.
      * destruct (ro_default ro); [|reflexivity]. rewrite andb_true_r. reflexivity.
  - intros opt ptr inner IHi rest IHr Hp. simpl in Hp. apply andb_true_iff in Hp. destruct Hp as [Hi Hrest].
    destruct (IHi Hi) as [I1 I2]. destruct (IHr Hrest) as [R1 R2]. split.
    + intros env o Ho. simpl. rewrite (R1 env o Ho), (I1 env o Ho), (any_presentK_plain kc env inner o Hi).
      rewrite (I2 env o (any_present inner o) Ho). reflexivity.
    + intros env o filled Ho. simpl. rewrite (R2 env o filled Ho). reflexivity.
Qed.

End Collapse.

(* on keys that are their own single segment, without slice defaults, and on documents whose
   strings do not spell JSON arrays: the unmarshaller of Model.v *)
Theorem unmarshalK_plain : forall kc fs d,
  plain_fields kc fs = true -> match d with Some v => doc_inert v | None => true end = true ->
  unmarshalK kc fs d = unmarshal fixed (k_cfg kc) fs d.
Proof.
  intros kc fs d H Hd. unfold unmarshalK, unmarshal. destruct d as [[| | | | |o|]|]; try reflexivity.
  destruct (proj2 (collapse_mutual kc) fs H) as [H1 _]. rewrite (H1 [] o Hd). reflexivity.
Qed.

(* ------------------------------------------------------------------ calls *)

Definition pass_ok (p : pass) (v : gval) : Prop :=
  decodeK (p_kc p) (p_type p) (p_doc p) = Some v /\ meetsK (p_kc p) (p_type p) (p_doc p) = true.

Lemma run_passes_iff : forall ps vs, run_passes ps = Ok vs <-> Forall2 pass_ok ps vs.
Proof.
  induction ps as [|p ps IH]; intros vs; simpl.
  - split. + intro H. inversion H. constructor. + intro H. inversion H. reflexivity.
  - rewrite bind_ok. split.
    + intros [v [Hv Hr]]. apply bind_ok in Hr. destruct Hr as [vs' [Hvs Hr]]. inversion Hr. subst.
      constructor. * apply unmarshalK_iff. exact Hv. * apply IH. exact Hvs.
    + intro H. inversion H as [|p' v ps' vs' Hp Hps]. subst.
      exists v. split. * apply unmarshalK_iff. exact Hp.
      * apply bind_ok. exists vs'. split; [apply IH; exact Hps | reflexivity].
Qed.

Lemma run_passes_no_panic : forall ps, run_passes ps <> Panic.
Proof.
  induction ps as [|p ps IH]; simpl; [discriminate|].
  apply bind_no_panic; [apply unmarshalK_no_panic|]. intro v.
  apply bind_no_panic; [exact IH|]. intro vs. discriminate.
Qed.

Lemma call_accepted_iff : forall c vs,
  serve_call c = CAccepted vs <-> Forall2 pass_ok (c_passes c) vs /\ c_validator c <> Some false.
Proof.
  intros c vs. unfold serve_call. rewrite <- run_passes_iff.
  destruct (run_passes (c_passes c)) as [ws|e|]; split.
  - destruct (c_validator c) as [[|]|]; intro H; inversion H; split; try reflexivity; discriminate.
  - intros [H Hv]. inversion H. subst. destruct (c_validator c) as [[|]|]; try reflexivity. contradiction.
  - discriminate.
  - intros [H _]. discriminate.
  - discriminate.
  - intros [H _]. discriminate.
Qed.

Lemma call_no_panic : forall c, serve_call c <> CPanic.
Proof.
  intro c. unfold serve_call. pose proof (run_passes_no_panic (c_passes c)) as H.
  destruct (run_passes (c_passes c)); try contradiction; try discriminate.
  destruct (c_validator c) as [[|]|]; discriminate.
Qed.

(* the validator only ever decides about input that every pass accepted *)
Lemma validator_last_word : forall c,
  serve_call c = CRejected true -> c_validator c = Some false /\ exists vs, Forall2 pass_ok (c_passes c) vs.
Proof.
  intros c. unfold serve_call. destruct (run_passes (c_passes c)) as [ws|e|] eqn:E; try discriminate.
  destruct (c_validator c) as [[|]|]; try discriminate. intros _. split; [reflexivity|].
  exists ws. apply run_passes_iff. exact E.
Qed.

Lemma call_rejected_iff : forall c,
  serve_call c = CRejected false <-> ~ exists vs, Forall2 pass_ok (c_passes c) vs.
Proof.
  intro c. unfold serve_call. pose proof (run_passes_no_panic (c_passes c)) as Hn.
  destruct (run_passes (c_passes c)) as [ws|e|] eqn:E; try contradiction.
  - split.
    + destruct (c_validator c) as [[|]|]; discriminate.
    + intro H. exfalso. apply H. exists ws. apply run_passes_iff. exact E.
  - split; [|reflexivity]. intros _ [vs H]. apply run_passes_iff in H. congruence.
Qed.

(* ------------------------------------------------------------------ processes *)

Lemma calls_independent_lemma : forall pre c post,
  nth_error (run_calls (pre ++ c :: post)) (List.length pre) = Some (serve_call c).
Proof.
  intros pre c post. unfold run_calls. rewrite map_app. simpl.
  rewrite nth_error_app2; rewrite map_length; [|lia]. rewrite Nat.sub_diag. reflexivity.
Qed.

Lemma calls_each_lemma : forall cs i c vs,
  nth_error cs i = Some c -> nth_error (run_calls cs) i = Some (CAccepted vs) ->
  Forall2 pass_ok (c_passes c) vs /\ c_validator c <> Some false.
Proof.
  intros cs i c vs Hc Hr. unfold run_calls in Hr. rewrite nth_error_map, Hc in Hr. simpl in Hr.
  inversion Hr as [H]. apply call_accepted_iff. exact H.
Qed.

Lemma calls_no_panic_lemma : forall cs i, nth_error (run_calls cs) i <> Some CPanic.
Proof.
  intros cs i H. unfold run_calls in H. rewrite nth_error_map in H.
  destruct (nth_error cs i) as [c|]; simpl in H; [|discriminate].
  inversion H as [H']. exact (call_no_panic c H').
Qed.

(* permuting / inserting / deleting other calls never changes what a call returns *)
Lemma calls_order_irrelevant_lemma : forall cs cs' i j c,
  nth_error cs i = Some c -> nth_error cs' j = Some c ->
  nth_error (run_calls cs) i = nth_error (run_calls cs') j.
Proof.
  intros cs cs' i j c H1 H2. unfold run_calls. rewrite !nth_error_map, H1, H2. reflexivity.
Qed.
