(* C08 — proofs: the unmarshaller model accepts exactly the well-typed documents that
   meet every declared constraint, with the typed decoding as result; it never panics. *)
From Coq Require Import List ZArith Bool String Ascii Lia.
From GZ Require Import C08.Model C08.Spec.
Import ListNotations.
Open Scope Z_scope.

Scheme ftype_mind := Induction for ftype Sort Prop
  with fields_mind := Induction for fields Sort Prop.
Combined Scheme ftype_fields_ind from ftype_mind, fields_mind.

(* ------------------------------------------------------------------ monad inversion *)

Lemma bind_ok : forall {A B} (r : result A) (k : A -> result B) y,
  bind r k = Ok y <-> exists a, r = Ok a /\ k a = Ok y.
Proof.
  intros A B r k y. destruct r as [a|e|]; simpl.
  - split. + intro H. exists a. auto. + intros [a' [H1 H2]]. inversion H1. subst. exact H2.
  - split. + discriminate. + intros [a' [H1 _]]. discriminate.
  - split. + discriminate. + intros [a' [H1 _]]. discriminate.
Qed.

Lemma rmap_ok : forall {A B} (f : A -> B) (r : result A) y,
  rmap f r = Ok y <-> exists a, r = Ok a /\ y = f a.
Proof.
  intros A B f r y. unfold rmap. rewrite bind_ok. split.
  - intros [a [H1 H2]]. exists a. inversion H2. auto.
  - intros [a [H1 H2]]. exists a. subst. auto.
Qed.

Lemma guard_ok : forall b e u, guard b e = Ok u <-> b = true.
Proof. intros b e u. destruct b, u; simpl; split; intro H; try reflexivity; discriminate. Qed.

Lemma of_opt_ok : forall {A} (o : option A) e a, of_opt o e = Ok a <-> o = Some a.
Proof. intros A o e a. destruct o; simpl; split; intro H; inversion H; auto. Qed.

Lemma obind_some : forall {A B} (o : option A) (k : A -> option B) y,
  obind o k = Some y <-> exists a, o = Some a /\ k a = Some y.
Proof.
  intros A B o k y. destruct o as [a|]; simpl.
  - split. + intro H. exists a. auto. + intros [a' [H1 H2]]. inversion H1. subst. exact H2.
  - split. + discriminate. + intros [a' [H1 _]]. discriminate.
Qed.

Lemma omap_some : forall {A B} (f : A -> B) (o : option A) y,
  option_map f o = Some y <-> exists a, o = Some a /\ y = f a.
Proof.
  intros A B f o y. destruct o as [a|]; simpl; split.
  - intro H. inversion H. exists a. auto.
  - intros [a' [H1 H2]]. inversion H1. subst. reflexivity.
  - discriminate.
  - intros [a' [H1 _]]. discriminate.
Qed.

(* pointwise characterisation lifts through mapM *)
Lemma mapM_iff : forall {A B} (f : A -> result B) (g : A -> option B) (h : A -> bool) (l : list A),
  (forall a b, In a l -> (f a = Ok b <-> g a = Some b /\ h a = true)) ->
  forall ys, mapM f l = Ok ys <-> omapM g l = Some ys /\ forallb h l = true.
Proof.
  intros A B f g h l. induction l as [|a l IH]; intros Hp ys.
  - simpl. split. + intro H. inversion H. auto. + intros [H _]. inversion H. auto.
  - simpl. rewrite bind_ok. split.
    + intros [y [Hy Hr]]. apply bind_ok in Hr. destruct Hr as [ys' [Hys Hr]]. inversion Hr. subst.
      apply (Hp a y (or_introl eq_refl)) in Hy. destruct Hy as [Hg Hh].
      apply IH in Hys. 2:{ intros a' b' Hin. apply Hp. right. exact Hin. }
      destruct Hys as [Hgs Hhs]. rewrite Hg, Hh. simpl. rewrite Hgs, Hhs. auto.
    + intros [Hd Hm]. apply andb_true_iff in Hm. destruct Hm as [Hh Hhs].
      apply obind_some in Hd. destruct Hd as [y [Hg Hd]].
      apply obind_some in Hd. destruct Hd as [ys' [Hgs Hd]]. inversion Hd. subst.
      exists y. split.
      * apply (Hp a y (or_introl eq_refl)). auto.
      * apply bind_ok. exists ys'. split; [|reflexivity].
        apply IH. { intros a' b' Hin. apply Hp. right. exact Hin. } auto.
Qed.

Lemma mapM_no_panic : forall {A B} (f : A -> result B) (l : list A),
  (forall a, In a l -> f a <> Panic) -> mapM f l <> Panic.
Proof.
  intros A B f l. induction l as [|a l IH]; intros Hp; simpl.
  - discriminate.
  - destruct (f a) eqn:Hf; simpl.
    + destruct (mapM f l) eqn:Hm; simpl; try discriminate.
      exfalso. apply IH; auto. intros a' Hin. apply Hp. right. exact Hin.
    + discriminate.
    + exfalso. apply (Hp a (or_introl eq_refl)). exact Hf.
Qed.

(* ------------------------------------------------------------------ options in context *)

Definition ropts_for (o : option fopts) (optional : bool) : ropts :=
  mkRopts optional (opt_default o) (opt_range o) (opt_options o) (opt_string o).

Lemma resolve_iff : forall canon (key : string) (o : option fopts) (obj : list (string * jv)) ro,
  resolve fixed canon key o obj = Ok ro <->
  dep_respected key o obj = true /\ ro = ropts_for o (declared_optional o obj).
Proof.
  intros canon key o obj ro. destruct o as [o|]; simpl.
  - unfold with_optional, ropts_for. simpl.
    destruct (o_optional o) eqn:Hopt; simpl.
    + destruct (o_dep o) as [[neg dep]|] eqn:Hdep; simpl.
      * destruct (String.eqb dep "") eqn:Hd.
        -- destruct neg; simpl; split; intro H; try discriminate.
           ++ destruct H; discriminate.
           ++ inversion H. auto.
           ++ destruct H as [_ H]. subst. reflexivity.
        -- destruct neg; destruct (Bool.eqb (has dep obj) (has key obj)); simpl; split; intro H;
             try discriminate; try (destruct H; discriminate);
             try (inversion H; auto); try (destruct H as [_ H]; subst; reflexivity).
      * split; intro H. -- inversion H. auto. -- destruct H as [_ H]. subst. reflexivity.
    + split; intro H. * inversion H. auto. * destruct H as [_ H]. subst. reflexivity.
  - unfold ropts_for, no_ropts. simpl. split; intro H.
    + inversion H. auto. + destruct H as [_ H]. subst. reflexivity.
Qed.

Lemma resolve_no_panic : forall vr canon (key : string) (o : option fopts) (obj : list (string * jv)),
  resolve vr canon key o obj <> Panic.
Proof.
  intros vr canon key o obj. unfold resolve. destruct o as [o|]; try discriminate.
  destruct (o_optional o); try discriminate.
  destruct (o_dep o) as [[neg dep]|]; try discriminate.
  destruct (String.eqb dep ""); destruct neg; try discriminate;
    match goal with |- context [Bool.eqb ?a ?b] => destruct (Bool.eqb a b) end; discriminate.
Qed.

(* ------------------------------------------------------------------ primitives *)

Lemma value_range_iff : forall o b x u,
  value_range fixed (ropts_for o b) x = Ok u <->
  match opt_range o with
  | None => True
  | Some r => match gval_num x with Some (FDec d) => in_range r d = true | _ => False end
  end.
Proof.
  intros o b x u. unfold value_range. simpl. destruct (opt_range o) as [r|].
  - rewrite bind_ok. split.
    + intros [f [Hf Hg]]. apply of_opt_ok in Hf. apply guard_ok in Hg. rewrite Hf.
      destruct f; simpl in Hg; try discriminate. exact Hg.
    + intro H. destruct (gval_num x) as [f|]; [|contradiction]. destruct f; try contradiction.
      exists (FDec d). split; [reflexivity|]. apply guard_ok. exact H.
  - destruct u. split; auto.
Qed.

Lemma json_number_range_iff : forall o b s u,
  json_number_range fixed (ropts_for o b) s = Ok u <->
  match opt_range o with
  | None => True
  | Some r => match parse_float false s with Some (FDec d) => in_range r d = true | _ => False end
  end.
Proof.
  intros o b s u. unfold json_number_range. simpl. destruct (opt_range o) as [r|].
  - rewrite bind_ok. split.
    + intros [f [Hf Hg]]. apply of_opt_ok in Hf. apply guard_ok in Hg. rewrite Hf.
      destruct f; simpl in Hg; try discriminate. exact Hg.
    + intro H. destruct (parse_float false s) as [f|]; [|contradiction]. destruct f; try contradiction.
      exists (FDec d). split; [reflexivity|]. apply guard_ok. exact H.
  - destruct u. split; auto.
Qed.

Lemma chk_options_eq : forall o b s v,
  supplied_text v = Some s ->
  chk_options (ropts_for o b) s = options_ok (opt_options o) v.
Proof.
  intros o b s v H. unfold chk_options, options_ok, ropts_for. cbn [ro_options]. rewrite H. destruct (opt_options o); reflexivity.
Qed.

Ltac split_and :=
  repeat match goal with
         | H : _ /\ _ |- _ => destruct H
         | H : andb _ _ = true |- _ => apply andb_true_iff in H
         end.

(* from-string path *)
Lemma prim_from_string_iff : forall k o b v x,
  prim_from_string fixed k (ropts_for o b) v = Ok x <->
  decode_prim true k v = Some x /\
  range_ok true k (opt_range o) v && options_ok (opt_options o) v = true.
Proof.
  intros k o b v x. unfold prim_from_string, decode_prim, range_ok.
  destruct v; simpl; try (split; [discriminate | intros [H _]; discriminate]).
  - (* JNum *)
    rewrite bind_ok. split.
    + intros [u [Hg H]]. apply guard_ok in Hg. apply bind_ok in H. destruct H as [u' [Hr Hc]].
      apply json_number_range_iff in Hr. apply of_opt_ok in Hc. split; [exact Hc|].
      rewrite (chk_options_eq o b s (JNum s) eq_refl) in Hg. rewrite Hg, andb_true_r.
      destruct (opt_range o); [|reflexivity].
      destruct (parse_float false s) as [[d| |]|]; try contradiction. exact Hr.
    + intros [Hc Hm]. apply andb_true_iff in Hm. destruct Hm as [Hr Ho].
      exists tt. split.
      * apply guard_ok. rewrite (chk_options_eq o b s (JNum s) eq_refl). exact Ho.
      * apply bind_ok. exists tt. split.
        -- apply json_number_range_iff. destruct (opt_range o); [|exact I].
           destruct (parse_float false s) as [[d| |]|]; try discriminate. exact Hr.
        -- apply of_opt_ok. exact Hc.
  - (* JStr *)
    rewrite bind_ok. split.
    + intros [u [Hg H]]. apply guard_ok in Hg. apply bind_ok in H. destruct H as [y [Hc H]].
      apply of_opt_ok in Hc. apply bind_ok in H. destruct H as [u' [Hr Hx]]. inversion Hx. subst y.
      apply value_range_iff in Hr. split; [exact Hc|].
      rewrite (chk_options_eq o b s (JStr s) eq_refl) in Hg. rewrite Hg, andb_true_r.
      destruct (opt_range o); [|reflexivity]. rewrite Hc. simpl.
      destruct (gval_num x) as [[d| |]|]; try contradiction. exact Hr.
    + intros [Hc Hm]. apply andb_true_iff in Hm. destruct Hm as [Hr Ho].
      exists tt. split.
      * apply guard_ok. rewrite (chk_options_eq o b s (JStr s) eq_refl). exact Ho.
      * apply bind_ok. exists x. split; [apply of_opt_ok; exact Hc|].
        apply bind_ok. exists tt. split; [|reflexivity].
        apply value_range_iff. destruct (opt_range o); [|exact I]. rewrite Hc in Hr. simpl in Hr.
        destruct (gval_num x) as [[d| |]|]; try discriminate. exact Hr.
Qed.

Lemma range_ok_not_number : forall k r v,
  supplied_num false k v = None -> range_ok false k r v = match r with None => true | Some _ => false end.
Proof. intros k r v H. unfold range_ok. rewrite H. destruct r; reflexivity. Qed.

(* plain path *)
Lemma prim_plain_iff : forall k o b v x,
  prim_plain fixed k (ropts_for o b) v = Ok x <->
  decode_prim false k v = Some x /\
  range_ok false k (opt_range o) v && options_ok (opt_options o) v = true.
Proof.
  intros k o b v x. unfold prim_plain, decode_prim.
  destruct v; simpl; try (split; [discriminate | intros [H _]; discriminate]).
  - (* JBool *)
    rewrite bind_ok. split.
    + intros [u [Hk H]]. apply guard_ok in Hk. apply bind_ok in H. destruct H as [u1 [Ho H]].
      apply guard_ok in Ho. apply bind_ok in H. destruct H as [u2 [Hr Hx]]. inversion Hx. subst x.
      apply value_range_iff in Hr. rewrite Hk. split; [reflexivity|].
      rewrite (chk_options_eq o b _ (JBool b0) eq_refl) in Ho. rewrite Ho, andb_true_r.
      unfold range_ok. simpl. destruct (opt_range o); [contradiction|reflexivity].
    + intros [Hd Hm]. apply andb_true_iff in Hm. destruct Hm as [Hr Ho].
      destruct (kind_eqb k KBool) eqn:Hk; [|discriminate]. inversion Hd. subst x.
      exists tt. split; [reflexivity|]. apply bind_ok. exists tt. split.
      * apply guard_ok. rewrite (chk_options_eq o b _ (JBool b0) eq_refl). exact Ho.
      * apply bind_ok. exists tt. split; [|reflexivity]. apply value_range_iff.
        unfold range_ok in Hr. simpl in Hr. destruct (opt_range o); [discriminate|exact I].
  - (* JNum *)
    unfold prim_json_number. rewrite bind_ok. split.
    + intros [u [Hr H]]. apply json_number_range_iff in Hr. apply bind_ok in H. destruct H as [u1 [Ho H]].
      apply guard_ok in Ho. rewrite (chk_options_eq o b s (JNum s) eq_refl) in Ho.
      assert (Hrange : range_ok false k (opt_range o) (JNum s) = true).
      { unfold range_ok. simpl. destruct (opt_range o); [|reflexivity].
        destruct (parse_float false s) as [[d| |]|]; try contradiction. exact Hr. }
      rewrite Hrange, Ho. split; [|reflexivity].
      destruct k; try discriminate.
      * apply of_opt_ok in H. exact H.
      * apply of_opt_ok in H. exact H.
      * apply bind_ok in H. destruct H as [f [Hf H]]. apply of_opt_ok in Hf.
        apply bind_ok in H. destruct H as [u2 [Hov Hx]]. apply guard_ok in Hov. inversion Hx. subst x.
        rewrite Hf. simpl. apply negb_true_iff in Hov. rewrite Hov. reflexivity.
      * apply bind_ok in H. destruct H as [f [Hf Hx]]. apply of_opt_ok in Hf. inversion Hx. subst x.
        rewrite Hf. reflexivity.
    + intros [Hd Hm]. apply andb_true_iff in Hm. destruct Hm as [Hr Ho].
      exists tt. split.
      * apply json_number_range_iff. unfold range_ok in Hr. simpl in Hr. destruct (opt_range o); [|exact I].
        destruct (parse_float false s) as [[d| |]|]; try discriminate. exact Hr.
      * apply bind_ok. exists tt. split.
        -- apply guard_ok. rewrite (chk_options_eq o b s (JNum s) eq_refl). exact Ho.
        -- destruct k; try discriminate.
           ++ apply of_opt_ok. exact Hd.
           ++ apply of_opt_ok. exact Hd.
           ++ apply obind_some in Hd. destruct Hd as [f [Hf Hd]].
              destruct (overflow32 f) eqn:Hov; [discriminate|]. inversion Hd. subst x.
              apply bind_ok. exists f. split; [apply of_opt_ok; exact Hf|].
              apply bind_ok. exists tt. split; [apply guard_ok; rewrite Hov; reflexivity|reflexivity].
           ++ apply omap_some in Hd. destruct Hd as [f [Hf Hd]]. subst x.
              apply bind_ok. exists f. split; [apply of_opt_ok; exact Hf|reflexivity].
  - (* JStr *)
    rewrite bind_ok. split.
    + intros [u [Hk H]]. apply guard_ok in Hk. apply bind_ok in H. destruct H as [u1 [Ho H]].
      apply guard_ok in Ho. apply bind_ok in H. destruct H as [u2 [Hr Hx]]. inversion Hx. subst x.
      apply value_range_iff in Hr. rewrite Hk. split; [reflexivity|].
      rewrite (chk_options_eq o b _ (JStr s) eq_refl) in Ho. rewrite Ho, andb_true_r.
      unfold range_ok. simpl. destruct (opt_range o); [contradiction|reflexivity].
    + intros [Hd Hm]. apply andb_true_iff in Hm. destruct Hm as [Hr Ho].
      destruct (kind_eqb k KStr) eqn:Hk; [|discriminate]. inversion Hd. subst x.
      exists tt. split; [reflexivity|]. apply bind_ok. exists tt. split.
      * apply guard_ok. rewrite (chk_options_eq o b _ (JStr s) eq_refl). exact Ho.
      * apply bind_ok. exists tt. split; [|reflexivity]. apply value_range_iff.
        unfold range_ok in Hr. simpl in Hr. destruct (opt_range o); [discriminate|exact I].
  - (* JNat *)
    rewrite bind_ok. split.
    + intros [u [Hk H]]. apply guard_ok in Hk. apply bind_ok in H. destruct H as [u1 [Ho H]].
      apply guard_ok in Ho. apply bind_ok in H. destruct H as [y [Hc H]]. apply of_opt_ok in Hc.
      apply bind_ok in H. destruct H as [u2 [Hr Hx]]. inversion Hx. subst y.
      apply value_range_iff in Hr. rewrite Hk. split; [exact Hc|].
      rewrite (chk_options_eq o b _ (JNat k0 s) eq_refl) in Ho. rewrite Ho, andb_true_r.
      unfold range_ok. simpl. destruct (opt_range o); [|reflexivity]. rewrite Hc. simpl.
      destruct (gval_num x) as [[d| |]|]; try contradiction. exact Hr.
    + intros [Hd Hm]. apply andb_true_iff in Hm. destruct Hm as [Hr Ho].
      destruct (kind_eqb k k0 && is_numeric k) eqn:Hk; [|discriminate].
      exists tt. split; [reflexivity|]. apply bind_ok. exists tt. split.
      * apply guard_ok. rewrite (chk_options_eq o b _ (JNat k0 s) eq_refl). exact Ho.
      * apply bind_ok. exists x. split; [apply of_opt_ok; exact Hd|].
        apply bind_ok. exists tt. split; [|reflexivity]. apply value_range_iff.
        unfold range_ok in Hr. simpl in Hr. destruct (opt_range o); [|exact I]. rewrite Hd in Hr. simpl in Hr.
        destruct (gval_num x) as [[d| |]|]; try discriminate. exact Hr.
Qed.

Lemma prim_present_iff : forall cfg k o b v x,
  prim_present fixed cfg k (ropts_for o b) v = Ok x <->
  decode_prim (reads_strings cfg o) k v = Some x /\
  range_ok (reads_strings cfg o) k (opt_range o) v && options_ok (opt_options o) v = true.
Proof.
  intros cfg k o b v x. unfold prim_present, reads_strings. simpl.
  destruct (u_fromString cfg || opt_string o).
  - apply prim_from_string_iff.
  - apply prim_plain_iff.
Qed.

Lemma prim_elem_iff : forall inmap k v x,
  prim_elem inmap k v = Ok x <-> decode_elem_prim inmap k v = Some x.
Proof.
  intros inmap k v x. unfold prim_elem, decode_elem_prim.
  destruct v; try (split; discriminate).
  - destruct (kind_eqb k KBool); split; intro H; inversion H; reflexivity.
  - apply of_opt_ok.
  - destruct inmap.
    + destruct (kind_eqb k KStr); split; intro H; inversion H; reflexivity.
    + apply of_opt_ok.
  - destruct inmap; [split; discriminate|].
    destruct (kind_eqb k k0 && is_numeric k); [apply of_opt_ok | split; discriminate].
Qed.

Lemma um_default_iff : forall t d x, um_default t d = Ok x <-> decode_default t d = Some x.
Proof.
  induction t; intros d x; simpl; try (split; discriminate).
  - apply of_opt_ok.
  - rewrite rmap_ok, omap_some. split; intros [a [H1 H2]]; exists a; split; auto; apply IHt; auto.
Qed.

(* ------------------------------------------------------------------ slices and maps *)

Lemma slice_with_iff : forall (f : jv -> result gval) (g : jv -> option gval) (h : jv -> bool) z l x,
  (forall a b, In a l -> (f a = Ok b <-> g a = Some b /\ h a = true)) ->
  slice_with f z l = Ok x <-> decode_slice g z l = Some x /\ all_elems h l = true.
Proof.
  intros f g h z l x Hp. unfold slice_with, decode_slice, all_elems.
  destruct l as [|a0 l0].
  - simpl. split. + intro H. inversion H. auto. + intros [H _]. inversion H. reflexivity.
  - remember (a0 :: l0) as l eqn:Hl.
    assert (Hpw : forall a b, In a l ->
              ((match a with JNull => Ok z | _ => f a end) = Ok b <->
               (match a with JNull => Some z | _ => g a end) = Some b /\
               (match a with JNull => true | _ => h a end) = true)).
    { intros a b Hin. destruct a; try (apply Hp; exact Hin).
      split. + intro H. inversion H. auto. + intros [H _]. inversion H. reflexivity. }
    rewrite bind_ok. split.
    + intros [xs [Hm Hx]]. apply (mapM_iff _ _ _ l Hpw) in Hm. destruct Hm as [Hg Hh].
      rewrite Hg. simpl. inversion Hx. auto.
    + intros [Hd Hh]. apply obind_some in Hd. destruct Hd as [xs [Hg Hx]].
      exists xs. split. * apply (mapM_iff _ _ _ l Hpw). auto. * inversion Hx. reflexivity.
Qed.

Lemma map_with_iff : forall (f : jv -> result gval) (g : jv -> option gval) (h : jv -> bool) (o : list (string * jv)) x,
  (forall a b, In a (map snd o) -> (f a = Ok b <-> g a = Some b /\ h a = true)) ->
  map_with f o = Ok x <-> decode_map g o = Some x /\ all_values h o = true.
Proof.
  intros f g h o x Hp. unfold map_with, decode_map, all_values.
  assert (Hpw : forall (kv : string * jv) (b : string * gval), In kv o ->
            ((y <- f (snd kv) ;; Ok (fst kv, y)) = Ok b <->
             obind (g (snd kv)) (fun y => Some (fst kv, y)) = Some b /\ h (snd kv) = true)).
  { intros kv b Hin. rewrite bind_ok, obind_some. split.
    - intros [y [Hf Hb]]. apply Hp in Hf. 2:{ apply in_map. exact Hin. }
      destruct Hf as [Hg Hh]. split; [|exact Hh]. exists y. inversion Hb. auto.
    - intros [[y [Hg Hb]] Hh]. exists y. split.
      + apply Hp. { apply in_map. exact Hin. } auto.
      + inversion Hb. reflexivity. }
  rewrite bind_ok. split.
  - intros [xs [Hm Hx]]. apply (mapM_iff _ _ _ o Hpw) in Hm. destruct Hm as [Hg Hh].
    rewrite Hg. simpl. inversion Hx. auto.
  - intros [Hd Hh]. apply obind_some in Hd. destruct Hd as [xs [Hg Hx]].
    exists xs. split. + apply (mapM_iff _ _ _ o Hpw). auto. + inversion Hx. reflexivity.
Qed.

(* ------------------------------------------------------------------ the main characterisation *)

Section Main.
Variable cfg : ucfg.

Definition P_type (t : ftype) : Prop :=
  (forall o b v x, um_present fixed cfg t (ropts_for o b) v = Ok x <->
                   decode_present cfg (reads_strings cfg o) t v = Some x /\ meets_present cfg t o v = true) /\
  (forall inmap v x, um_elem fixed cfg inmap t v = Ok x <->
                     decode_elem cfg inmap t v = Some x /\ meets_elem cfg t v = true) /\
  (forall x, um_absent fixed cfg t = Ok x <-> decode_absent cfg t = Some x /\ meets_absent cfg t = true).

Definition P_fields (fs : fields) : Prop :=
  forall obj xs, um_fields fixed cfg fs obj = Ok xs <->
                 decode_fields cfg fs obj = Some xs /\ meets_fields cfg fs obj = true.

Definition Q_fields (fs : fields) : Prop :=
  forall obj filled xs b,
    um_opt_members fixed cfg fs obj filled = Ok (xs, b) <->
    decode_opt_members cfg fs obj filled = Some xs /\ meets_opt_members cfg fs obj = true /\ b = fully_set fs obj.

Lemma struct_case : forall fs, P_fields fs ->
  forall (v : jv) x,
    match v with JObj o => rmap VStruct (um_fields fixed cfg fs o) | _ => Err EType end = Ok x <->
    match v with JObj o => option_map VStruct (decode_fields cfg fs o) | _ => None end = Some x /\
    match v with JObj ob => meets_fields cfg fs ob | _ => true end = true.
Proof.
  intros fs IH v x. destruct v; try (split; [discriminate | intros [H _]; discriminate]).
  rewrite rmap_ok, omap_some. split.
  - intros [a [H1 H2]]. apply IH in H1. destruct H1. split; [exists a; auto | auto].
  - intros [[a [H1 H2]] H3]. exists a. split; [apply IH; auto | auto].
Qed.

Lemma slice_case : forall e, P_type e ->
  forall (v : jv) x,
    match v with JArr l => slice_with (um_elem fixed cfg false e) (zero e) l | _ => Err EType end = Ok x <->
    match v with JArr l => decode_slice (decode_elem cfg false e) (zero e) l | _ => None end = Some x /\
    match v with JArr l => all_elems (meets_elem cfg e) l | _ => true end = true.
Proof.
  intros e [_ [IH _]] v x. destruct v; try (split; [discriminate | intros [H _]; discriminate]).
  apply slice_with_iff. intros a b _. apply IH.
Qed.

Lemma map_case : forall e, P_type e ->
  forall (v : jv) x,
    match v with JObj o => map_with (um_elem fixed cfg true e) o | _ => Err EType end = Ok x <->
    match v with JObj o => decode_map (decode_elem cfg true e) o | _ => None end = Some x /\
    match v with JObj ob => all_values (meets_elem cfg e) ob | _ => true end = true.
Proof.
  intros e [_ [IH _]] v x. destruct v; try (split; [discriminate | intros [H _]; discriminate]).
  apply map_with_iff. intros a b _. apply IH.
Qed.

Lemma main_mutual : (forall t, P_type t) /\ (forall fs, P_fields fs /\ Q_fields fs).
Proof.
  apply (ftype_fields_ind P_type (fun fs => P_fields fs /\ Q_fields fs)).
  - (* TPrim *)
    intro k. unfold P_type. simpl. split; [|split].
    + intros o b v x. apply prim_present_iff.
    + intros inmap v x. rewrite prim_elem_iff. split; [intro H; auto | intros [H _]; exact H].
    + intro x. split; [discriminate | intros [_ H]; discriminate].
  - (* TPtr *)
    intros t [IHp [IHe IHa]]. unfold P_type. simpl. split; [|split].
    + intros o b v x. rewrite rmap_ok, omap_some. split.
      * intros [a [H1 H2]]. apply IHp in H1. destruct H1. split; [exists a; auto | auto].
      * intros [[a [H1 H2]] H3]. exists a. split; [apply IHp; auto | auto].
    + intros inmap v x. rewrite bind_ok, omap_some. rewrite andb_false_r. split.
      * intros [a [H1 H2]]. apply IHe in H1. destruct H1. inversion H2. split; [exists a; auto | auto].
      * intros [[a [H1 H2]] H3]. exists a. split; [apply IHe; auto | subst; reflexivity].
    + intros x. rewrite rmap_ok, omap_some. split.
      * intros [a [H1 H2]]. apply IHa in H1. destruct H1. split; [exists a; auto | auto].
      * intros [[a [H1 H2]] H3]. exists a. split; [apply IHa; auto | auto].
  - (* TSlice *)
    intros e IH. unfold P_type. simpl. split; [|split].
    + intros o b v x. apply slice_case. exact IH.
    + intros inmap v x. destruct v; try (split; [discriminate | intros [H _]; discriminate]).
      apply (slice_case e IH (JArr l)).
    + intro x. split; [discriminate | intros [_ H]; discriminate].
  - (* TMap *)
    intros e IH. unfold P_type. simpl. split; [|split].
    + intros o b v x. apply map_case. exact IH.
    + intros inmap v x. apply map_case. exact IH.
    + intro x. split. * intro H. inversion H. auto. * intros [H _]. inversion H. reflexivity.
  - (* TStruct *)
    intros fs [IH _]. unfold P_type. simpl. split; [|split].
    + intros o b v x. apply struct_case. exact IH.
    + intros inmap v x. apply struct_case. exact IH.
    + intro x. destruct (required_fields fs); simpl.
      * split; [discriminate | intros [_ H]; discriminate].
      * rewrite rmap_ok, omap_some. split.
        -- intros [a [H1 H2]]. apply IH in H1. destruct H1. split; [exists a; auto | auto].
        -- intros [[a [H1 H2]] H3]. exists a. split; [apply IH; auto | auto].
  - (* FNil *)
    split.
    { unfold P_fields. simpl. intros obj xs. split.
      + intro H. inversion H. auto. + intros [H _]. inversion H. reflexivity. }
    { intros obj filled xs b. simpl. split.
      + intro H. inversion H. auto. + intros [H [_ Hb]]. inversion H. subst. reflexivity. }
  - (* FCons *)
    intros key o t [IHp [IHe IHa]] rest [IHr IHrq]. split.
    { unfold P_fields. intros obj xs. simpl.
    rewrite bind_ok. split.
    + intros [x [Hx Hrest]].
      apply bind_ok in Hx. destruct Hx as [u [Hok Hx]]. apply guard_ok in Hok.
      apply bind_ok in Hx. destruct Hx as [ro [Hres Hx]]. apply resolve_iff in Hres.
      destruct Hres as [Hdep Hro]. subst ro.
      apply bind_ok in Hrest. destruct Hrest as [xs' [Hxs Hr]]. inversion Hr. subst xs.
      apply IHr in Hxs. destruct Hxs as [Hd Hm]. rewrite Hd, Hm, Hok, Hdep. simpl.
      cut ((match field_input cfg t key obj with
            | None => match opt_default o with
                      | Some d => decode_default t d
                      | None => if declared_optional o obj then Some (zero t) else decode_absent cfg t
                      end
            | Some JNull => Some (zero t)
            | Some v => decode_present cfg (reads_strings cfg o) t v
            end = Some x) /\
           (match field_input cfg t key obj with
            | None => match opt_default o with
                      | Some _ => true
                      | None => declared_optional o obj || meets_absent cfg t
                      end
            | Some JNull => declared_optional o obj
            | Some v => meets_present cfg t o v
            end = true)).
      { intros [H1 H2]. rewrite H1, H2. simpl. auto. }
      simpl in Hx.
      destruct (field_input cfg t key obj) as [v|].
      * destruct v; try (apply IHp in Hx; exact Hx).
        destruct (declared_optional o obj); [|discriminate]. inversion Hx. auto.
      * destruct (opt_default o) as [d|].
        -- apply um_default_iff in Hx. auto.
        -- destruct (declared_optional o obj); simpl.
           ++ inversion Hx. auto.
           ++ apply IHa in Hx. exact Hx.
    + intros [Hd Hm].
      apply andb_true_iff in Hm. destruct Hm as [Hm Hmr].
      apply andb_true_iff in Hm. destruct Hm as [Hm Hmf].
      apply andb_true_iff in Hm. destruct Hm as [Hok Hdep].
      apply obind_some in Hd. destruct Hd as [x [Hx Hd]].
      apply obind_some in Hd. destruct Hd as [xs' [Hxs Hd]]. inversion Hd. subst xs.
      exists x. split.
      * apply bind_ok. exists tt. split; [apply guard_ok; exact Hok|].
        apply bind_ok. exists (ropts_for o (declared_optional o obj)). split.
        { apply resolve_iff. auto. }
        simpl.
        destruct (field_input cfg t key obj) as [v|].
        -- destruct v; try (apply IHp; auto).
           rewrite Hmf. inversion Hx. reflexivity.
        -- destruct (opt_default o) as [d|].
           ++ apply um_default_iff. exact Hx.
           ++ destruct (declared_optional o obj); simpl in *.
              ** inversion Hx. reflexivity.
              ** apply IHa. auto.
      * apply bind_ok. exists xs'. split; [apply IHr; auto | reflexivity]. }
    { (* the same member inside an optional embedded struct *)
      intros obj filled xs b. simpl. rewrite bind_ok. split.
      - intros [[x bx] [Hx Hrest]].
        apply bind_ok in Hx. destruct Hx as [u [Hok Hx]]. apply guard_ok in Hok.
        apply bind_ok in Hx. destruct Hx as [ro [Hres Hx]]. apply resolve_iff in Hres.
        destruct Hres as [Hdep Hro]. subst ro.
        apply bind_ok in Hx. destruct Hx as [x' [Hx Hpair]]. inversion Hpair. subst x' bx. clear Hpair.
        apply bind_ok in Hrest. destruct Hrest as [[xs' b'] [Hxs Hr]]. simpl in Hr. inversion Hr. subst xs b.
        apply IHrq in Hxs. destruct Hxs as [Hd [Hm Hb]]. rewrite Hd, Hm, Hok, Hdep. simpl.
        cut ((match field_input cfg t key obj with
              | None => match opt_default o with
                        | Some d => if filled then decode_default t d else Some (zero t)
                        | None => Some (zero t)
                        end
              | Some JNull => Some (zero t)
              | Some v => decode_present cfg (reads_strings cfg o) t v
              end = Some x) /\
             (match field_input cfg t key obj with
              | None => true
              | Some JNull => declared_optional o obj
              | Some v => meets_present cfg t o v
              end = true)).
        { intros [H1 H2]. rewrite H1, H2. simpl. split; [reflexivity|]. split; [reflexivity|].
          subst b'. unfold member_excused, ropts_for. simpl. rewrite orb_assoc. reflexivity. }
        simpl in Hx.
        destruct (field_input cfg t key obj) as [v|].
        + destruct v; try (apply IHp in Hx; exact Hx).
          destruct (declared_optional o obj); [|discriminate]. inversion Hx. auto.
        + destruct (opt_default o) as [d|].
          * rewrite andb_true_r in Hx. destruct filled.
            -- apply um_default_iff in Hx. auto.
            -- inversion Hx. auto.
          * inversion Hx. auto.
      - intros [Hd [Hm Hb]].
        apply andb_true_iff in Hm. destruct Hm as [Hm Hmr].
        apply andb_true_iff in Hm. destruct Hm as [Hm Hmf].
        apply andb_true_iff in Hm. destruct Hm as [Hok Hdep].
        apply obind_some in Hd. destruct Hd as [x [Hx Hd]].
        apply obind_some in Hd. destruct Hd as [xs' [Hxs Hd]]. inversion Hd. subst xs.
        exists (x, has key obj || member_excused fixed (ropts_for o (declared_optional o obj))). split.
        + apply bind_ok. exists tt. split; [apply guard_ok; exact Hok|].
          apply bind_ok. exists (ropts_for o (declared_optional o obj)). split.
          { apply resolve_iff. auto. }
          apply bind_ok. exists x. split; [|reflexivity].
          simpl.
          destruct (field_input cfg t key obj) as [v|].
          * destruct v; try (apply IHp; auto).
            rewrite Hmf. inversion Hx. reflexivity.
          * destruct (opt_default o) as [d|].
            -- rewrite andb_true_r. destruct filled.
               ++ apply um_default_iff. exact Hx.
               ++ inversion Hx. reflexivity.
            -- inversion Hx. reflexivity.
        + apply bind_ok. exists (xs', fully_set rest obj). split.
          * apply IHrq. auto.
          * simpl. subst b. unfold member_excused, ropts_for. simpl. rewrite orb_assoc. reflexivity. }
  - (* FEmbed *)
    intros opt ptr inner [IHi IHiq] rest [IHr IHrq]. split.
    { unfold P_fields. intros obj xs. simpl. rewrite bind_ok. split.
      - intros [x [Hx Hrest]]. apply bind_ok in Hrest. destruct Hrest as [ys [Hys Hr]]. inversion Hr. subst xs.
        apply IHr in Hys. destruct Hys as [Hd Hm]. rewrite Hd, Hm.
        destruct opt.
        + apply bind_ok in Hx. destruct Hx as [[ms bm] [Hms Hx]].
          apply bind_ok in Hx. destruct Hx as [u [Hg Hx]]. apply guard_ok in Hg.
          simpl in Hg, Hx. inversion Hx. subst x.
          apply IHiq in Hms. destruct Hms as [Hdm [Hmm Hbm]]. rewrite Hdm, Hmm. simpl. subst bm. rewrite Hg. auto.
        + apply bind_ok in Hx. destruct Hx as [ms [Hms Hx]]. inversion Hx. subst x.
          apply IHi in Hms. destruct Hms as [Hdm Hmm]. rewrite Hdm, Hmm. simpl. auto.
      - intros [Hd Hm]. apply andb_true_iff in Hm. destruct Hm as [Hme Hmr].
        apply obind_some in Hd. destruct Hd as [x [Hx Hd]].
        apply obind_some in Hd. destruct Hd as [ys [Hys Hd]]. inversion Hd. subst xs.
        exists x. split.
        + destruct opt.
          * apply andb_true_iff in Hme. destruct Hme as [Hmm Hfs].
            apply obind_some in Hx. destruct Hx as [ms [Hms Hx]].
            apply bind_ok. exists (ms, fully_set inner obj). split. { apply IHiq. auto. }
            apply bind_ok. exists tt. split. { apply guard_ok. exact Hfs. }
            simpl. inversion Hx. reflexivity.
          * apply obind_some in Hx. destruct Hx as [ms [Hms Hx]].
            apply bind_ok. exists ms. split. { apply IHi. auto. } inversion Hx. reflexivity.
        + apply bind_ok. exists ys. split; [apply IHr; auto | reflexivity]. }
    { intros obj filled xs b. simpl. rewrite bind_ok. split.
      - intros [[xs' b'] [Hxs Hr]]. simpl in Hr. inversion Hr. subst xs b.
        apply IHrq in Hxs. destruct Hxs as [Hd [Hm Hb]]. rewrite Hd, Hm. simpl. subst b'. auto.
      - intros [Hd [Hm Hb]]. apply obind_some in Hd. destruct Hd as [xs' [Hxs Hd]]. inversion Hd. subst xs.
        exists (xs', fully_set rest obj). split. { apply IHrq. auto. } simpl. subst b. reflexivity. }
Qed.

End Main.

Theorem unmarshal_iff : forall cfg fs d v,
  unmarshal fixed cfg fs d = Ok v <-> decode cfg fs d = Some v /\ meets cfg fs d = true.
Proof.
  intros cfg fs d v. unfold unmarshal, decode, meets.
  destruct d as [[| | | | |o|]|]; try (split; [discriminate | intros [H _]; discriminate]).
  rewrite rmap_ok, omap_some. destruct (main_mutual cfg) as [_ Hf0].
  pose proof (fun fs => proj1 (Hf0 fs)) as Hf. split.
  - intros [a [H1 H2]]. apply Hf in H1. destruct H1. split; [exists a; auto | auto].
  - intros [[a [H1 H2]] H3]. exists a. split; [apply Hf; auto | auto].
Qed.

(* ------------------------------------------------------------------ no panic *)

Lemma slice_with_no_panic : forall f z l,
  (forall a, f a <> Panic) -> slice_with f z l <> Panic.
Proof.
  intros f z l Hf. unfold slice_with. destruct l as [|a0 l0]; [discriminate|].
  remember (a0 :: l0) as l.
  assert (H : mapM (fun v => match v with JNull => Ok z | _ => f v end) l <> Panic).
  { apply mapM_no_panic. intros a _. destruct a; try apply Hf. discriminate. }
  destruct (mapM _ l); simpl; try discriminate. contradiction.
Qed.

Lemma map_with_no_panic : forall f (o : list (string * jv)),
  (forall a, f a <> Panic) -> map_with f o <> Panic.
Proof.
  intros f o Hf. unfold map_with.
  assert (H : mapM (fun kv : string * jv => x <- f (snd kv) ;; Ok (fst kv, x)) o <> Panic).
  { apply mapM_no_panic. intros kv _. specialize (Hf (snd kv)). destruct (f (snd kv)); simpl; try discriminate. contradiction. }
  destruct (mapM _ o); simpl; try discriminate. contradiction.
Qed.

Lemma prim_present_no_panic : forall vr cfg k ro v, prim_present vr cfg k ro v <> Panic.
Proof.
  intros vr cfg k ro v. unfold prim_present, prim_from_string, prim_plain, prim_json_number,
    json_number_range, value_range, guard, of_opt.
  destruct (u_fromString cfg || ro_string ro); destruct v; try discriminate;
    repeat match goal with
           | |- context [match ?x with _ => _ end] => destruct x; simpl; try discriminate
           | |- context [if ?x then _ else _] => destruct x; simpl; try discriminate
           end.
Qed.

Lemma prim_elem_no_panic : forall inmap k v, prim_elem inmap k v <> Panic.
Proof.
  intros inmap k v. unfold prim_elem, of_opt. destruct v; try discriminate;
    repeat match goal with
           | |- context [match ?x with _ => _ end] => destruct x; simpl; try discriminate
           | |- context [if ?x then _ else _] => destruct x; simpl; try discriminate
           end.
Qed.

Lemma um_default_no_panic : forall t d, um_default t d <> Panic.
Proof.
  induction t; intro d; simpl; try discriminate.
  - unfold of_opt. destruct (conv_string k d); discriminate.
  - specialize (IHt d). destruct (um_default t d); simpl; try discriminate. contradiction.
Qed.

Lemma bind_no_panic : forall {A B} (r : result A) (k : A -> result B),
  r <> Panic -> (forall a, k a <> Panic) -> bind r k <> Panic.
Proof. intros A B r k Hr Hk. destruct r; simpl; try discriminate; [apply Hk | contradiction]. Qed.

Lemma guard_no_panic : forall b e, guard b e <> Panic.
Proof. intros b e. destruct b; discriminate. Qed.

Section NoPanic.
Variable cfg : ucfg.

Definition N_type (t : ftype) : Prop :=
  (forall ro v, um_present fixed cfg t ro v <> Panic) /\
  (forall inmap v, um_elem fixed cfg inmap t v <> Panic) /\
  um_absent fixed cfg t <> Panic.
Definition N_fields (fs : fields) : Prop :=
  (forall obj, um_fields fixed cfg fs obj <> Panic) /\
  (forall obj filled, um_opt_members fixed cfg fs obj filled <> Panic).

Lemma rmap_no_panic : forall {A B} (f : A -> B) (r : result A), r <> Panic -> rmap f r <> Panic.
Proof. intros A B f r H. destruct r; simpl; try discriminate. contradiction. Qed.

Lemma no_panic_mutual : (forall t, N_type t) /\ (forall fs, N_fields fs).
Proof.
  apply ftype_fields_ind.
  - intro k. unfold N_type. simpl. repeat split.
    + intros. apply prim_present_no_panic.
    + intros. apply prim_elem_no_panic.
    + discriminate.
  - intros t [Hp [He Ha]]. unfold N_type. simpl. repeat split.
    + intros. apply rmap_no_panic. apply Hp.
    + intros inmap v. specialize (He inmap v). rewrite andb_false_r.
      destruct (um_elem fixed cfg inmap t v); simpl; try discriminate. contradiction.
    + apply rmap_no_panic. exact Ha.
  - intros e [Hp [He Ha]]. unfold N_type. simpl. repeat split.
    + intros ro v. destruct v; try discriminate. apply slice_with_no_panic. apply He.
    + intros inmap v. destruct v; try discriminate. apply slice_with_no_panic. apply He.
    + discriminate.
  - intros e [Hp [He Ha]]. unfold N_type. simpl. repeat split.
    + intros ro v. destruct v; try discriminate. apply map_with_no_panic. apply He.
    + intros inmap v. destruct v; try discriminate. apply map_with_no_panic. apply He.
    + discriminate.
  - intros fs [Hf _]. unfold N_type. simpl. repeat split.
    + intros ro v. destruct v; try discriminate. apply rmap_no_panic. apply Hf.
    + intros inmap v. destruct v; try discriminate. apply rmap_no_panic. apply Hf.
    + destruct (required_fields fs); try discriminate. apply rmap_no_panic. apply Hf.
  - unfold N_fields. simpl. split; discriminate.
  - intros key o t [Hp [He Ha]] rest [Hr Hrq]. unfold N_fields. split; [| intros obj filled; simpl;
      apply bind_no_panic;
      [ apply bind_no_panic; [apply guard_no_panic|]; intros _;
        apply bind_no_panic; [apply resolve_no_panic|]; intro ro;
        apply bind_no_panic; [| intro x; discriminate];
        destruct (field_input cfg t key obj) as [v|];
        [ destruct v; try apply Hp; destruct (ro_optional ro); discriminate
        | destruct (ro_default ro); [destruct (filled && _); [apply um_default_no_panic | discriminate] | discriminate] ]
      | intro xb; apply bind_no_panic; [apply Hrq | intro r; discriminate] ] ].
    intro obj. simpl.
    assert (Hx : (_ <- guard (opts_ok o) ETag ;;
                  ro <- resolve fixed (u_canonical cfg) key o obj ;;
                  match field_input cfg t key obj with
                  | None => match ro_default ro with
                            | Some d => um_default t d
                            | None => if ro_optional ro then Ok (zero t) else um_absent fixed cfg t
                            end
                  | Some JNull => if ro_optional ro then Ok (zero t) else Err ENil
                  | Some v => um_present fixed cfg t ro v
                  end) <> Panic).
    { destruct (opts_ok o); simpl; try discriminate.
      pose proof (resolve_no_panic fixed (u_canonical cfg) key o obj) as Hres.
      destruct (resolve fixed (u_canonical cfg) key o obj) as [ro| |]; simpl; try discriminate; try contradiction.
      destruct (field_input cfg t key obj) as [v|].
      - destruct v; try apply Hp. destruct (ro_optional ro); discriminate.
      - destruct (ro_default ro). + apply um_default_no_panic.
        + destruct (ro_optional ro); [discriminate | exact Ha]. }
    match goal with |- bind ?r _ <> Panic => destruct r; simpl; try discriminate; try contradiction end.
    specialize (Hr obj). destruct (um_fields fixed cfg rest obj); simpl; try discriminate. contradiction.
  - intros opt ptr inner [Hi Hiq] rest [Hr Hrq]. unfold N_fields. split.
    + intro obj. simpl. apply bind_no_panic.
      * destruct opt.
        -- apply bind_no_panic; [apply Hiq|]. intro r. apply bind_no_panic; [apply guard_no_panic|]. intros _. discriminate.
        -- apply bind_no_panic; [apply Hi|]. intro xs. discriminate.
      * intro x. apply bind_no_panic; [apply Hr|]. intro ys. discriminate.
    + intros obj filled. simpl. apply bind_no_panic; [apply Hrq|]. intro r. discriminate.
Qed.

End NoPanic.

Theorem unmarshal_no_panic : forall cfg fs d, unmarshal fixed cfg fs d <> Panic.
Proof.
  intros cfg fs d. unfold unmarshal. destruct d as [[| | | | |o|]|]; try discriminate.
  apply rmap_no_panic. apply (proj2 (no_panic_mutual cfg)).
Qed.
