(* C08 — the unmarshaller with its KEY LOOK-UP SEMANTICS per unmarshaller kind.  No proofs here.

   Model.v reads a field's value with [lookup key obj]: right for keys without a dot.  go-zero
   has two meanings for a key text (unmarshaler.go getValue / readKeys):

     opaque keys     (WithOpaqueKeys: form and path parameters of rest/httpx)
                     the key is the name of the parameter, whatever characters it contains;
     chained keys    (json / yaml / toml bodies, conf, UnmarshalKey, headers)
                     the key is cut at every '.' (empty segments dropped); the first segment is
                     looked up in the object at hand, every further segment in the object found so
                     far and, failing that, in the enclosing objects (recursiveValuer: the nested
                     objects passed so far, the object at hand, then the objects of the enclosing
                     STRUCT fields, innermost first); when a segment is found as an object and an
                     outer scope holds an object under the same name, the members missing in the
                     inner one are taken from the outer one.

   [kcfg] carries the segmenter [k_seg : key text -> segments]; [seg_opaque] and [seg_dotted] are
   the two that go-zero uses.  Every theorem of KProofs.v holds for ANY segmenter, in particular
   for one that answers from a table filled by earlier requests (Pinned.v: the table keyed by
   the key text alone is what breaks the property).

   Dependencies ("optional=dep", "optional=!dep") are resolved by toOptionsWithContext with
   m.Value(dep) / m.Value(key): the WHOLE key text in the object at hand, for every kind — that is
   [resolve] of Model.v, unchanged.

   Also modelled here: the key "-" (the field is skipped: it keeps its zero value whatever the
   document holds; its tag is parsed and its dependency resolved first, as in processNamedField).

   Correspondence with the Go control flow (beyond the table in Model.v):
     getValue / readKeys / getValueWithChainedKeys -> [getv]
     recursiveValuer.Value                         -> [rlookup], [merge_obj]
     simpleValuer{current: mv, parent: valuer}     -> the scope list [env] handed down to nested
                                                      struct fields ([o :: env]); elements of slices
                                                      and maps and structs filled from the empty map
                                                      start with no enclosing scope
   The definitions below repeat [um_present] ... [um_opt_members] of Model.v with [getv] in the
   place of [lookup]; KProofs.v proves that they coincide with Model.v's on keys without dots. *)
From Coq Require Import List ZArith Bool String Ascii.
From GZ Require Export C08.Model.
Import ListNotations.
Open Scope Z_scope.

Definition obj := list (string * jv).

(* ------------------------------------------------------------------ key segments *)

Definition is_dot (c : ascii) : bool := (N_of_ascii c =? 46)%N.

(* strings.FieldsFunc(key, c == '.'): maximal dot-free runs, empty ones dropped *)
Fixpoint split_dot_go (s acc : string) : list string :=
  match s with
  | EmptyString => if String.eqb acc "" then [] else [acc]
  | String c r =>
    if is_dot c then (if String.eqb acc "" then split_dot_go r "" else acc :: split_dot_go r "")
    else split_dot_go r (acc ++ String c "")
  end.

Definition seg_dotted (key : string) : list string := split_dot_go key "".
Definition seg_opaque (key : string) : list string := [key].

Record kcfg := mkK { k_cfg : ucfg; k_seg : string -> list string }.

(* the unmarshallers go-zero builds *)
Definition kc_json : kcfg := mkK (mkCfg false false false) seg_dotted.   (* json / yaml / toml / key *)
Definition kc_header : kcfg := mkK (mkCfg true false true) seg_dotted.   (* rest/internal/encoding *)
Definition kc_form : kcfg := mkK (mkCfg true true false) seg_opaque.     (* rest/httpx formUnmarshaler *)
Definition kc_path : kcfg := mkK (mkCfg true false false) seg_opaque.    (* rest/httpx pathUnmarshaler *)

(* ------------------------------------------------------------------ chained look-up *)

(* members of the outer object that the inner one lacks are added *)
Definition merge_obj (vm pm : obj) : obj := vm ++ filter (fun kv => negb (has (fst kv) vm)) pm.

(* recursiveValuer.Value over the scopes, innermost first *)
Fixpoint rlookup (k : string) (scopes : list obj) : option jv :=
  match scopes with
  | [] => None
  | o :: up =>
    match lookup k o with
    | None => rlookup k up
    | Some (JObj vm) =>
      match rlookup k up with
      | Some (JObj pm) => Some (JObj (merge_obj vm pm))
      | _ => Some (JObj vm)
      end
    | Some v => Some v
    end
  end.

(* the segments after the first *)
Fixpoint chained (ks : list string) (v : jv) (scopes : list obj) : option jv :=
  match ks with
  | [] => Some v
  | k :: ks' =>
    match v with
    | JObj vm =>
      match rlookup k (vm :: scopes) with
      | Some v' => chained ks' v' (vm :: scopes)
      | None => None
      end
    | _ => None
    end
  end.

(* getValue: [o] the object at hand, [env] the objects of the enclosing struct fields *)
Definition getv (kc : kcfg) (env : list obj) (key : string) (o : obj) : option jv :=
  match k_seg kc key with
  | [] => None
  | k0 :: ks => match lookup k0 o with Some v => chained ks v (o :: env) | None => None end
  end.

Definition hasv (kc : kcfg) (env : list obj) (key : string) (o : obj) : bool :=
  match getv kc env key o with Some _ => true | None => false end.

Definition field_inputK (kc : kcfg) (env : list obj) (t : ftype) (key : string) (o : obj) : option jv :=
  option_map (from_array (k_cfg kc) t) (getv kc env key o).

Definition ignored (key : string) : bool := String.eqb key "-".

(* processAnonymousStructFieldOptional: is any member's key present? *)
Fixpoint any_presentK (kc : kcfg) (env : list obj) (fs : fields) (o : obj) : bool :=
  match fs with
  | FNil => false
  | FCons key _ _ rest => hasv kc env key o || any_presentK kc env rest o
  | FEmbed _ _ _ rest => any_presentK kc env rest o
  end.

(* ------------------------------------------------------------------ default= on slice fields

   fillSliceWithDefault: the default text of a []string (or []*string ...) field is cut into
   segments by the tag grammar (parseGroupedSegments); for any other element kind it is read as a
   JSON value, which must be an array; the elements then go through fillSlice like a supplied
   array.  The JSON reader below covers flat and nested arrays of numbers, strings without
   escapes, true / false / null over printable ASCII ([json_plain]); texts outside that alphabet
   are outside the modelled fragment ([fields_okK]). *)

Definition is_ws (c : ascii) : bool :=
  let n := N_of_ascii c in ((n =? 32) || ((9 <=? n) && (n <=? 13)))%N.

Fixpoint ltrim (l : list ascii) : list ascii :=
  match l with c :: r => if is_ws c then ltrim r else l | [] => [] end.
Definition trim_l (l : list ascii) : list ascii := rev (ltrim (rev (ltrim l))).

Definition ch (c : ascii) (n : N) : bool := (N_of_ascii c =? n)%N.
Definition is_open (c : ascii) : bool := ch c 40 || ch c 91.      (* ( [ *)
Definition is_close (c : ascii) : bool := ch c 41 || ch c 93.     (* ) ] *)

(* parseSegments: commas split outside groups, a backslash outside a group escapes the next
   character, every segment is trimmed, a trailing empty one is dropped *)
Fixpoint segs_go (l : list ascii) (escaped grouped : bool) (buf : list ascii) (acc : list string) : list string :=
  match l with
  | [] =>
    let last := trim_l (rev buf) in
    rev (match last with [] => acc | _ => string_of_list_ascii last :: acc end)
  | c :: r =>
    if escaped then segs_go r false grouped (c :: buf) acc
    else if ch c 44 then
      (if grouped then segs_go r false grouped (c :: buf) acc
       else segs_go r false grouped [] (string_of_list_ascii (trim_l (rev buf)) :: acc))
    else if ch c 92 then
      (if grouped then segs_go r false grouped (c :: buf) acc else segs_go r true grouped buf acc)
    else if is_open c then segs_go r false true (c :: buf) acc
    else if is_close c then segs_go r false false (c :: buf) acc
    else segs_go r false grouped (c :: buf) acc
  end.

Fixpoint drop_while (p : ascii -> bool) (l : list ascii) : list ascii :=
  match l with c :: r => if p c then drop_while p r else l | [] => [] end.

(* parseGroupedSegments *)
Definition grouped_segments (d : string) : list string :=
  let l := drop_while is_open (list_ascii_of_string d) in
  let l := rev (drop_while is_close (rev l)) in
  segs_go l false false [] [].

(* ---- a reader for JSON arrays of scalars ---- *)

Definition is_digit_a (c : ascii) : bool := let n := N_of_ascii c in ((48 <=? n) && (n <=? 57))%N.

Fixpoint take_digits (l : list ascii) : list ascii * list ascii :=
  match l with
  | c :: r => if is_digit_a c then let '(d, r') := take_digits r in (c :: d, r') else ([], l)
  | [] => ([], [])
  end.

(* the JSON number grammar: optional minus, 0 or a digit string without leading 0, optional
   fraction with at least one digit, optional exponent; returns the literal and the rest *)
Definition take_number (l : list ascii) : option (list ascii * list ascii) :=
  let '(sign, l1) := match l with c :: r => if ch c 45 then ([c], r) else ([], l) | [] => ([], []) end in
  let '(ip, l2) := take_digits l1 in
  match ip with
  | [] => None
  | d0 :: more =>
    if ch d0 48 && negb (match more with [] => true | _ => false end) then None else
    let frac :=
      match l2 with
      | c :: r => if ch c 46 then
                    let '(fp, r') := take_digits r in
                    match fp with [] => None | _ => Some (c :: fp, r') end
                  else Some ([], l2)
      | [] => Some ([], [])
      end in
    match frac with
    | None => None
    | Some (fp, l3) =>
      let ex :=
        match l3 with
        | c :: r =>
          if ch c 101 || ch c 69 then
            let '(sg, r1) := match r with c2 :: r2 => if ch c2 43 || ch c2 45 then ([c2], r2) else ([], r) | [] => ([], []) end in
            let '(ep, r') := take_digits r1 in
            match ep with [] => None | _ => Some (c :: sg ++ ep, r') end
          else Some ([], l3)
        | [] => Some ([], [])
        end in
      match ex with
      | None => None
      | Some (ep, l4) => Some (sign ++ ip ++ fp ++ ep, l4)
      end
    end
  end.

Fixpoint take_string (l : list ascii) : option (list ascii * list ascii) :=
  match l with
  | [] => None
  | c :: r =>
    if ch c 34 then Some ([], r)
    else if ch c 92 then None
    else let n := N_of_ascii c in
         if ((n <? 32) || (126 <? n))%N then None
         else match take_string r with Some (s, r') => Some (c :: s, r') | None => None end
  end.

Fixpoint starts_with (p l : list ascii) : option (list ascii) :=
  match p, l with
  | [], _ => Some l
  | a :: p', b :: l' => if Ascii.eqb a b then starts_with p' l' else None
  | _, [] => None
  end.

Fixpoint pvalue (fuel : nat) (l : list ascii) {struct fuel} : option (jv * list ascii) :=
  match fuel with
  | O => None
  | S f =>
    match ltrim l with
    | [] => None
    | c :: r =>
      if ch c 91 then
        match ltrim r with
        | c2 :: r2 => if ch c2 93 then Some (JArr [], r2) else pelems f (c2 :: r2) []
        | [] => None
        end
      else if ch c 34 then
        match take_string r with Some (s, r') => Some (JStr (string_of_list_ascii s), r') | None => None end
      else match starts_with (list_ascii_of_string "true") (c :: r) with
      | Some r' => Some (JBool true, r')
      | None =>
      match starts_with (list_ascii_of_string "false") (c :: r) with
      | Some r' => Some (JBool false, r')
      | None =>
      match starts_with (list_ascii_of_string "null") (c :: r) with
      | Some r' => Some (JNull, r')
      | None =>
      match take_number (c :: r) with
      | Some (n, r') => Some (JNum (string_of_list_ascii n), r')
      | None => None
      end end end end
    end
  end
with pelems (fuel : nat) (l : list ascii) (acc : list jv) {struct fuel} : option (jv * list ascii) :=
  match fuel with
  | O => None
  | S f =>
    match pvalue f l with
    | Some (v, r) =>
      match ltrim r with
      | c :: r' =>
        if ch c 44 then pelems f r' (v :: acc)
        else if ch c 93 then Some (JArr (rev (v :: acc)), r')
        else None
      | [] => None
      end
    | None => None
    end
  end.

(* the first JSON value of the text (json.Decoder.Decode); what follows a complete array is not read *)
Definition json_value (d : string) : option jv :=
  let l := list_ascii_of_string d in
  match pvalue (S (S (2 * List.length l))) l with
  | Some (v, rest) =>
    match v, ltrim rest with
    | JArr _, _ => Some v
    | _, [] => Some v
    | _, _ => None        (* "invalid character after top-level value" *)
    end
  | None => None
  end.

(* printable ASCII (and the tab) without the characters of objects and escapes *)
Definition json_plain (d : string) : bool :=
  forallb (fun c => let n := N_of_ascii c in
                    (((32 <=? n) && (n <=? 126)) || (n =? 9))%N && negb (ch c 123 || ch c 125 || ch c 92 || ch c 58))
          (list_ascii_of_string d).

Fixpoint elem_is_string (t : ftype) : bool :=
  match t with TPrim KStr => true | TPtr t' => elem_is_string t' | _ => false end.

(* the value that stands for the default text of a slice field with elements of type [e] *)
Definition slice_default_doc (e : ftype) (d : string) : option jv :=
  if elem_is_string e then
    match grouped_segments d with
    | [] => Some JNull                                  (* a nil []string: the target stays nil *)
    | l => Some (JArr (map JStr l))
    end
  else json_value d.

(* ------------------------------------------------------------------ a string for a slice field

   processFieldNotFromString: a string (a path variable, a single header value, a JSON string) given
   to a slice field is read as a JSON array by fillSliceFromString — a different routine from
   fillSlice: no null elements, no nested arrays, elements converted at the ELEMENT's own kind
   (a pointer element only takes true / false).  JSON null gives an empty slice. *)

Fixpoint str_elem_ptr (e : ftype) (b : bool) : result gval :=
  match e with
  | TPrim KBool => Ok (VBool b)
  | TPtr e' => rmap VPtr (str_elem_ptr e' b)
  | _ => Err EType
  end.

Definition str_elem (e : ftype) (v : jv) : result gval :=
  match e with
  | TPrim k => prim_elem false k v
  | TPtr e' => match v with JBool b => rmap VPtr (str_elem_ptr e' b) | _ => Err EType end
  | _ => Err EType
  end.

Definition str_slice (e : ftype) (s : string) : result gval :=
  match json_value s with
  | Some (JArr l) => rmap VSlice (mapM (str_elem e) l)
  | Some JNull => Ok (VSlice [])
  | _ => Err EType
  end.

(* strings the reader above reads like encoding/json: printable ASCII without object / escape
   characters, or not starting like an array at all *)
Definition slice_str_ok (s : string) : bool :=
  json_plain s || match ltrim (list_ascii_of_string s) with c :: _ => negb (ch c 91) | [] => true end.

(* ------------------------------------------------------------------ the unmarshaller *)

Section Unmarshal.
Variable kc : kcfg.

Fixpoint umk_present (env : list obj) (t : ftype) (ro : ropts) (v : jv) {struct t} : result gval :=
  match t with
  | TPrim k => prim_present fixed (k_cfg kc) k ro v
  | TPtr t' => rmap VPtr (umk_present env t' ro v)
  | TStruct fs =>
    match v with
    | JObj o => rmap VStruct (umk_fields env fs o)
    | _ => Err EType
    end
  | TSlice e =>
    match v with
    | JArr l => slice_with (umk_elem false e) (zero e) l
    | JStr s => str_slice e s
    | _ => Err EType
    end
  | TMap e =>
    match v with
    | JObj o => map_with (umk_elem true e) o
    | _ => Err EType
    end
  end

(* an element of a slice or of a map: unmarshalled on its own, no enclosing scope *)
with umk_elem (inmap : bool) (t : ftype) (v : jv) {struct t} : result gval :=
  match t with
  | TPrim k => prim_elem inmap k v
  | TPtr t' => x <- umk_elem inmap t' v ;; Ok (VPtr x)
  | TStruct fs =>
    match v with
    | JObj o => rmap VStruct (umk_fields [] fs o)
    | _ => Err EType
    end
  | TSlice e =>
    match v with
    | JArr l => slice_with (umk_elem false e) (zero e) l
    | _ => Err EType
    end
  | TMap e =>
    match v with
    | JObj o => map_with (umk_elem true e) o
    | _ => Err EType
    end
  end

(* key absent, field not optional, no default: a struct is filled from the empty map *)
with umk_absent (t : ftype) {struct t} : result gval :=
  match t with
  | TPrim _ => Err ENotSet
  | TPtr t' => rmap VPtr (umk_absent t')
  | TSlice _ => Err EType
  | TMap _ => Ok (VMap [])
  | TStruct fs =>
    if required_fields fs then Err ENotSet else rmap VStruct (umk_fields [] fs [])
  end

(* key absent, default declared: processNamedFieldWithoutValue *)
with umk_default (t : ftype) (d : string) {struct t} : result gval :=
  match t with
  | TPrim k => of_opt (conv_string k d) EConv
  | TPtr t' => rmap VPtr (umk_default t' d)
  | TSlice e =>
    match slice_default_doc e d with
    | Some (JArr l) => slice_with (umk_elem false e) (zero e) l
    | Some JNull => if elem_is_string e then Ok VNil else Err EType
    | Some _ => Err EType
    | None => Err EConv
    end
  | _ => Err EType
  end

(* the fields [fs] against the object [o]; [env]: the objects of the enclosing struct fields *)
with umk_fields (env : list obj) (fs : fields) (o : obj) {struct fs} : result (list gval) :=
  match fs with
  | FNil => Ok []
  | FCons key op t rest =>
    x <- (_ <- guard (opts_ok op) ETag ;;
          ro <- resolve fixed (u_canonical (k_cfg kc)) key op o ;;
          if ignored key then Ok (zero t) else
          match field_inputK kc env t key o with
          | None =>
            match ro_default ro with
            | Some d => umk_default t d
            | None => if ro_optional ro then Ok (zero t) else umk_absent t
            end
          | Some JNull => if ro_optional ro then Ok (zero t) else Err ENil
          | Some v => umk_present (o :: env) t ro v
          end) ;;
    xs <- umk_fields env rest o ;;
    Ok (x :: xs)
  | FEmbed opt ptr inner rest =>
    x <- (if opt then
            let filled := any_presentK kc env inner o in
            r <- umk_opt_members env inner o filled ;;
            _ <- guard (negb filled || snd r) ENotSet ;;
            Ok (if ptr then (if filled then VPtr (VStruct (fst r)) else VNil) else VStruct (fst r))
          else
            xs <- umk_fields env inner o ;;
            Ok (if ptr then VPtr (VStruct xs) else VStruct xs)) ;;
    ys <- umk_fields env rest o ;;
    Ok (x :: ys)
  end

with umk_opt_members (env : list obj) (fs : fields) (o : obj) (filled : bool)
                     {struct fs} : result (list gval * bool) :=
  match fs with
  | FNil => Ok ([], true)
  | FCons key op t rest =>
    xb <- (_ <- guard (opts_ok op) ETag ;;
           ro <- resolve fixed (u_canonical (k_cfg kc)) key op o ;;
           x <- match field_inputK kc env t key o with
                | None =>
                  match ro_default ro with
                  | Some d => if filled then um_default t d else Ok (zero t)
                  | None => Ok (zero t)
                  end
                | Some JNull => if ro_optional ro then Ok (zero t) else Err ENil
                | Some v => umk_present (o :: env) t ro v
                end ;;
           Ok (x, hasv kc env key o || member_excused fixed ro)) ;;
    r <- umk_opt_members env rest o filled ;;
    Ok (fst xb :: fst r, snd xb && snd r)
  | FEmbed opt ptr inner rest =>
    r <- umk_opt_members env rest o filled ;;
    Ok ((if ptr then VNil else VStruct (zero_fields inner)) :: fst r, opt && snd r)
  end.

End Unmarshal.

(* Unmarshaler.Unmarshal on a decoded document ([None]: the decoder rejected the stream) *)
Definition unmarshalK (kc : kcfg) (fs : fields) (d : option jv) : result gval :=
  match d with
  | Some (JObj o) => rmap VStruct (umk_fields kc [] fs o)
  | _ => Err EDoc
  end.

(* ------------------------------------------------------------------ calls and processes *)

(* One call of an entry point: one unmarshaller for mapping.Unmarshal*, ParseForm, ParsePath,
   ParseHeaders, ParseJsonBody; for httpx.Parse the four passes path, form, header, json body in
   this order, each over the fields tagged for it.  The first pass that fails decides; after the
   last one the request validator (httpx.SetValidator), if any, has the last word. *)
Record pass := mkPass { p_kc : kcfg; p_type : fields; p_doc : option jv }.

Fixpoint run_passes (ps : list pass) : result (list gval) :=
  match ps with
  | [] => Ok []
  | p :: ps' =>
    v <- unmarshalK (p_kc p) (p_type p) (p_doc p) ;;
    vs <- run_passes ps' ;;
    Ok (v :: vs)
  end.

Record call := mkCall { c_passes : list pass; c_validator : option bool (* Some b: set, accepts iff b *) }.

Inductive cresult := CAccepted (vs : list gval) | CRejected (by_validator : bool) | CPanic.

Definition serve_call (c : call) : cresult :=
  match run_passes (c_passes c) with
  | Ok vs => match c_validator c with Some false => CRejected true | _ => CAccepted vs end
  | Err _ => CRejected false
  | Panic => CPanic
  end.

(* A process serves calls one after the other; the unmarshaller keeps nothing between them:
   the key / option / struct caches only memoise pure functions of their own key. *)
Definition run_calls (cs : list call) : list cresult := map serve_call cs.

(* ------------------------------------------------------------------ the modelled fragment *)

(* "-" is modelled for named fields only, not for members of an optional embedded struct *)
Fixpoint no_ignored (fs : fields) : bool :=
  match fs with
  | FNil => true
  | FCons key _ _ rest => negb (ignored key) && no_ignored rest
  | FEmbed _ _ _ rest => no_ignored rest
  end.

(* default texts on slice fields the model reads like go-zero: any text for string elements;
   printable ASCII without object / escape characters otherwise *)
Definition slice_default_ok (t : ftype) (d : string) : bool :=
  match t with
  | TSlice e => elem_is_string e || json_plain d
  | _ => negb (is_slice_deref t)
  end.

Fixpoint no_slice_defaults (fs : fields) : bool :=
  match fs with
  | FNil => true
  | FCons _ o t rest =>
    match o with
    | Some o' => match o_default o' with Some _ => negb (is_slice_deref t) | None => true end
    | None => true
    end && no_slice_defaults rest
  | FEmbed _ _ _ rest => no_slice_defaults rest
  end.

Fixpoint type_okK (t : ftype) : bool :=
  match t with
  | TPrim _ => true
  | TPtr t' => ptr_target_ok t' && type_okK t'
  | TSlice (TPrim (KUint W8)) => false
  | TSlice e => type_okK e
  | TMap e => type_okK e
  | TStruct fs => fields_okK fs
  end
with fields_okK (fs : fields) : bool :=
  match fs with
  | FNil => true
  | FCons _ o t rest =>
    type_okK t
    && match o with
       | Some o' => match o_default o' with Some d => slice_default_ok t d | None => true end
       | None => true
       end
    && fields_okK rest
  | FEmbed opt _ inner rest =>
    fields_okK inner && (negb opt || (no_embed inner && no_ignored inner && no_slice_defaults inner)) && fields_okK rest
  end.
