(* C08 — the unmarshaller with its KEY LOOK-UP SEMANTICS per unmarshaller kind.  No proofs here.

   Model.v reads a field's value with [lookup key obj]: right for keys without a dot.  go-zero
   has two meanings for a key text (unmarshaler.go getValue / readKeys):

     opaque keys     (WithOpaqueKeys: form and path parameters of rest/httpx)
                     the key is the name of the parameter, whatever characters it contains;
     chained keys    (json / yaml / toml bodies, conf, UnmarshalKey, headers)
                     the key is cut at every '.' (empty segments dropped); the first segment is
                     looked up in the object at hand, every further segment in the object found so
                     far and, failing that, in the enclosing objects (recursiveValuer: the nested
                     objects passed so far, the object at hand, then the objects of the enclosing
                     STRUCT fields, innermost first); when a segment is found as an object and an
                     outer scope holds an object under the same name, the members missing in the
                     inner one are taken from the outer one.

   [kcfg] carries the segmenter [k_seg : key text -> segments]; [seg_opaque] and [seg_dotted] are
   the two that go-zero uses.  Every theorem of KProofs.v holds for ANY segmenter, in particular
   for one that answers from a table filled by earlier requests (Pinned.v: the table keyed by
   the key text alone is what breaks the property).

   Dependencies ("optional=dep", "optional=!dep") are resolved by toOptionsWithContext with
   m.Value(dep) / m.Value(key): the WHOLE key text in the object at hand, for every kind — that is
   [resolve] of Model.v, unchanged.

   Also modelled here: the key "-" (the field is skipped: it keeps its zero value whatever the
   document holds; its tag is parsed and its dependency resolved first, as in processNamedField).

   Correspondence with the Go control flow (beyond the table in Model.v):
     getValue / readKeys / getValueWithChainedKeys -> [getv]
     recursiveValuer.Value                         -> [rlookup], [merge_obj]
     simpleValuer{current: mv, parent: valuer}     -> the scope list [env] handed down to nested
                                                      struct fields ([o :: env]); elements of slices
                                                      and maps and structs filled from the empty map
                                                      start with no enclosing scope
   The definitions below repeat [um_present] ... [um_opt_members] of Model.v with [getv] in the
   place of [lookup]; KProofs.v proves that they coincide with Model.v's on keys without dots. *)
From Coq Require Import List ZArith Bool String Ascii.
From GZ Require Export C08.Model.
Import ListNotations.
Open Scope Z_scope.

Definition obj := list (string * jv).

(* ------------------------------------------------------------------ key segments *)

Definition is_dot (c : ascii) : bool := (N_of_ascii c =? 46)%N.

(* strings.FieldsFunc(key, c == '.'): maximal dot-free runs, empty ones dropped *)
Fixpoint split_dot_go (s acc : string) : list string :=
  match s with
  | EmptyString => if String.eqb acc "" then [] else [acc]
  | String c r =>
    if is_dot c then (if String.eqb acc "" then split_dot_go r "" else acc :: split_dot_go r "")
    else split_dot_go r (acc ++ String c "")
  end.

Definition seg_dotted (key : string) : list string := split_dot_go key "".
Definition seg_opaque (key : string) : list string := [key].

Record kcfg := mkK { k_cfg : ucfg; k_seg : string -> list string }.

(* the unmarshallers go-zero builds *)
Definition kc_json : kcfg := mkK (mkCfg false false false) seg_dotted.   (* json / yaml / toml / key *)
Definition kc_header : kcfg := mkK (mkCfg true false true) seg_dotted.   (* rest/internal/encoding *)
Definition kc_form : kcfg := mkK (mkCfg true true false) seg_opaque.     (* rest/httpx formUnmarshaler *)
Definition kc_path : kcfg := mkK (mkCfg true false false) seg_opaque.    (* rest/httpx pathUnmarshaler *)

(* ------------------------------------------------------------------ chained look-up *)

(* members of the outer object that the inner one lacks are added *)
Definition merge_obj (vm pm : obj) : obj := vm ++ filter (fun kv => negb (has (fst kv) vm)) pm.

(* recursiveValuer.Value over the scopes, innermost first *)
Fixpoint rlookup (k : string) (scopes : list obj) : option jv :=
  match scopes with
  | [] => None
  | o :: up =>
    match lookup k o with
    | None => rlookup k up
    | Some (JObj vm) =>
      match rlookup k up with
      | Some (JObj pm) => Some (JObj (merge_obj vm pm))
      | _ => Some (JObj vm)
      end
    | Some v => Some v
    end
  end.

(* the segments after the first *)
Fixpoint chained (ks : list string) (v : jv) (scopes : list obj) : option jv :=
  match ks with
  | [] => Some v
  | k :: ks' =>
    match v with
    | JObj vm =>
      match rlookup k (vm :: scopes) with
      | Some v' => chained ks' v' (vm :: scopes)
      | None => None
      end
    | _ => None
    end
  end.

(* getValue: [o] the object at hand, [env] the objects of the enclosing struct fields *)
Definition getv (kc : kcfg) (env : list obj) (key : string) (o : obj) : option jv :=
  match k_seg kc key with
  | [] => None
  | k0 :: ks => match lookup k0 o with Some v => chained ks v (o :: env) | None => None end
  end.

Definition hasv (kc : kcfg) (env : list obj) (key : string) (o : obj) : bool :=
  match getv kc env key o with Some _ => true | None => false end.

Definition field_inputK (kc : kcfg) (env : list obj) (t : ftype) (key : string) (o : obj) : option jv :=
  option_map (from_array (k_cfg kc) t) (getv kc env key o).

Definition ignored (key : string) : bool := String.eqb key "-".

(* processAnonymousStructFieldOptional: is any member's key present? *)
Fixpoint any_presentK (kc : kcfg) (env : list obj) (fs : fields) (o : obj) : bool :=
  match fs with
  | FNil => false
  | FCons key _ _ rest => hasv kc env key o || any_presentK kc env rest o
  | FEmbed _ _ _ rest => any_presentK kc env rest o
  end.

(* ------------------------------------------------------------------ the unmarshaller *)

Section Unmarshal.
Variable kc : kcfg.

Fixpoint umk_present (env : list obj) (t : ftype) (ro : ropts) (v : jv) {struct t} : result gval :=
  match t with
  | TPrim k => prim_present fixed (k_cfg kc) k ro v
  | TPtr t' => rmap VPtr (umk_present env t' ro v)
  | TStruct fs =>
    match v with
    | JObj o => rmap VStruct (umk_fields env fs o)
    | _ => Err EType
    end
  | TSlice e =>
    match v with
    | JArr l => slice_with (umk_elem false e) (zero e) l
    | _ => Err EType
    end
  | TMap e =>
    match v with
    | JObj o => map_with (umk_elem true e) o
    | _ => Err EType
    end
  end

(* an element of a slice or of a map: unmarshalled on its own, no enclosing scope *)
with umk_elem (inmap : bool) (t : ftype) (v : jv) {struct t} : result gval :=
  match t with
  | TPrim k => prim_elem inmap k v
  | TPtr t' => x <- umk_elem inmap t' v ;; Ok (VPtr x)
  | TStruct fs =>
    match v with
    | JObj o => rmap VStruct (umk_fields [] fs o)
    | _ => Err EType
    end
  | TSlice e =>
    match v with
    | JArr l => slice_with (umk_elem false e) (zero e) l
    | _ => Err EType
    end
  | TMap e =>
    match v with
    | JObj o => map_with (umk_elem true e) o
    | _ => Err EType
    end
  end

(* key absent, field not optional, no default: a struct is filled from the empty map *)
with umk_absent (t : ftype) {struct t} : result gval :=
  match t with
  | TPrim _ => Err ENotSet
  | TPtr t' => rmap VPtr (umk_absent t')
  | TSlice _ => Err EType
  | TMap _ => Ok (VMap [])
  | TStruct fs =>
    if required_fields fs then Err ENotSet else rmap VStruct (umk_fields [] fs [])
  end

(* the fields [fs] against the object [o]; [env]: the objects of the enclosing struct fields *)
with umk_fields (env : list obj) (fs : fields) (o : obj) {struct fs} : result (list gval) :=
  match fs with
  | FNil => Ok []
  | FCons key op t rest =>
    x <- (_ <- guard (opts_ok op) ETag ;;
          ro <- resolve fixed (u_canonical (k_cfg kc)) key op o ;;
          if ignored key then Ok (zero t) else
          match field_inputK kc env t key o with
          | None =>
            match ro_default ro with
            | Some d => um_default t d
            | None => if ro_optional ro then Ok (zero t) else umk_absent t
            end
          | Some JNull => if ro_optional ro then Ok (zero t) else Err ENil
          | Some v => umk_present (o :: env) t ro v
          end) ;;
    xs <- umk_fields env rest o ;;
    Ok (x :: xs)
  | FEmbed opt ptr inner rest =>
    x <- (if opt then
            let filled := any_presentK kc env inner o in
            r <- umk_opt_members env inner o filled ;;
            _ <- guard (negb filled || snd r) ENotSet ;;
            Ok (if ptr then (if filled then VPtr (VStruct (fst r)) else VNil) else VStruct (fst r))
          else
            xs <- umk_fields env inner o ;;
            Ok (if ptr then VPtr (VStruct xs) else VStruct xs)) ;;
    ys <- umk_fields env rest o ;;
    Ok (x :: ys)
  end

with umk_opt_members (env : list obj) (fs : fields) (o : obj) (filled : bool)
                     {struct fs} : result (list gval * bool) :=
  match fs with
  | FNil => Ok ([], true)
  | FCons key op t rest =>
    xb <- (_ <- guard (opts_ok op) ETag ;;
           ro <- resolve fixed (u_canonical (k_cfg kc)) key op o ;;
           x <- match field_inputK kc env t key o with
                | None =>
                  match ro_default ro with
                  | Some d => if filled then um_default t d else Ok (zero t)
                  | None => Ok (zero t)
                  end
                | Some JNull => if ro_optional ro then Ok (zero t) else Err ENil
                | Some v => umk_present (o :: env) t ro v
                end ;;
           Ok (x, hasv kc env key o || member_excused fixed ro)) ;;
    r <- umk_opt_members env rest o filled ;;
    Ok (fst xb :: fst r, snd xb && snd r)
  | FEmbed opt ptr inner rest =>
    r <- umk_opt_members env rest o filled ;;
    Ok ((if ptr then VNil else VStruct (zero_fields inner)) :: fst r, opt && snd r)
  end.

End Unmarshal.

(* Unmarshaler.Unmarshal on a decoded document ([None]: the decoder rejected the stream) *)
Definition unmarshalK (kc : kcfg) (fs : fields) (d : option jv) : result gval :=
  match d with
  | Some (JObj o) => rmap VStruct (umk_fields kc [] fs o)
  | _ => Err EDoc
  end.

(* ------------------------------------------------------------------ calls and processes *)

(* One call of an entry point: one unmarshaller for mapping.Unmarshal*, ParseForm, ParsePath,
   ParseHeaders, ParseJsonBody; for httpx.Parse the four passes path, form, header, json body in
   this order, each over the fields tagged for it.  The first pass that fails decides; after the
   last one the request validator (httpx.SetValidator), if any, has the last word. *)
Record pass := mkPass { p_kc : kcfg; p_type : fields; p_doc : option jv }.

Fixpoint run_passes (ps : list pass) : result (list gval) :=
  match ps with
  | [] => Ok []
  | p :: ps' =>
    v <- unmarshalK (p_kc p) (p_type p) (p_doc p) ;;
    vs <- run_passes ps' ;;
    Ok (v :: vs)
  end.

Record call := mkCall { c_passes : list pass; c_validator : option bool (* Some b: set, accepts iff b *) }.

Inductive cresult := CAccepted (vs : list gval) | CRejected (by_validator : bool) | CPanic.

Definition serve_call (c : call) : cresult :=
  match run_passes (c_passes c) with
  | Ok vs => match c_validator c with Some false => CRejected true | _ => CAccepted vs end
  | Err _ => CRejected false
  | Panic => CPanic
  end.

(* A process serves calls one after the other; the unmarshaller keeps nothing between them:
   the key / option / struct caches only memoise pure functions of their own key. *)
Definition run_calls (cs : list call) : list cresult := map serve_call cs.

(* ------------------------------------------------------------------ the modelled fragment *)

(* "-" is modelled for named fields only, not for members of an optional embedded struct *)
Fixpoint no_ignored (fs : fields) : bool :=
  match fs with
  | FNil => true
  | FCons key _ _ rest => negb (ignored key) && no_ignored rest
  | FEmbed _ _ _ rest => no_ignored rest
  end.

Fixpoint type_okK (t : ftype) : bool :=
  match t with
  | TPrim _ => true
  | TPtr t' => ptr_target_ok t' && type_okK t'
  | TSlice (TPrim (KUint W8)) => false
  | TSlice e => type_okK e
  | TMap e => type_okK e
  | TStruct fs => fields_okK fs
  end
with fields_okK (fs : fields) : bool :=
  match fs with
  | FNil => true
  | FCons _ o t rest =>
    type_okK t
    && match o with
       | Some o' => match o_default o' with Some _ => negb (is_slice_deref t) | None => true end
       | None => true
       end
    && fields_okK rest
  | FEmbed opt _ inner rest =>
    fields_okK inner && (negb opt || (no_embed inner && no_ignored inner)) && fields_okK rest
  end.
