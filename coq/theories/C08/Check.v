(* C08 — correspondence / property evaluation on what the implementation returned.
   Executable only. *)
From Coq Require Import List ZArith Bool String Ascii.
From GZ Require Export C08.Model C08.Spec.
Import ListNotations.
Open Scope Z_scope.

Inductive verdict := VOk | VErr | VPanic.

(* one request as observed *)
Record step := mkCase
  { c_cfg : ucfg;
    c_type : fields;             (* the struct type built with reflect.StructOf *)
    c_doc : option jv;           (* None: a stream the JSON decoder rejects *)
    c_verdict : verdict;         (* observed: nil error / error / recovered panic *)
    c_val : option gval }.       (* observed canonical dump of the target (verdict ok) *)

Fixpoint gval_eqb (a b : gval) {struct a} : bool :=
  match a, b with
  | VBool x, VBool y => Bool.eqb x y
  | VInt x, VInt y => x =? y
  | VFloat x, VFloat y => fval_eqb x y
  | VStr x, VStr y => String.eqb x y
  | VNil, VNil => true
  | VPtr x, VPtr y => gval_eqb x y
  | VSlice l1, VSlice l2 =>
    (fix go (l1 l2 : list gval) : bool :=
       match l1, l2 with
       | [], [] => true
       | x :: l1', y :: l2' => gval_eqb x y && go l1' l2'
       | _, _ => false
       end) l1 l2
  | VStruct l1, VStruct l2 =>
    (fix go (l1 l2 : list gval) : bool :=
       match l1, l2 with
       | [], [] => true
       | x :: l1', y :: l2' => gval_eqb x y && go l1' l2'
       | _, _ => false
       end) l1 l2
  | VMap m1, VMap m2 =>
    (Z.of_nat (List.length m1) =? Z.of_nat (List.length m2)) &&
    (fix go (m : list (string * gval)) : bool :=
       match m with
       | [] => true
       | (k, x) :: m' =>
         match lookup k m2 with Some y => gval_eqb x y | None => false end && go m'
       end) m1
  | _, _ => false
  end.

(* the generator only emits types of the modelled fragment; anything else is skipped (and counted) *)
Definition in_scope (c : step) : bool := fields_ok (c_type c).

(* a case: the requests served, in order, by one process (usually a single one) *)
Definition case := list step.

Definition req_of (c : step) : request := mkReq (c_cfg c) (c_type c) (c_doc c).
Definition model_obs (cs : case) : list (result gval) := run_requests fixed (map req_of cs).

(* the model reproduces the implementation's verdict and decoded value *)
Definition agrees1 (m : result gval) (c : step) : bool :=
  if in_scope c then
    match m, c_verdict c, c_val c with
    | Ok v, VOk, Some w => gval_eqb v w
    | Err _, VErr, _ => true
    | Panic, VPanic, _ => true
    | _, _, _ => false
    end
  else true.

(* the property, evaluated directly on (type, document, observed verdict and value):
   accepted  => all declared constraints hold of the document (accept_sound) and the target is
                exactly the typed decoding with defaults (accept_exact);
   rejected  => the document is ill-typed or misses a constraint (accept_complete);
   a panic is always a failure (total). *)
Definition prop_ok1 (c : step) : bool :=
  if in_scope c then
    match c_verdict c with
    | VPanic => false
    | VOk =>
      match decode (c_cfg c) (c_type c) (c_doc c), c_val c with
      | Some v, Some w => gval_eqb v w && meets (c_cfg c) (c_type c) (c_doc c)
      | _, _ => false
      end
    | VErr =>
      negb (match decode (c_cfg c) (c_type c) (c_doc c) with
            | Some _ => meets (c_cfg c) (c_type c) (c_doc c)
            | None => false
            end)
    end
  else true.

Fixpoint agrees_all (ms : list (result gval)) (cs : list step) : bool :=
  match ms, cs with
  | [], [] => true
  | m :: ms', c :: cs' => agrees1 m c && agrees_all ms' cs'
  | _, _ => false
  end.

(* every request of the sequence against the model of the whole sequence *)
Definition agrees (cs : case) : bool := agrees_all (model_obs cs) cs.

(* every request against ITS OWN document only *)
Definition prop_ok (cs : case) : bool := forallb prop_ok1 cs.
