(* C08 — correspondence / property evaluation on what the implementation returned.
   Executable only.

   A case is the sequence of CALLS served, in order, by one process.  A call is one entry point
   of go-zero: mapping.UnmarshalJsonBytes / UnmarshalKey / Unmarshaler.Unmarshal, the yaml and
   toml front ends, httpx.ParseForm / ParsePath / ParseHeaders / ParseJsonBody (one pass each),
   or httpx.Parse (the passes path, form, header, json body over the fields tagged for each, then
   the request validator).  Every pass carries the key semantics of its unmarshaller ([kcfg]:
   opaque or chained keys), its view of the struct type, its own document, and the observed
   projection of the target onto its fields. *)
From Coq Require Import List ZArith Bool String Ascii.
From GZ Require Export C08.Model C08.Spec C08.KModel C08.KSpec C08.TagModel C08.ReqModel.
From GZgen Require Import C08Consts.
Import ListNotations.
Open Scope Z_scope.

Inductive verdict := VOk | VErr | VPanic.

Record opass := mkOPass
  { op_pass : pass;
    op_val : option gval }.      (* observed canonical dump of this pass's fields (verdict ok) *)

Record ocall := mkOCall
  { oc_passes : list opass;
    oc_validator : option bool;  (* httpx.SetValidator: Some b = installed, accepts iff b *)
    oc_called : bool;            (* observed: the validator ran *)
    oc_verdict : verdict;        (* observed: nil error / error / recovered panic *)
    oc_tags : list (string * string * option fopts);
                                 (* tag texts written by the generator: (text, key, options it stands for) *)
    oc_forms : list (rform * option jv);
                                 (* the form parameters as sent (r.Form) and the document the generator gave
                                    the form pass for them: must be GetFormValues of them (ReqModel.v) *)
    oc_intact : bool }.          (* observed: after the call every object the caller handed in (the request's
                                    form / headers / URL / path variables / body bytes, the input map or text)
                                    holds what it held before it — ReqModel.v: [touch_head] *)

Fixpoint gval_eqb (a b : gval) {struct a} : bool :=
  match a, b with
  | VBool x, VBool y => Bool.eqb x y
  | VInt x, VInt y => x =? y
  | VFloat x, VFloat y => fval_eqb x y
  | VStr x, VStr y => String.eqb x y
  | VNil, VNil => true
  | VPtr x, VPtr y => gval_eqb x y
  | VSlice l1, VSlice l2 =>
    (fix go (l1 l2 : list gval) : bool :=
       match l1, l2 with
       | [], [] => true
       | x :: l1', y :: l2' => gval_eqb x y && go l1' l2'
       | _, _ => false
       end) l1 l2
  | VStruct l1, VStruct l2 =>
    (fix go (l1 l2 : list gval) : bool :=
       match l1, l2 with
       | [], [] => true
       | x :: l1', y :: l2' => gval_eqb x y && go l1' l2'
       | _, _ => false
       end) l1 l2
  | VMap m1, VMap m2 =>
    (Z.of_nat (List.length m1) =? Z.of_nat (List.length m2)) &&
    (fix go (m : list (string * gval)) : bool :=
       match m with
       | [] => true
       | (k, x) :: m' =>
         match lookup k m2 with Some y => gval_eqb x y | None => false end && go m'
       end) m1
  | _, _ => false
  end.

(* strings that the model's JSON reader reads like encoding/json, should they be given to a slice field *)
Fixpoint doc_strs_ok (v : jv) : bool :=
  match v with
  | JStr s => slice_str_ok s
  | JArr l => (fix go (l : list jv) := match l with [] => true | x :: r => doc_strs_ok x && go r end) l
  | JObj o => (fix go (o : list (string * jv)) := match o with [] => true | (_, x) :: r => doc_strs_ok x && go r end) o
  | _ => true
  end.

(* the generator only emits types and documents of the modelled fragment; anything else is skipped (and counted) *)
Definition in_scope (c : ocall) : bool :=
  forallb (fun p => fields_okK (p_type (op_pass p)) &&
                    match p_doc (op_pass p) with Some d => doc_strs_ok d | None => true end) (oc_passes c).

Definition case := list ocall.

Definition call_of (c : ocall) : call := mkCall (map op_pass (oc_passes c)) (oc_validator c).
Definition model_obs (cs : case) : list cresult := run_calls (map call_of cs).

Definition is_some {A} (o : option A) : bool := match o with Some _ => true | None => false end.

Fixpoint vals_agree (vs : list gval) (ps : list opass) : bool :=
  match vs, ps with
  | [], [] => true
  | v :: vs', p :: ps' =>
    match op_val p with Some w => gval_eqb v w | None => false end && vals_agree vs' ps'
  | _, _ => false
  end.

(* every tag text means, by the tag grammar of TagModel.v, what the generator claims *)
Definition tags_ok (c : ocall) : bool :=
  forallb (fun t => claim_ok (fst (fst t)) (snd (fst t)) (snd t)) (oc_tags c).

(* every document of a form pass is what GetFormValues makes of the parameters sent *)
Definition forms_ok (c : ocall) : bool :=
  forallb (fun fd => optjv_eqb (form_values gen_max_form_values (fst fd)) (snd fd)) (oc_forms c).

(* the model reproduces the implementation's verdict, decoded values and validator call *)
Definition agrees1 (m : cresult) (c : ocall) : bool :=
  tags_ok c && forms_ok c && oc_intact c &&
  if in_scope c then
    match m, oc_verdict c with
    | CAccepted vs, VOk => vals_agree vs (oc_passes c) && Bool.eqb (oc_called c) (is_some (oc_validator c))
    | CRejected by_validator, VErr => Bool.eqb (oc_called c) by_validator
    | CPanic, VPanic => true
    | _, _ => false
    end
  else false.   (* the generator only emits the modelled fragment: a case outside it is a generator defect, reported loudly *)

(* one pass against ITS OWN document: the typed decoding exists, is what was observed, and
   every declared constraint holds *)
Definition pass_sound (p : opass) : bool :=
  let q := op_pass p in
  match decodeK (p_kc q) (p_type q) (p_doc q), op_val p with
  | Some v, Some w => gval_eqb v w && meetsK (p_kc q) (p_type q) (p_doc q)
  | _, _ => false
  end.

Definition pass_valid (p : opass) : bool := pass_fine (op_pass p).

(* the property, evaluated directly on (types, documents, observed verdict and values):
   accepted  => for every pass all declared constraints hold of its document and its fields hold
                exactly the typed decoding with defaults; an installed validator ran and accepted;
   rejected  => some pass's document is ill-typed or misses a constraint (and then the validator
                did not run), or every pass is fine and the installed validator ran and rejected;
   a panic is always a failure; so is a call that wrote into an object of its caller (the next look
   at that object then is a look at values nobody supplied). *)
Definition prop_ok1 (c : ocall) : bool :=
  if in_scope c then
    oc_intact c &&
    match oc_verdict c with
    | VPanic => false
    | VOk =>
      forallb pass_sound (oc_passes c) &&
      match oc_validator c with
      | Some b => b && oc_called c
      | None => negb (oc_called c)
      end
    | VErr =>
      if forallb pass_valid (oc_passes c)
      then match oc_validator c with Some false => oc_called c | _ => false end
      else negb (oc_called c)
    end
  else true.

Fixpoint agrees_all (ms : list cresult) (cs : list ocall) : bool :=
  match ms, cs with
  | [], [] => true
  | m :: ms', c :: cs' => agrees1 m c && agrees_all ms' cs'
  | _, _ => false
  end.

(* every call of the sequence against the model of the whole sequence *)
Definition agrees (cs : case) : bool := agrees_all (model_obs cs) cs.

(* every call against ITS OWN documents only *)
Definition prop_ok (cs : case) : bool := forallb prop_ok1 cs.
