(* C08 — proofs, part C of the key look-up semantics: what acceptance says about ONE field, at any
   depth of the type: the fields of the top-level struct, of struct-typed fields that the document
   supplies (behind pointers), of struct elements of supplied slices and struct values of supplied
   maps, recursively.  For every such field the declared constraints hold in the object it is
   read from: well-formed tag, dependency respected, required scalars supplied, supplied numbers
   inside their range, supplied optioned values among their options. *)
From Coq Require Import List ZArith Bool String Ascii Lia.
From GZ Require Import C08.Model C08.Spec C08.Proofs C08.ProofsB C08.KModel C08.KSpec C08.KProofs C08.KProofsB.
Import ListNotations.
Open Scope Z_scope.

Section Fields.
Variable kc : kcfg.

(* the struct object [ob'] of type [fs'] (read with the enclosing scopes [env']) sits inside the
   supplied value [v] of type [t] *)
Inductive inside_elem : ftype -> jv -> list obj -> fields -> obj -> Prop :=
| ie_struct : forall fs ob, inside_elem (TStruct fs) (JObj ob) [] fs ob
| ie_ptr : forall t v env' fs ob, inside_elem t v env' fs ob -> inside_elem (TPtr t) v env' fs ob
| ie_slice : forall e l x env' fs ob,
    In x l -> x <> JNull -> inside_elem e x env' fs ob -> inside_elem (TSlice e) (JArr l) env' fs ob
| ie_map : forall e m k x env' fs ob,
    In (k, x) m -> inside_elem e x env' fs ob -> inside_elem (TMap e) (JObj m) env' fs ob.

Inductive inside : list obj -> ftype -> jv -> list obj -> fields -> obj -> Prop :=
| in_struct : forall env fs ob, inside env (TStruct fs) (JObj ob) env fs ob
| in_ptr : forall env t v env' fs ob, inside env t v env' fs ob -> inside env (TPtr t) v env' fs ob
| in_slice : forall env e l x env' fs ob,
    In x l -> x <> JNull -> inside_elem e x env' fs ob -> inside env (TSlice e) (JArr l) env' fs ob
| in_map : forall env e m k x env' fs ob,
    In (k, x) m -> inside_elem e x env' fs ob -> inside env (TMap e) (JObj m) env' fs ob.

(* struct objects reached from the top-level one through supplied fields *)
Inductive reach : list obj -> fields -> obj -> list obj -> fields -> obj -> Prop :=
| reach_here : forall env fs ob, reach env fs ob env fs ob
| reach_field : forall env fs ob key o t v env1 fs1 ob1 env2 fs2 ob2,
    field_in key o t fs -> ignored key = false ->
    field_inputK kc env t key ob = Some v ->
    inside (ob :: env) t v env1 fs1 ob1 ->
    reach env1 fs1 ob1 env2 fs2 ob2 ->
    reach env fs ob env2 fs2 ob2.

Definition field_condK (env : list obj) (key : string) (o : option fopts) (t : ftype) (ob : obj) : bool :=
  opts_ok o && dep_respected key o ob &&
  (if ignored key then true else
   match field_inputK kc env t key ob with
   | None => match opt_default o with Some d => meetsK_default kc t d | None => declared_optional o ob || meetsK_absent kc t end
   | Some JNull => declared_optional o ob
   | Some v => meetsK_present kc (ob :: env) t o v
   end).

Lemma meetsK_fields_field : forall fs env ob key o t,
  meetsK_fields kc env fs ob = true -> field_in key o t fs -> field_condK env key o t ob = true.
Proof.
  intros fs.
  apply (fields_mind (fun _ => True)
           (fun fs => forall env ob key o t, meetsK_fields kc env fs ob = true -> field_in key o t fs ->
                                             field_condK env key o t ob = true)); auto.
  - intros k' o' t' _ rest IH env ob key o t Hm Hin.
    simpl in Hm. apply andb_true_iff in Hm. destruct Hm as [Hm Hr].
    destruct Hin as [[Hk [Ho Ht]]|Hin].
    + subst. exact Hm.
    + apply (IH env ob key o t Hr Hin).
  - intros opt ptr inner IHi rest IHr env ob key o t Hm Hin.
    simpl in Hm. apply andb_true_iff in Hm. destruct Hm as [Hm Hr].
    destruct Hin as [[Hopt Hin]|Hin].
    + subst opt. apply (IHi env ob key o t Hm Hin).
    + apply (IHr env ob key o t Hr Hin).
Qed.

Lemma all_elems_in : forall f l x, all_elems f l = true -> In x l -> x <> JNull -> f x = true.
Proof.
  intros f l x H Hin Hn. unfold all_elems in H. rewrite forallb_forall in H. specialize (H x Hin).
  destruct x; try exact H. contradiction.
Qed.

Lemma all_values_in : forall f (m : list (string * jv)) k x, all_values f m = true -> In (k, x) m -> f x = true.
Proof.
  intros f m k x H Hin. unfold all_values in H. rewrite forallb_forall in H. exact (H (k, x) Hin).
Qed.

Lemma meetsK_inside_elem : forall t v env' fs ob,
  inside_elem t v env' fs ob -> meetsK_elem kc t v = true -> meetsK_fields kc env' fs ob = true.
Proof.
  intros t v env' fs ob H. induction H; intro Hm; simpl in Hm.
  - exact Hm.
  - apply IHinside_elem. exact Hm.
  - apply IHinside_elem. apply (all_elems_in _ _ _ Hm H H0).
  - apply IHinside_elem. apply (all_values_in _ _ _ _ Hm H).
Qed.

Lemma meetsK_inside : forall env t o v env' fs ob,
  inside env t v env' fs ob -> meetsK_present kc env t o v = true -> meetsK_fields kc env' fs ob = true.
Proof.
  intros env t o v env' fs ob H. induction H; intro Hm; simpl in Hm.
  - exact Hm.
  - apply IHinside. exact Hm.
  - apply (meetsK_inside_elem _ _ _ _ _ H1). apply (all_elems_in _ _ _ Hm H H0).
  - apply (meetsK_inside_elem _ _ _ _ _ H0). apply (all_values_in _ _ _ _ Hm H).
Qed.

Lemma inside_not_null : forall env t v env' fs ob, inside env t v env' fs ob -> v <> JNull.
Proof. intros env t v env' fs ob H. induction H; try discriminate. exact IHinside. Qed.

Lemma meetsK_reach : forall env fs ob env' fs' ob',
  reach env fs ob env' fs' ob' -> meetsK_fields kc env fs ob = true -> meetsK_fields kc env' fs' ob' = true.
Proof.
  intros env fs ob env' fs' ob' H. induction H; intro Hm; [exact Hm|].
  apply IHreach. pose proof (meetsK_fields_field _ _ _ _ _ _ Hm H) as Hc.
  unfold field_condK in Hc. apply andb_true_iff in Hc. destruct Hc as [_ Hc]. rewrite H0, H1 in Hc.
  apply (meetsK_inside _ _ o _ _ _ _ H2).
  pose proof (inside_not_null _ _ _ _ _ _ H2) as Hn. destruct v; try exact Hc. contradiction.
Qed.

Lemma topK_meets : forall fs ob v,
  unmarshalK kc fs (Some (JObj ob)) = Ok v -> meetsK_fields kc [] fs ob = true.
Proof. intros fs ob v H. apply acceptK_sound_lemma in H. exact H. Qed.

(* every field of every reached struct object meets its declared constraints *)
Lemma field_everywhere_lemma : forall fs ob v env' fs' ob' key o t,
  unmarshalK kc fs (Some (JObj ob)) = Ok v ->
  reach [] fs ob env' fs' ob' -> field_in key o t fs' ->
  field_condK env' key o t ob' = true.
Proof.
  intros fs ob v env' fs' ob' key o t Hu Hr Hin.
  apply (meetsK_fields_field fs' env' ob' key o t); [|exact Hin].
  apply (meetsK_reach _ _ _ _ _ _ Hr). apply (topK_meets _ _ _ Hu).
Qed.

Lemma meetsK_scalar : forall env t k o v,
  scalar_kind t = Some k ->
  meetsK_present kc env t o v =
  range_ok (reads_strings (k_cfg kc) o) k (opt_range o) v && options_ok (opt_options o) v.
Proof.
  intros env t. induction t; intros k' o v H; simpl in H; try discriminate.
  - inversion H. reflexivity.
  - simpl. apply IHt. exact H.
Qed.

Lemma meetsK_absent_scalar : forall t k, scalar_kind t = Some k -> meetsK_absent kc t = false.
Proof.
  intros t. induction t; intros k' H; simpl in H; try discriminate.
  - reflexivity.
  - cbn [meetsK_absent]. apply (IHt k'). exact H.
Qed.

Lemma requiredK_supplied_lemma : forall fs ob v env' fs' ob' key o t k,
  unmarshalK kc fs (Some (JObj ob)) = Ok v ->
  reach [] fs ob env' fs' ob' -> field_in key o t fs' -> ignored key = false ->
  scalar_kind t = Some k -> opt_default o = None -> declared_optional o ob' = false ->
  exists x, field_inputK kc env' t key ob' = Some x /\ x <> JNull.
Proof.
  intros fs ob v env' fs' ob' key o t k Hu Hr Hin Hig Hk Hd Ho.
  pose proof (field_everywhere_lemma _ _ _ _ _ _ _ _ _ Hu Hr Hin) as Hc.
  unfold field_condK in Hc. apply andb_true_iff in Hc. destruct Hc as [_ Hc].
  rewrite Hig, Hd, Ho, (meetsK_absent_scalar t k Hk) in Hc.
  destruct (field_inputK kc env' t key ob') as [x|]; [|discriminate].
  exists x. split; [reflexivity|]. intro Hx. subst x. discriminate.
Qed.

Lemma suppliedK_in_range_lemma : forall fs ob v env' fs' ob' key o t k x r,
  unmarshalK kc fs (Some (JObj ob)) = Ok v ->
  reach [] fs ob env' fs' ob' -> field_in key o t fs' -> ignored key = false ->
  scalar_kind t = Some k ->
  field_inputK kc env' t key ob' = Some x -> x <> JNull -> opt_range o = Some r ->
  exists d, supplied_num (reads_strings (k_cfg kc) o) k x = Some (FDec d) /\
            match r_l r with None => True | Some l => if r_li r then dec_leb l d = true else dec_ltb l d = true end /\
            match r_r r with None => True | Some h => if r_ri r then dec_leb d h = true else dec_ltb d h = true end.
Proof.
  intros fs ob v env' fs' ob' key o t k x r Hu Hre Hin Hig Hk Hx Hnn Hr.
  pose proof (field_everywhere_lemma _ _ _ _ _ _ _ _ _ Hu Hre Hin) as Hc.
  unfold field_condK in Hc. apply andb_true_iff in Hc. destruct Hc as [_ Hc]. rewrite Hig, Hx in Hc.
  assert (Hm : meetsK_present kc (ob' :: env') t o x = true) by (destruct x; try exact Hc; contradiction).
  rewrite (meetsK_scalar _ t k o x Hk) in Hm. apply andb_true_iff in Hm. destruct Hm as [Hm _].
  unfold range_ok in Hm. rewrite Hr in Hm.
  destruct (supplied_num (reads_strings (k_cfg kc) o) k x) as [[d| |]|]; try discriminate.
  exists d. split; [reflexivity|]. unfold in_range in Hm. apply andb_true_iff in Hm. destruct Hm as [H1 H2].
  split.
  - destruct (r_l r); [|exact I]. destruct (r_li r); exact H1.
  - destruct (r_r r); [|exact I]. destruct (r_ri r); exact H2.
Qed.

Lemma suppliedK_in_options_lemma : forall fs ob v env' fs' ob' key o t k x,
  unmarshalK kc fs (Some (JObj ob)) = Ok v ->
  reach [] fs ob env' fs' ob' -> field_in key o t fs' -> ignored key = false ->
  scalar_kind t = Some k ->
  field_inputK kc env' t key ob' = Some x -> x <> JNull -> opt_options o <> [] ->
  exists s, supplied_text x = Some s /\ In s (opt_options o).
Proof.
  intros fs ob v env' fs' ob' key o t k x Hu Hre Hin Hig Hk Hx Hnn Ho.
  pose proof (field_everywhere_lemma _ _ _ _ _ _ _ _ _ Hu Hre Hin) as Hc.
  unfold field_condK in Hc. apply andb_true_iff in Hc. destruct Hc as [_ Hc]. rewrite Hig, Hx in Hc.
  assert (Hm : meetsK_present kc (ob' :: env') t o x = true) by (destruct x; try exact Hc; contradiction).
  rewrite (meetsK_scalar _ t k o x Hk) in Hm. apply andb_true_iff in Hm. destruct Hm as [_ Hm].
  unfold options_ok in Hm. destruct (opt_options o) as [|s0 l0] eqn:Hl; [contradiction|].
  destruct (supplied_text x) as [s|]; [|discriminate].
  exists s. split; [reflexivity|]. apply str_in_In. exact Hm.
Qed.

Lemma dependencyK_respected_lemma : forall fs ob v env' fs' ob' key o t,
  unmarshalK kc fs (Some (JObj ob)) = Ok v ->
  reach [] fs ob env' fs' ob' -> field_in key o t fs' -> dep_respected key o ob' = true.
Proof.
  intros fs ob v env' fs' ob' key o t Hu Hre Hin.
  pose proof (field_everywhere_lemma _ _ _ _ _ _ _ _ _ Hu Hre Hin) as Hc.
  unfold field_condK in Hc. apply andb_true_iff in Hc. destruct Hc as [Hc _].
  apply andb_true_iff in Hc. tauto.
Qed.

End Fields.
