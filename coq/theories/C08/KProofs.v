(* C08 — proofs over the key look-up semantics (KModel.v / KSpec.v): for EVERY segmenter the
   unmarshaller accepts exactly the well-typed documents that meet every declared constraint, with
   the typed decoding as result, and never panics; on keys without dots it is Model.v's
   unmarshaller; calls served by one process are independent. *)
From Coq Require Import List ZArith Bool String Ascii Lia.
From GZ Require Import C08.Model C08.Spec C08.Proofs C08.KModel C08.KSpec.
Import ListNotations.
Open Scope Z_scope.

(* ------------------------------------------------------------------ the main characterisation *)

Section Main.
Variable kc : kcfg.

Definition PK_type (t : ftype) : Prop :=
  (forall env o b v x, umk_present kc env t (ropts_for o b) v = Ok x <->
                       decodeK_present kc env (reads_strings (k_cfg kc) o) t v = Some x /\
                       meetsK_present kc env t o v = true) /\
  (forall inmap v x, umk_elem kc inmap t v = Ok x <->
                     decodeK_elem kc inmap t v = Some x /\ meetsK_elem kc t v = true) /\
  (forall x, umk_absent kc t = Ok x <-> decodeK_absent kc t = Some x /\ meetsK_absent kc t = true) /\
  (forall d x, umk_default kc t d = Ok x <-> decodeK_default kc t d = Some x /\ meetsK_default kc t d = true).

Definition PK_fields (fs : fields) : Prop :=
  forall env ob xs, umk_fields kc env fs ob = Ok xs <->
                    decodeK_fields kc env fs ob = Some xs /\ meetsK_fields kc env fs ob = true.

Definition QK_fields (fs : fields) : Prop :=
  forall env ob filled xs b,
    umk_opt_members kc env fs ob filled = Ok (xs, b) <->
    decodeK_opt_members kc env fs ob filled = Some xs /\ meetsK_opt_members kc env fs ob = true /\
    b = fully_setK kc env fs ob.

Lemma structK_case : forall fs, PK_fields fs ->
  forall env (v : jv) x,
    match v with JObj o => rmap VStruct (umk_fields kc env fs o) | _ => Err EType end = Ok x <->
    match v with JObj o => option_map VStruct (decodeK_fields kc env fs o) | _ => None end = Some x /\
    match v with JObj ob => meetsK_fields kc env fs ob | _ => true end = true.
Proof.
  intros fs IH env v x. destruct v; try (split; [discriminate | intros [H _]; discriminate]).
  rewrite rmap_ok, omap_some. split.
  - intros [a [H1 H2]]. apply IH in H1. destruct H1. split; [exists a; auto | auto].
  - intros [[a [H1 H2]] H3]. exists a. split; [apply IH; auto | auto].
Qed.

Lemma str_elem_ptr_iff : forall e b x, str_elem_ptr e b = Ok x <-> decode_str_elem_ptr e b = Some x.
Proof.
  induction e; intros b x; simpl; try (split; discriminate).
  - destruct k; try (split; discriminate). split; intro H; inversion H; reflexivity.
  - rewrite rmap_ok, omap_some. split; intros [a [H1 H2]]; exists a; split; auto; apply IHe; auto.
Qed.

Lemma str_elem_iff : forall e v x, str_elem e v = Ok x <-> decode_str_elem e v = Some x.
Proof.
  intros e v x. destruct e; simpl; try (split; discriminate).
  - apply prim_elem_iff.
  - destruct v; try (split; discriminate).
    rewrite rmap_ok, omap_some. split; intros [a [H1 H2]]; exists a; split; auto; apply str_elem_ptr_iff; auto.
Qed.

Lemma mapM_omapM : forall {A B} (f : A -> result B) (g : A -> option B) (l : list A),
  (forall a b, f a = Ok b <-> g a = Some b) -> forall ys, mapM f l = Ok ys <-> omapM g l = Some ys.
Proof.
  intros A B f g l H ys.
  rewrite (mapM_iff f g (fun _ => true) l).
  - split. + intros [H1 _]. exact H1. + intro H1. split; [exact H1|]. apply forallb_forall. reflexivity.
  - intros a b _. rewrite H. split. + intro H1. auto. + intros [H1 _]. exact H1.
Qed.

Lemma str_slice_iff : forall e s x, str_slice e s = Ok x <-> decode_str_slice e s = Some x.
Proof.
  intros e s x. unfold str_slice, decode_str_slice.
  destruct (json_value s) as [[| | | |l| |]|]; try (split; discriminate).
  - split; intro H; inversion H; reflexivity.
  - rewrite rmap_ok, omap_some. split; intros [a [H1 H2]]; exists a; split; auto;
      apply (mapM_omapM (str_elem e) (decode_str_elem e) l (str_elem_iff e)); auto.
Qed.

Lemma str_elem_ptr_no_panic : forall e b, str_elem_ptr e b <> Panic.
Proof.
  induction e; intro b; simpl; try discriminate.
  - destruct k; discriminate.
  - apply rmap_no_panic. apply IHe.
Qed.

Lemma str_slice_no_panic : forall e s, str_slice e s <> Panic.
Proof.
  intros e s. unfold str_slice. destruct (json_value s) as [[| | | |l| |]|]; try discriminate.
  apply rmap_no_panic. apply mapM_no_panic. intros a _. destruct e; simpl; try discriminate.
  - apply prim_elem_no_panic.
  - destruct a; try discriminate. apply rmap_no_panic. apply str_elem_ptr_no_panic.
Qed.

Lemma slicePK_case : forall e, PK_type e ->
  forall (v : jv) x,
    match v with
    | JArr l => slice_with (umk_elem kc false e) (zero e) l
    | JStr s => str_slice e s
    | _ => Err EType
    end = Ok x <->
    match v with
    | JArr l => decode_slice (decodeK_elem kc false e) (zero e) l
    | JStr s => decode_str_slice e s
    | _ => None
    end = Some x /\
    match v with JArr l => all_elems (meetsK_elem kc e) l | _ => true end = true.
Proof.
  intros e [_ [IH _]] v x. destruct v; try (split; [discriminate | intros [H _]; discriminate]).
  - rewrite str_slice_iff. split; [intro H; auto | intros [H _]; exact H].
  - apply slice_with_iff. intros a b _. apply IH.
Qed.

Lemma sliceK_case : forall e, PK_type e ->
  forall (v : jv) x,
    match v with JArr l => slice_with (umk_elem kc false e) (zero e) l | _ => Err EType end = Ok x <->
    match v with JArr l => decode_slice (decodeK_elem kc false e) (zero e) l | _ => None end = Some x /\
    match v with JArr l => all_elems (meetsK_elem kc e) l | _ => true end = true.
Proof.
  intros e [_ [IH _]] v x. destruct v; try (split; [discriminate | intros [H _]; discriminate]).
  apply slice_with_iff. intros a b _. apply IH.
Qed.

Lemma mapK_case : forall e, PK_type e ->
  forall (v : jv) x,
    match v with JObj o => map_with (umk_elem kc true e) o | _ => Err EType end = Ok x <->
    match v with JObj o => decode_map (decodeK_elem kc true e) o | _ => None end = Some x /\
    match v with JObj ob => all_values (meetsK_elem kc e) ob | _ => true end = true.
Proof.
  intros e [_ [IH _]] v x. destruct v; try (split; [discriminate | intros [H _]; discriminate]).
  apply map_with_iff. intros a b _. apply IH.
Qed.

Lemma mainK_mutual : (forall t, PK_type t) /\ (forall fs, PK_fields fs /\ QK_fields fs).
Proof.
  apply (ftype_fields_ind PK_type (fun fs => PK_fields fs /\ QK_fields fs)).
  - (* TPrim *)
    intro k. unfold PK_type. simpl. cbn [umk_absent decodeK_absent meetsK_absent umk_default decodeK_default meetsK_default]. split; [|split; [|split]].
    + intros env o b v x. apply prim_present_iff.
    + intros inmap v x. rewrite prim_elem_iff. split; [intro H; auto | intros [H _]; exact H].
    + intro x. split; [discriminate | intros [_ H]; discriminate].
    + intros d x. rewrite of_opt_ok. split; [intro H; auto | intros [H _]; exact H].
  - (* TPtr *)
    intros t [IHp [IHe [IHa IHd]]]. unfold PK_type. simpl. cbn [umk_absent decodeK_absent meetsK_absent umk_default decodeK_default meetsK_default]. split; [|split; [|split]].
    + intros env o b v x. rewrite rmap_ok, omap_some. split.
      * intros [a [H1 H2]]. apply IHp in H1. destruct H1. split; [exists a; auto | auto].
      * intros [[a [H1 H2]] H3]. exists a. split; [apply IHp; auto | auto].
    + intros inmap v x. rewrite bind_ok, omap_some. split.
      * intros [a [H1 H2]]. apply IHe in H1. destruct H1. inversion H2. split; [exists a; auto | auto].
      * intros [[a [H1 H2]] H3]. exists a. split; [apply IHe; auto | subst; reflexivity].
    + intros x. rewrite rmap_ok, omap_some. split.
      * intros [a [H1 H2]]. apply IHa in H1. destruct H1. split; [exists a; auto | auto].
      * intros [[a [H1 H2]] H3]. exists a. split; [apply IHa; auto | auto].
    + intros d x. rewrite rmap_ok, omap_some. split.
      * intros [a [H1 H2]]. apply IHd in H1. destruct H1. split; [exists a; auto | auto].
      * intros [[a [H1 H2]] H3]. exists a. split; [apply IHd; auto | auto].
  - (* TSlice *)
    intros e IH. unfold PK_type. simpl. cbn [umk_absent decodeK_absent meetsK_absent umk_default decodeK_default meetsK_default]. split; [|split; [|split]].
    + intros env o b v x. apply slicePK_case. exact IH.
    + intros inmap v x. apply sliceK_case. exact IH.
    + intro x. split; [discriminate | intros [_ H]; discriminate].
    + intros d x. destruct (slice_default_doc e d) as [[| | | |l| |]|];
        try (split; [discriminate | intros [H _]; discriminate]).
      * destruct (elem_is_string e).
        -- split. ++ intro H. inversion H. auto. ++ intros [H _]. inversion H. reflexivity.
        -- split; [discriminate | intros [H _]; discriminate].
      * destruct IH as [_ [IHe _]]. apply slice_with_iff. intros a b _. apply IHe.
  - (* TMap *)
    intros e IH. unfold PK_type. simpl. cbn [umk_absent decodeK_absent meetsK_absent umk_default decodeK_default meetsK_default]. split; [|split; [|split]].
    + intros env o b v x. apply mapK_case. exact IH.
    + intros inmap v x. apply mapK_case. exact IH.
    + intro x. split. * intro H. inversion H. auto. * intros [H _]. inversion H. reflexivity.
    + intros d x. split; [discriminate | intros [H _]; discriminate].
  - (* TStruct *)
    intros fs [IH _]. unfold PK_type. simpl. cbn [umk_absent decodeK_absent meetsK_absent umk_default decodeK_default meetsK_default]. split; [|split; [|split]].
    + intros env o b v x. apply structK_case. exact IH.
    + intros inmap v x. apply structK_case. exact IH.
    + intro x. destruct (required_fields fs); simpl.
      * split; [discriminate | intros [_ H]; discriminate].
      * rewrite rmap_ok, omap_some. split.
        -- intros [a [H1 H2]]. apply IH in H1. destruct H1. split; [exists a; auto | auto].
        -- intros [[a [H1 H2]] H3]. exists a. split; [apply IH; auto | auto].
    + intros d x. split; [discriminate | intros [H _]; discriminate].
  - (* FNil *)
    split.
    { unfold PK_fields. simpl. intros env ob xs. split.
      + intro H. inversion H. auto. + intros [H _]. inversion H. reflexivity. }
    { intros env ob filled xs b. simpl. split.
      + intro H. inversion H. auto. + intros [H [_ Hb]]. inversion H. subst. reflexivity. }
  - (* FCons *)
    intros key o t [IHp [IHe [IHa IHd]]] rest [IHr IHrq]. split.
    { unfold PK_fields. intros env ob xs. simpl.
    rewrite bind_ok. split.
    + intros [x [Hx Hrest]].
      apply bind_ok in Hx. destruct Hx as [u [Hok Hx]]. apply guard_ok in Hok.
      apply bind_ok in Hx. destruct Hx as [ro [Hres Hx]]. apply resolve_iff in Hres.
      destruct Hres as [Hdep Hro]. subst ro.
      apply bind_ok in Hrest. destruct Hrest as [xs' [Hxs Hr]]. inversion Hr. subst xs.
      apply IHr in Hxs. destruct Hxs as [Hd Hm]. rewrite Hd, Hm, Hok, Hdep. simpl.
      destruct (ignored key).
      { inversion Hx. auto. }
      cut ((match field_inputK kc env t key ob with
            | None => match opt_default o with
                      | Some d => decodeK_default kc t d
                      | None => if declared_optional o ob then Some (zero t) else decodeK_absent kc t
                      end
            | Some JNull => Some (zero t)
            | Some v => decodeK_present kc (ob :: env) (reads_strings (k_cfg kc) o) t v
            end = Some x) /\
           (match field_inputK kc env t key ob with
            | None => match opt_default o with
                      | Some d => meetsK_default kc t d
                      | None => declared_optional o ob || meetsK_absent kc t
                      end
            | Some JNull => declared_optional o ob
            | Some v => meetsK_present kc (ob :: env) t o v
            end = true)).
      { intros [H1 H2]. rewrite H1, H2. simpl. auto. }
      simpl in Hx.
      destruct (field_inputK kc env t key ob) as [v|].
      * destruct v; try (apply IHp in Hx; exact Hx).
        destruct (declared_optional o ob); [|discriminate]. inversion Hx. auto.
      * destruct (opt_default o) as [d|].
        -- apply IHd in Hx. exact Hx.
        -- destruct (declared_optional o ob); simpl.
           ++ inversion Hx. auto.
           ++ apply IHa in Hx. exact Hx.
    + intros [Hd Hm].
      apply andb_true_iff in Hm. destruct Hm as [Hm Hmr].
      apply andb_true_iff in Hm. destruct Hm as [Hm Hmf].
      apply andb_true_iff in Hm. destruct Hm as [Hok Hdep].
      apply obind_some in Hd. destruct Hd as [x [Hx Hd]].
      apply obind_some in Hd. destruct Hd as [xs' [Hxs Hd]]. inversion Hd. subst xs.
      exists x. split.
      * apply bind_ok. exists tt. split; [apply guard_ok; exact Hok|].
        apply bind_ok. exists (ropts_for o (declared_optional o ob)). split.
        { apply resolve_iff. auto. }
        simpl.
        destruct (ignored key).
        { inversion Hx. reflexivity. }
        destruct (field_inputK kc env t key ob) as [v|].
        -- destruct v; try (apply IHp; auto).
           rewrite Hmf. inversion Hx. reflexivity.
        -- destruct (opt_default o) as [d|].
           ++ apply IHd. auto.
           ++ destruct (declared_optional o ob); simpl in *.
              ** inversion Hx. reflexivity.
              ** apply IHa. auto.
      * apply bind_ok. exists xs'. split; [apply IHr; auto | reflexivity]. }
    { (* the same member inside an optional embedded struct *)
      intros env ob filled xs b. simpl. rewrite bind_ok. split.
      - intros [[x bx] [Hx Hrest]].
        apply bind_ok in Hx. destruct Hx as [u [Hok Hx]]. apply guard_ok in Hok.
        apply bind_ok in Hx. destruct Hx as [ro [Hres Hx]]. apply resolve_iff in Hres.
        destruct Hres as [Hdep Hro]. subst ro.
        apply bind_ok in Hx. destruct Hx as [x' [Hx Hpair]]. inversion Hpair. subst x' bx. clear Hpair.
        apply bind_ok in Hrest. destruct Hrest as [[xs' b'] [Hxs Hr]]. simpl in Hr. inversion Hr. subst xs b.
        apply IHrq in Hxs. destruct Hxs as [Hd [Hm Hb]]. rewrite Hd, Hm, Hok, Hdep. simpl.
        cut ((match field_inputK kc env t key ob with
              | None => match opt_default o with
                        | Some d => if filled then decode_default t d else Some (zero t)
                        | None => Some (zero t)
                        end
              | Some JNull => Some (zero t)
              | Some v => decodeK_present kc (ob :: env) (reads_strings (k_cfg kc) o) t v
              end = Some x) /\
             (match field_inputK kc env t key ob with
              | None => true
              | Some JNull => declared_optional o ob
              | Some v => meetsK_present kc (ob :: env) t o v
              end = true)).
        { intros [H1 H2]. rewrite H1, H2. simpl. split; [reflexivity|]. split; [reflexivity|].
          subst b'. unfold member_excused, ropts_for. simpl. rewrite orb_assoc. reflexivity. }
        simpl in Hx.
        destruct (field_inputK kc env t key ob) as [v|].
        + destruct v; try (apply IHp in Hx; exact Hx).
          destruct (declared_optional o ob); [|discriminate]. inversion Hx. auto.
        + destruct (opt_default o) as [d|].
          * destruct filled.
            -- apply um_default_iff in Hx. auto.
            -- inversion Hx. auto.
          * inversion Hx. auto.
      - intros [Hd [Hm Hb]].
        apply andb_true_iff in Hm. destruct Hm as [Hm Hmr].
        apply andb_true_iff in Hm. destruct Hm as [Hm Hmf].
        apply andb_true_iff in Hm. destruct Hm as [Hok Hdep].
        apply obind_some in Hd. destruct Hd as [x [Hx Hd]].
        apply obind_some in Hd. destruct Hd as [xs' [Hxs Hd]]. inversion Hd. subst xs.
        exists (x, hasv kc env key ob || member_excused fixed (ropts_for o (declared_optional o ob))). split.
        + apply bind_ok. exists tt. split; [apply guard_ok; exact Hok|].
          apply bind_ok. exists (ropts_for o (declared_optional o ob)). split.
          { apply resolve_iff. auto. }
          apply bind_ok. exists x. split; [|reflexivity].
          simpl.
          destruct (field_inputK kc env t key ob) as [v|].
          * destruct v; try (apply IHp; auto).
            rewrite Hmf. inversion Hx. reflexivity.
          * destruct (opt_default o) as [d|].
            -- destruct filled.
               ++ apply um_default_iff. exact Hx.
               ++ inversion Hx. reflexivity.
            -- inversion Hx. reflexivity.
        + apply bind_ok. exists (xs', fully_setK kc env rest ob). split.
          * apply IHrq. auto.
          * simpl. subst b. unfold member_excused, ropts_for. simpl. rewrite orb_assoc. reflexivity. }
  - (* FEmbed *)
    intros opt ptr inner [IHi IHiq] rest [IHr IHrq]. split.
    { unfold PK_fields. intros env ob xs. simpl. rewrite bind_ok. split.
      - intros [x [Hx Hrest]]. apply bind_ok in Hrest. destruct Hrest as [ys [Hys Hr]]. inversion Hr. subst xs.
        apply IHr in Hys. destruct Hys as [Hd Hm]. rewrite Hd, Hm.
        destruct opt.
        + apply bind_ok in Hx. destruct Hx as [[ms bm] [Hms Hx]].
          apply bind_ok in Hx. destruct Hx as [u [Hg Hx]]. apply guard_ok in Hg.
          simpl in Hg, Hx. inversion Hx. subst x.
          apply IHiq in Hms. destruct Hms as [Hdm [Hmm Hbm]]. rewrite Hdm, Hmm. simpl. subst bm. rewrite Hg. auto.
        + apply bind_ok in Hx. destruct Hx as [ms [Hms Hx]]. inversion Hx. subst x.
          apply IHi in Hms. destruct Hms as [Hdm Hmm]. rewrite Hdm, Hmm. simpl. auto.
      - intros [Hd Hm]. apply andb_true_iff in Hm. destruct Hm as [Hme Hmr].
        apply obind_some in Hd. destruct Hd as [x [Hx Hd]].
        apply obind_some in Hd. destruct Hd as [ys [Hys Hd]]. inversion Hd. subst xs.
        exists x. split.
        + destruct opt.
          * apply andb_true_iff in Hme. destruct Hme as [Hmm Hfs].
            apply obind_some in Hx. destruct Hx as [ms [Hms Hx]].
            apply bind_ok. exists (ms, fully_setK kc env inner ob). split. { apply IHiq. auto. }
            apply bind_ok. exists tt. split. { apply guard_ok. exact Hfs. }
            simpl. inversion Hx. reflexivity.
          * apply obind_some in Hx. destruct Hx as [ms [Hms Hx]].
            apply bind_ok. exists ms. split. { apply IHi. auto. } inversion Hx. reflexivity.
        + apply bind_ok. exists ys. split; [apply IHr; auto | reflexivity]. }
    { intros env ob filled xs b. simpl. rewrite bind_ok. split.
      - intros [[xs' b'] [Hxs Hr]]. simpl in Hr. inversion Hr. subst xs b.
        apply IHrq in Hxs. destruct Hxs as [Hd [Hm Hb]]. rewrite Hd, Hm. simpl. subst b'. auto.
      - intros [Hd [Hm Hb]]. apply obind_some in Hd. destruct Hd as [xs' [Hxs Hd]]. inversion Hd. subst xs.
        exists (xs', fully_setK kc env rest ob). split. { apply IHrq. auto. } simpl. subst b. reflexivity. }
Qed.

End Main.

Theorem unmarshalK_iff : forall kc fs d v,
  unmarshalK kc fs d = Ok v <-> decodeK kc fs d = Some v /\ meetsK kc fs d = true.
Proof.
  intros kc fs d v. unfold unmarshalK, decodeK, meetsK.
  destruct d as [[| | | | |o|]|]; try (split; [discriminate | intros [H _]; discriminate]).
  rewrite rmap_ok, omap_some. destruct (mainK_mutual kc) as [_ Hf0].
  pose proof (fun fs => proj1 (Hf0 fs)) as Hf. split.
  - intros [a [H1 H2]]. apply Hf in H1. destruct H1. split; [exists a; auto | auto].
  - intros [[a [H1 H2]] H3]. exists a. split; [apply Hf; auto | auto].
Qed.

(* ------------------------------------------------------------------ no panic *)

Section NoPanic.
Variable kc : kcfg.

Definition NK_type (t : ftype) : Prop :=
  (forall env ro v, umk_present kc env t ro v <> Panic) /\
  (forall inmap v, umk_elem kc inmap t v <> Panic) /\
  umk_absent kc t <> Panic /\
  (forall d, umk_default kc t d <> Panic).
Definition NK_fields (fs : fields) : Prop :=
  (forall env ob, umk_fields kc env fs ob <> Panic) /\
  (forall env ob filled, umk_opt_members kc env fs ob filled <> Panic).

Lemma no_panicK_mutual : (forall t, NK_type t) /\ (forall fs, NK_fields fs).
Proof.
  apply ftype_fields_ind.
  - intro k. unfold NK_type. simpl. cbn [umk_absent umk_default]. repeat split.
    + intros. apply prim_present_no_panic.
    + intros. apply prim_elem_no_panic.
    + discriminate.
    + intro d. unfold of_opt. destruct (conv_string k d); discriminate.
  - intros t [Hp [He [Ha Hd]]]. unfold NK_type. simpl. cbn [umk_absent umk_default]. repeat split.
    + intros. apply rmap_no_panic. apply Hp.
    + intros inmap v. specialize (He inmap v).
      destruct (umk_elem kc inmap t v); simpl; try discriminate. contradiction.
    + apply rmap_no_panic. exact Ha.
    + intro d. apply rmap_no_panic. apply Hd.
  - intros e [Hp [He [Ha Hd]]]. unfold NK_type. simpl. cbn [umk_absent umk_default]. repeat split.
    + intros env ro v. destruct v; try discriminate; [apply str_slice_no_panic | apply slice_with_no_panic; apply He].
    + intros inmap v. destruct v; try discriminate. apply slice_with_no_panic. apply He.
    + discriminate.
    + intro d. destruct (slice_default_doc e d) as [[| | | |l| |]|]; try discriminate.
      * destruct (elem_is_string e); discriminate.
      * apply slice_with_no_panic. apply He.
  - intros e [Hp [He [Ha Hd]]]. unfold NK_type. simpl. cbn [umk_absent umk_default]. repeat split.
    + intros env ro v. destruct v; try discriminate. apply map_with_no_panic. apply He.
    + intros inmap v. destruct v; try discriminate. apply map_with_no_panic. apply He.
    + discriminate.
    + discriminate.
  - intros fs [Hf _]. unfold NK_type. simpl. cbn [umk_absent umk_default]. repeat split.
    + intros env ro v. destruct v; try discriminate. apply rmap_no_panic. apply Hf.
    + intros inmap v. destruct v; try discriminate. apply rmap_no_panic. apply Hf.
    + destruct (required_fields fs); try discriminate. apply rmap_no_panic. apply Hf.
    + discriminate.
  - unfold NK_fields. simpl. split; discriminate.
  - intros key o t [Hp [He [Ha Hd]]] rest [Hr Hrq]. unfold NK_fields. split.
    + intros env ob. simpl. apply bind_no_panic.
      * apply bind_no_panic; [apply guard_no_panic|]. intros _.
        apply bind_no_panic; [apply resolve_no_panic|]. intro ro.
        destruct (ignored key); [discriminate|].
        destruct (field_inputK kc env t key ob) as [v|].
        -- destruct v; try apply Hp. destruct (ro_optional ro); discriminate.
        -- destruct (ro_default ro). ++ apply Hd.
           ++ destruct (ro_optional ro); [discriminate | exact Ha].
      * intro x. apply bind_no_panic; [apply Hr|]. intro xs. discriminate.
    + intros env ob filled. simpl. apply bind_no_panic.
      * apply bind_no_panic; [apply guard_no_panic|]. intros _.
        apply bind_no_panic; [apply resolve_no_panic|]. intro ro.
        apply bind_no_panic; [| intro x; discriminate].
        destruct (field_inputK kc env t key ob) as [v|].
        -- destruct v; try apply Hp. destruct (ro_optional ro); discriminate.
        -- destruct (ro_default ro); [destruct filled; [apply um_default_no_panic | discriminate] | discriminate].
      * intro xb. apply bind_no_panic; [apply Hrq | intro r; discriminate].
  - intros opt ptr inner [Hi Hiq] rest [Hr Hrq]. unfold NK_fields. split.
    + intros env ob. simpl. apply bind_no_panic.
      * destruct opt.
        -- apply bind_no_panic; [apply Hiq|]. intro r. apply bind_no_panic; [apply guard_no_panic|]. intros _. discriminate.
        -- apply bind_no_panic; [apply Hi|]. intro xs. discriminate.
      * intro x. apply bind_no_panic; [apply Hr|]. intro ys. discriminate.
    + intros env ob filled. simpl. apply bind_no_panic; [apply Hrq|]. intro r. discriminate.
Qed.

End NoPanic.

Theorem unmarshalK_no_panic : forall kc fs d, unmarshalK kc fs d <> Panic.
Proof.
  intros kc fs d. unfold unmarshalK. destruct d as [[| | | | |o|]|]; try discriminate.
  apply rmap_no_panic. apply (proj2 (no_panicK_mutual kc)).
Qed.
