(* C08 — proofs about the request object (ReqModel.v): GetFormValues hands the unmarshaller exactly
   the non-empty values of every parameter, in order; any number of looks at one request, through
   any entry points in any order, each return what that entry point returns on a fresh request,
   and the request is left as it was. *)
From Coq Require Import List ZArith Bool String Ascii Lia.
From GZ Require Import C08.Model C08.Spec C08.KModel C08.KSpec C08.KProofsB C08.ReqModel.
Import ListNotations.
Open Scope Z_scope.
Open Scope string_scope.

(* ------------------------------------------------------------------ the values kept *)

Lemma nonempty_iff : forall s, nonempty s = true <-> s <> "".
Proof.
  intro s. unfold nonempty. rewrite negb_true_iff. split.
  - intros H E. subst. discriminate.
  - intro H. destruct (String.eqb s "") eqn:E; [|reflexivity]. apply String.eqb_eq in E. contradiction.
Qed.

Lemma kept_in : forall v vs, In v (kept vs) <-> In v vs /\ v <> "".
Proof. intros v vs. unfold kept. rewrite filter_In, nonempty_iff. reflexivity. Qed.

Lemma kept_app : forall a b, kept (a ++ b) = (kept a ++ kept b)%list.
Proof. intros a b. unfold kept. apply filter_app. Qed.

Lemma kept_fixpoint : forall vs, Forall (fun v => v <> "") vs -> kept vs = vs.
Proof.
  induction vs as [|v vs IH]; intro H; [reflexivity|]. inversion H as [|? ? Hv Hvs]. subst.
  unfold kept. simpl. apply nonempty_iff in Hv. rewrite Hv. f_equal. apply IH. exact Hvs.
Qed.

Lemma kept_idempotent : forall vs, kept (kept vs) = kept vs.
Proof.
  intro vs. apply kept_fixpoint. apply Forall_forall. intros v H. apply kept_in in H. tauto.
Qed.

(* an empty value in any position changes nothing: in front, between, behind *)
Lemma kept_ignores_empty : forall a b, kept (a ++ "" :: b) = kept (a ++ b).
Proof. intros a b. rewrite !kept_app. reflexivity. Qed.

Lemma kept_length_le : forall vs, (List.length (kept vs) <= List.length vs)%nat.
Proof.
  induction vs as [|v vs IH]; [apply le_n|]. unfold kept in *. simpl.
  destruct (nonempty v); simpl; lia.
Qed.

(* ------------------------------------------------------------------ GetFormValues *)

Lemma form_values_refuses_iff : forall max f, form_values max f = None <-> total_kept f > max.
Proof.
  intros max f. unfold form_values. destruct (total_kept f >? max) eqn:E.
  - apply Z.gtb_lt in E. split; [lia | reflexivity].
  - split; [discriminate|]. intro H. rewrite Z.gtb_ltb, Z.ltb_ge in E. lia.
Qed.

Lemma form_values_some : forall max f d,
  form_values max f = Some d -> d = JObj (params_of f) /\ total_kept f <= max.
Proof.
  intros max f d. unfold form_values. destruct (total_kept f >? max) eqn:E; [discriminate|].
  intro H. inversion H. split; [reflexivity|]. rewrite Z.gtb_ltb, Z.ltb_ge in E. exact E.
Qed.

Definition stripped_names (f : rform) : list string := map (fun p => strip_suffix (fst p)) f.

(* the parameter map: a parameter reaches the unmarshaller iff it has a non-empty value, and then
   with exactly its non-empty values in the order sent (names distinct once "[]" is removed) *)
Lemma params_lookup : forall f name vs,
  NoDup (stripped_names f) -> In (name, vs) f ->
  lookup (strip_suffix name) (params_of f) =
  match kept vs with [] => None | ks => Some (JArr (map JStr ks)) end.
Proof.
  induction f as [|[n ws] f IH]; intros name vs Hnd Hin; [contradiction|].
  simpl in Hnd. inversion Hnd as [|? ? Hnot Hnd']. subst.
  assert (Hmiss : forall k, ~ In k (stripped_names f) -> lookup k (params_of f) = None).
  { clear. induction f as [|[n ws] f IH]; intros k Hk; [reflexivity|].
    simpl in *. destruct (kept ws) as [|w ws'].
    - apply IH. tauto.
    - simpl. destruct (String.eqb k (strip_suffix n)) eqn:E.
      + apply String.eqb_eq in E. subst. tauto.
      + apply IH. tauto. }
  destruct Hin as [Heq | Hin].
  - inversion Heq. subst. simpl. destruct (kept vs) as [|k ks] eqn:Ek.
    + apply Hmiss. exact Hnot.
    + simpl. rewrite String.eqb_refl. reflexivity.
  - simpl. assert (Hne : strip_suffix name <> strip_suffix n).
    { intro E. apply Hnot. rewrite <- E. unfold stripped_names.
      change (strip_suffix name) with ((fun p : string * list string => strip_suffix (fst p)) (name, vs)).
      apply in_map. exact Hin. }
    destruct (kept ws) as [|w ws'].
    + apply IH; assumption.
    + simpl. destruct (String.eqb (strip_suffix name) (strip_suffix n)) eqn:E.
      * apply String.eqb_eq in E. contradiction.
      * apply IH; assumption.
Qed.

(* nothing else is in the map *)
Lemma params_only : forall f k v,
  In (k, v) (params_of f) ->
  exists name vs, In (name, vs) f /\ k = strip_suffix name /\ kept vs <> [] /\ v = JArr (map JStr (kept vs)).
Proof.
  induction f as [|[n ws] f IH]; intros k v H; [contradiction|].
  simpl in H. destruct (kept ws) as [|w ws'] eqn:E.
  - destruct (IH k v H) as [name [vs [Hin Hr]]]. exists name, vs. split; [right; exact Hin | exact Hr].
  - destruct H as [H | H].
    + inversion H. subst. exists n, ws. rewrite E. repeat split; [left; reflexivity | discriminate].
    + destruct (IH k v H) as [name [vs [Hin Hr]]]. exists name, vs. split; [right; exact Hin | exact Hr].
Qed.

(* the form pass of any entry point reads a field keyed [name] exactly from those values *)
Lemma form_field_supplied : forall max cfg env f name vs,
  total_kept f <= max -> NoDup (stripped_names f) -> In (name, vs) f ->
  exists o, form_values max f = Some (JObj o) /\
            getv (mkK cfg seg_opaque) env (strip_suffix name) o =
            match kept vs with [] => None | ks => Some (JArr (map JStr ks)) end.
Proof.
  intros max cfg env f name vs Hmax Hnd Hin. exists (params_of f). split.
  - unfold form_values. destruct (total_kept f >? max) eqn:E; [|reflexivity].
    apply Z.gtb_lt in E. lia.
  - rewrite getv_opaque. apply params_lookup; assumption.
Qed.

(* ------------------------------------------------------------------ looks at one request *)

Lemma serve_shared_head : forall max r ls,
  serve_shared max touch_head r ls = (r, map (fun l => serve_call (call_on max r l)) ls).
Proof.
  intros max r ls. induction ls as [|l ls IH]; [reflexivity|].
  simpl. change (touch_head (l_entry l) r) with r. rewrite IH. reflexivity.
Qed.

Lemma shared_look_alone : forall max r pre l post,
  nth_error (snd (serve_shared max touch_head r (pre ++ l :: post))) (List.length pre) =
  Some (serve_call (call_on max r l)).
Proof.
  intros. rewrite serve_shared_head. simpl. rewrite map_app. simpl.
  rewrite nth_error_app2; rewrite map_length; [|lia]. rewrite Nat.sub_diag. reflexivity.
Qed.

Lemma shared_request_unchanged : forall max r ls, fst (serve_shared max touch_head r ls) = r.
Proof. intros. rewrite serve_shared_head. reflexivity. Qed.

Lemma shared_each_sound_exact : forall max r ls i l vs,
  nth_error ls i = Some l ->
  nth_error (snd (serve_shared max touch_head r ls)) i = Some (CAccepted vs) ->
  Forall2 pass_ok (c_passes (call_on max r l)) vs /\ c_validator (call_on max r l) <> Some false.
Proof.
  intros max r ls i l vs Hl Hr. rewrite serve_shared_head in Hr. simpl in Hr.
  rewrite nth_error_map, Hl in Hr. simpl in Hr. inversion Hr as [H]. apply call_accepted_iff. exact H.
Qed.

Lemma shared_same_look_same_result : forall max r ls i j l,
  nth_error ls i = Some l -> nth_error ls j = Some l ->
  nth_error (snd (serve_shared max touch_head r ls)) i = nth_error (snd (serve_shared max touch_head r ls)) j.
Proof.
  intros max r ls i j l Hi Hj. rewrite serve_shared_head. simpl. rewrite !nth_error_map, Hi, Hj. reflexivity.
Qed.

Lemma shared_no_panic : forall max r ls i, nth_error (snd (serve_shared max touch_head r ls)) i <> Some CPanic.
Proof.
  intros max r ls i H. rewrite serve_shared_head in H. simpl in H. rewrite nth_error_map in H.
  destruct (nth_error ls i) as [l|]; simpl in H; [|discriminate].
  inversion H as [H']. exact (call_no_panic _ H').
Qed.

(* ------------------------------------------------------------------ dropping in place *)

Lemma compact_length : forall vs, List.length (compact vs) = List.length vs.
Proof.
  intro vs. unfold compact. rewrite app_length, skipn_length. pose proof (kept_length_le vs). lia.
Qed.

(* without an empty value in front of a non-empty one nothing moves ... *)
Lemma compact_fixpoint : forall vs, Forall (fun v => v <> "") vs -> compact vs = vs.
Proof.
  intros vs H. unfold compact. rewrite (kept_fixpoint vs H), skipn_all, app_nil_r. reflexivity.
Qed.

(* ... and the FIRST look at a request returns what go-zero returns: a test that parses each
   request once cannot tell the variant from the original *)
Lemma inplace_first_look : forall max r l,
  snd (serve_shared max touch_inplace r [l]) = [serve_call (call_on max r l)].
Proof. intros. reflexivity. Qed.

(* ------------------------------------------------------------------ equality of documents *)

Lemma kind_eqb_true : forall a b, kind_eqb a b = true -> a = b.
Proof.
  intros a b. destruct a as [|w|w| | |]; destruct b as [|w'|w'| | |]; try discriminate; try reflexivity;
    destruct w; destruct w'; try discriminate; reflexivity.
Qed.

Lemma jv_eqb_eq : forall a b, jv_eqb a b = true -> a = b.
Proof.
  fix IH 1. intros a b. destruct a as [|x|x|x|l|o|k x]; destruct b as [|y|y|y|l'|o'|k' y]; simpl; try discriminate.
  - reflexivity.
  - intro H. apply Bool.eqb_prop in H. subst. reflexivity.
  - intro H. apply String.eqb_eq in H. subst. reflexivity.
  - intro H. apply String.eqb_eq in H. subst. reflexivity.
  - intro H. f_equal. revert l' H.
    induction l as [|e l IHl]; intros [|e' l'] H; try discriminate; [reflexivity|].
    apply andb_true_iff in H. destruct H as [H1 H2]. f_equal; [apply IH; exact H1 | apply IHl; exact H2].
  - intro H. f_equal. revert o' H.
    induction o as [|[n e] o IHo]; intros [|[n' e'] o'] H; try discriminate; [reflexivity|].
    apply andb_true_iff in H. destruct H as [H1 H2]. apply andb_true_iff in H1. destruct H1 as [Hn He].
    apply String.eqb_eq in Hn. subst. f_equal; [f_equal; apply IH; exact He | apply IHo; exact H2].
  - intro H. apply andb_true_iff in H. destruct H as [Hk Hx]. apply kind_eqb_true in Hk. apply String.eqb_eq in Hx.
    subst. reflexivity.
Qed.

Lemma optjv_eqb_eq : forall a b, optjv_eqb a b = true -> a = b.
Proof.
  intros [a|] [b|] H; try discriminate; [|reflexivity]. simpl in H. apply jv_eqb_eq in H. subst. reflexivity.
Qed.
