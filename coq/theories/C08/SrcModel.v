(* C08 — WHICH SOURCES httpx.Parse consults.  Executable only, no proofs.

   go-zero's Parse runs the path, form and header passes for every request type.  A Parse that
   first asks which tag keys the type "uses" and skips the other passes (seeded change C08-11) is
   the same function only if its scan finds every member that the unmarshaller would read.
   core/mapping (processField) looks at Anonymous BEFORE IsExported: the exported members of an
   embedded struct are read whether or not the struct's TYPE NAME is exported; a named field is
   read when it is exported, under every key when it has no tag. *)
From Coq Require Import List ZArith Bool String Ascii.
From GZ Require Import C08.Model C08.KModel C08.ReqModel.
Import ListNotations.
Local Open Scope Z_scope.
Local Open Scope string_scope.

(* a declared struct type as reflect shows it *)
Inductive decl :=
| DField (exported : bool) (keys : list string)     (* a named field; the keys of its struct tag, [] = no tag *)
| DEmbed (exported : bool) (inner : list decl).     (* an embedded struct; is its TYPE NAME exported? *)

Definition carries (k : string) (keys : list string) : bool :=
  match keys with [] => true | _ => existsb (String.eqb k) keys end.

(* does an unmarshaller for tag key k read a member of this declaration? (mapping.processField) *)
Fixpoint reads (k : string) (d : decl) {struct d} : bool :=
  match d with
  | DField ex keys => ex && carries k keys
  | DEmbed _ inner => (fix any (l : list decl) : bool := match l with [] => false | x :: r => reads k x || any r end) inner
  end.

(* the scan of the seeded change: `if !field.IsExported() { continue }` first *)
Fixpoint scan_exported_first (k : string) (d : decl) {struct d} : bool :=
  match d with
  | DField ex keys => ex && carries k keys
  | DEmbed ex inner =>
    ex && (fix any (l : list decl) : bool := match l with [] => false | x :: r => scan_exported_first k x || any r end) inner
  end.

Definition type_reads (k : string) (t : list decl) : bool := existsb (reads k) t.
Definition type_scanned (k : string) (t : list decl) : bool := existsb (scan_exported_first k) t.

(* a Parse that consults only some of the three parameter sources; a skipped pass leaves its
   fields as they are *)
Record consulted := mkConsulted { c_path : bool; c_form : bool; c_header : bool }.

Definition pass_or_skip (consult : bool) (p : pass) : result gval :=
  if consult then unmarshalK (p_kc p) (p_type p) (p_doc p) else Ok (VStruct (zero_fields (p_type p))).

(* a view in which the unmarshaller finds no member to read: no field, or embedded structs (by
   value, not ",optional") without one *)
Fixpoint no_members (fs : fields) : bool :=
  match fs with
  | FNil => true
  | FCons _ _ _ _ => false
  | FEmbed opt ptr inner rest => negb opt && negb ptr && no_members inner && no_members rest
  end.

Definition serve_skipping (max : Z) (c : consulted) (r : hrequest) (vw : views) (validator : option bool) : cresult :=
  match
    (v1 <- pass_or_skip (c_path c) (pass_path vw r) ;;
     v2 <- pass_or_skip (c_form c) (pass_form max vw r) ;;
     v3 <- pass_or_skip (c_header c) (pass_header vw r) ;;
     v4 <- unmarshalK kc_json (v_json vw) (hr_body r) ;;
     Ok [v1; v2; v3; v4])
  with
  | Ok vs => match validator with Some false => CRejected true | _ => CAccepted vs end
  | Err _ => CRejected false
  | Panic => CPanic
  end.

Definition all_sources : consulted := mkConsulted true true true.
