(* C08 — what "lies inside its declared range" means, and why comparing roundings is the same thing.

   A range bound is declared as a decimal text, a number is supplied as a decimal text: inside /
   outside is EXACT decimal comparison ([in_range] of Model.v on [dec]).  go-zero compares
   float64(value) with float64(bound).  For ANY monotone rounding applied to the value AND to the
   bounds the two agree, except at a near tie (two different decimals with the same rounding); in
   particular a value written like the bound has the bound's rounding, whatever the rounding is.
   What breaks the property is rounding the two sides DIFFERENTLY: PinnedK.v (seeded C08-5: bounds
   at 53 bits, value at 64 bits; F33: value at float32, bound at float64). *)
From Coq Require Import List ZArith Bool String Lia.
From GZ Require Import C08.Model.
Import ListNotations.
Open Scope Z_scope.

Lemma dec_cmp_antisym : forall a b, dec_cmp b a = CompOpp (dec_cmp a b).
Proof. intros a b. unfold dec_cmp. rewrite (Z.min_comm (de b) (de a)). apply Z.compare_antisym. Qed.

Lemma dec_leb_total : forall a b, dec_leb a b = false -> dec_leb b a = true.
Proof.
  intros a b. unfold dec_leb. rewrite (dec_cmp_antisym a b). destruct (dec_cmp a b); simpl; congruence.
Qed.

Lemma dec_leb_antisym : forall a b, dec_leb a b = true -> dec_leb b a = true -> dec_eqb a b = true.
Proof.
  intros a b. unfold dec_leb, dec_eqb. rewrite (dec_cmp_antisym a b). destruct (dec_cmp a b); simpl; congruence.
Qed.

Lemma dec_eqb_leb : forall a b, dec_eqb a b = true -> dec_leb a b = true /\ dec_leb b a = true.
Proof.
  intros a b. unfold dec_leb, dec_eqb. rewrite (dec_cmp_antisym a b). destruct (dec_cmp a b); simpl; intro H; try discriminate; auto.
Qed.

Lemma dec_eqb_sym : forall a b, dec_eqb a b = dec_eqb b a.
Proof. intros a b. unfold dec_eqb. rewrite (dec_cmp_antisym a b). destruct (dec_cmp a b); reflexivity. Qed.

Lemma dec_ltb_leb : forall a b, dec_ltb a b = negb (dec_leb b a).
Proof. intros a b. unfold dec_ltb, dec_leb. rewrite (dec_cmp_antisym a b). destruct (dec_cmp a b); reflexivity. Qed.

Section Rounding.
Variable rnd : dec -> dec.
Hypothesis rnd_mono : forall a b, dec_leb a b = true -> dec_leb (rnd a) (rnd b) = true.

(* the same number (in any spelling) has the same rounding *)
Lemma same_number_same_rounding : forall d x, dec_eqb d x = true -> dec_eqb (rnd d) (rnd x) = true.
Proof.
  intros d x H. apply dec_eqb_leb in H. destruct H as [H1 H2].
  apply dec_leb_antisym; apply rnd_mono; assumption.
Qed.

(* two different numbers with one rounding *)
Definition near_tie (a b : dec) : bool := dec_eqb (rnd a) (rnd b) && negb (dec_eqb a b).

Lemma near_tie_sym : forall a b, near_tie a b = near_tie b a.
Proof. intros a b. unfold near_tie. rewrite (dec_eqb_sym (rnd a)), (dec_eqb_sym a). reflexivity. Qed.

Lemma rounded_leb : forall a b, near_tie a b = false -> dec_leb (rnd a) (rnd b) = dec_leb a b.
Proof.
  intros a b Hn. destruct (dec_leb a b) eqn:E.
  - apply rnd_mono. exact E.
  - destruct (dec_leb (rnd a) (rnd b)) eqn:F; [|reflexivity]. exfalso.
    pose proof (rnd_mono b a (dec_leb_total a b E)) as G.
    pose proof (dec_leb_antisym _ _ F G) as Heq.
    unfold near_tie in Hn. rewrite Heq in Hn. simpl in Hn. apply negb_false_iff in Hn.
    apply dec_eqb_leb in Hn. destruct Hn as [Hn _]. congruence.
Qed.

Lemma rounded_ltb : forall a b, near_tie a b = false -> dec_ltb (rnd a) (rnd b) = dec_ltb a b.
Proof.
  intros a b Hn. rewrite !dec_ltb_leb. f_equal. apply rounded_leb. rewrite near_tie_sym. exact Hn.
Qed.

Definition round_range (r : range) : range :=
  mkRange (r_li r) (option_map rnd (r_l r)) (option_map rnd (r_r r)) (r_ri r).

Definition no_near_tie (r : range) (d : dec) : bool :=
  match r_l r with Some l => negb (near_tie l d) | None => true end &&
  match r_r r with Some h => negb (near_tie d h) | None => true end.

(* comparing roundings = comparing the numbers *)
Theorem rounded_range_agrees_lemma : forall r d,
  no_near_tie r d = true -> in_range (round_range r) (rnd d) = in_range r d.
Proof.
  intros r d H. unfold no_near_tie in H. apply andb_true_iff in H. destruct H as [Hl Hr].
  unfold in_range, round_range. simpl. f_equal.
  - destruct (r_l r) as [l|]; simpl; [|reflexivity]. apply negb_true_iff in Hl.
    destruct (r_li r); [apply rounded_leb | apply rounded_ltb]; exact Hl.
  - destruct (r_r r) as [h|]; simpl; [|reflexivity]. apply negb_true_iff in Hr.
    destruct (r_ri r); [apply rounded_leb | apply rounded_ltb]; exact Hr.
Qed.

(* a value written like a bound (any spelling of the same number) is never a near tie with it:
   the closed end takes it, the open end refuses it, after any rounding *)
Lemma equal_is_no_near_tie : forall a b, dec_eqb a b = true -> near_tie a b = false.
Proof. intros a b H. unfold near_tie. rewrite H. apply andb_false_r. Qed.

End Rounding.

(* ---- concrete roundings for the pinned variants: to the nearest multiple of 2^-k ---- *)

(* floor (d * 2^k + 1/2) / 2^k, as an exact decimal (m * 5^k * 10^-k); k >= 0 *)
Definition near_grid (k : Z) (d : dec) : dec :=
  let num := if 0 <=? de d then dm d * 10 ^ de d * 2 ^ (k + 1) + 1 else dm d * 2 ^ (k + 1) + 10 ^ (- de d) in
  let den := if 0 <=? de d then 2 else 2 * 10 ^ (- de d) in
  mkDec (num / den * 5 ^ k) (- k).
