(* C08 — pinned variants about STATE SHARED BETWEEN CALLS, refuted by concrete sequences
   (vm_compute).  The same sequences are corpus entries of tools/props/c08.py.

   1. The key table (seeded change C08-4): readKeys answered every unmarshaller kind from one
      process-wide table keyed by the key TEXT alone, so whichever kind saw a dotted key first
      fixed its meaning (one opaque name / a path of segments) for the whole process.
      Modelled as a segmenter that answers from a table filled by the earlier calls — every
      per-call theorem of KProofs.v still holds of each call WITH ITS TABLE (they hold for any
      segmenter); what fails is that a call means what its own unmarshaller kind says.
   2. The pooled form-values map (seeded change C08-3) and the struct-required memo keyed by the
      type alone (F27, repaired by ace4a06) are described in comments: the model has no pool, and
      it has one struct type per tag view, so neither is expressible as a switch. *)
From Coq Require Import List ZArith Bool String Ascii.
From GZ Require Import C08.Model C08.Spec C08.KModel C08.KSpec C08.Rounding C08.ReqModel C08.SrcModel.
Import ListNotations.
Open Scope Z_scope.
Open Scope string_scope.

Definition ktable := list (string * list string).

(* readKeys as seeded: the table first, whoever asks *)
Definition seg_tabled (tbl : ktable) (own : string -> list string) (key : string) : list string :=
  match lookup key tbl with Some s => s | None => own key end.

Fixpoint keys_of_type (t : ftype) : list string :=
  match t with
  | TPrim _ => []
  | TPtr t' | TSlice t' | TMap t' => keys_of_type t'
  | TStruct fs => keys_of_fields fs
  end
with keys_of_fields (fs : fields) : list string :=
  match fs with
  | FNil => []
  | FCons key _ t rest => (key :: keys_of_type t ++ keys_of_fields rest)%list
  | FEmbed _ _ inner rest => (keys_of_fields inner ++ keys_of_fields rest)%list
  end.

(* the first unmarshaller that asks for a key text decides what the table holds for it *)
Definition remember (tbl : ktable) (own : string -> list string) (keys : list string) : ktable :=
  fold_left (fun tb k => if has k tb then tb else (tb ++ [(k, own k)])%list) keys tbl.

Definition serve_tabled (tbl : ktable) (p : pass) : result gval * ktable :=
  (unmarshalK (mkK (k_cfg (p_kc p)) (seg_tabled tbl (k_seg (p_kc p)))) (p_type p) (p_doc p),
   remember tbl (k_seg (p_kc p)) (keys_of_fields (p_type p))).

Fixpoint run_tabled (tbl : ktable) (ps : list pass) : list (result gval) :=
  match ps with
  | [] => []
  | p :: ps' => let '(r, tbl') := serve_tabled tbl p in r :: run_tabled tbl' ps'
  end.

Definition r100 : range := mkRange true (Some (mkDec 1 0)) (Some (mkDec 100 0)) true.   (* [1:100] *)
Definition limit_max (optional : bool) : fields :=
  FCons "limit.max" (Some (mkOpts optional None None (Some r100) [] false)) (TPrim (KInt W0)) FNil.

(* a JSON / conf document uses limit.max as a nested member ... *)
Definition conf_call : pass :=
  mkPass kc_json (limit_max false) (Some (JObj [("limit", JObj [("max", JNum "5")])])).
(* ... then a form parameter of that name is supplied *)
Definition form_call (optional : bool) (lit : string) : pass :=
  mkPass kc_form (limit_max optional) (Some (JObj [("limit.max", JArr [JStr lit])])).
Definition body_call (lit : string) : pass :=
  mkPass kc_json (limit_max true) (Some (JObj [("limit", JObj [("max", JNum lit)])])).

(* out of range, accepted with 0 in the target *)
Theorem key_table_sound_refuted :
  exists ps i p v, nth_error ps i = Some p /\ nth_error (run_tabled [] ps) i = Some (Ok v) /\
                   meetsK (p_kc p) (p_type p) (p_doc p) = false.
Proof.
  exists [conf_call; form_call true "1000"], 1%nat, (form_call true "1000"), (VStruct [VInt 0]).
  vm_compute. repeat split.
Qed.

(* in range and required, refused as "not set" *)
Theorem key_table_complete_refuted :
  exists ps i p v, nth_error ps i = Some p /\
                   decodeK (p_kc p) (p_type p) (p_doc p) = Some v /\ meetsK (p_kc p) (p_type p) (p_doc p) = true /\
                   nth_error (run_tabled [] ps) i = Some (Err ENotSet).
Proof.
  exists [conf_call; form_call false "7"], 1%nat, (form_call false "7"), (VStruct [VInt 7]).
  vm_compute. repeat split.
Qed.

(* the other order: after a form request, the nested member of a JSON body is not found *)
Theorem key_table_sound_refuted_body :
  exists ps i p v, nth_error ps i = Some p /\ nth_error (run_tabled [] ps) i = Some (Ok v) /\
                   meetsK (p_kc p) (p_type p) (p_doc p) = false.
Proof.
  exists [form_call true "7"; body_call "1000"], 1%nat, (body_call "1000"), (VStruct [VInt 0]).
  vm_compute. repeat split.
Qed.

(* what a call returns depends on the calls before it *)
Theorem key_table_calls_dependent :
  exists pre p, nth_error (run_tabled [] (pre ++ [p])%list) (List.length pre) <> nth_error (run_tabled [] [p]) 0.
Proof.
  exists [conf_call], (form_call true "1000"). vm_compute. discriminate.
Qed.

(* the current code: each call on its own document, whatever came before *)
Example key_table_now :
  run_calls [mkCall [conf_call] None; mkCall [form_call true "1000"] None; mkCall [form_call false "7"] None;
             mkCall [body_call "1000"] None; mkCall [body_call "10"] None] =
  [CAccepted [VStruct [VInt 5]]; CRejected false; CAccepted [VStruct [VInt 7]]; CRejected false;
   CAccepted [VStruct [VInt 10]]].
Proof. vm_compute. reflexivity. Qed.

(* ------------------------------------------------------------------ rounding the two sides differently

   Rounding.v: comparing roundings agrees with comparing the numbers when value and bounds go
   through the SAME monotone rounding.  Two variants that do not:

   3. Seeded change C08-5: the supplied text is compared at a 64 bit mantissa (exact for short
      decimals), the bounds stay the float64 roundings of the tag text.
   4. F33 (unchanged code, repaired): a float32 field read from a string had its value rounded to
      float32 and widened, the bounds rounded to float64.

   [near_grid k] = to the nearest multiple of 2^-k: float64 around 0.3 is k = 54, around 0.1 is
   k = 55; float32 around 0.1 is k = 27, around 0.3 is k = 25. *)

Definition d01 : dec := mkDec 1 (-1).
Definition d03 : dec := mkDec 3 (-1).
Definition r_03_1 : range := mkRange false (Some d03) (Some (mkDec 1 0)) true.      (* (0.3:1] *)
Definition r_01_1 : range := mkRange true (Some d01) (Some (mkDec 1 0)) true.       (* [0.1:1] *)
Definition r_0_01 : range := mkRange true (Some (mkDec 0 0)) (Some d01) true.       (* [0:0.1] *)

(* C08-5: bounds rounded, value as written *)
Definition bounds_rounded_check (k : Z) (r : range) (d : dec) : bool := in_range (round_range (near_grid k) r) d.

Theorem bounds_rounded_sound_refuted :
  exists r d, in_range r d = false /\ bounds_rounded_check 54 r d = true.
Proof. exists r_03_1, d03. vm_compute. split; reflexivity. Qed.

Theorem bounds_rounded_complete_refuted :
  exists r d, in_range r d = true /\ bounds_rounded_check 55 r d = false.
Proof. exists r_01_1, d01. vm_compute. split; reflexivity. Qed.

(* F33: value at the float32 grid, bounds at the float64 grid *)
Definition f32_string_check (kv kb : Z) (r : range) (d : dec) : bool :=
  in_range (round_range (near_grid kb) r) (near_grid kv d).

Theorem f32_string_complete_refuted :
  exists r d, in_range r d = true /\ f32_string_check 27 55 r d = false.
Proof. exists r_0_01, d01. vm_compute. split; reflexivity. Qed.

Theorem f32_string_sound_refuted :
  exists r d, in_range r d = false /\ f32_string_check 25 54 r d = true.
Proof. exists r_03_1, d03. vm_compute. split; reflexivity. Qed.

(* the current code: one rounding for both sides *)
Example one_rounding_now :
  f32_string_check 54 54 r_03_1 d03 = in_range r_03_1 d03 /\ f32_string_check 55 55 r_01_1 d01 = in_range r_01_1 d01 /\
  f32_string_check 55 55 r_0_01 d01 = in_range r_0_01 d01.
Proof. vm_compute. repeat split. Qed.

(* Not switchable:
   - C08-3: rest/httpx.GetFormValues took its map from a sync.Pool and handed it back without
     clearing; a request could see parameters of an earlier one (a stale out-of-range value
     accepted, a stale value in the target of a request that did not send it).
   - F27 (repaired by ace4a06): structValueRequired memoised "is an absent struct value required?"
     per reflect.Type, ignoring the tag key; after a form unmarshal of
       Outer{In Inner `json:"in" form:"in"`}, Inner{A int `json:"a,optional" form:"a"`}
     the JSON document {} was refused with `"in" is not set`. *)


(* ------------------------------------------------------------------ dropping the empty form values in place

   5. Seeded change C08-10: GetFormValues filtered the values of a parameter into `values[:0]`,
      i.e. over the front of the slice that r.Form holds ([touch_inplace], [compact] of ReqModel.v).
      The map it returns is the right one, so the FIRST look at a request is served as before
      (ReqProofs.inplace_first_look); the request is left holding values the client never sent, and
      the second look — a validator or middleware and then the handler, two structs parsed out of
      one request — is served from those. *)

Definition ids_view : views :=
  mkViews FNil (FCons "ids" None (TSlice (TPrim (KInt W0))) FNil) FNil FNil.
Definition ids_request (vs : list string) : hrequest := mkHReq [] [("ids", vs)] [] (Some (JObj [])).
Definition look_form : look := mkLook EParseForm ids_view.
Definition look_parse : look := mkLook (EParse None) ids_view.
Definition ints (l : list Z) : gval := VStruct [VSlice (map VInt l)].

Example compact_overwrites_the_front :
  compact [""; "2"; "3"] = ["2"; "3"; "3"] /\ compact [""; ""; "7"] = ["7"; ""; "7"].
Proof. split; reflexivity. Qed.

(* ?ids=&ids=2&ids=3 : the validator's ParseForm fills [2,3]; the handler's Parse, given the same
   request, is accepted with [2,3,3] — not the typed decoding of what the client sent, and not what
   the same Parse returns on that request when nobody has looked at it before *)
Theorem drop_in_place_second_look_refuted :
  exists r l1 l2 v w,
    decodeK kc_form (v_form (l_views l2)) (form_values 2048 (hr_form r)) = Some v /\
    serve_call (call_on 2048 r l2) = CAccepted [VStruct []; v; VStruct []; VStruct []] /\
    nth_error (snd (serve_shared 2048 touch_inplace r [l1; l2])) 1 =
      Some (CAccepted [VStruct []; w; VStruct []; VStruct []]) /\
    w <> v.
Proof.
  exists (ids_request [""; "2"; "3"]), look_form, look_parse, (ints [2; 3]), (ints [2; 3; 3]).
  vm_compute. repeat split. discriminate.
Qed.

(* the same look twice: two different answers *)
Theorem drop_in_place_looks_dependent :
  exists r l, nth_error (snd (serve_shared 2048 touch_inplace r [l; l])) 0 <>
              nth_error (snd (serve_shared 2048 touch_inplace r [l; l])) 1.
Proof. exists (ids_request [""; ""; "7"]), look_parse. vm_compute. discriminate. Qed.

(* the caller's request no longer holds what the client sent *)
Theorem drop_in_place_request_changed :
  exists r l, fst (serve_shared 2048 touch_inplace r [l]) <> r.
Proof. exists (ids_request [""; "2"; "3"]), look_form. vm_compute. discriminate. Qed.

(* the current code on the same looks *)
Example drop_in_place_now :
  serve_shared 2048 touch_head (ids_request [""; "2"; "3"]) [look_form; look_parse; look_form] =
  (ids_request [""; "2"; "3"],
   [CAccepted [ints [2; 3]]; CAccepted [VStruct []; ints [2; 3]; VStruct []; VStruct []]; CAccepted [ints [2; 3]]]).
Proof. vm_compute. reflexivity. Qed.

(* ------------------------------------------------------------------ asking the type which sources it uses, IsExported first

   6. Seeded change C08-11: httpx.Parse skipped ParsePath / ParseForm / ParseHeaders for the tag
      keys that a scan of the request type did not find; the scan began with
      `if !field.IsExported() { continue }`, the unmarshaller looks at Anonymous first
      (SrcModel.v: [scan_exported_first] against [reads]).  reqFormU of harness/cmd/c08/types.go:
        type pagingF struct{ Page int `form:"page"`; Size int `form:"size,range=[1:100]"`; Sort string `form:"sort,default=asc,options=asc|desc"` }
        type reqFormU struct{ pagingF; Filter string `json:"filter,optional"` } *)

Definition req_form_u : list decl :=
  [DEmbed false [DField true ["form"]; DField true ["form"]; DField true ["form"]]; DField true ["json"]].

Theorem exported_first_scan_refuted :
  exists t k, type_reads k t = true /\ type_scanned k t = false.
Proof. exists req_form_u, "form". vm_compute. split; reflexivity. Qed.

Definition paging_fields : fields :=
  FCons "page" None (TPrim (KInt W0))
 (FCons "size" (Some (mkOpts false None None (Some r100) [] false)) (TPrim (KInt W0))
 (FCons "sort" (Some (mkOpts false None (Some "asc") None ["asc"; "desc"] false)) (TPrim KStr) FNil)).
Definition filter_field : fields := FCons "filter" (Some (mkOpts true None None None [] false)) (TPrim KStr) FNil.
Definition req_form_u_views : views :=
  mkViews (FEmbed false false FNil FNil) (FEmbed false false paging_fields FNil) (FEmbed false false FNil FNil)
          (FEmbed false false FNil filter_field).
Definition list_request (params : rform) : hrequest := mkHReq [] params [] (Some (JObj [])).
(* what the IsExported-first scan answers for reqFormU: no path, no form, no header *)
Definition scanned_form_u : consulted :=
  mkConsulted (type_scanned "path" req_form_u) (type_scanned "form" req_form_u) (type_scanned "header" req_form_u).

(* ?page=2&size=500 : outside range=[1:100], accepted, nothing stored *)
Theorem skipped_source_sound_refuted :
  exists r vs,
    serve_skipping 2048 scanned_form_u r req_form_u_views None = CAccepted vs /\
    pass_fine (pass_form 2048 req_form_u_views r) = false /\
    serve_call (call_on 2048 r (mkLook (EParse None) req_form_u_views)) = CRejected false.
Proof. exists (list_request [("page", ["2"]); ("size", ["500"])]). eexists. vm_compute. repeat split. Qed.

(* ?size=50 : the required page is missing, accepted *)
Theorem skipped_source_required_refuted :
  exists r vs,
    serve_skipping 2048 scanned_form_u r req_form_u_views None = CAccepted vs /\
    serve_call (call_on 2048 r (mkLook (EParse None) req_form_u_views)) = CRejected false.
Proof. exists (list_request [("size", ["50"])]). eexists. vm_compute. split; reflexivity. Qed.

(* ?page=2&size=50 : valid, accepted, but the supplied values and the default are not in the target *)
Theorem skipped_source_exact_refuted :
  exists r vs ws,
    serve_skipping 2048 scanned_form_u r req_form_u_views None = CAccepted vs /\
    serve_call (call_on 2048 r (mkLook (EParse None) req_form_u_views)) = CAccepted ws /\ vs <> ws.
Proof. exists (list_request [("page", ["2"]); ("size", ["50"])]). eexists. eexists. vm_compute. repeat split. discriminate. Qed.

(* the current code consults every source *)
Example all_sources_now :
  serve_skipping 2048 all_sources (list_request [("page", ["2"]); ("size", ["500"])]) req_form_u_views None = CRejected false /\
  serve_skipping 2048 all_sources (list_request [("page", ["2"]); ("size", ["50"])]) req_form_u_views None =
    CAccepted [VStruct [VStruct []]; VStruct [VStruct [VInt 2; VInt 50; VStr "asc"]]; VStruct [VStruct []]; VStruct [VStruct []; VStr ""]].
Proof. vm_compute. split; reflexivity. Qed.
