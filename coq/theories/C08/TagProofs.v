(* C08 — proofs about the tag grammar of TagModel.v: whatever the text, a tag that is accepted
   carries a well-formed option set (its range, if any, satisfies parseNumberRange's conditions), so
   the unmarshaller never meets the ill-formed-tag case on it; and a claim accepted by [claim_ok]
   pins the options exactly. *)
From Coq Require Import List ZArith Bool String Ascii.
From GZ Require Import C08.Model C08.KModel C08.TagModel.
Import ListNotations.
Open Scope Z_scope.

Definition acc_ok (a : acc) : bool := match a_range a with Some r => range_valid r | None => true end.

Lemma range_of_valid : forall s r, range_of s = ROk r -> range_valid r = true.
Proof.
  intros s r. unfold range_of.
  destruct (list_ascii_of_string s) as [|c0 rest]; [discriminate|].
  destruct (negb (ch c0 91 || ch c0 40)); [discriminate|].
  destruct (last_and_init rest) as [[cl mid]|]; [|discriminate].
  destruct (negb (ch cl 93 || ch cl 41)); [discriminate|].
  destruct (split_go 58 mid []) as [|f0 [|f1 [|x y]]]; try discriminate.
  destruct (bound_of f0), (bound_of f1); try discriminate;
    match goal with |- (if ?c then _ else _) = _ -> _ => destruct c eqn:E; [|discriminate] end;
    intro H; inversion H; subst; exact E.
Qed.

Lemma option_step_ok : forall a o a', acc_ok a = true -> option_step a o = SOk a' -> acc_ok a' = true.
Proof.
  intros a o a' Ha. unfold option_step.
  repeat match goal with
         | |- (if ?c then _ else _) = _ -> _ => destruct c
         | |- match ?x with _ => _ end = _ -> _ => destruct x eqn:?
         end; intro H; inversion H; subst; unfold acc_ok in *; simpl in *; try exact Ha; try discriminate.
  eapply range_of_valid. eassumption.
Qed.

Lemma options_go_ok : forall l a a', acc_ok a = true -> options_go a l = SOk a' -> acc_ok a' = true.
Proof.
  induction l as [|o r IH]; intros a a' Ha H; simpl in H.
  - inversion H. subst. exact Ha.
  - destruct (option_step a (trim o)) as [a1| |] eqn:E; try discriminate.
    apply (IH a1 a'); [apply (option_step_ok a (trim o) a1 Ha E) | exact H].
Qed.

Theorem parse_tag_wellformed_lemma : forall raw k o, parse_tag raw = TagOk k o -> opts_ok o = true.
Proof.
  intros raw k o. unfold parse_tag.
  destruct (segs_go _ false false [] []) as [|k0 opts]; [discriminate|].
  destruct opts as [|o1 r].
  - intro H. inversion H. reflexivity.
  - destruct (options_go (mkAcc false None None None [] false) (o1 :: r)) as [a| |] eqn:E; try discriminate.
    intro H. injection H as _ Ho. subst o. simpl.
    assert (Hok : acc_ok a = true) by (apply (options_go_ok (o1 :: r) (mkAcc false None None None [] false) a); [reflexivity | exact E]).
    unfold acc_ok in Hok. exact Hok.
Qed.

(* a refused tag can only be claimed as an option set the unmarshaller refuses, too *)
Theorem claim_of_refused_tag_lemma : forall raw key o, parse_tag raw = TagErr -> claim_ok raw key o = true -> opts_ok o = false.
Proof. intros raw key o H. unfold claim_ok. rewrite H. apply negb_true_iff. Qed.
