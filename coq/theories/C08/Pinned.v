(* C08 — the unmarshaller as it was at the pinned commit: the defects repaired by `fix:`
   commits in /repo (51d123e, 5c830ae, adad03d, ff8cf38, 6703ec8, 8273038), each switched back on through
   [variant] and refuted by a concrete (type, document) evaluated with vm_compute.  The same
   inputs are the first corpus entries of tools/props/c08.py. *)
From Coq Require Import List ZArith Bool String Ascii.
From GZ Require Import C08.Model C08.Spec.
Import ListNotations.
Open Scope Z_scope.
Open Scope string_scope.

Definition plain : ucfg := mkCfg false false false.
Definition form : ucfg := mkCfg true true false.
Definition header : ucfg := mkCfg true false true.
Definition r15 : range := mkRange true (Some (mkDec 1 0)) (Some (mkDec 5 0)) true.   (* [1:5] *)

(* F2: toOptionsWithContext rebuilt the option set without Range when optional=dep /
   optional=!dep resolved to "required" *)
Definition pinned_dep : variant := mkVariant true false false false false false.
Definition f2_type (neg : bool) : fields :=
  FCons "a" (Some (mkOpts true (Some (neg, "b")) None (Some r15) [] false)) (TPrim (KInt W0))
 (FCons "b" (Some (mkOpts true None None None [] false)) (TPrim (KInt W0)) FNil).

Theorem accept_sound_refuted_dep_range :
  exists cfg fs d v, unmarshal pinned_dep cfg fs d = Ok v /\ meets cfg fs d = false.
Proof.
  exists plain, (f2_type false), (Some (JObj [("a", JNum "100"); ("b", JNum "1")])),
         (VStruct [VInt 100; VInt 1]).
  vm_compute. split; reflexivity.
Qed.

Example f2_negated_dependency :
  unmarshal pinned_dep plain (f2_type true) (Some (JObj [("a", JNum "100")])) = Ok (VStruct [VInt 100; VInt 0])
  /\ unmarshal fixed plain (f2_type true) (Some (JObj [("a", JNum "100")])) = Err ERange
  /\ unmarshal fixed plain (f2_type false) (Some (JObj [("a", JNum "100"); ("b", JNum "1")])) = Err ERange.
Proof. vm_compute. repeat split. Qed.

(* validateNumberRange let NaN through (every comparison with NaN is false) *)
Definition pinned_nan : variant := mkVariant false true false false false false.
Definition nan_type : fields :=
  FCons "a" (Some (mkOpts false None None (Some r15) [] false)) (TPrim KF64) FNil.

Theorem accept_sound_refuted_nan :
  exists cfg fs d v, unmarshal pinned_nan cfg fs d = Ok v /\ meets cfg fs d = false.
Proof.
  exists form, nan_type, (Some (JObj [("a", JArr [JStr "NaN"])])), (VStruct [VFloat FNaN]).
  vm_compute. split; reflexivity.
Qed.

Example nan_now_rejected :
  unmarshal fixed form nan_type (Some (JObj [("a", JArr [JStr "NaN"])])) = Err ERange.
Proof. vm_compute. reflexivity. Qed.

(* fillSlice called reflect.Value.Type on the zero Value for a null element of map[string][]T *)
Definition pinned_nil_slice : variant := mkVariant false false true false false false.
Theorem total_refuted_nil_slice :
  exists cfg fs d, unmarshal pinned_nil_slice cfg fs d = Panic.
Proof.
  exists plain, (FCons "m" None (TMap (TSlice (TPrim (KInt W0)))) FNil),
         (Some (JObj [("m", JObj [("x", JNull)])])).
  vm_compute. reflexivity.
Qed.

(* generateMap stored a scalar into map[string]*T with SetMapIndex *)
Definition pinned_map_ptr : variant := mkVariant false false false true false false.
Theorem total_refuted_map_ptr :
  exists cfg fs d, unmarshal pinned_map_ptr cfg fs d = Panic.
Proof.
  exists plain, (FCons "m" None (TMap (TPtr (TPrim (KInt W0)))) FNil),
         (Some (JObj [("m", JObj [("x", JNum "5")])])).
  vm_compute. reflexivity.
Qed.

Example map_ptr_now_decoded :
  unmarshal fixed plain (FCons "m" None (TMap (TPtr (TPrim (KInt W0)))) FNil)
            (Some (JObj [("m", JObj [("x", JNum "5")])])) = Ok (VStruct [VMap [("x", VPtr (VInt 5))]]).
Proof. vm_compute. reflexivity. Qed.

(* header parameters: the key behind "optional=!" was not canonicalised, so the dependency
   always looked absent: valid input refused, and both-supplied accepted *)
Definition pinned_negdep : variant := mkVariant false false false false true false.
Definition negdep_type : fields :=
  FCons "b" (Some (mkOpts true (Some (true, "c")) None None [] false)) (TPrim (KUint W32))
 (FCons "c" None (TPrim (KUint W32)) FNil).

Theorem accept_complete_refuted_header_negdep :
  exists cfg fs d v, decode cfg fs d = Some v /\ meets cfg fs d = true /\
                     unmarshal pinned_negdep cfg fs d <> Ok v.
Proof.
  exists header, negdep_type, (Some (JObj [("c", JStr "2")])), (VStruct [VInt 0; VInt 2]).
  vm_compute. repeat split. discriminate.
Qed.

Theorem accept_sound_refuted_header_negdep :
  exists cfg fs d v, unmarshal pinned_negdep cfg fs d = Ok v /\ meets cfg fs d = false.
Proof.
  exists header, negdep_type, (Some (JObj [("b", JStr "5"); ("c", JStr "2")])), (VStruct [VInt 5; VInt 2]).
  vm_compute. split; reflexivity.
Qed.

(* an embedded struct tagged ",optional": members with a default were counted as required, and
   absent members never received their default *)
Definition pinned_embed : variant := mkVariant false false false false false true.
Definition embed_type (ptr : bool) : fields :=
  FEmbed true ptr
    (FCons "a" None (TPrim (KInt W0))
    (FCons "b" (Some (mkOpts false None (Some "5") None [] false)) (TPrim (KInt W0))
    (FCons "c" (Some (mkOpts true None (Some "7") None [] false)) (TPrim (KInt W0)) FNil)))
  FNil.

(* {"a":1}: b is defaulted, nothing is missing — refused as "not fully set" *)
Theorem accept_complete_refuted_embedded_default :
  exists cfg fs d v, decode cfg fs d = Some v /\ meets cfg fs d = true /\
                     unmarshal pinned_embed cfg fs d <> Ok v.
Proof.
  exists plain, (embed_type false), (Some (JObj [("a", JNum "1")])),
         (VStruct [VStruct [VInt 1; VInt 5; VInt 7]]).
  vm_compute. repeat split. discriminate.
Qed.

(* {"a":1,"b":2}: accepted, but c holds 0 instead of its default 7 *)
Theorem accept_exact_refuted_embedded_default :
  exists cfg fs d v, unmarshal pinned_embed cfg fs d = Ok v /\ decode cfg fs d <> Some v.
Proof.
  exists plain, (embed_type true), (Some (JObj [("a", JNum "1"); ("b", JNum "2")])),
         (VStruct [VPtr (VStruct [VInt 1; VInt 2; VInt 0])]).
  vm_compute. split; [reflexivity | discriminate].
Qed.

Example embedded_now :
  unmarshal fixed plain (embed_type true) (Some (JObj [("a", JNum "1")])) = Ok (VStruct [VPtr (VStruct [VInt 1; VInt 5; VInt 7])])
  /\ unmarshal fixed plain (embed_type true) (Some (JObj [])) = Ok (VStruct [VNil])
  /\ unmarshal fixed plain (embed_type true) (Some (JObj [("b", JNum "2")])) = Err ENotSet.
Proof. vm_compute. repeat split. Qed.

(* Not switchable here: before the seventh repair, under header parameters a member WITHOUT
   options of an embedded struct tagged ",optional" was looked up un-canonicalised and silently
   skipped (struct{Inner `header:",optional"`}, Inner{P uint8 `header:"p"`}, P: 2 -> P = 0). *)
