(* C08 — the property's vocabulary over the key look-up semantics of KModel.v, written without
   looking at the unmarshaller's control flow.  What a field is SUPPLIED with is [getv]: the
   parameter of that name (opaque keys) or the member at the end of the dotted path (chained
   keys); everything else is Spec.v's vocabulary.

     [decodeK kc fs doc]  typed decoding: supplied values converted at the field's kind, declared
                          defaults for absent keys, zero values otherwise; [None] when a supplied
                          value is not of its field's type.  No constraint is looked at.
     [meetsK kc fs doc]   every declared constraint holds of the document.

   KProofs.v proves   unmarshalK = Ok v  <->  decodeK = Some v /\ meetsK = true
   for every segmenter.  Check.v evaluates both directly on what the implementation returned. *)
From Coq Require Import List ZArith Bool String Ascii.
From GZ Require Import C08.Model C08.Spec C08.KModel.
Import ListNotations.
Open Scope Z_scope.

(* a string given to a slice field: the JSON array it spells, elements at the element's own kind *)
Fixpoint decode_str_elem_ptr (e : ftype) (b : bool) : option gval :=
  match e with
  | TPrim KBool => Some (VBool b)
  | TPtr e' => option_map VPtr (decode_str_elem_ptr e' b)
  | _ => None
  end.

Definition decode_str_elem (e : ftype) (v : jv) : option gval :=
  match e with
  | TPrim k => decode_elem_prim false k v
  | TPtr e' => match v with JBool b => option_map VPtr (decode_str_elem_ptr e' b) | _ => None end
  | _ => None
  end.

Definition decode_str_slice (e : ftype) (s : string) : option gval :=
  match json_value s with
  | Some (JArr l) => option_map VSlice (omapM (decode_str_elem e) l)
  | Some JNull => Some (VSlice [])
  | _ => None
  end.

Section Spec.
Variable kc : kcfg.

Fixpoint decodeK_present (env : list obj) (fs : bool) (t : ftype) (v : jv) {struct t} : option gval :=
  match t with
  | TPrim k => decode_prim fs k v
  | TPtr t' => option_map VPtr (decodeK_present env fs t' v)
  | TStruct fl => match v with JObj o => option_map VStruct (decodeK_fields env fl o) | _ => None end
  | TSlice e =>
    match v with
    | JArr l => decode_slice (decodeK_elem false e) (zero e) l
    | JStr s => decode_str_slice e s
    | _ => None
    end
  | TMap e => match v with JObj o => decode_map (decodeK_elem true e) o | _ => None end
  end

with decodeK_elem (inmap : bool) (t : ftype) (v : jv) {struct t} : option gval :=
  match t with
  | TPrim k => decode_elem_prim inmap k v
  | TPtr t' => option_map VPtr (decodeK_elem inmap t' v)
  | TStruct fl => match v with JObj o => option_map VStruct (decodeK_fields [] fl o) | _ => None end
  | TSlice e => match v with JArr l => decode_slice (decodeK_elem false e) (zero e) l | _ => None end
  | TMap e => match v with JObj o => decode_map (decodeK_elem true e) o | _ => None end
  end

with decodeK_absent (t : ftype) {struct t} : option gval :=
  match t with
  | TPrim _ => Some (zero t)
  | TPtr t' => option_map VPtr (decodeK_absent t')
  | TSlice _ => Some VNil
  | TMap _ => Some (VMap [])
  | TStruct fl => option_map VStruct (decodeK_fields [] fl [])
  end

(* the declared default of an absent field: for a slice, the elements its text stands for *)
with decodeK_default (t : ftype) (d : string) {struct t} : option gval :=
  match t with
  | TPrim k => conv_string k d
  | TPtr t' => option_map VPtr (decodeK_default t' d)
  | TSlice e =>
    match slice_default_doc e d with
    | Some (JArr l) => decode_slice (decodeK_elem false e) (zero e) l
    | Some JNull => if elem_is_string e then Some VNil else None
    | _ => None
    end
  | _ => None
  end

with decodeK_fields (env : list obj) (fl : fields) (o : obj) {struct fl} : option (list gval) :=
  match fl with
  | FNil => Some []
  | FCons key op t rest =>
    obind (if ignored key then Some (zero t) else
           match field_inputK kc env t key o with
           | None =>
             match opt_default op with
             | Some d => decodeK_default t d
             | None => if declared_optional op o then Some (zero t) else decodeK_absent t
             end
           | Some JNull => Some (zero t)
           | Some v => decodeK_present (o :: env) (reads_strings (k_cfg kc) op) t v
           end)
          (fun x => obind (decodeK_fields env rest o) (fun xs => Some (x :: xs)))
  | FEmbed opt ptr inner rest =>
    obind (if opt then
             let filled := any_presentK kc env inner o in
             obind (decodeK_opt_members env inner o filled)
                   (fun xs => Some (if ptr then (if filled then VPtr (VStruct xs) else VNil) else VStruct xs))
           else
             obind (decodeK_fields env inner o)
                   (fun xs => Some (if ptr then VPtr (VStruct xs) else VStruct xs)))
          (fun x => obind (decodeK_fields env rest o) (fun xs => Some (x :: xs)))
  end

with decodeK_opt_members (env : list obj) (fl : fields) (o : obj) (filled : bool)
                         {struct fl} : option (list gval) :=
  match fl with
  | FNil => Some []
  | FCons key op t rest =>
    obind (match field_inputK kc env t key o with
           | None =>
             match opt_default op with
             | Some d => if filled then decode_default t d else Some (zero t)
             | None => Some (zero t)
             end
           | Some JNull => Some (zero t)
           | Some v => decodeK_present (o :: env) (reads_strings (k_cfg kc) op) t v
           end)
          (fun x => obind (decodeK_opt_members env rest o filled) (fun xs => Some (x :: xs)))
  | FEmbed _ ptr inner rest =>
    obind (decodeK_opt_members env rest o filled)
          (fun xs => Some ((if ptr then VNil else VStruct (zero_fields inner)) :: xs))
  end.

Definition decodeK (fl : fields) (d : option jv) : option gval :=
  match d with
  | Some (JObj o) => option_map VStruct (decodeK_fields [] fl o)
  | _ => None
  end.

(* ---- constraints ---- *)

Fixpoint fully_setK (env : list obj) (fl : fields) (o : obj) : bool :=
  match fl with
  | FNil => true
  | FCons key op _ rest =>
    (hasv kc env key o || declared_optional op o || match opt_default op with Some _ => true | None => false end)
    && fully_setK env rest o
  | FEmbed opt _ _ rest => opt && fully_setK env rest o
  end.

Fixpoint meetsK_present (env : list obj) (t : ftype) (op : option fopts) (v : jv) {struct t} : bool :=
  match t with
  | TPrim k => range_ok (reads_strings (k_cfg kc) op) k (opt_range op) v && options_ok (opt_options op) v
  | TPtr t' => meetsK_present env t' op v
  | TStruct fl => match v with JObj ob => meetsK_fields env fl ob | _ => true end
  | TSlice e => match v with JArr l => all_elems (meetsK_elem e) l | _ => true end
  | TMap e => match v with JObj ob => all_values (meetsK_elem e) ob | _ => true end
  end

with meetsK_elem (t : ftype) (v : jv) {struct t} : bool :=
  match t with
  | TPrim _ => true
  | TPtr t' => meetsK_elem t' v
  | TStruct fl => match v with JObj ob => meetsK_fields [] fl ob | _ => true end
  | TSlice e => match v with JArr l => all_elems (meetsK_elem e) l | _ => true end
  | TMap e => match v with JObj ob => all_values (meetsK_elem e) ob | _ => true end
  end

with meetsK_absent (t : ftype) {struct t} : bool :=
  match t with
  | TPrim _ => false
  | TPtr t' => meetsK_absent t'
  | TSlice _ => false
  | TMap _ => true
  | TStruct fl => negb (required_fields fl) && meetsK_fields [] fl []
  end

(* a default is not validated against range / options; struct elements inside a default array
   (none in the modelled fragment) would have to meet their own constraints *)
with meetsK_default (t : ftype) (d : string) {struct t} : bool :=
  match t with
  | TPtr t' => meetsK_default t' d
  | TSlice e =>
    match slice_default_doc e d with
    | Some (JArr l) => all_elems (meetsK_elem e) l
    | _ => true
    end
  | _ => true
  end

with meetsK_fields (env : list obj) (fl : fields) (o : obj) {struct fl} : bool :=
  match fl with
  | FNil => true
  | FCons key op t rest =>
    opts_ok op && dep_respected key op o &&
    (if ignored key then true else
     match field_inputK kc env t key o with
     | None =>
       match opt_default op with
       | Some d => meetsK_default t d
       | None => declared_optional op o || meetsK_absent t
       end
     | Some JNull => declared_optional op o
     | Some v => meetsK_present (o :: env) t op v
     end) &&
    meetsK_fields env rest o
  | FEmbed opt ptr inner rest =>
    (if opt then
       meetsK_opt_members env inner o && (negb (any_presentK kc env inner o) || fully_setK env inner o)
     else meetsK_fields env inner o) &&
    meetsK_fields env rest o
  end

with meetsK_opt_members (env : list obj) (fl : fields) (o : obj) {struct fl} : bool :=
  match fl with
  | FNil => true
  | FCons key op t rest =>
    opts_ok op && dep_respected key op o &&
    match field_inputK kc env t key o with
    | None => true
    | Some JNull => declared_optional op o
    | Some v => meetsK_present (o :: env) t op v
    end &&
    meetsK_opt_members env rest o
  | FEmbed _ _ _ rest => meetsK_opt_members env rest o
  end.

Definition meetsK (fl : fields) (d : option jv) : bool :=
  match d with
  | Some (JObj o) => meetsK_fields [] fl o
  | _ => false
  end.

End Spec.

(* ---- a call (KModel.call): every pass on its own document ---- *)

Definition pass_fine (p : pass) : bool :=
  match decodeK (p_kc p) (p_type p) (p_doc p) with
  | Some _ => meetsK (p_kc p) (p_type p) (p_doc p)
  | None => false
  end.
