(* C08 — the judgement of Check.v is consistent with the model: an implementation whose observed
   verdict, values and validator call are the model's ([agrees1]) is never reported ([prop_ok1]).
   So a VIOLATION always is a difference between the implementation and the model's calls — the
   property oracle ([decodeK] / [meetsK] evaluated on the observation) adds no alarm of its own. *)
From Coq Require Import List ZArith Bool String Ascii Lia.
From GZ Require Import C08.Model C08.Spec C08.Proofs C08.KModel C08.KSpec C08.KProofs C08.KProofsB C08.ReqProofs C08.Check.
From GZgen Require Import C08Consts.
Import ListNotations.
Open Scope Z_scope.

Lemma pass_ok_fine : forall p v, pass_ok p v -> pass_fine p = true.
Proof. intros p v [H1 H2]. unfold pass_fine. rewrite H1. exact H2. Qed.

Lemma pass_fine_ok : forall p, pass_fine p = true -> exists v, pass_ok p v.
Proof.
  intros p H. unfold pass_fine in H. destruct (decodeK (p_kc p) (p_type p) (p_doc p)) as [v|] eqn:E; [|discriminate].
  exists v. split; assumption.
Qed.

Lemma vals_agree_sound : forall ps vs,
  Forall2 pass_ok (map op_pass ps) vs -> vals_agree vs ps = true -> forallb pass_sound ps = true.
Proof.
  induction ps as [|p ps IH]; intros vs HF Hv.
  - reflexivity.
  - simpl in HF. inversion HF as [|q v qs vs' Hp Hps]. subst. simpl in Hv.
    destruct (op_val p) as [w|] eqn:Ew; [|discriminate].
    apply andb_true_iff in Hv. destruct Hv as [Hg Hr].
    simpl. rewrite (IH vs' Hps Hr), andb_true_r.
    unfold pass_sound. destruct Hp as [Hd Hm]. rewrite Hd, Ew, Hg, Hm. reflexivity.
Qed.

Lemma all_fine_iff : forall ps, forallb pass_valid ps = true <-> exists vs, Forall2 pass_ok (map op_pass ps) vs.
Proof.
  induction ps as [|p ps IH]; simpl.
  - split; [intros _; exists []; constructor | reflexivity].
  - rewrite andb_true_iff, IH. split.
    + intros [Hp [vs Hvs]]. apply pass_fine_ok in Hp. destruct Hp as [v Hv]. exists (v :: vs). constructor; assumption.
    + intros [vs H]. inversion H as [|q v qs vs' Hp Hps]. subst. split; [apply (pass_ok_fine _ v Hp) | exists vs'; exact Hps].
Qed.

Theorem agrees_implies_prop_ok_lemma : forall c,
  agrees1 (serve_call (call_of c)) c = true -> prop_ok1 c = true.
Proof.
  intros c Hag. unfold agrees1 in Hag. apply andb_true_iff in Hag. destruct Hag as [Hpre Hag].
  apply andb_true_iff in Hpre. destruct Hpre as [_ Hint]. revert Hag.
  unfold prop_ok1. destruct (in_scope c); [|discriminate]. rewrite Hint. simpl.
  destruct (serve_call (call_of c)) as [vs|byv|] eqn:E; destruct (oc_verdict c); try discriminate.
  - (* accepted *)
    intro H. apply andb_true_iff in H. destruct H as [Hv Hc].
    apply call_accepted_iff in E. destruct E as [HF Hval]. simpl in HF, Hval.
    rewrite (vals_agree_sound _ _ HF Hv). simpl.
    apply Bool.eqb_prop in Hc. rewrite Hc.
    destruct (oc_validator c) as [[|]|]; try reflexivity. exfalso. apply Hval. reflexivity.
  - (* rejected *)
    intro H. apply Bool.eqb_prop in H. destruct byv.
    + apply validator_last_word in E. destruct E as [Hval [vs HF]]. simpl in Hval, HF.
      rewrite (proj2 (all_fine_iff (oc_passes c)) (ex_intro _ vs HF)), Hval. exact H.
    + destruct (forallb pass_valid (oc_passes c)) eqn:Ef.
      * exfalso. apply all_fine_iff in Ef. apply call_rejected_iff in E. apply E. exact Ef.
      * rewrite H. reflexivity.
  - (* panic: the model never produces it *)
    exfalso. exact (call_no_panic _ E).
Qed.

Theorem agrees_implies_prop_ok_case : forall cs, agrees cs = true -> prop_ok cs = true.
Proof.
  intro cs. unfold agrees, prop_ok, model_obs, run_calls. rewrite map_map.
  induction cs as [|c cs IH]; simpl; [reflexivity|].
  intro H. apply andb_true_iff in H. destruct H as [H1 H2].
  rewrite (agrees_implies_prop_ok_lemma c H1). simpl. apply IH. exact H2.
Qed.

(* a case that agrees carries, for every form pass, the document GetFormValues (ReqModel.v) makes of
   the parameters that were sent: the pre-processing mirrored by the generator is the model's *)
Lemma agreed_forms1 : forall m c f d,
  agrees1 m c = true -> In (f, d) (oc_forms c) -> form_values gen_max_form_values f = d.
Proof.
  intros m c f d Hag Hin. unfold agrees1 in Hag. apply andb_true_iff in Hag. destruct Hag as [Hag _].
  apply andb_true_iff in Hag. destruct Hag as [Hag _]. apply andb_true_iff in Hag. destruct Hag as [_ Hf]. unfold forms_ok in Hf.
  rewrite forallb_forall in Hf. specialize (Hf (f, d) Hin). simpl in Hf. apply optjv_eqb_eq. exact Hf.
Qed.

Theorem agreed_forms_case : forall cs c f d,
  agrees cs = true -> In c cs -> In (f, d) (oc_forms c) -> form_values gen_max_form_values f = d.
Proof.
  intros cs c f d. unfold agrees, model_obs, run_calls. rewrite map_map.
  induction cs as [|c0 cs IH]; simpl; [contradiction|].
  intros H [Hc | Hc] Hin; apply andb_true_iff in H; destruct H as [H1 H2].
  - subst. exact (agreed_forms1 _ _ _ _ H1 Hin).
  - exact (IH H2 Hc Hin).
Qed.
