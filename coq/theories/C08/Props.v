(* C08 — property theorems only.  Every theorem is closed by [exact] of a lemma proved in
   Proofs.v and followed by [Print Assumptions].

   Vocabulary (Spec.v): [decode cfg fs doc] is the typed decoding of the document at the struct
   type (supplied values converted at the field's kind, declared defaults for absent keys, zero
   values otherwise; None when a supplied value is not of its field's type); [meets cfg fs doc]
   says that every declared constraint holds of the document (well-formed tags, dependency
   options respected, every field that is neither optional in its context nor defaulted is
   supplied, supplied numbers inside their range with open/closed ends, supplied optioned values
   among their options — recursively through nested structs, slices and maps).

   All theorems quantify over every unmarshaller configuration [cfg] (plain / string-valued /
   from-array / canonical keys), every struct type [fs] of the deep embedding (14 primitive kinds,
   pointers, slices, maps, nested structs, every combination of optional / optional=dep /
   optional=!dep / default / range / options / string on every field) and every document [d]
   (including the undecodable stream [None]).  The model speaks for go-zero on the fragment
   [fields_ok fs = true] (Model.v) and for decimal literals of at most 15 significant digits
   below 2^53, where exact and float64 comparison coincide; see notes/C08.md. *)
From Coq Require Import List ZArith Bool String Ascii.
From GZ Require Import C08.Model C08.Spec C08.Proofs C08.ProofsB.
Import ListNotations.
Open Scope Z_scope.
Open Scope string_scope.

(* acceptance is characterised exactly *)
Theorem accepts_iff_welltyped_and_constraints_met : forall cfg fs d v,
  unmarshal fixed cfg fs d = Ok v <-> decode cfg fs d = Some v /\ meets cfg fs d = true.
Proof. exact unmarshal_iff. Qed.
Print Assumptions accepts_iff_welltyped_and_constraints_met.

(* accepted input satisfies every declared constraint *)
Theorem accept_sound : forall cfg fs d v,
  unmarshal fixed cfg fs d = Ok v -> meets cfg fs d = true.
Proof. exact accept_sound_lemma. Qed.
Print Assumptions accept_sound.

(* ... and then the target holds exactly the supplied values, defaults for the absent ones *)
Theorem accept_exact : forall cfg fs d v,
  unmarshal fixed cfg fs d = Ok v -> decode cfg fs d = Some v.
Proof. exact accept_exact_lemma. Qed.
Print Assumptions accept_exact.

(* correctly typed input meeting all declared constraints is accepted *)
Theorem accept_complete : forall cfg fs d v,
  decode cfg fs d = Some v -> meets cfg fs d = true -> unmarshal fixed cfg fs d = Ok v.
Proof. exact accept_complete_lemma. Qed.
Print Assumptions accept_complete.

(* the "panic" observable is never produced *)
Theorem total : forall cfg fs d, unmarshal fixed cfg fs d <> Panic.
Proof. exact unmarshal_no_panic. Qed.
Print Assumptions total.

(* What [meets] says about one scalar field (possibly behind pointers) of the top-level struct,
   spelled out: whatever options the field itself or its siblings carry, *)

(* a field that is neither defaulted nor optional in the context of this document was supplied; *)
Theorem required_scalar_was_supplied : forall cfg fs obj v key o t k,
  unmarshal fixed cfg fs (Some (JObj obj)) = Ok v ->
  field_in key o t fs -> scalar_kind t = Some k ->
  opt_default o = None -> declared_optional o obj = false ->
  exists x, field_input cfg t key obj = Some x /\ x <> JNull.
Proof. exact required_supplied_lemma. Qed.
Print Assumptions required_scalar_was_supplied.

(* a supplied number lies inside the declared range, open / closed ends respected; *)
Theorem supplied_number_in_range : forall cfg fs obj v key o t k x r,
  unmarshal fixed cfg fs (Some (JObj obj)) = Ok v ->
  field_in key o t fs -> scalar_kind t = Some k ->
  field_input cfg t key obj = Some x -> x <> JNull -> opt_range o = Some r ->
  exists d, supplied_num (reads_strings cfg o) k x = Some (FDec d) /\
            match r_l r with None => True | Some l => if r_li r then dec_leb l d = true else dec_ltb l d = true end /\
            match r_r r with None => True | Some h => if r_ri r then dec_leb d h = true else dec_ltb d h = true end.
Proof. exact supplied_in_range_lemma. Qed.
Print Assumptions supplied_number_in_range.

(* a supplied value of a field with declared options is one of them. *)
Theorem supplied_value_among_options : forall cfg fs obj v key o t k x,
  unmarshal fixed cfg fs (Some (JObj obj)) = Ok v ->
  field_in key o t fs -> scalar_kind t = Some k ->
  field_input cfg t key obj = Some x -> x <> JNull -> opt_options o <> [] ->
  exists s, supplied_text x = Some s /\ In s (opt_options o).
Proof. exact supplied_in_options_lemma. Qed.
Print Assumptions supplied_value_among_options.

(* dependency options: "optional=b" both or neither, "optional=!b" exactly one *)
Theorem dependency_respected : forall cfg fs obj v key o t,
  unmarshal fixed cfg fs (Some (JObj obj)) = Ok v ->
  field_in key o t fs -> dep_respected key o obj = true.
Proof. exact dependency_respected_lemma. Qed.
Print Assumptions dependency_respected.

(* Requests served one after the other by the same process are independent: whatever came
   before (accepted, rejected for any reason) and whatever follows, request number |pre| gets
   the result of unmarshalling its own document, *)
Theorem requests_independent : forall pre r post,
  nth_error (run_requests fixed (pre ++ r :: post)) (List.length pre) = Some (serve fixed r).
Proof. exact requests_independent_lemma. Qed.
Print Assumptions requests_independent.

(* so every accepted request of a sequence meets its OWN constraints and holds the decoding of
   its OWN document — nothing of an earlier request appears — and no request panics. *)
Theorem sequence_each_sound_and_exact : forall rs i r v,
  nth_error rs i = Some r ->
  nth_error (run_requests fixed rs) i = Some (Ok v) ->
  decode (rq_cfg r) (rq_type r) (rq_doc r) = Some v /\ meets (rq_cfg r) (rq_type r) (rq_doc r) = true.
Proof. exact sequence_each_lemma. Qed.
Print Assumptions sequence_each_sound_and_exact.

Theorem sequence_total : forall rs i, nth_error (run_requests fixed rs) i <> Some Panic.
Proof. exact sequence_no_panic_lemma. Qed.
Print Assumptions sequence_total.

(* ---------------------------------------------------------------- non-vacuity *)

Definition jcfg : ucfg := mkCfg false false false.
Definition r15 : range := mkRange true (Some (mkDec 1 0)) (Some (mkDec 5 0)) false.   (* [1:5) *)

(* the F2 shape: range together with optional=dep *)
Definition ex_fs : fields :=
  FCons "a" (Some (mkOpts true (Some (false, "b")) None (Some r15) [] false)) (TPrim (KInt W0))
 (FCons "b" (Some (mkOpts true None None None [] false)) (TPrim (KInt W8))
 (FCons "c" (Some (mkOpts false None (Some "x") None ["x"; "y"] false)) (TPtr (TPrim KStr))
 (FCons "m" None (TMap (TSlice (TStruct (FCons "k" None (TPrim KF64) FNil)))) FNil))).

Definition ex_doc (a : string) : option jv :=
  Some (JObj [("a", JNum a); ("b", JNum "1");
              ("m", JObj [("p", JArr [JObj [("k", JNum "2.50")]; JNull])])]).

Example ex_accepts :
  unmarshal fixed jcfg ex_fs (ex_doc "4") =
  Ok (VStruct [VInt 4; VInt 1; VPtr (VStr "x");
               VMap [("p", VSlice [VStruct [VFloat (FDec (mkDec 250 (-2)))]; VStruct [VFloat (FDec (mkDec 0 0))]])]])
  /\ meets jcfg ex_fs (ex_doc "4") = true
  /\ fields_ok ex_fs = true.
Proof. vm_compute. repeat split. Qed.

(* right end open: 5 is outside [1:5) although the dependency made the field required *)
Example ex_rejects_open_end :
  unmarshal fixed jcfg ex_fs (ex_doc "5") = Err ERange /\ meets jcfg ex_fs (ex_doc "5") = false.
Proof. vm_compute. split; reflexivity. Qed.

(* hypotheses of the per-field theorems are satisfiable *)
Example ex_field : field_in "a" (Some (mkOpts true (Some (false, "b")) None (Some r15) [] false)) (TPrim (KInt W0)) ex_fs
  /\ declared_optional (Some (mkOpts true (Some (false, "b")) None (Some r15) [] false))
       [("a", JNum "4"); ("b", JNum "1")] = false.
Proof. split; [left; repeat split | vm_compute; reflexivity]. Qed.

(* completeness is not vacuous: decode and meets hold of a document that omits the optional pair *)
Example ex_complete :
  exists v, decode jcfg ex_fs (Some (JObj [("m", JObj [])])) = Some v /\
            meets jcfg ex_fs (Some (JObj [("m", JObj [])])) = true.
Proof. eexists. vm_compute. split; reflexivity. Qed.

(* anonymous (embedded) structs: members are read from the enclosing object; one tagged
   ",optional" is built only when some member is supplied, must then be fully set (every member
   supplied, defaulted or optional), and its absent defaulted members hold their defaults *)
Definition ex_embedded : fields :=
  FCons "z" (Some (mkOpts true None None None [] false)) (TPrim (KInt W0))
 (FEmbed true true
    (FCons "a" (Some (mkOpts false None None (Some r15) [] false)) (TPrim (KInt W0))
    (FCons "b" (Some (mkOpts false None (Some "5") None ["5"; "6"] false)) (TPrim (KInt W0))
    (FCons "c" (Some (mkOpts true None (Some "7") None [] false)) (TPrim (KInt W8)) FNil)))
 (FEmbed false false (FCons "q" None (TPrim KStr) FNil) FNil)).

Example ex_embedded_cases :
  unmarshal fixed jcfg ex_embedded (Some (JObj [("q", JStr "s")])) = Ok (VStruct [VInt 0; VNil; VStruct [VStr "s"]])
  /\ unmarshal fixed jcfg ex_embedded (Some (JObj [("q", JStr "s"); ("a", JNum "2")])) =
     Ok (VStruct [VInt 0; VPtr (VStruct [VInt 2; VInt 5; VInt 7]); VStruct [VStr "s"]])
  /\ unmarshal fixed jcfg ex_embedded (Some (JObj [("q", JStr "s"); ("c", JNum "1")])) = Err ENotSet
  /\ unmarshal fixed jcfg ex_embedded (Some (JObj [("q", JStr "s"); ("a", JNum "9")])) = Err ERange
  /\ meets jcfg ex_embedded (Some (JObj [("q", JStr "s"); ("c", JNum "1")])) = false
  /\ fields_ok ex_embedded = true.
Proof. vm_compute. repeat split. Qed.

(* a rejected request carrying b, c and m followed by one that omits them: the second is decided
   on its own document (c takes its default, nothing of the first request appears) *)
Example ex_sequence :
  run_requests fixed [mkReq jcfg ex_fs (ex_doc "100"); mkReq jcfg ex_fs (Some (JObj [("m", JObj [])]))] =
  [Err ERange; Ok (VStruct [VInt 0; VInt 0; VPtr (VStr "x"); VMap []])].
Proof. vm_compute. reflexivity. Qed.
